import Okane.Lemmas.Query
/-!
# C10 — converted reports convert every amount or fail

Statements about `Okane.Query.balance` (model of `Ledger::balance`) on top of the price model, for every price
repository, every heap/hash/sort parameter in `env`, every ledger, target, date and range.
`rateOf cfg repo T D c` is the unit rate `convert_single` uses (1 for `T` itself, the rate tabled by
`compute_price_table` otherwise, `none` if there is none); which chain that rate comes from is C09.
-/
namespace Okane.Query
open Okane.Price
variable {α κ : Type} [DecidableEq α] [DecidableEq κ]

/-! ## single amounts -/

/-- amounts already in the target commodity are left untouched (and their unit rate is 1). -/
theorem C10_untouched (cfg : Cfg κ) (repo : Builder κ) (v : Rat) (T : κ) (D : Date) :
    convertSingle cfg repo ⟨v, T⟩ T D = .ok ⟨v, T⟩ ∧ rateOf cfg repo T D T = some 1 := by
  simp [convertSingle, rateOf]

/-- conversion scales linearly with the amount converted. -/
theorem C10_linear (cfg : Cfg κ) (repo : Builder κ) (v k : Rat) (c T : κ) (D : Date) (w : SingleAmount κ)
    (h : convertSingle cfg repo ⟨v, c⟩ T D = .ok w) :
    convertSingle cfg repo ⟨k * v, c⟩ T D = .ok ⟨k * w.value, w.commodity⟩ := by
  obtain ⟨r, hr, hw⟩ := convertSingle_ok h
  subst hw
  rw [convertSingle_of_rate hr (k * v), Rat.mul_assoc]

/-- whether a conversion fails does not depend on the amount. -/
theorem C10_fail_value_independent (cfg : Cfg κ) (repo : Builder κ) (v v' : Rat) (c T : κ) (D : Date)
    (h : ∀ w, convertSingle cfg repo ⟨v, c⟩ T D ≠ .ok w) : ∀ w, convertSingle cfg repo ⟨v', c⟩ T D ≠ .ok w := by
  intro w hw
  obtain ⟨r, hr, _⟩ := convertSingle_ok hw
  exact h _ (convertSingle_of_rate hr v)

/-! ## multi-commodity amounts -/

/-- `convert_amount` answers only if every entry has a rate; the answer holds nothing but the target commodity,
with value Σ value × rate: nothing dropped, nothing counted twice, nothing left unconverted. -/
theorem C10_amount_value (cfg : Cfg κ) (repo : Builder κ) (leK : κ → κ → Bool) (a res : Amount κ) (T : κ) (D : Date)
    (h : convertAmount cfg repo leK a T D = .ok res) :
    (∀ k, k ≠ T → AMap.get? res k = none) ∧
    Amount.getPart res T = convValue (rateOf cfg repo T D) a ∧
    (∀ cv ∈ a, (rateOf cfg repo T D cv.1).isSome) := by
  obtain ⟨h1, h2, h3⟩ := convertAmount_ok h
  exact ⟨fun k hk => getPart_single_ne T res h1 k hk, h3, h2⟩

/-- … it does answer when every entry has a rate. -/
theorem C10_amount_total (cfg : Cfg κ) (repo : Builder κ) (leK : κ → κ → Bool) (a : Amount κ) (T : κ) (D : Date)
    (h : ∀ cv ∈ a, (rateOf cfg repo T D cv.1).isSome) : ∃ res, convertAmount cfg repo leK a T D = .ok res :=
  convertLoop_total cfg repo T D _ [] (fun cv hcv => h cv ((mem_isortBy _ _ _).1 hcv))

/-- a missing rate makes `convert_amount` fail (never a partial answer). -/
theorem C10_fail_amount (cfg : Cfg κ) (repo : Builder κ) (leK : κ → κ → Bool) (a : Amount κ) (T : κ) (D : Date)
    (cv : κ × Rat) (hcv : cv ∈ a) (hnone : rateOf cfg repo T D cv.1 = none) :
    ∀ res, convertAmount cfg repo leK a T D ≠ .ok res := by
  intro res h
  have := (convertAmount_ok h).2.1 cv hcv
  rw [hnone] at this; cases this

/-- the converted value is linear in the amount. -/
theorem C10_amount_linear (rate : κ → Option Rat) (a : Amount κ) (k : Rat) :
    convValue rate (Amount.mulScalar a k) = convValue rate a * k := by
  induction a with
  | nil => simp [Amount.mulScalar, AMap.mapVals, convValue, Rat.zero_mul]
  | cons cv a ih =>
    obtain ⟨c, v⟩ := cv
    simp only [Amount.mulScalar, AMap.mapVals, List.map_cons, convValue] at ih ⊢
    rw [ih]
    grind

/-! ## the report -/

/-- without a conversion the query is the unconverted report of `Model/Range.lean` (C04's subject). -/
theorem C10_no_conversion_unchanged (prec : κ → Option Nat) (env : Env α κ) (txns : List (OutTxn α κ))
    (raw : Balance α κ) (range : DateRange) :
    balance prec env txns raw ⟨none, range⟩ = .ok (balanceNoConv prec txns raw range) := by
  have hplain : ∀ (l : List (Date × OutPosting α κ)) (bal : Balance α κ),
      recomputeLoop env ⟨none, range⟩ l bal =
        .ok (l.foldl (fun b dp => if range.contains dp.1 then (Balance.addAmount b dp.2.account dp.2.amount).1 else b) bal) := by
    intro l
    induction l with
    | nil => intro bal; rfl
    | cons dp l ih =>
      intro bal
      obtain ⟨d, p⟩ := dp
      simp only [recomputeLoop, List.foldl_cons]
      by_cases hc : range.contains d = true
      · simp [hc, ih]
      · have hc' : range.contains d = false := by simpa using hc
        simp [hc', ih]
  unfold balance baseBalance requireRecompute balanceNoConv rangeBalanceRaw
  by_cases hb : range.isBypass = true
  · simp [hb, isHistorical]
  · have hb' : range.isBypass = false := by simpa using hb
    simp [hb', hplain, isUpToDate]

/-- the balance an up-to-date conversion starts from is the raw balance, or the unrounded, unconverted sum of
the postings in range. -/
theorem baseBalance_upToDate (prec : κ → Option Nat) (env : Env α κ) (txns : List (OutTxn α κ)) (raw : Balance α κ)
    (range : DateRange) (now : Date) (T : κ) :
    baseBalance prec env txns raw ⟨some ⟨.upToDate now, T⟩, range⟩ =
      .ok (if range.isBypass then raw else rangeBalanceRaw txns range) := by
  have hplain : ∀ (l : List (Date × OutPosting α κ)) (bal : Balance α κ),
      recomputeLoop env ⟨some ⟨.upToDate now, T⟩, range⟩ l bal =
        .ok (l.foldl (fun b dp => if range.contains dp.1 then (Balance.addAmount b dp.2.account dp.2.amount).1 else b) bal) := by
    intro l
    induction l with
    | nil => intro bal; rfl
    | cons dp l ih =>
      intro bal
      obtain ⟨d, p⟩ := dp
      simp only [recomputeLoop, List.foldl_cons]
      by_cases hc : range.contains d = true
      · simp [hc, ih]
      · have hc' : range.contains d = false := by simpa using hc
        simp [hc', ih]
  unfold baseBalance requireRecompute rangeBalanceRaw
  by_cases hb : range.isBypass = true
  · simp [hb, isHistorical]
  · have hb' : range.isBypass = false := by simpa using hb
    simp [hb', hplain, isUpToDate]

/-- a historical conversion always recomputes, converting posting by posting, and rounds afterwards. -/
theorem baseBalance_historical (prec : κ → Option Nat) (env : Env α κ) (txns : List (OutTxn α κ)) (raw : Balance α κ)
    (range : DateRange) (T : κ) :
    baseBalance prec env txns raw ⟨some ⟨.historical, T⟩, range⟩ =
      match recomputeLoop env ⟨some ⟨.historical, T⟩, range⟩ (allPostings txns) [] with
      | .ok bal => .ok (Balance.round prec bal)
      | o => o := by
  unfold baseBalance requireRecompute
  cases range.isBypass <;> simp [isHistorical, isUpToDate] <;>
    (generalize recomputeLoop env _ (allPostings txns) [] = o; cases o <;> rfl)

/-- **Up-to-date report.**  If the query answers, then for every account the answer holds nothing but the
target commodity, and in it exactly `round_T (Σ over the account's holdings of holding × rate at now)`, where the
holdings are the raw balance (no range) or the unrounded sum of the postings in range.  (`utdValue` sums over
the balance entries of that account; `C10_uptodate_wf` rewrites it with unique account keys.) -/
theorem C10_uptodate (prec : κ → Option Nat) (env : Env α κ) (txns : List (OutTxn α κ)) (raw B : Balance α κ)
    (range : DateRange) (now : Date) (T : κ)
    (h : balance prec env txns raw ⟨some ⟨.upToDate now, T⟩, range⟩ = .ok B) (a : α) :
    (∀ k, k ≠ T → AMap.get? (Balance.get B a) k = none) ∧
    Amount.getPart (Balance.get B a) T =
      roundT prec T (utdValue (rateOf env.cfg env.repo T now) a (if range.isBypass then raw else rangeBalanceRaw txns range)) := by
  unfold balance at h
  rw [baseBalance_upToDate] at h
  simp only at h
  generalize hbase : (if range.isBypass then raw else rangeBalanceRaw txns range) = base at h ⊢
  cases hl : upToDateLoop env T now (isortBy (fun a b => env.leA a.1 b.1) base) [] with
  | ok conv =>
    simp only [hl, Outcome.ok.injEq] at h
    subst h
    obtain ⟨h1, h2, _⟩ := upToDateLoop_ok env T now _ [] conv (fun e he => by simp at he) hl
    obtain ⟨hs, hv⟩ := round_balance_get prec T conv h1 a
    refine ⟨fun k hk => getPart_single_ne T _ hs k hk, ?_⟩
    rw [hv, h2 a, utdValue_isortBy]
    simp [Balance.get, Amount.getPart, Rat.zero_add]
  | err e => simp [hl] at h
  | panic s => simp [hl] at h
  | fuelOut => simp [hl] at h

/-- the same with unique account keys in the starting balance: Σ over the holdings of the account. -/
theorem C10_uptodate_wf (prec : κ → Option Nat) (env : Env α κ) (txns : List (OutTxn α κ)) (raw B : Balance α κ)
    (range : DateRange) (now : Date) (T : κ)
    (h : balance prec env txns raw ⟨some ⟨.upToDate now, T⟩, range⟩ = .ok B)
    (hwf : AMap.WF (if range.isBypass then raw else rangeBalanceRaw txns range)) (a : α) :
    Amount.getPart (Balance.get B a) T =
      roundT prec T (convValue (rateOf env.cfg env.repo T now)
        (Balance.get (if range.isBypass then raw else rangeBalanceRaw txns range) a)) := by
  rw [(C10_uptodate prec env txns raw B range now T h a).2, utdValue_of_WF _ _ _ hwf]

/-- **Historical report.**  If the query answers, every account holds nothing but the target commodity, and in it
exactly `round_T (Σ over the account's postings dated in the range, each converted at its own transaction date)`. -/
theorem C10_historical (prec : κ → Option Nat) (env : Env α κ) (txns : List (OutTxn α κ)) (raw B : Balance α κ)
    (range : DateRange) (T : κ)
    (h : balance prec env txns raw ⟨some ⟨.historical, T⟩, range⟩ = .ok B) (a : α) :
    (∀ k, k ≠ T → AMap.get? (Balance.get B a) k = none) ∧
    Amount.getPart (Balance.get B a) T =
      roundT prec T (histValue (rateOf env.cfg env.repo T) range a (allPostings txns)) := by
  unfold balance at h
  rw [baseBalance_historical] at h
  cases hl : recomputeLoop env ⟨some ⟨.historical, T⟩, range⟩ (allPostings txns) [] with
  | ok bal =>
    simp only [hl, Outcome.ok.injEq] at h
    subst h
    obtain ⟨h1, h2, _⟩ := recomputeLoop_hist env _ T rfl _ [] bal (fun e he => by simp at he) hl
    obtain ⟨hs, hv⟩ := round_balance_get prec T bal h1 a
    refine ⟨fun k hk => getPart_single_ne T _ hs k hk, ?_⟩
    rw [hv, h2 a]
    simp [Balance.get, Amount.getPart, Rat.zero_add]
  | err e => simp [hl] at h
  | panic s => simp [hl] at h
  | fuelOut => simp [hl] at h

/-- **Missing rate, historical.**  If some posting dated in the range holds an entry (even a zero one) whose
commodity has no rate into `T` at the transaction date, the query does not answer. -/
theorem C10_fail (prec : κ → Option Nat) (env : Env α κ) (txns : List (OutTxn α κ)) (raw : Balance α κ)
    (range : DateRange) (T : κ) (dp : Date × OutPosting α κ) (hdp : dp ∈ allPostings txns)
    (hin : range.contains dp.1 = true) (cv : κ × Rat) (hcv : cv ∈ dp.2.amount)
    (hnone : rateOf env.cfg env.repo T dp.1 cv.1 = none) :
    ∀ B, balance prec env txns raw ⟨some ⟨.historical, T⟩, range⟩ ≠ .ok B := by
  intro B h
  unfold balance at h
  rw [baseBalance_historical] at h
  cases hl : recomputeLoop env ⟨some ⟨.historical, T⟩, range⟩ (allPostings txns) [] with
  | ok bal =>
    obtain ⟨_, _, h3⟩ := recomputeLoop_hist env _ T rfl _ [] bal (fun e he => by simp at he) hl
    have := h3 dp hdp hin cv hcv
    rw [hnone] at this; cases this
  | err e => simp [hl] at h
  | panic s => simp [hl] at h
  | fuelOut => simp [hl] at h

/-- **Missing rate, up to date.**  If some account of the starting balance holds an entry whose commodity has no
rate into `T` at `now`, the query does not answer. -/
theorem C10_fail_uptodate (prec : κ → Option Nat) (env : Env α κ) (txns : List (OutTxn α κ)) (raw : Balance α κ)
    (range : DateRange) (now : Date) (T : κ) (e : α × Amount κ)
    (he : e ∈ (if range.isBypass then raw else rangeBalanceRaw txns range)) (cv : κ × Rat) (hcv : cv ∈ e.2)
    (hnone : rateOf env.cfg env.repo T now cv.1 = none) :
    ∀ B, balance prec env txns raw ⟨some ⟨.upToDate now, T⟩, range⟩ ≠ .ok B := by
  intro B h
  unfold balance at h
  rw [baseBalance_upToDate] at h
  simp only at h
  generalize hbase : (if range.isBypass then raw else rangeBalanceRaw txns range) = base at h he
  cases hl : upToDateLoop env T now (isortBy (fun a b => env.leA a.1 b.1) base) [] with
  | ok conv =>
    obtain ⟨_, _, h3⟩ := upToDateLoop_ok env T now _ [] conv (fun e he => by simp at he) hl
    have := h3 e ((mem_isortBy _ _ _).2 he) cv hcv
    rw [hnone] at this; cases this
  | err e => simp [hl] at h
  | panic s => simp [hl] at h
  | fuelOut => simp [hl] at h

/-- **Rounding only to T's precision.**  With a conversion into `T`, the whole outcome of the query is the same
for any two precision tables that agree on `T`: no other commodity's precision is ever applied (fix F20 removed
the rounding of the unconverted range balance). -/
theorem C10_round_only_T (prec prec' : κ → Option Nat) (env : Env α κ) (txns : List (OutTxn α κ)) (raw : Balance α κ)
    (range : DateRange) (s : Strategy) (T : κ) (hT : prec T = prec' T) :
    balance prec env txns raw ⟨some ⟨s, T⟩, range⟩ = balance prec' env txns raw ⟨some ⟨s, T⟩, range⟩ := by
  cases s with
  | upToDate now =>
    unfold balance
    rw [baseBalance_upToDate, baseBalance_upToDate]
    simp only
    generalize (if range.isBypass then raw else rangeBalanceRaw txns range) = base
    cases hl : upToDateLoop env T now (isortBy (fun a b => env.leA a.1 b.1) base) [] with
    | ok conv =>
      obtain ⟨h1, _, _⟩ := upToDateLoop_ok env T now _ [] conv (fun e he => by simp at he) hl
      simp only [round_balance_congr prec prec' T hT conv h1]
    | err e => rfl
    | panic s => rfl
    | fuelOut => rfl
  | historical =>
    unfold balance
    rw [baseBalance_historical, baseBalance_historical]
    cases hl : recomputeLoop env ⟨some ⟨.historical, T⟩, range⟩ (allPostings txns) [] with
    | ok bal =>
      obtain ⟨h1, _, _⟩ := recomputeLoop_hist env _ T rfl _ [] bal (fun e he => by simp at he) hl
      simp only [round_balance_congr prec prec' T hT bal h1]
    | err e => rfl
    | panic s => rfl
    | fuelOut => rfl

/-! ## non-vacuity (commodities and accounts are numbers; 0 = target) -/
section Examples
private def day (n : Nat) : Date := ⟨2024, 1, n⟩
/-- price db: 1 c1 = 5 c0 on day 1, 1 c1 = 2.5 c0 on day 10 -/
private def repo : Builder Nat :=
  match buildFrom [] [⟨day 1, ⟨1, 1⟩, ⟨5, 0⟩⟩, ⟨day 10, ⟨1, 1⟩, ⟨5/2, 0⟩⟩] with
  | .ok b => build b
  | _ => []
private def env : Env Nat Nat := ⟨⟨64, fun _ _ _ _ => 0, fun _ l => l⟩, repo, fun a b => decide (a ≤ b), fun a b => decide (a ≤ b)⟩
/-- account 7 receives 0.5 c1 on day 5 and 1 c1 + 3 c2 on day 15 -/
private def txns : List (OutTxn Nat Nat) :=
  [⟨day 5, [⟨7, [(1, 1/2)], none⟩]⟩, ⟨day 15, [⟨7, [(1, 1), (2, 3)], none⟩]⟩]
private def prec0 : Nat → Option Nat := fun c => if c = 0 then some 0 else none

-- historical, range ending before the second transaction: 0.5 × 5 = 2.5 → 2 (half-even at T's precision 0)
example : balance prec0 env txns [] ⟨some ⟨.historical, 0⟩, ⟨none, some (day 15)⟩⟩ = .ok [(7, [(0, 2)])] := by decide +kernel
-- up to date on day 20 for the same range: 0.5 × 2.5 = 1.25 → 1
example : balance prec0 env txns [] ⟨some ⟨.upToDate (day 20), 0⟩, ⟨none, some (day 15)⟩⟩ = .ok [(7, [(0, 1)])] := by decide +kernel
-- the whole ledger needs a rate for c2: there is none, so the query fails instead of leaving 3 c2 unconverted
example : balance prec0 env txns [] ⟨some ⟨.historical, 0⟩, {}⟩ = .err (.conversionFailure (.rateNotFound ⟨3, 2⟩ 0 (day 15))) := by
  decide +kernel
example : rateOf env.cfg env.repo 0 (day 15) 2 = none := by decide +kernel
example : rateOf env.cfg env.repo 0 (day 5) 1 = some 5 := by decide +kernel
example : convValue (rateOf env.cfg env.repo 0 (day 5)) [(1, 1/2)] = 5/2 := by decide +kernel
end Examples

end Okane.Query
