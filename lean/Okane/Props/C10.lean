/-! # C10 — property theorems (stub) -/
