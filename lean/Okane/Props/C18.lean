import Okane.Model.ImportCamt
import Okane.Lemmas.ImportTxn
import Okane.Lemmas.ImportCamtXml
import Okane.Lemmas.ImportCamtXmlRender
import Okane.Lemmas.ImportCamtXmlLeaves
import Okane.Lemmas.ImportCamtOriginal
/-!
# C18 — Camt053 import conserves the statement

Model: `Okane.Import.camtStatement` / `camtImport` (`Model/ImportCamt.lean`, mirror of `cli/src/import/iso_camt053.rs`
after XML decoding) on top of `Txn` / `toDoubleEntry`, composed with the book-keeping model `process`.
All theorems hold for every regex engine `cap` and every rule list.
-/
namespace Okane.Import
open Okane

/-! ## shape -/

/-- the fields of a `Txn` that charges, rates and transferred amounts never touch -/
structure SameCore (t' t : Txn) : Prop where
  date : t'.date = t.date
  effectiveDate : t'.effectiveDate = t.effectiveDate
  amount : t'.amount = t.amount
  code : t'.code = t.code
  balance : t'.balance = t.balance
  payee : t'.payee = t.payee
  destAccount : t'.destAccount = t.destAccount

theorem SameCore.refl (t : Txn) : SameCore t t := ⟨rfl, rfl, rfl, rfl, rfl, rfl, rfl⟩

theorem SameCore.trans {a b c : Txn} (h1 : SameCore a b) (h2 : SameCore b c) : SameCore a c :=
  ⟨h1.date.trans h2.date, h1.effectiveDate.trans h2.effectiveDate, h1.amount.trans h2.amount, h1.code.trans h2.code,
   h1.balance.trans h2.balance, h1.payee.trans h2.payee, h1.destAccount.trans h2.destAccount⟩

theorem tryAddChargeNotIncluded_core (t t' : Txn) (p : String) (a : OwnedAmount)
    (h : t.tryAddChargeNotIncluded p a = .ok t') : SameCore t' t := by
  unfold Txn.tryAddChargeNotIncluded at h
  split at h <;> try (simp at h; done)
  split at h <;> try (simp at h; done)
  simp at h
  subst h
  exact ⟨rfl, rfl, rfl, rfl, rfl, rfl, rfl⟩

/-- `add_charges` only touches the charge list and the transferred amount. -/
theorem addCharges_core (op : Option String) : ∀ (chs : List ChargeRecord) (t t' : Txn),
    addCharges op t chs = .ok t' → SameCore t' t := by
  intro chs
  induction chs with
  | nil => intro t t' h; simp [addCharges] at h; subst h; exact SameCore.refl _
  | cons cr rest ih =>
    intro t t' h
    unfold addCharges at h
    split at h
    · exact ih t t' h
    · split at h
      · simp at h
      · simp only at h
        split at h
        · split at h <;> try (simp at h; done)
          rename_i t1 h1
          exact (ih t1 t' h).trans (tryAddChargeNotIncluded_core _ _ _ _ h1)
        · exact (ih _ t' h).trans ⟨rfl, rfl, rfl, rfl, rfl, rfl, rfl⟩

theorem addRate_core (t t' : Txn) (k : CommodityPair) (r : Dec) (h : t.addRate k r = .ok t') : SameCore t' t := by
  unfold Txn.addRate at h
  split at h <;> try (simp at h; done)
  simp only at h
  split at h
  · split at h <;> try (simp at h; done)
    simp at h; subst h; exact ⟨rfl, rfl, rfl, rfl, rfl, rfl, rfl⟩
  · simp at h; subst h; exact ⟨rfl, rfl, rfl, rfl, rfl, rfl, rfl⟩

theorem withAmountDetails_core (t t' : Txn) (d : TxDetails) (h : withAmountDetails t d = .ok t') : SameCore t' t := by
  unfold withAmountDetails at h
  split at h
  · simp at h; subst h; exact SameCore.refl _
  · split at h
    · split at h
      · split at h <;> try (simp at h; done)
        rename_i t1 h1
        simp at h; subst h
        exact (⟨rfl, rfl, rfl, rfl, rfl, rfl, rfl⟩ : SameCore (t1.setTransferredAmount _) t1).trans (addRate_core _ _ _ _ h1)
      · simp at h; subst h; exact ⟨rfl, rfl, rfl, rfl, rfl, rfl, rfl⟩
    · simp at h; subst h; exact SameCore.refl _

/-- the effective date `Txn::effective_date` leaves: the booking date when it differs from the value date -/
def effectiveOf (e : CamtEntry) : Option Date :=
  if e.guessValueDate ≠ e.bookingDate then some e.bookingDate else none

theorem entryBase_spec (cap : Captures) (cfg : CamtCfg) (e : CamtEntry) :
    (entryBase cap cfg e).date = e.guessValueDate ∧ (entryBase cap cfg e).effectiveDate = effectiveOf e ∧
    (entryBase cap cfg e).code = none ∧ (entryBase cap cfg e).balance = none ∧
    (entryBase cap cfg e).amount = e.amount.toData e.cd := by
  unfold entryBase effectiveOf Txn.setEffectiveDate
  simp only [Txn.new]
  split <;> split <;> simp_all [Txn.setClearState, Txn.destAccountOption]

theorem detailBase_spec (cap : Captures) (cfg : CamtCfg) (e : CamtEntry) (d : TxDetails) :
    (detailBase cap cfg e d).date = e.guessValueDate ∧ (detailBase cap cfg e d).effectiveDate = effectiveOf e ∧
    (detailBase cap cfg e d).code = d.ref ∧ (detailBase cap cfg e d).balance = none ∧
    (detailBase cap cfg e d).amount = d.amount.toData d.cd := by
  unfold detailBase effectiveOf Txn.setEffectiveDate
  simp only [Txn.new]
  split <;> split <;> simp_all [Txn.setClearState, Txn.destAccountOption, Txn.codeOption]

/-- **C18_shape (opening).**  When the statement has an opening balance and at least one entry, the output starts
with the opening-balance transaction: amount zero in the balance's commodity, asserting the opening balance
(credit +, debit −), against `Equity:Adjustments`, dated like the first entry of the file. -/
theorem C18_shape_opening (st : Statement) (b : CamtBalance) (first : CamtEntry) (rest : List CamtEntry)
    (hb : st.balances.find? (fun b => b.code == .opening) = some b) (he : st.entries = first :: rest) :
    ∃ t, openingTxn st = [t] ∧ t.payee = "Initial Balance" ∧ t.date = first.guessValueDate ∧
      t.amount = ⟨⟨false, 0, 0⟩, b.amount.currency⟩ ∧ t.balance = some (b.amount.toData b.cd) ∧
      t.destAccount = some "Equity:Adjustments" ∧ t.charges = [] ∧ t.transferredAmount = none ∧ t.rates = [] := by
  refine ⟨((Txn.new first.guessValueDate "Initial Balance" ⟨{}, (b.amount.toData b.cd).commodity⟩).setDestAccount
      "Equity:Adjustments").setBalance (b.amount.toData b.cd), ?_, ?_⟩
  · unfold openingTxn findBalance
    rw [hb, he]
    rfl
  · simp [Txn.setBalance, Txn.setDestAccount, Txn.new, CamtAmount.toData]

/-- **C18_shape (entry without details).**  One transaction: dated by the value date (booking date when there is
none), the booking date as effective date when different, the account moved by `+amount` for a credit and by
`−amount` for a debit. -/
theorem C18_shape_entry (cap : Captures) (cfg : CamtCfg) (e : CamtEntry) (t : Txn) (h : entryTxn cap cfg e = .ok t) :
    t.date = e.guessValueDate ∧ t.effectiveDate = effectiveOf e ∧ t.code = none ∧ t.balance = none ∧
    t.amount.commodity = e.amount.currency ∧
    (e.cd = .credit → t.amount.value = e.amount.value) ∧ (e.cd = .debit → t.amount.value = e.amount.value.negate) := by
  unfold entryTxn at h
  have hc := addCharges_core _ _ _ _ h
  obtain ⟨b1, b2, b3, b4, b5⟩ := entryBase_spec cap cfg e
  rw [hc.date, hc.effectiveDate, hc.code, hc.balance, hc.amount, b1, b2, b3, b4, b5]
  refine ⟨rfl, rfl, rfl, rfl, rfl, ?_, ?_⟩ <;> intro hcd <;> simp [CamtAmount.toData, hcd]

/-- **C18_shape (detail of a batched entry).**  One transaction per detail: dated like the entry, the detail's
reference as code, the account moved by the detail's amount with the detail's own credit/debit indicator. -/
theorem C18_shape_detail (cap : Captures) (cfg : CamtCfg) (e : CamtEntry) (d : TxDetails) (t : Txn)
    (h : detailTxn cap cfg e d = .ok t) :
    t.date = e.guessValueDate ∧ t.effectiveDate = effectiveOf e ∧ t.code = d.ref ∧ t.balance = none ∧
    t.amount.commodity = d.amount.currency ∧
    (d.cd = .credit → t.amount.value = d.amount.value) ∧ (d.cd = .debit → t.amount.value = d.amount.value.negate) := by
  unfold detailTxn at h
  split at h <;> try (simp at h; done)
  rename_i t0 h0
  split at h <;> try (simp at h; done)
  rename_i t2 h2
  have hc := ((addCharges_core _ _ _ _ h).trans (addCharges_core _ _ _ _ h2)).trans (withAmountDetails_core _ _ _ h0)
  obtain ⟨b1, b2, b3, b4, b5⟩ := detailBase_spec cap cfg e d
  rw [hc.date, hc.effectiveDate, hc.code, hc.balance, hc.amount, b1, b2, b3, b4, b5]
  refine ⟨rfl, rfl, rfl, rfl, rfl, ?_, ?_⟩ <;> intro hcd <;> simp [CamtAmount.toData, hcd]

/-- number of transactions an entry yields: itself, or one per detail -/
def entryCount (e : CamtEntry) : Nat := if e.details.isEmpty then 1 else e.details.length

theorem detailTxns_length (cap : Captures) (cfg : CamtCfg) (e : CamtEntry) :
    ∀ (ds : List TxDetails) (ts : List Txn), detailTxns cap cfg e ds = .ok ts → ts.length = ds.length := by
  intro ds
  induction ds with
  | nil => intro ts h; simp [detailTxns] at h; subst h; rfl
  | cons d rest ih =>
    intro ts h
    unfold detailTxns at h
    split at h <;> try (simp at h; done)
    split at h <;> try (simp at h; done)
    rename_i ts' h'
    simp at h; subst h
    simp [ih ts' h']

/-- **C18_shape (count and order).**  The entries are taken in file order for `old_to_new`, in reverse file order
for `new_to_old`, and yield one transaction each, or one per detail for a batched entry. -/
theorem C18_shape_count (cap : Captures) (cfg : CamtCfg) :
    ∀ (es : List CamtEntry) (ts : List Txn), entriesTxns cap cfg es = .ok ts →
      ts.length = (es.map entryCount).sum := by
  intro es
  induction es with
  | nil => intro ts h; simp [entriesTxns] at h; subst h; rfl
  | cons e rest ih =>
    intro ts h
    unfold entriesTxns at h
    split at h <;> try (simp at h; done)
    rename_i ts1 h1
    split at h <;> try (simp at h; done)
    rename_i ts2 h2
    simp at h; subst h
    have hlen : ts1.length = entryCount e := by
      unfold entryTxns at h1
      unfold entryCount
      split at h1
      · rename_i hemp
        simp only [hemp, if_true]
        cases he : entryTxn cap cfg e <;> simp [he, Outcome.map'] at h1
        subst h1; rfl
      · rename_i hemp
        simp only [hemp]
        exact detailTxns_length cap cfg e _ _ h1
    simp [hlen, ih ts2 h2]

theorem setLastBalance_getLast (res : List Txn) (b : OwnedAmount) (hne : res ≠ []) :
    ∃ last, (setLastBalance res (some b)).getLast? = some last ∧ last.balance = some b ∧
      (setLastBalance res (some b)).length = res.length := by
  unfold setLastBalance
  cases hl : res.getLast? with
  | none => simp [List.getLast?_eq_none_iff] at hl; exact absurd hl hne
  | some last =>
    refine ⟨last.setBalance b, by simp, rfl, ?_⟩
    have : res.length ≥ 1 := by cases res <;> simp_all
    simp; omega

/-- **C18_shape (closing).**  The output of a statement is the opening transaction (if any) followed by the entries'
transactions; the closing balance (credit +, debit −) is asserted on the last transaction of the output. -/
theorem C18_shape_closing (cap : Captures) (cfg : CamtCfg) (st : Statement) (txns : List Txn)
    (h : camtStatement cap cfg st = .ok txns) :
    ∃ ts, entriesTxns cap cfg (orderedEntries cfg st) = .ok ts ∧
      txns = setLastBalance (openingTxn st ++ ts) (findBalance st .closing) ∧
      txns.length = (openingTxn st).length + ((orderedEntries cfg st).map entryCount).sum ∧
      (∀ b, findBalance st .closing = some b → openingTxn st ++ ts ≠ [] →
        ∃ last, txns.getLast? = some last ∧ last.balance = some b) := by
  unfold camtStatement camtStatementOnto at h
  split at h <;> try (simp at h; done)
  rename_i ts hts
  simp at h
  refine ⟨ts, hts, h.symm, ?_, ?_⟩
  · rw [← h]
    have hc := C18_shape_count cap cfg _ _ hts
    unfold setLastBalance
    split
    · rename_i b last _ hl
      have : (openingTxn st ++ ts).length ≥ 1 := by
        cases hh : openingTxn st ++ ts <;> simp_all
      simp [List.length_append] at this ⊢
      omega
    · simp [hc]
  · intro b hb hne
    rw [← h, hb]
    obtain ⟨last, h1, h2, _⟩ := setLastBalance_getLast _ b hne
    exact ⟨last, h1, h2⟩

/-! ## acceptance -/

/-- **ConsistentStatement**, stated on what the importer makes of the statement: all of it is in one currency `c`
without exchange rates; every transaction's figures are consistent — the amount, its charges and the counter amount
(the amount details' transaction amount when charges are included, `amount + charge` for a charge that is not)
cancel, which for a batched entry is the condition that each detail is booked with its own amount; counter-postings go
to other accounts; and the opening balance plus credits minus debits runs through every asserted balance up to the
closing balance. -/
def ConsistentStatement (acct c : String) (opening closing : Dec) (txns : List Txn) : Prop :=
  RunOK acct c opening.toRat txns ∧ runX opening.toRat txns = closing.toRat

/-- **C18_accepts.**  Given that the account held the opening balance beforehand, the ledger imported from a
consistent statement is accepted by the book-keeping model and the account ends at the closing balance. -/
theorem C18_accepts (cap : Captures) (cfg : CamtCfg) (st : Statement) (txns : List Txn) (c : String) (date : Date)
    (opening closing : Dec) (_himp : camtStatement cap cfg st = .ok txns)
    (hc : c ≠ "") (hne : "Equity:Opening" ≠ cfg.account)
    (hcons : ConsistentStatement cfg.account c opening closing txns) :
    ∃ trs stt, ledgerOf cfg.account txns = .ok trs ∧
      process (Entry.txn (fundTxn cfg.account date opening c) :: trs.map Entry.txn) = .ok stt ∧
      Amount.getPart (Balance.get stt.bal cfg.account) c = closing.toRat := by
  obtain ⟨trs, stt, hl, hp, hv⟩ := run_accepts cfg.account c hc hne date opening txns hcons.1
  exact ⟨trs, stt, hl, hp, by rw [hv, hcons.2]⟩

/-! ## non-vacuity -/

/-- opening 100.00, a credit of 1000 (value date ≠ booking date), a debit entry of 52 with a 2.00 charge included
(amount details say 50), a debit of 30 with a 1.50 charge not included, closing 1018.00 -/
def exStatement : Statement :=
  { balances := [⟨.opening, ⟨⟨false, 10000, 2⟩, "CHF"⟩, .credit⟩, ⟨.other, ⟨⟨false, 1, 0⟩, "CHF"⟩, .credit⟩,
                 ⟨.closing, ⟨⟨false, 101800, 2⟩, "CHF"⟩, .credit⟩]
    entries :=
      [ { amount := ⟨⟨false, 1000, 0⟩, "CHF"⟩, cd := .credit, bookingDate := ⟨2024, 1, 3⟩, valueDate := some ⟨2024, 1, 2⟩,
          domain := none, charges := [], details := [], additionalInfo := "Credit" },
        { amount := ⟨⟨false, 52, 0⟩, "CHF"⟩, cd := .debit, bookingDate := ⟨2024, 1, 4⟩, valueDate := none, domain := none,
          charges := [⟨⟨⟨false, 200, 2⟩, "CHF"⟩, .debit, true⟩],
          details := [ { ref := some "R1", amount := ⟨⟨false, 52, 0⟩, "CHF"⟩, cd := .debit,
                         txAmount := some ⟨⟨⟨false, 50, 0⟩, "CHF"⟩, none⟩, charges := [] } ],
          additionalInfo := "Debit" },
        { amount := ⟨⟨false, 30, 0⟩, "CHF"⟩, cd := .debit, bookingDate := ⟨2024, 1, 5⟩, valueDate := none, domain := none,
          charges := [⟨⟨⟨false, 150, 2⟩, "CHF"⟩, .debit, false⟩], details := [], additionalInfo := "Debit" } ] }

def exCamtCfg (o : RowOrder) : CamtCfg := { account := "Assets:Okane Bank", operator := some "Okane Bank (fee)", rowOrder := o, rewrite := [] }

/-- the statement imports into 4 transactions (opening + 3), the first dated by the value date with the booking date as
effective date, and the book-keeping model accepts `fund :: import` and ends at the closing balance 1018.00 -/
example :
    (match camtStatement (fun _ _ => none) (exCamtCfg .oldToNew) exStatement with
     | .ok txns =>
       txns.length == 4 &&
       txns.map (·.date) == [⟨2024, 1, 2⟩, ⟨2024, 1, 2⟩, ⟨2024, 1, 4⟩, ⟨2024, 1, 5⟩] &&
       txns.map (·.effectiveDate) == [none, some ⟨2024, 1, 3⟩, none, none] &&
       (match ledgerOf "Assets:Okane Bank" txns with
        | .ok trs =>
          (match process (Entry.txn (fundTxn "Assets:Okane Bank" ⟨2024, 1, 1⟩ ⟨false, 10000, 2⟩ "CHF") :: trs.map Entry.txn) with
           | .ok st => Amount.getPart (Balance.get st.bal "Assets:Okane Bank") "CHF" == (⟨false, 101800, 2⟩ : Dec).toRat
           | _ => false)
        | _ => false)
     | _ => false) = true := by
  decide +kernel

/-- `ConsistentStatement` is satisfiable by a non-trivial output: the opening transaction and a credit. -/
example : ConsistentStatement "Assets:Okane Bank" "CHF" ⟨false, 10000, 2⟩ ⟨false, 110000, 2⟩
    [ { date := ⟨2024, 1, 2⟩, payee := "Initial Balance", amount := ⟨⟨false, 0, 0⟩, "CHF"⟩,
        destAccount := some "Equity:Adjustments", balance := some ⟨⟨false, 10000, 2⟩, "CHF"⟩ },
      { date := ⟨2024, 1, 2⟩, payee := "unknown payee", amount := ⟨⟨false, 1000, 0⟩, "CHF"⟩,
        balance := some ⟨⟨false, 110000, 2⟩, "CHF"⟩ } ] := by
  refine ⟨⟨⟨rfl, by simp, by simp, rfl, by simp⟩, by unfold Txn.Balanced; decide +kernel, ⟨?_, by decide⟩,
           Or.inr ⟨_, rfl, by decide +kernel⟩,
           ⟨rfl, by simp, by simp, rfl, by simp⟩, by unfold Txn.Balanced; decide +kernel, ⟨?_, by decide⟩,
           Or.inr ⟨_, rfl, by decide +kernel⟩, trivial⟩, by decide +kernel⟩
  · intro fb hfb; rcases hfb with h | h <;> subst h <;> decide
  · intro fb hfb; rcases hfb with h | h <;> subst h <;> decide

/-! ## The XML layer: the theorems above are statements about Camt053 **texts**

`CamtXml.camtImportXml cap cfg text` (`Model/Xml.lean` reader ≫ `Model/ImportCamtXml.lean` decoder ≫ `camtImport`) is the
model of `iso_camt053::import` from the bytes of the file.  Proofs: `Lemmas/ImportCamtXml*.lean`. -/
open CamtXml Okane.Xml

/-- **Totality of reader and decoder** (all of it is structural recursion, there is no fuel): a text decodes to statements,
or is a decode error (`ImportError::XML`), or is declined by the model. -/
theorem C18_xml_total (text : String) :
    (∃ stmts, decodeCamt text = .ok stmts) ∨ decodeCamt text = .error .xml ∨ ∃ why, decodeCamt text = .error (.unsupported why) :=
  decodeCamt_total text

/-- neither a panic nor a hang of the importer can come from decoding -/
theorem C18_xml_no_crash (cap : Captures) (cfg : CamtCfg) (text : String) (h : (camtImportXml cap cfg text).crashes = true) :
    ∃ stmts, decodeCamt text = .ok stmts ∧ (camtImport cap cfg [] stmts).crashes = true :=
  camtImportXml_crash cap cfg text h

/-- **Text escaping round trip.** -/
theorem C18_xml_unescape_escape (s : List Char) : unescape (escape s) = some s := unescape_escape s

/-- **The reader inverts the printer** on canonical trees. -/
theorem C18_xml_reader_roundtrip (t : CTree) (h : t.wf = true) : readRoot t.print = .ok t.toNode := readRoot_print t h

/-- `decode (render d) = ok d` for every `Renderable` list of statements (decidable: the structural conditions *and* the
leaf round trips `decRT` / `dateRT` of every number and date in it, to be checked by evaluation). -/
theorem C18_xml_roundtrip_partial (ss : List Statement) (h : Renderable ss = true) : decodeCamt (render ss) = .ok ss :=
  decodeCamt_render ss h

/-- **`decode (render d) = ok d`** for every `Representable` list of statements — stated by what the statements contain:
at least one statement, each with a balance; currencies of ASCII letters / digits; domain codes of the schema; numbers of
at most 18 digits with scale ≤ 17 and no negative zero (`decSmall`: there rust_decimal's parser stays in its 64-bit phase);
valid dates with a year 0…9999; **arbitrary text** in every name, info and reference.  Every such statement structure IS
the decoding of its rendering. -/
theorem C18_xml_roundtrip (ss : List Statement) (h : Representable ss) : decodeCamt (render ss) = .ok ss :=
  decodeCamt_render ss (renderable_of_representable ss h)

/-- a number `rust_decimal` can hold and print: 96-bit mantissa, scale ≤ 28, no negative zero -/
def decRepresentable (d : Dec) : Prop := d.mant < 2 ^ 96 ∧ d.scale ≤ 28 ∧ (d.neg = true → d.mant ≠ 0)

/-- **what is not proved**, kept visible: the number round trip beyond 18 digits — for every `Decimal` value (96-bit mantissa,
scale ≤ 28) the print is read back; it needs the 96-bit phase of rust_decimal's parser (`full128`, where the rounding and
overflow handling live) against `Nat.toDigits`.  `decRT_small` is the part that is proved; `C18_xml_roundtrip_partial`
covers any larger number by evaluation. -/
def C18_xml_roundtrip_stmt : Prop := ∀ d : Dec, decRepresentable d → decRT d = true

/-- every statement structure is the decoding of its rendering, so the importer on the rendering is the importer on the
structure: the `C18_shape_*` / `C18_accepts` theorems are statements about the XML text `render [st]` -/
theorem C18_xml_render_import (cap : Captures) (cfg : CamtCfg) (st : Statement) (h : Renderable [st] = true) :
    camtImportXml cap cfg (render [st]) = camtStatement cap cfg st :=
  camtImportXml_single cap cfg _ st (decodeCamt_render [st] h)

/-- … and more generally for every text that decodes to the statement -/
theorem C18_xml_import_of_decode (cap : Captures) (cfg : CamtCfg) (text : String) (st : Statement)
    (hd : decodeCamt text = .ok [st]) : camtImportXml cap cfg text = camtStatement cap cfg st :=
  camtImportXml_single cap cfg text st hd

theorem entriesTxns_mem (cap : Captures) (cfg : CamtCfg) : ∀ (es : List CamtEntry) (ts : List Txn),
    entriesTxns cap cfg es = .ok ts → ∀ e ∈ es, ∃ te, entryTxns cap cfg e = .ok te ∧ ∀ t ∈ te, t ∈ ts := by
  intro es
  induction es with
  | nil => intro ts _ e he; simp at he
  | cons x rest ih =>
    intro ts h e he
    unfold entriesTxns at h
    split at h <;> try (simp at h; done)
    rename_i t1 h1
    split at h <;> try (simp at h; done)
    rename_i t2 h2
    simp at h; subst h
    rcases List.mem_cons.mp he with rfl | he
    · exact ⟨t1, h1, fun t ht => List.mem_append_left _ ht⟩
    · obtain ⟨te, h3, h4⟩ := ih t2 h2 e he
      exact ⟨te, h3, fun t ht => List.mem_append_right _ (h4 t ht)⟩

theorem detailTxns_zip (cap : Captures) (cfg : CamtCfg) (e : CamtEntry) : ∀ (ds : List TxDetails) (ts : List Txn),
    detailTxns cap cfg e ds = .ok ts → ∀ p ∈ ds.zip ts, detailTxn cap cfg e p.1 = .ok p.2 := by
  intro ds
  induction ds with
  | nil => intro ts _ p hp; simp at hp
  | cons d rest ih =>
    intro ts h p hp
    unfold detailTxns at h
    split at h <;> try (simp at h; done)
    rename_i t1 h1
    split at h <;> try (simp at h; done)
    rename_i t2 h2
    simp at h; subst h
    simp only [List.zip_cons_cons, List.mem_cons] at hp
    rcases hp with rfl | hp
    · exact h1
    · exact ih t2 h2 p hp

/-- **C18_shape on the text (entries).**  For every text that decodes to one statement and imports: every `<Ntry>` of the
file yields its transactions — one, shaped by `C18_shape_entry`, when it has no `<TxDtls>`; one per `<TxDtls>`, shaped by
`C18_shape_detail`, otherwise — and all of them are in the output. -/
theorem C18_shape_xml_entry (cap : Captures) (cfg : CamtCfg) (text : String) (st : Statement) (txns : List Txn)
    (hd : decodeCamt text = .ok [st]) (h : camtImportXml cap cfg text = .ok txns) (e : CamtEntry) (he : e ∈ st.entries) :
    ∃ te, entryTxns cap cfg e = .ok te ∧ te.length = entryCount e ∧
      (e.details = [] → ∃ t, te = [t] ∧ t.date = e.guessValueDate ∧ t.effectiveDate = effectiveOf e ∧ t.code = none ∧
        t.amount.commodity = e.amount.currency ∧
        (e.cd = .credit → t.amount.value = e.amount.value) ∧ (e.cd = .debit → t.amount.value = e.amount.value.negate)) ∧
      (∀ p ∈ e.details.zip te, p.2.date = e.guessValueDate ∧ p.2.effectiveDate = effectiveOf e ∧ p.2.code = p.1.ref ∧
        p.2.amount.commodity = p.1.amount.currency ∧
        (p.1.cd = .credit → p.2.amount.value = p.1.amount.value) ∧
        (p.1.cd = .debit → p.2.amount.value = p.1.amount.value.negate)) := by
  rw [C18_xml_import_of_decode cap cfg text st hd] at h
  obtain ⟨ts, hts, _, _, _⟩ := C18_shape_closing cap cfg st txns h
  have hmem : e ∈ orderedEntries cfg st := by
    unfold orderedEntries
    cases cfg.rowOrder <;> simp [he]
  obtain ⟨te, hte, _⟩ := entriesTxns_mem cap cfg _ ts hts e hmem
  refine ⟨te, hte, ?_, ?_, ?_⟩
  · unfold entryTxns at hte
    unfold entryCount
    split at hte
    · rename_i hemp
      simp only [hemp, if_true]
      cases hx : entryTxn cap cfg e <;> simp [hx, Outcome.map'] at hte
      subst hte; rfl
    · rename_i hemp
      simp only [hemp]
      exact detailTxns_length cap cfg e _ _ hte
  · intro hnil
    unfold entryTxns at hte
    simp only [hnil, List.isEmpty_nil, if_true] at hte
    cases hx : entryTxn cap cfg e with
    | ok t =>
      simp [hx, Outcome.map'] at hte
      obtain ⟨a1, a2, a3, _, a5, a6, a7⟩ := C18_shape_entry cap cfg e t hx
      exact ⟨t, hte.symm, a1, a2, a3, a5, a6, a7⟩
    | err x => simp [hx, Outcome.map'] at hte
    | panic x => simp [hx, Outcome.map'] at hte
    | fuelOut => simp [hx, Outcome.map'] at hte
  · intro p hp
    unfold entryTxns at hte
    split at hte
    · rename_i hemp
      have : e.details = [] := by simpa using hemp
      rw [this] at hp; simp at hp
    · have hdt := detailTxns_zip cap cfg e _ _ hte p hp
      obtain ⟨a1, a2, a3, _, a5, a6, a7⟩ := C18_shape_detail cap cfg e p.1 p.2 hdt
      exact ⟨a1, a2, a3, a5, a6, a7⟩

/-- **C18_shape on the text (count, order, closing).** -/
theorem C18_shape_xml_closing (cap : Captures) (cfg : CamtCfg) (text : String) (st : Statement) (txns : List Txn)
    (hd : decodeCamt text = .ok [st]) (h : camtImportXml cap cfg text = .ok txns) :
    ∃ ts, entriesTxns cap cfg (orderedEntries cfg st) = .ok ts ∧
      txns = setLastBalance (openingTxn st ++ ts) (findBalance st .closing) ∧
      txns.length = (openingTxn st).length + ((orderedEntries cfg st).map entryCount).sum ∧
      (∀ b, findBalance st .closing = some b → openingTxn st ++ ts ≠ [] →
        ∃ last, txns.getLast? = some last ∧ last.balance = some b) := by
  rw [C18_xml_import_of_decode cap cfg text st hd] at h
  exact C18_shape_closing cap cfg st txns h

/-- **C18_shape on the text (opening).**  A file whose statement has an `OPBD` balance and at least one `<Ntry>` starts,
once imported, with the opening-balance transaction (dated like the first `<Ntry>` of the file). -/
theorem C18_shape_xml_opening (cap : Captures) (cfg : CamtCfg) (text : String) (st : Statement) (txns : List Txn)
    (hd : decodeCamt text = .ok [st]) (h : camtImportXml cap cfg text = .ok txns)
    (b : CamtBalance) (first : CamtEntry) (rest : List CamtEntry)
    (hb : st.balances.find? (fun b => b.code == .opening) = some b) (he : st.entries = first :: rest) :
    ∃ t more, txns = t :: more ∧ more ≠ [] ∧ t.payee = "Initial Balance" ∧ t.date = first.guessValueDate ∧
      t.amount = ⟨⟨false, 0, 0⟩, b.amount.currency⟩ ∧ t.balance = some (b.amount.toData b.cd) ∧
      t.destAccount = some "Equity:Adjustments" := by
  obtain ⟨ts, hts, htx, hlen, _⟩ := C18_shape_xml_closing cap cfg text st txns hd h
  obtain ⟨t, hop, p1, p2, p3, p4, p5, _⟩ := C18_shape_opening st b first rest hb he
  -- the entries yield at least one transaction, so the opening transaction is not the last one
  have hts_len : ts.length ≥ 1 := by
    have hc := C18_shape_count cap cfg _ _ hts
    have hpos : ∀ e : CamtEntry, entryCount e ≥ 1 := by
      intro e; unfold entryCount
      split
      · exact Nat.le_refl 1
      · rename_i hne
        cases hd : e.details with
        | nil => simp [hd] at hne
        | cons x xs => simp
    have hne : orderedEntries cfg st ≠ [] := by
      unfold orderedEntries
      cases cfg.rowOrder <;> simp [he]
    cases hoe : orderedEntries cfg st with
    | nil => exact absurd hoe hne
    | cons x xs =>
      rw [hoe] at hc
      simp only [List.map_cons, List.sum_cons] at hc
      have := hpos x
      omega
  cases ts with
  | nil => simp at hts_len
  | cons t1 trest =>
    rw [hop] at htx
    refine ⟨t, setLastBalance (t1 :: trest) (findBalance st .closing), ?_, ?_, p1, p2, p3, p4, p5⟩
    · rw [htx]
      unfold setLastBalance
      cases findBalance st .closing with
      | none => rfl
      | some cb =>
        simp only [List.singleton_append]
        have h1 : (t :: t1 :: trest).getLast? = (t1 :: trest).getLast? := by simp [List.getLast?_cons_cons]
        rw [h1]
        cases hl : (t1 :: trest).getLast? with
        | none => simp [List.getLast?_eq_none_iff] at hl
        | some last => simp [List.dropLast_cons_of_ne_nil]
    · unfold setLastBalance
      cases findBalance st .closing with
      | none => simp
      | some cb =>
        cases hl : (t1 :: trest).getLast? with
        | none => simp
        | some last => simp

/-- **C18_accepts on the text.**  Given that the account held the opening balance beforehand, the ledger imported from a
Camt053 file that decodes to a consistent statement is accepted by the book-keeping model and the account ends at the
closing balance. -/
theorem C18_accepts_xml (cap : Captures) (cfg : CamtCfg) (text : String) (st : Statement) (txns : List Txn) (c : String)
    (date : Date) (opening closing : Dec) (hd : decodeCamt text = .ok [st]) (himp : camtImportXml cap cfg text = .ok txns)
    (hc : c ≠ "") (hne : "Equity:Opening" ≠ cfg.account)
    (hcons : ConsistentStatement cfg.account c opening closing txns) :
    ∃ trs stt, ledgerOf cfg.account txns = .ok trs ∧
      process (Entry.txn (fundTxn cfg.account date opening c) :: trs.map Entry.txn) = .ok stt ∧
      Amount.getPart (Balance.get stt.bal cfg.account) c = closing.toRat := by
  rw [C18_xml_import_of_decode cap cfg text st hd] at himp
  exact C18_accepts cap cfg st txns c date opening closing himp hc hne hcons

/-! ### laws of the decoder (restated from `Lemmas/ImportCamtXml{Walk,Fields}.lean`) -/

/-- **Unknown elements are ignored, at any depth** — here: anywhere among the children of any `<Ntry>` of any `<Stmt>`;
the general law (`walk_unknown_ignored`, `walk_unknown_after_list`) holds for every struct of the schema wherever no run of
list items is being read, and `walk_unknown_breaks_list` is its exact limit. -/
theorem C18_xml_unknown_ignored (r ra qb ab qs as' qn an : String) (p0 s0 p1 s1 p2 s2 pre post : List Node) (u : Node)
    (hb : lname qb = "BkToCstmrStmt") (hs : lname qs = "Stmt") (hn : lname qn = "Ntry") (hu : Skippable entrySpec u) :
    decDocument (.elem r ra (p0 ++ .elem qb ab (p1 ++ .elem qs as' (p2 ++ .elem qn an (pre ++ u :: post) :: s2) :: s1) :: s0)) =
    decDocument (.elem r ra (p0 ++ .elem qb ab (p1 ++ .elem qs as' (p2 ++ .elem qn an (pre ++ post) :: s2) :: s1) :: s0)) :=
  decDocument_unknown_in_entry r ra qb ab qs as' qn an p0 s0 p1 s1 p2 s2 pre post u hb hs hn hu

/-- **The order of distinct fields inside a struct is irrelevant** (here `Entry`; `walk_swap` is the general law: two
neighbouring children that are not items of the list being read commute whenever their fields differ). -/
theorem C18_xml_order (attrs : String) (pre post : List Node) (q₁ a₁ k₁ q₂ a₂ k₂) (hne : lname q₁ ≠ lname q₂) :
    ∀ e, decEntry attrs (pre ++ .elem q₁ a₁ k₁ :: .elem q₂ a₂ k₂ :: post) = .ok e ↔
         decEntry attrs (pre ++ .elem q₂ a₂ k₂ :: .elem q₁ a₁ k₁ :: post) = .ok e :=
  decEntry_swap attrs pre post q₁ a₁ k₁ q₂ a₂ k₂ hne

/-- **A missing required element is an error.** -/
theorem C18_xml_missing_required (attrs : String) (kids : List Node) (k : String)
    (hk : k ∈ ["Amt", "CdtDbtInd", "BookgDt", "BkTxCd", "AddtlNtryInf"]) (hno : ∀ n ∈ kids, keyOf n ≠ some k) :
    ∀ e, decEntry attrs kids ≠ .ok e :=
  decEntry_missing attrs kids k hk hno

/-- **A repeated scalar is an error.** -/
theorem C18_xml_duplicate (attrs : String) (l₁ l₂ l₃ : List Node) (x y : Node) (k : String) (hk : k ∈ entryKeys)
    (hx : keyOf x = some k) (hy : keyOf y = some k) : ∀ e, decEntry attrs (l₁ ++ x :: l₂ ++ y :: l₃) ≠ .ok e :=
  decEntry_duplicate attrs l₁ l₂ l₃ x y k hk hx hy

/-- **Interleaved lists are an error** (quick-xml without `overlapped-lists`). -/
theorem C18_xml_interleaved (attrs : String) (pre post : List Node) (q a₁ k₁ a₂ k₂) (u : Node) (hq : lname q = "Ntry")
    (hu : Skippable stmtSpec u) (hun : ∀ a k, u ≠ .elem q a k) :
    ∀ s, decStmt attrs (pre ++ .elem q a₁ k₁ :: u :: .elem q a₂ k₂ :: post) ≠ .ok s :=
  decStmt_interleaved attrs pre post q a₁ k₁ a₂ k₂ u hq hu hun

/-! ### non-vacuity of the XML theorems -/

/-- a small Camt053 file in the dialect of real banks: prolog, namespace, line breaks, an element the schema does not know,
a single-quoted attribute, an entity, and something behind the root that is never read — character by character (a `String`
literal of this size is slow to take apart in the kernel):
```
<?xml version="1.0"?>
<Document xmlns="urn:x">
<BkToCstmrStmt><GrpHdr><MsgId>1</MsgId></GrpHdr>
<Stmt><Bal><Tp><CdOrPrtry><Cd>OPBD</Cd></CdOrPrtry></Tp><Amt Ccy="CHF">100.00</Amt><CdtDbtInd>CRDT</CdtDbtInd></Bal>
<Ntry><Amt Ccy='CHF'>1000</Amt><CdtDbtInd>CRDT</CdtDbtInd><BookgDt><Dt>2024-01-03</Dt></BookgDt><BkTxCd/><AddtlNtryInf>A &amp; B</AddtlNtryInf></Ntry>
</Stmt></BkToCstmrStmt></Document>
<garbage
``` -/
def exChars : List Char :=
  ['<', '?', 'x', 'm', 'l', ' ', 'v', 'e', 'r', 's', 'i', 'o', 'n', '=', '"', '1', '.', '0', '"', '?', '>', '\n', '<',
   'D', 'o', 'c', 'u', 'm', 'e', 'n', 't', ' ', 'x', 'm', 'l', 'n', 's', '=', '"', 'u', 'r', 'n', ':', 'x', '"', '>',
   '\n', '<', 'B', 'k', 'T', 'o', 'C', 's', 't', 'm', 'r', 'S', 't', 'm', 't', '>', '<', 'G', 'r', 'p', 'H', 'd', 'r',
   '>', '<', 'M', 's', 'g', 'I', 'd', '>', '1', '<', '/', 'M', 's', 'g', 'I', 'd', '>', '<', '/', 'G', 'r', 'p', 'H',
   'd', 'r', '>', '\n', '<', 'S', 't', 'm', 't', '>', '<', 'B', 'a', 'l', '>', '<', 'T', 'p', '>', '<', 'C', 'd', 'O',
   'r', 'P', 'r', 't', 'r', 'y', '>', '<', 'C', 'd', '>', 'O', 'P', 'B', 'D', '<', '/', 'C', 'd', '>', '<', '/', 'C',
   'd', 'O', 'r', 'P', 'r', 't', 'r', 'y', '>', '<', '/', 'T', 'p', '>', '<', 'A', 'm', 't', ' ', 'C', 'c', 'y', '=',
   '"', 'C', 'H', 'F', '"', '>', '1', '0', '0', '.', '0', '0', '<', '/', 'A', 'm', 't', '>', '<', 'C', 'd', 't', 'D',
   'b', 't', 'I', 'n', 'd', '>', 'C', 'R', 'D', 'T', '<', '/', 'C', 'd', 't', 'D', 'b', 't', 'I', 'n', 'd', '>', '<',
   '/', 'B', 'a', 'l', '>', '\n', '<', 'N', 't', 'r', 'y', '>', '<', 'A', 'm', 't', ' ', 'C', 'c', 'y', '=', '\'', 'C',
   'H', 'F', '\'', '>', '1', '0', '0', '0', '<', '/', 'A', 'm', 't', '>', '<', 'C', 'd', 't', 'D', 'b', 't', 'I', 'n',
   'd', '>', 'C', 'R', 'D', 'T', '<', '/', 'C', 'd', 't', 'D', 'b', 't', 'I', 'n', 'd', '>', '<', 'B', 'o', 'o', 'k',
   'g', 'D', 't', '>', '<', 'D', 't', '>', '2', '0', '2', '4', '-', '0', '1', '-', '0', '3', '<', '/', 'D', 't', '>',
   '<', '/', 'B', 'o', 'o', 'k', 'g', 'D', 't', '>', '<', 'B', 'k', 'T', 'x', 'C', 'd', '/', '>', '<', 'A', 'd', 'd',
   't', 'l', 'N', 't', 'r', 'y', 'I', 'n', 'f', '>', 'A', ' ', '&', 'a', 'm', 'p', ';', ' ', 'B', '<', '/', 'A', 'd',
   'd', 't', 'l', 'N', 't', 'r', 'y', 'I', 'n', 'f', '>', '<', '/', 'N', 't', 'r', 'y', '>', '\n', '<', '/', 'S', 't',
   'm', 't', '>', '<', '/', 'B', 'k', 'T', 'o', 'C', 's', 't', 'm', 'r', 'S', 't', 'm', 't', '>', '<', '/', 'D', 'o',
   'c', 'u', 'm', 'e', 'n', 't', '>', '\n', '<', 'g', 'a', 'r', 'b', 'a', 'g', 'e']

def exXml : String := String.ofList exChars

def exXmlStatement : Statement :=
  { balances := [⟨.opening, ⟨⟨false, 10000, 2⟩, "CHF"⟩, .credit⟩]
    entries := [{ amount := ⟨⟨false, 1000, 0⟩, "CHF"⟩, cd := .credit, bookingDate := ⟨2024, 1, 3⟩, valueDate := none,
                  domain := none, charges := [], details := [], additionalInfo := "A & B" }] }

/-- `decodeCamt` on a text given by its characters -/
def decodeChars (l : List Char) : D (List Statement) :=
  match readRoot l with
  | .ok root => decDocument root
  | .error e => .error e

theorem decodeCamt_ofList (l : List Char) : decodeCamt (String.ofList l) = decodeChars l := by
  unfold decodeCamt readDocument decodeChars
  rw [String.toList_ofList]
  cases readRoot l <;> rfl

/-- the text decodes (so the hypotheses `decodeCamt text = .ok [st]` of the `*_xml` theorems are satisfiable by a text that is
not a rendering) -/
theorem exXml_decodes : decodeCamt exXml = .ok [exXmlStatement] := by
  have : (match decodeChars exChars with | .ok ss => decide (ss = [exXmlStatement]) | .error _ => false) = true := by
    decide +kernel
  unfold exXml
  rw [decodeCamt_ofList]
  cases h : decodeChars exChars with
  | ok ss => simp [h] at this; rw [this]
  | error e => simp [h] at this

/-- … and imports: the opening transaction and the credit (`C18_shape_xml_*`, `C18_accepts_xml` apply) -/
example : ∃ txns, camtImportXml (fun _ _ => none) (exCamtCfg .oldToNew) exXml = .ok txns ∧ txns.length = 2 := by
  rw [C18_xml_import_of_decode _ _ _ _ exXml_decodes]
  have : (match camtStatement (fun _ _ => none) (exCamtCfg .oldToNew) exXmlStatement with
          | .ok txns => txns.length == 2 | _ => false) = true := by decide +kernel
  cases h : camtStatement (fun _ _ => none) (exCamtCfg .oldToNew) exXmlStatement with
  | ok txns => simp [h] at this; exact ⟨txns, rfl, this⟩
  | err e => simp [h] at this
  | panic s => simp [h] at this
  | fuelOut => simp [h] at this

/-- the three classes of `C18_xml_total` are inhabited -/
example : (match readRoot ['<', 'a', '>', '<', 'b', '>', '<', '/', 'a', '>'] with | .error .xml => true | _ => false) = true := by
  decide +kernel
example : (match readRoot ['<', 'a', '>', '<', '!', 'D', 'O', 'C', 'T', 'Y', 'P', 'E', ' ', 'x', '>', '<', '/', 'a', '>'] with
           | .error (.unsupported why) => why == "DOCTYPE inside the root element" | _ => false) = true := by
  decide +kernel

/-- `exStatement` (opening, closing, three entries, charges, a batch detail with amount details) is `Renderable`, so its
rendering decodes back to it and imports as the statement does -/
theorem exStatement_renderable : Renderable [exStatement] = true := by decide +kernel
example : decodeCamt (render [exStatement]) = .ok [exStatement] := C18_xml_roundtrip_partial _ exStatement_renderable
example (o : RowOrder) : camtImportXml (fun _ _ => none) (exCamtCfg o) (render [exStatement]) =
    camtStatement (fun _ _ => none) (exCamtCfg o) exStatement := C18_xml_render_import _ _ _ exStatement_renderable
/-- `exStatement` is also `Representable` (the semantic hypothesis of `C18_xml_roundtrip`) -/
example : Representable [exStatement] := by
  refine ⟨by simp, ?_⟩
  intro s hs
  simp only [List.mem_singleton] at hs
  subst hs
  refine ⟨by simp [exStatement], ?_, ?_⟩
  · intro b hb
    simp only [exStatement, List.mem_cons, List.mem_nil_iff, or_false] at hb
    rcases hb with rfl | rfl | rfl <;> exact ⟨by decide, by decide⟩
  · intro e he
    simp only [exStatement, List.mem_cons, List.mem_nil_iff, or_false] at he
    rcases he with rfl | rfl | rfl
    · exact ⟨⟨by decide, by decide⟩, by decide, by intro v hv; cases hv; decide, by decide, by simp, by simp⟩
    · refine ⟨⟨by decide, by decide⟩, by decide, by simp, by decide, ?_, ?_⟩
      · intro c hc; simp only [List.mem_singleton] at hc; subst hc; exact ⟨by decide, by decide⟩
      · intro d hd; simp only [List.mem_singleton] at hd; subst hd
        refine ⟨⟨by decide, by decide⟩, ?_, by simp⟩
        intro t ht; cases ht; exact ⟨⟨by decide, by decide⟩, by simp⟩
    · refine ⟨⟨by decide, by decide⟩, by decide, by simp, by decide, ?_, by simp⟩
      intro c hc; simp only [List.mem_singleton] at hc; subst hc; exact ⟨by decide, by decide⟩
/-- the leaf round trips hold on numbers at the edge of `Decimal` (beyond `decSmall`) and fail where they must (a negative
zero has no print) -/
example : decRT ⟨false, 2 ^ 96 - 1, 28⟩ = true ∧ decRT ⟨true, 5, 3⟩ = true ∧ decRT ⟨true, 0, 0⟩ = false ∧
    dateRT ⟨2024, 2, 29⟩ = true ∧ dateRT ⟨2023, 2, 29⟩ = false := by decide +kernel

example : unescape (escape " a<b> & \"q\" ".toList) = some " a<b> & \"q\" ".toList := C18_xml_unescape_escape _

/-- an element `Entry` does not know, with content, is `Skippable` -/
theorem exUnknown_skippable : Skippable entrySpec (.elem "x:Xtra" " a='1'" [.elem "Amt" "" [], .text "t"]) :=
  ⟨entry_unknown _ (by decide), rfl⟩

/-- the children of an `<Ntry>`, decoded -/
def exKids : List Node :=
  [.elem "Amt" " Ccy=\"CHF\"" [.text "5"], .elem "CdtDbtInd" "" [.text "DBIT"], .elem "BookgDt" "" [.elem "Dt" "" [.text "2024-01-02"]],
   .elem "BkTxCd" "" [], .elem "AddtlNtryInf" "" [.text "i"]]

example : (match decEntry "" exKids with | .ok e => e.cd == .debit && e.amount.value == ⟨false, 5, 0⟩ | _ => false) = true := by
  decide +kernel
/-- `C18_xml_unknown_ignored` / `decEntry_unknown_ignored` at a concrete position; `C18_xml_order` on a concrete swap -/
example : decEntry "" (exKids.take 2 ++ .elem "x:Xtra" " a='1'" [.elem "Amt" "" [], .text "t"] :: exKids.drop 2) = decEntry "" exKids :=
  decEntry_unknown_ignored "" (exKids.take 2) (exKids.drop 2) _ exUnknown_skippable
example : ∀ e, decEntry "" ([] ++ .elem "CdtDbtInd" "" [.text "DBIT"] :: .elem "Amt" " Ccy=\"CHF\"" [.text "5"] :: exKids.drop 2) = .ok e ↔
    decEntry "" exKids = .ok e :=
  C18_xml_order "" [] (exKids.drop 2) "CdtDbtInd" "" _ "Amt" _ _ (by decide)
/-- the hypotheses of the error theorems are satisfiable: no `Amt`; `BookgDt` twice; `<Ntry>`, `<TxsSummry>`, `<Ntry>` -/
example : ∀ e, decEntry "" (exKids.drop 1) ≠ .ok e :=
  C18_xml_missing_required "" _ "Amt" (by decide) (by decide)
example : ∀ e, decEntry "" (exKids.take 2 ++ .elem "BookgDt" "" [] :: [.elem "BkTxCd" "" []] ++ .elem "n:BookgDt" "" [] :: []) ≠ .ok e :=
  C18_xml_duplicate "" _ _ _ _ _ "BookgDt" (by decide) (by decide) (by decide)
example : ∀ s, decStmt "" ([] ++ .elem "Ntry" "" exKids :: .elem "TxsSummry" "" [] :: .elem "Ntry" "" exKids :: []) ≠ .ok s :=
  C18_xml_interleaved "" [] [] "Ntry" "" exKids "" exKids _ (by decide)
    ⟨stmt_unknown _ (by decide) (by decide), rfl⟩ (by intro a k h; injection h with h1; exact absurd h1 (by decide))

/-! ## a detail's original amount in another currency -/

/-- **C18, original amounts**: a detail (without charges) whose `AmtDtls/TxAmt` is in ANOTHER currency than the booked amount is
imported - when it is imported at all - with that original amount as the amount of its counter posting's side
(`transferredAmount`), signed like the detail; this holds whatever the two numbers are, in particular when they are EQUAL. -/
theorem C18_original_amount_kept (cap : Captures) (cfg : CamtCfg) (e : CamtEntry) (d : TxDetails) (ta : TxAmount)
    (hta : d.txAmount = some ta) (hcur : d.amount.currency ≠ ta.amount.currency)
    (hec : e.charges = []) (hdc : d.charges = []) (t : Txn) (h : detailTxn cap cfg e d = .ok t) :
    t.transferredAmount = some (ta.amount.toData d.cd) := by
  unfold detailTxn at h
  cases hw : withAmountDetails (detailBase cap cfg e d) d with
  | ok t1 =>
    simp [hw, hec, hdc, addCharges] at h
    subst h
    exact withAmountDetails_foreign _ d ta hta hcur t1 hw
  | err x => simp [hw] at h
  | panic x => simp [hw] at h
  | fuelOut => simp [hw] at h

/-- ... and the statement's rate is what the printed posting of the rate's target currency carries: `@ rate source` -/
theorem C18_original_amount_rate (cap : Captures) (cfg : CamtCfg) (e : CamtEntry) (d : TxDetails) (ta : TxAmount) (x : CurrencyExchange)
    (hta : d.txAmount = some ta) (hne : d.amount.eq ta.amount = false) (hx : ta.exchange = some x) (hst : x.source ≠ x.target)
    (hfresh : AMap.get? (detailBase cap cfg e d).rates x.target = none)
    (hec : e.charges = []) (hdc : d.charges = []) :
    ∃ t, detailTxn cap cfg e d = .ok t ∧ t.rate x.target = some (Exchange.rate (Txn.asSyntaxAmount ⟨x.rate, x.source⟩)) := by
  refine ⟨(({ detailBase cap cfg e d with rates := AMap.insert (detailBase cap cfg e d).rates x.target ⟨x.rate, x.source⟩ } : Txn).setTransferredAmount
      (ta.amount.toData d.cd)), ?_, ?_⟩
  · unfold detailTxn
    rw [withAmountDetails_original_rate _ d ta x hta hne hx hst hfresh]
    simp [hec, hdc, addCharges]
  · simp [Txn.rate, Txn.setTransferredAmount, AMap.get?_insert_self]

end Okane.Import
