import Okane.Model.ImportCamt
import Okane.Lemmas.ImportTxn
/-!
# C18 — Camt053 import conserves the statement

Model: `Okane.Import.camtStatement` / `camtImport` (`Model/ImportCamt.lean`, mirror of `cli/src/import/iso_camt053.rs`
after XML decoding) on top of `Txn` / `toDoubleEntry`, composed with the book-keeping model `process`.
All theorems hold for every regex engine `cap` and every rule list.
-/
namespace Okane.Import
open Okane

/-! ## shape -/

/-- `add_charges` only touches the charge list and the transferred amount. -/
theorem addCharges_preserves (op : Option String) : ∀ (chs : List ChargeRecord) (t t' : Txn),
    addCharges op t chs = .ok t' →
    t'.date = t.date ∧ t'.effectiveDate = t.effectiveDate ∧ t'.amount = t.amount ∧ t'.code = t.code ∧
    t'.balance = t.balance ∧ t'.payee = t.payee ∧ t'.destAccount = t.destAccount ∧ t'.rates = t.rates := by
  intro chs
  induction chs with
  | nil => intro t t' h; simp [addCharges] at h; subst h; simp
  | cons cr rest ih =>
    intro t t' h
    unfold addCharges at h
    split at h
    · exact ih t t' h
    · split at h
      · simp at h
      · split at h
        · split at h <;> try (simp at h; done)
          rename_i t1 h1
          have := ih t1 t' h
          unfold Txn.tryAddChargeNotIncluded at h1
          split at h1 <;> try (simp at h1; done)
          split at h1 <;> try (simp at h1; done)
          simp at h1
          subst h1
          simpa [Txn.setTransferredAmount] using this
        · have := ih _ t' h
          simpa [Txn.addCharge] using this

/-- the effective date `Txn::effective_date` leaves: the booking date when it differs from the value date -/
def effectiveOf (e : CamtEntry) : Option Date :=
  if e.guessValueDate ≠ e.bookingDate then some e.bookingDate else none

/-- **C18_shape (opening).**  When the statement has an opening balance and at least one entry, the output starts
with the opening-balance transaction: amount zero in the balance's commodity, asserting the opening balance
(credit +, debit −), against `Equity:Adjustments`, dated like the first entry of the file. -/
theorem C18_shape_opening (st : Statement) (b : CamtBalance) (first : CamtEntry) (rest : List CamtEntry)
    (hb : st.balances.find? (fun b => b.code == .opening) = some b) (he : st.entries = first :: rest) :
    ∃ t, openingTxn st = [t] ∧ t.payee = "Initial Balance" ∧ t.date = first.guessValueDate ∧
      t.amount = ⟨⟨false, 0, 0⟩, b.amount.currency⟩ ∧ t.balance = some (b.amount.toData b.cd) ∧
      t.destAccount = some "Equity:Adjustments" ∧ t.charges = [] ∧ t.transferredAmount = none ∧ t.rates = [] := by
  refine ⟨_, ?_, ?_⟩
  · unfold openingTxn findBalance
    rw [hb, he]
    rfl
  · simp [Txn.setBalance, Txn.setDestAccount, Txn.new, CamtAmount.toData]

/-- **C18_shape (entry without details).**  One transaction: dated by the value date (booking date when there is
none), the booking date as effective date when different, the account moved by `+amount` for a credit and by
`−amount` for a debit. -/
theorem C18_shape_entry (cap : Captures) (cfg : CamtCfg) (e : CamtEntry) (t : Txn) (h : entryTxn cap cfg e = .ok t) :
    t.date = e.guessValueDate ∧ t.effectiveDate = effectiveOf e ∧ t.code = none ∧ t.balance = none ∧
    t.amount.commodity = e.amount.currency ∧
    (e.cd = .credit → t.amount.value = e.amount.value) ∧ (e.cd = .debit → t.amount.value = e.amount.value.negate) := by
  unfold entryTxn at h
  obtain ⟨h1, h2, h3, h4, h5, _⟩ := addCharges_preserves _ _ _ _ h
  rw [h1, h2, h3, h4, h5]
  refine ⟨?_, ?_, ?_, ?_, ?_, ?_, ?_⟩
  all_goals (try split)
  all_goals simp [Txn.new, Txn.setEffectiveDate, Txn.destAccountOption, Txn.setClearState, effectiveOf, CamtAmount.toData]
  all_goals (try split)
  all_goals (try simp_all)
  all_goals (try (intro hcd; simp [hcd]))

/-- **C18_shape (detail of a batched entry).**  One transaction per detail: dated like the entry, the detail's
reference as code, the account moved by the detail's amount with the detail's own credit/debit indicator. -/
theorem C18_shape_detail (cap : Captures) (cfg : CamtCfg) (e : CamtEntry) (d : TxDetails) (t : Txn)
    (h : detailTxn cap cfg e d = .ok t) :
    t.date = e.guessValueDate ∧ t.effectiveDate = effectiveOf e ∧ t.code = d.ref ∧ t.balance = none ∧
    t.amount.commodity = d.amount.currency ∧
    (d.cd = .credit → t.amount.value = d.amount.value) ∧ (d.cd = .debit → t.amount.value = d.amount.value.negate) := by
  unfold detailTxn at h
  simp only at h
  split at h <;> try (simp at h; done)
  rename_i t0 h0
  split at h <;> try (simp at h; done)
  rename_i t2 h2
  obtain ⟨a1, a2, a3, a4, a5, _⟩ := addCharges_preserves _ _ _ _ h
  obtain ⟨b1, b2, b3, b4, b5, _⟩ := addCharges_preserves _ _ _ _ h2
  rw [a1, a2, a3, a4, a5, b1, b2, b3, b4, b5]
  -- `t0`: after the amount details
  have ht0 : t0.date = e.guessValueDate ∧ t0.effectiveDate = effectiveOf e ∧ t0.code = d.ref ∧ t0.balance = none ∧
      t0.amount = d.amount.toData d.cd := by
    split at h0
    · simp at h0; subst h0
      refine ⟨?_, ?_, ?_, ?_, ?_⟩ <;> (try split) <;>
        simp [Txn.new, Txn.setEffectiveDate, Txn.destAccountOption, Txn.setClearState, Txn.codeOption, effectiveOf] <;>
        (try split) <;> simp_all
    · split at h0
      · split at h0 <;> try (simp at h0; done)
        rename_i t1 h1
        simp at h0; subst h0
        have hr : t1.date = e.guessValueDate ∧ t1.effectiveDate = effectiveOf e ∧ t1.code = d.ref ∧ t1.balance = none ∧
            t1.amount = d.amount.toData d.cd := by
          split at h1
          · unfold Txn.addRate at h1
            split at h1 <;> try (simp at h1; done)
            simp only at h1
            split at h1
            · split at h1 <;> try (simp at h1; done)
              simp at h1; subst h1
              refine ⟨?_, ?_, ?_, ?_, ?_⟩ <;> (try split) <;>
                simp [Txn.new, Txn.setEffectiveDate, Txn.destAccountOption, Txn.setClearState, Txn.codeOption, effectiveOf] <;>
                (try split) <;> simp_all
            · simp at h1; subst h1
              refine ⟨?_, ?_, ?_, ?_, ?_⟩ <;> (try split) <;>
                simp [Txn.new, Txn.setEffectiveDate, Txn.destAccountOption, Txn.setClearState, Txn.codeOption, effectiveOf] <;>
                (try split) <;> simp_all
          · simp at h1; subst h1
            refine ⟨?_, ?_, ?_, ?_, ?_⟩ <;> (try split) <;>
              simp [Txn.new, Txn.setEffectiveDate, Txn.destAccountOption, Txn.setClearState, Txn.codeOption, effectiveOf] <;>
              (try split) <;> simp_all
        simpa [Txn.setTransferredAmount] using hr
      · simp at h0; subst h0
        refine ⟨?_, ?_, ?_, ?_, ?_⟩ <;> (try split) <;>
          simp [Txn.new, Txn.setEffectiveDate, Txn.destAccountOption, Txn.setClearState, Txn.codeOption, effectiveOf] <;>
          (try split) <;> simp_all
  obtain ⟨c1, c2, c3, c4, c5⟩ := ht0
  rw [c1, c2, c3, c4, c5]
  refine ⟨rfl, rfl, rfl, rfl, rfl, ?_, ?_⟩ <;> intro hcd <;> simp [CamtAmount.toData, hcd]

/-- number of transactions an entry yields: itself, or one per detail -/
def entryCount (e : CamtEntry) : Nat := if e.details.isEmpty then 1 else e.details.length

theorem detailTxns_length (cap : Captures) (cfg : CamtCfg) (e : CamtEntry) :
    ∀ (ds : List TxDetails) (ts : List Txn), detailTxns cap cfg e ds = .ok ts → ts.length = ds.length := by
  intro ds
  induction ds with
  | nil => intro ts h; simp [detailTxns] at h; subst h; rfl
  | cons d rest ih =>
    intro ts h
    unfold detailTxns at h
    split at h <;> try (simp at h; done)
    split at h <;> try (simp at h; done)
    rename_i ts' h'
    simp at h; subst h
    simp [ih ts' h']

/-- **C18_shape (count and order).**  The entries are taken in file order for `old_to_new`, in reverse file order
for `new_to_old`, and yield one transaction each, or one per detail for a batched entry. -/
theorem C18_shape_count (cap : Captures) (cfg : CamtCfg) :
    ∀ (es : List CamtEntry) (ts : List Txn), entriesTxns cap cfg es = .ok ts →
      ts.length = (es.map entryCount).sum := by
  intro es
  induction es with
  | nil => intro ts h; simp [entriesTxns] at h; subst h; rfl
  | cons e rest ih =>
    intro ts h
    unfold entriesTxns at h
    split at h <;> try (simp at h; done)
    rename_i ts1 h1
    split at h <;> try (simp at h; done)
    rename_i ts2 h2
    simp at h; subst h
    have hlen : ts1.length = entryCount e := by
      unfold entryTxns at h1
      unfold entryCount
      split at h1
      · rename_i hemp
        simp only [hemp, if_true]
        cases he : entryTxn cap cfg e <;> simp [he, Outcome.map'] at h1
        subst h1; rfl
      · rename_i hemp
        simp only [hemp]
        exact detailTxns_length cap cfg e _ _ h1
    simp [hlen, ih ts2 h2]

theorem setLastBalance_getLast (res : List Txn) (b : OwnedAmount) (hne : res ≠ []) :
    ∃ last, (setLastBalance res (some b)).getLast? = some last ∧ last.balance = some b ∧
      (setLastBalance res (some b)).length = res.length := by
  unfold setLastBalance
  cases hl : res.getLast? with
  | none => simp [List.getLast?_eq_none_iff] at hl; exact absurd hl hne
  | some last =>
    refine ⟨last.setBalance b, by simp, rfl, ?_⟩
    have : res.length ≥ 1 := by cases res <;> simp_all
    simp; omega

/-- **C18_shape (closing).**  The output of a statement is the opening transaction (if any) followed by the entries'
transactions; the closing balance (credit +, debit −) is asserted on the last transaction of the output. -/
theorem C18_shape_closing (cap : Captures) (cfg : CamtCfg) (st : Statement) (txns : List Txn)
    (h : camtStatement cap cfg st = .ok txns) :
    ∃ ts, entriesTxns cap cfg (orderedEntries cfg st) = .ok ts ∧
      txns = setLastBalance (openingTxn st ++ ts) (findBalance st .closing) ∧
      txns.length = (openingTxn st).length + ((orderedEntries cfg st).map entryCount).sum ∧
      (∀ b, findBalance st .closing = some b → openingTxn st ++ ts ≠ [] →
        ∃ last, txns.getLast? = some last ∧ last.balance = some b) := by
  unfold camtStatement camtStatementOnto at h
  split at h <;> try (simp at h; done)
  rename_i ts hts
  simp at h
  refine ⟨ts, rfl, h.symm, ?_, ?_⟩
  · rw [← h]
    have hc := C18_shape_count cap cfg _ _ hts
    unfold setLastBalance
    split
    · rename_i b last _ hl
      have : (openingTxn st ++ ts).length ≥ 1 := by
        cases hh : openingTxn st ++ ts <;> simp_all
      simp [List.length_append] at this ⊢
      omega
    · simp [hc]
  · intro b hb hne
    rw [← h, hb]
    obtain ⟨last, h1, h2, _⟩ := setLastBalance_getLast _ b hne
    exact ⟨last, h1, h2⟩

/-! ## acceptance -/

/-- **ConsistentStatement**, stated on what the importer makes of the statement: all of it is in one currency `c`
without exchange rates; every transaction's figures are consistent — the amount, its charges and the counter amount
(the amount details' transaction amount when charges are included, `amount + charge` for a charge that is not)
cancel, which for a batched entry is the condition that each detail is booked with its own amount; counter-postings go
to other accounts; and the opening balance plus credits minus debits runs through every asserted balance up to the
closing balance. -/
def ConsistentStatement (acct c : String) (opening closing : Dec) (txns : List Txn) : Prop :=
  RunOK acct c opening.toRat txns ∧ runX opening.toRat txns = closing.toRat

/-- **C18_accepts.**  Given that the account held the opening balance beforehand, the ledger imported from a
consistent statement is accepted by the book-keeping model and the account ends at the closing balance. -/
theorem C18_accepts (cap : Captures) (cfg : CamtCfg) (st : Statement) (txns : List Txn) (c : String) (date : Date)
    (opening closing : Dec) (_himp : camtStatement cap cfg st = .ok txns)
    (hc : c ≠ "") (hne : "Equity:Opening" ≠ cfg.account)
    (hcons : ConsistentStatement cfg.account c opening closing txns) :
    ∃ trs stt, ledgerOf cfg.account txns = .ok trs ∧
      process (Entry.txn (fundTxn cfg.account date opening c) :: trs.map Entry.txn) = .ok stt ∧
      Amount.getPart (Balance.get stt.bal cfg.account) c = closing.toRat := by
  obtain ⟨trs, stt, hl, hp, hv⟩ := run_accepts cfg.account c hc hne date opening txns hcons.1
  exact ⟨trs, stt, hl, hp, by rw [hv, hcons.2]⟩

end Okane.Import
