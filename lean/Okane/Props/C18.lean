/-! # C18 — property theorems (stub) -/
