import Okane.Model.ImportCamt
import Okane.Lemmas.ImportTxn
/-!
# C18 — Camt053 import conserves the statement

Model: `Okane.Import.camtStatement` / `camtImport` (`Model/ImportCamt.lean`, mirror of `cli/src/import/iso_camt053.rs`
after XML decoding) on top of `Txn` / `toDoubleEntry`, composed with the book-keeping model `process`.
All theorems hold for every regex engine `cap` and every rule list.
-/
namespace Okane.Import
open Okane

/-! ## shape -/

/-- the fields of a `Txn` that charges, rates and transferred amounts never touch -/
structure SameCore (t' t : Txn) : Prop where
  date : t'.date = t.date
  effectiveDate : t'.effectiveDate = t.effectiveDate
  amount : t'.amount = t.amount
  code : t'.code = t.code
  balance : t'.balance = t.balance
  payee : t'.payee = t.payee
  destAccount : t'.destAccount = t.destAccount

theorem SameCore.refl (t : Txn) : SameCore t t := ⟨rfl, rfl, rfl, rfl, rfl, rfl, rfl⟩

theorem SameCore.trans {a b c : Txn} (h1 : SameCore a b) (h2 : SameCore b c) : SameCore a c :=
  ⟨h1.date.trans h2.date, h1.effectiveDate.trans h2.effectiveDate, h1.amount.trans h2.amount, h1.code.trans h2.code,
   h1.balance.trans h2.balance, h1.payee.trans h2.payee, h1.destAccount.trans h2.destAccount⟩

theorem tryAddChargeNotIncluded_core (t t' : Txn) (p : String) (a : OwnedAmount)
    (h : t.tryAddChargeNotIncluded p a = .ok t') : SameCore t' t := by
  unfold Txn.tryAddChargeNotIncluded at h
  split at h <;> try (simp at h; done)
  split at h <;> try (simp at h; done)
  simp at h
  subst h
  exact ⟨rfl, rfl, rfl, rfl, rfl, rfl, rfl⟩

/-- `add_charges` only touches the charge list and the transferred amount. -/
theorem addCharges_core (op : Option String) : ∀ (chs : List ChargeRecord) (t t' : Txn),
    addCharges op t chs = .ok t' → SameCore t' t := by
  intro chs
  induction chs with
  | nil => intro t t' h; simp [addCharges] at h; subst h; exact SameCore.refl _
  | cons cr rest ih =>
    intro t t' h
    unfold addCharges at h
    split at h
    · exact ih t t' h
    · split at h
      · simp at h
      · simp only at h
        split at h
        · split at h <;> try (simp at h; done)
          rename_i t1 h1
          exact (ih t1 t' h).trans (tryAddChargeNotIncluded_core _ _ _ _ h1)
        · exact (ih _ t' h).trans ⟨rfl, rfl, rfl, rfl, rfl, rfl, rfl⟩

theorem addRate_core (t t' : Txn) (k : CommodityPair) (r : Dec) (h : t.addRate k r = .ok t') : SameCore t' t := by
  unfold Txn.addRate at h
  split at h <;> try (simp at h; done)
  simp only at h
  split at h
  · split at h <;> try (simp at h; done)
    simp at h; subst h; exact ⟨rfl, rfl, rfl, rfl, rfl, rfl, rfl⟩
  · simp at h; subst h; exact ⟨rfl, rfl, rfl, rfl, rfl, rfl, rfl⟩

theorem withAmountDetails_core (t t' : Txn) (d : TxDetails) (h : withAmountDetails t d = .ok t') : SameCore t' t := by
  unfold withAmountDetails at h
  split at h
  · simp at h; subst h; exact SameCore.refl _
  · split at h
    · split at h
      · split at h <;> try (simp at h; done)
        rename_i t1 h1
        simp at h; subst h
        exact (⟨rfl, rfl, rfl, rfl, rfl, rfl, rfl⟩ : SameCore (t1.setTransferredAmount _) t1).trans (addRate_core _ _ _ _ h1)
      · simp at h; subst h; exact ⟨rfl, rfl, rfl, rfl, rfl, rfl, rfl⟩
    · simp at h; subst h; exact SameCore.refl _

/-- the effective date `Txn::effective_date` leaves: the booking date when it differs from the value date -/
def effectiveOf (e : CamtEntry) : Option Date :=
  if e.guessValueDate ≠ e.bookingDate then some e.bookingDate else none

theorem entryBase_spec (cap : Captures) (cfg : CamtCfg) (e : CamtEntry) :
    (entryBase cap cfg e).date = e.guessValueDate ∧ (entryBase cap cfg e).effectiveDate = effectiveOf e ∧
    (entryBase cap cfg e).code = none ∧ (entryBase cap cfg e).balance = none ∧
    (entryBase cap cfg e).amount = e.amount.toData e.cd := by
  unfold entryBase effectiveOf Txn.setEffectiveDate
  simp only [Txn.new]
  split <;> split <;> simp_all [Txn.setClearState, Txn.destAccountOption]

theorem detailBase_spec (cap : Captures) (cfg : CamtCfg) (e : CamtEntry) (d : TxDetails) :
    (detailBase cap cfg e d).date = e.guessValueDate ∧ (detailBase cap cfg e d).effectiveDate = effectiveOf e ∧
    (detailBase cap cfg e d).code = d.ref ∧ (detailBase cap cfg e d).balance = none ∧
    (detailBase cap cfg e d).amount = d.amount.toData d.cd := by
  unfold detailBase effectiveOf Txn.setEffectiveDate
  simp only [Txn.new]
  split <;> split <;> simp_all [Txn.setClearState, Txn.destAccountOption, Txn.codeOption]

/-- **C18_shape (opening).**  When the statement has an opening balance and at least one entry, the output starts
with the opening-balance transaction: amount zero in the balance's commodity, asserting the opening balance
(credit +, debit −), against `Equity:Adjustments`, dated like the first entry of the file. -/
theorem C18_shape_opening (st : Statement) (b : CamtBalance) (first : CamtEntry) (rest : List CamtEntry)
    (hb : st.balances.find? (fun b => b.code == .opening) = some b) (he : st.entries = first :: rest) :
    ∃ t, openingTxn st = [t] ∧ t.payee = "Initial Balance" ∧ t.date = first.guessValueDate ∧
      t.amount = ⟨⟨false, 0, 0⟩, b.amount.currency⟩ ∧ t.balance = some (b.amount.toData b.cd) ∧
      t.destAccount = some "Equity:Adjustments" ∧ t.charges = [] ∧ t.transferredAmount = none ∧ t.rates = [] := by
  refine ⟨((Txn.new first.guessValueDate "Initial Balance" ⟨{}, (b.amount.toData b.cd).commodity⟩).setDestAccount
      "Equity:Adjustments").setBalance (b.amount.toData b.cd), ?_, ?_⟩
  · unfold openingTxn findBalance
    rw [hb, he]
    rfl
  · simp [Txn.setBalance, Txn.setDestAccount, Txn.new, CamtAmount.toData]

/-- **C18_shape (entry without details).**  One transaction: dated by the value date (booking date when there is
none), the booking date as effective date when different, the account moved by `+amount` for a credit and by
`−amount` for a debit. -/
theorem C18_shape_entry (cap : Captures) (cfg : CamtCfg) (e : CamtEntry) (t : Txn) (h : entryTxn cap cfg e = .ok t) :
    t.date = e.guessValueDate ∧ t.effectiveDate = effectiveOf e ∧ t.code = none ∧ t.balance = none ∧
    t.amount.commodity = e.amount.currency ∧
    (e.cd = .credit → t.amount.value = e.amount.value) ∧ (e.cd = .debit → t.amount.value = e.amount.value.negate) := by
  unfold entryTxn at h
  have hc := addCharges_core _ _ _ _ h
  obtain ⟨b1, b2, b3, b4, b5⟩ := entryBase_spec cap cfg e
  rw [hc.date, hc.effectiveDate, hc.code, hc.balance, hc.amount, b1, b2, b3, b4, b5]
  refine ⟨rfl, rfl, rfl, rfl, rfl, ?_, ?_⟩ <;> intro hcd <;> simp [CamtAmount.toData, hcd]

/-- **C18_shape (detail of a batched entry).**  One transaction per detail: dated like the entry, the detail's
reference as code, the account moved by the detail's amount with the detail's own credit/debit indicator. -/
theorem C18_shape_detail (cap : Captures) (cfg : CamtCfg) (e : CamtEntry) (d : TxDetails) (t : Txn)
    (h : detailTxn cap cfg e d = .ok t) :
    t.date = e.guessValueDate ∧ t.effectiveDate = effectiveOf e ∧ t.code = d.ref ∧ t.balance = none ∧
    t.amount.commodity = d.amount.currency ∧
    (d.cd = .credit → t.amount.value = d.amount.value) ∧ (d.cd = .debit → t.amount.value = d.amount.value.negate) := by
  unfold detailTxn at h
  split at h <;> try (simp at h; done)
  rename_i t0 h0
  split at h <;> try (simp at h; done)
  rename_i t2 h2
  have hc := ((addCharges_core _ _ _ _ h).trans (addCharges_core _ _ _ _ h2)).trans (withAmountDetails_core _ _ _ h0)
  obtain ⟨b1, b2, b3, b4, b5⟩ := detailBase_spec cap cfg e d
  rw [hc.date, hc.effectiveDate, hc.code, hc.balance, hc.amount, b1, b2, b3, b4, b5]
  refine ⟨rfl, rfl, rfl, rfl, rfl, ?_, ?_⟩ <;> intro hcd <;> simp [CamtAmount.toData, hcd]

/-- number of transactions an entry yields: itself, or one per detail -/
def entryCount (e : CamtEntry) : Nat := if e.details.isEmpty then 1 else e.details.length

theorem detailTxns_length (cap : Captures) (cfg : CamtCfg) (e : CamtEntry) :
    ∀ (ds : List TxDetails) (ts : List Txn), detailTxns cap cfg e ds = .ok ts → ts.length = ds.length := by
  intro ds
  induction ds with
  | nil => intro ts h; simp [detailTxns] at h; subst h; rfl
  | cons d rest ih =>
    intro ts h
    unfold detailTxns at h
    split at h <;> try (simp at h; done)
    split at h <;> try (simp at h; done)
    rename_i ts' h'
    simp at h; subst h
    simp [ih ts' h']

/-- **C18_shape (count and order).**  The entries are taken in file order for `old_to_new`, in reverse file order
for `new_to_old`, and yield one transaction each, or one per detail for a batched entry. -/
theorem C18_shape_count (cap : Captures) (cfg : CamtCfg) :
    ∀ (es : List CamtEntry) (ts : List Txn), entriesTxns cap cfg es = .ok ts →
      ts.length = (es.map entryCount).sum := by
  intro es
  induction es with
  | nil => intro ts h; simp [entriesTxns] at h; subst h; rfl
  | cons e rest ih =>
    intro ts h
    unfold entriesTxns at h
    split at h <;> try (simp at h; done)
    rename_i ts1 h1
    split at h <;> try (simp at h; done)
    rename_i ts2 h2
    simp at h; subst h
    have hlen : ts1.length = entryCount e := by
      unfold entryTxns at h1
      unfold entryCount
      split at h1
      · rename_i hemp
        simp only [hemp, if_true]
        cases he : entryTxn cap cfg e <;> simp [he, Outcome.map'] at h1
        subst h1; rfl
      · rename_i hemp
        simp only [hemp]
        exact detailTxns_length cap cfg e _ _ h1
    simp [hlen, ih ts2 h2]

theorem setLastBalance_getLast (res : List Txn) (b : OwnedAmount) (hne : res ≠ []) :
    ∃ last, (setLastBalance res (some b)).getLast? = some last ∧ last.balance = some b ∧
      (setLastBalance res (some b)).length = res.length := by
  unfold setLastBalance
  cases hl : res.getLast? with
  | none => simp [List.getLast?_eq_none_iff] at hl; exact absurd hl hne
  | some last =>
    refine ⟨last.setBalance b, by simp, rfl, ?_⟩
    have : res.length ≥ 1 := by cases res <;> simp_all
    simp; omega

/-- **C18_shape (closing).**  The output of a statement is the opening transaction (if any) followed by the entries'
transactions; the closing balance (credit +, debit −) is asserted on the last transaction of the output. -/
theorem C18_shape_closing (cap : Captures) (cfg : CamtCfg) (st : Statement) (txns : List Txn)
    (h : camtStatement cap cfg st = .ok txns) :
    ∃ ts, entriesTxns cap cfg (orderedEntries cfg st) = .ok ts ∧
      txns = setLastBalance (openingTxn st ++ ts) (findBalance st .closing) ∧
      txns.length = (openingTxn st).length + ((orderedEntries cfg st).map entryCount).sum ∧
      (∀ b, findBalance st .closing = some b → openingTxn st ++ ts ≠ [] →
        ∃ last, txns.getLast? = some last ∧ last.balance = some b) := by
  unfold camtStatement camtStatementOnto at h
  split at h <;> try (simp at h; done)
  rename_i ts hts
  simp at h
  refine ⟨ts, hts, h.symm, ?_, ?_⟩
  · rw [← h]
    have hc := C18_shape_count cap cfg _ _ hts
    unfold setLastBalance
    split
    · rename_i b last _ hl
      have : (openingTxn st ++ ts).length ≥ 1 := by
        cases hh : openingTxn st ++ ts <;> simp_all
      simp [List.length_append] at this ⊢
      omega
    · simp [hc]
  · intro b hb hne
    rw [← h, hb]
    obtain ⟨last, h1, h2, _⟩ := setLastBalance_getLast _ b hne
    exact ⟨last, h1, h2⟩

/-! ## acceptance -/

/-- **ConsistentStatement**, stated on what the importer makes of the statement: all of it is in one currency `c`
without exchange rates; every transaction's figures are consistent — the amount, its charges and the counter amount
(the amount details' transaction amount when charges are included, `amount + charge` for a charge that is not)
cancel, which for a batched entry is the condition that each detail is booked with its own amount; counter-postings go
to other accounts; and the opening balance plus credits minus debits runs through every asserted balance up to the
closing balance. -/
def ConsistentStatement (acct c : String) (opening closing : Dec) (txns : List Txn) : Prop :=
  RunOK acct c opening.toRat txns ∧ runX opening.toRat txns = closing.toRat

/-- **C18_accepts.**  Given that the account held the opening balance beforehand, the ledger imported from a
consistent statement is accepted by the book-keeping model and the account ends at the closing balance. -/
theorem C18_accepts (cap : Captures) (cfg : CamtCfg) (st : Statement) (txns : List Txn) (c : String) (date : Date)
    (opening closing : Dec) (_himp : camtStatement cap cfg st = .ok txns)
    (hc : c ≠ "") (hne : "Equity:Opening" ≠ cfg.account)
    (hcons : ConsistentStatement cfg.account c opening closing txns) :
    ∃ trs stt, ledgerOf cfg.account txns = .ok trs ∧
      process (Entry.txn (fundTxn cfg.account date opening c) :: trs.map Entry.txn) = .ok stt ∧
      Amount.getPart (Balance.get stt.bal cfg.account) c = closing.toRat := by
  obtain ⟨trs, stt, hl, hp, hv⟩ := run_accepts cfg.account c hc hne date opening txns hcons.1
  exact ⟨trs, stt, hl, hp, by rw [hv, hcons.2]⟩

/-! ## non-vacuity -/

/-- opening 100.00, a credit of 1000 (value date ≠ booking date), a debit entry of 52 with a 2.00 charge included
(amount details say 50), a debit of 30 with a 1.50 charge not included, closing 1018.00 -/
def exStatement : Statement :=
  { balances := [⟨.opening, ⟨⟨false, 10000, 2⟩, "CHF"⟩, .credit⟩, ⟨.other, ⟨⟨false, 1, 0⟩, "CHF"⟩, .credit⟩,
                 ⟨.closing, ⟨⟨false, 101800, 2⟩, "CHF"⟩, .credit⟩]
    entries :=
      [ { amount := ⟨⟨false, 1000, 0⟩, "CHF"⟩, cd := .credit, bookingDate := ⟨2024, 1, 3⟩, valueDate := some ⟨2024, 1, 2⟩,
          domain := none, charges := [], details := [], additionalInfo := "Credit" },
        { amount := ⟨⟨false, 52, 0⟩, "CHF"⟩, cd := .debit, bookingDate := ⟨2024, 1, 4⟩, valueDate := none, domain := none,
          charges := [⟨⟨⟨false, 200, 2⟩, "CHF"⟩, .debit, true⟩],
          details := [ { ref := some "R1", amount := ⟨⟨false, 52, 0⟩, "CHF"⟩, cd := .debit,
                         txAmount := some ⟨⟨⟨false, 50, 0⟩, "CHF"⟩, none⟩, charges := [] } ],
          additionalInfo := "Debit" },
        { amount := ⟨⟨false, 30, 0⟩, "CHF"⟩, cd := .debit, bookingDate := ⟨2024, 1, 5⟩, valueDate := none, domain := none,
          charges := [⟨⟨⟨false, 150, 2⟩, "CHF"⟩, .debit, false⟩], details := [], additionalInfo := "Debit" } ] }

def exCamtCfg (o : RowOrder) : CamtCfg := { account := "Assets:Okane Bank", operator := some "Okane Bank (fee)", rowOrder := o, rewrite := [] }

/-- the statement imports into 4 transactions (opening + 3), the first dated by the value date with the booking date as
effective date, and the book-keeping model accepts `fund :: import` and ends at the closing balance 1018.00 -/
example :
    (match camtStatement (fun _ _ => none) (exCamtCfg .oldToNew) exStatement with
     | .ok txns =>
       txns.length == 4 &&
       txns.map (·.date) == [⟨2024, 1, 2⟩, ⟨2024, 1, 2⟩, ⟨2024, 1, 4⟩, ⟨2024, 1, 5⟩] &&
       txns.map (·.effectiveDate) == [none, some ⟨2024, 1, 3⟩, none, none] &&
       (match ledgerOf "Assets:Okane Bank" txns with
        | .ok trs =>
          (match process (Entry.txn (fundTxn "Assets:Okane Bank" ⟨2024, 1, 1⟩ ⟨false, 10000, 2⟩ "CHF") :: trs.map Entry.txn) with
           | .ok st => Amount.getPart (Balance.get st.bal "Assets:Okane Bank") "CHF" == (⟨false, 101800, 2⟩ : Dec).toRat
           | _ => false)
        | _ => false)
     | _ => false) = true := by
  decide +kernel

/-- `ConsistentStatement` is satisfiable by a non-trivial output: the opening transaction and a credit. -/
example : ConsistentStatement "Assets:Okane Bank" "CHF" ⟨false, 10000, 2⟩ ⟨false, 110000, 2⟩
    [ { date := ⟨2024, 1, 2⟩, payee := "Initial Balance", amount := ⟨⟨false, 0, 0⟩, "CHF"⟩,
        destAccount := some "Equity:Adjustments", balance := some ⟨⟨false, 10000, 2⟩, "CHF"⟩ },
      { date := ⟨2024, 1, 2⟩, payee := "unknown payee", amount := ⟨⟨false, 1000, 0⟩, "CHF"⟩,
        balance := some ⟨⟨false, 110000, 2⟩, "CHF"⟩ } ] := by
  refine ⟨⟨⟨rfl, by simp, by simp, rfl, by simp⟩, by unfold Txn.Balanced; decide +kernel, ⟨?_, by decide⟩,
           Or.inr ⟨_, rfl, by decide +kernel⟩,
           ⟨rfl, by simp, by simp, rfl, by simp⟩, by unfold Txn.Balanced; decide +kernel, ⟨?_, by decide⟩,
           Or.inr ⟨_, rfl, by decide +kernel⟩, trivial⟩, by decide +kernel⟩
  · intro fb hfb; rcases hfb with h | h <;> subst h <;> decide
  · intro fb hfb; rcases hfb with h | h <;> subst h <;> decide

end Okane.Import
