import Okane.Model.CmdText
/-!
# C02 at the level of the commands: `--start` / `--end` select what is REPORTED, never what is CHECKED

`okane balance [--start S] [--end E] FILE`, `okane register FILE [ACCOUNT]` and `okane balance -X C --now D … FILE` all run
book-keeping over the whole file before the first line is written (`Model/CmdText.lean`, compared byte for byte with the real
binary by C13 on every run).  Hence a ledger with a false balance assertion - or any other book-keeping error - is refused
with the same entry index and the same message under EVERY date range, account filter and conversion option.
-/
namespace Okane.CmdText
open Okane

/-- a book-keeping error fails `okane balance` under every date range, with the index of the offending entry and the message
of that error; a ledger book-keeping accepts is never refused by `balance` -/
theorem C02_cmd_balance_range (r : DateRange) (es : List Entry) :
    (∀ i e, process es = .err (i, e) → run (.balance r) es = .err (i, bkErrMsg e)) ∧
    (∀ x, run (.balance r) es = .err x → ∃ i e, process es = .err (i, e) ∧ x = (i, bkErrMsg e)) := by
  constructor
  · intro i e h; simp [run, finish, h]
  · intro x h
    simp only [run] at h
    cases hp : process es with
    | ok st => simp [hp, finish] at h
    | err ie => obtain ⟨i, e⟩ := ie; simp [hp, finish] at h; exact ⟨i, e, rfl, h.symm⟩
    | panic s => simp [hp, finish] at h
    | fuelOut => simp [hp, finish] at h

/-- the verdict of `okane balance` does not depend on the range asked for -/
theorem C02_cmd_range_irrelevant (r₁ r₂ : DateRange) (es : List Entry) (x : Nat × String) :
    run (.balance r₁) es = .err x ↔ run (.balance r₂) es = .err x := by
  simp only [run]
  cases process es <;> simp [finish]

/-- nor does the verdict of `register` depend on the account filter, and it is the verdict of `balance` -/
theorem C02_cmd_register_same_verdict (acct : Option String) (r : DateRange) (es : List Entry) (x : Nat × String) :
    run (.register acct) es = .err x ↔ run (.balance r) es = .err x := by
  simp only [run]
  cases process es <;> simp [finish]

/-- the converting report: a book-keeping error is reported as such (entry index, message) whatever target, valuation date,
strategy, range and price db were given -/
theorem C02_cmd_balance_x (cfg : Price.Cfg String) (dbText : Option (List Char)) (o : XOpts) (es : List Entry) (i : Nat) (e : BkErrS)
    (h : process es = .err (i, e)) : runX cfg dbText o es = .err (.book i (bkErrMsg e)) := by
  simp [runX, xFinish, h]

/-- non-vacuity: a transaction whose assertion is false (dated after any range one might ask for) is a book-keeping error -/
example : (match process
    [.txn { date := ⟨2024, 7, 15⟩, payee := "x",
            posts := [{ account := "A", amount := some ⟨.amt ⟨false, 5, 0, none⟩ "USD", none, {}⟩,
                        balance := some (.amt ⟨false, 6, 0, none⟩ "USD") },
                      { account := "B" }] }] with
    | .err (0, _) => true
    | _ => false) = true := by
  decide +kernel

end Okane.CmdText
