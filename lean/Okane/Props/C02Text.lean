import Okane.Lemmas.BookText3
import Okane.Lemmas.BookText5
/-!
# C02 on ledger TEXTS (parser model ∘ book-keeping)

The theorems live in `Lemmas/BookText2.lean` / `BookText3.lean` / `BookText5.lean` (namespace `Okane.BookText`; they cannot
live in `Props/C02.lean`, which `Props/Book.lean` — needed for the process-level invariants — imports):

* `C02_text_holds` — every accepted text, every posting line with an amount and `= X`: right after that line the account
  (canonical name of the account written) holds the evaluation of the `X` written — exactly, or nothing for `= 0`;
* `C02_text_reject` — a text whose `k`-th entry carries, at posting line `j`, an assertion that is false of the balance
  before the line plus the amount written, is rejected at entry `k` with `BalanceAssertionFailure` naming posting `j`, the
  computed balance and the difference;
* `C02_text_fileorder_stmt` (full strength, kept visible), `C02_text_fileorder_iff`, `C02_text_fileorder_false`
  (the F12 witness as a TEXT), `C02_text_fileorder_partial` (`OmittedNotReasserted`);
* `text_written` — "`= X` is written in the text" is `balance = some X` of the parsed posting, proved from the parser model.

This file: the hypotheses of these theorems are satisfiable on real ledger texts (kernel-evaluated), and what the
theorems then say about those texts.
-/
namespace Okane.C02Text
open Okane Okane.Spec Okane.BookText

/-- two transactions; the second one asserts `= 13 USD` after `3 USD` on an account that held `10 USD` -/
def exText : List Char := "2024/01/01 x\n A  = 10 USD\n B\n\n2024/01/02 y\n A  3 USD = 13 USD\n B\n".toList

/-- the hypotheses of `C02_text_holds` are satisfiable: `exText` is accepted, entry 1 is a transaction whose line 0
carries an amount and an assertion -/
example : ∃ es st txn p, ∃ hk : 1 < es.length, Denotes exText es st ∧ es[1] = .txn txn ∧ txn.posts[0]? = some p ∧
    (p.amount.isSome && p.balance.isSome) = true :=
  hyps_of_checks exText 1 0 _ (by decide +kernel) (by decide +kernel)

/-- … and `C02_text_holds` then says: right after that line, the account holds the asserted value -/
example : ∃ (rp : RPosting String String) (st2 : TxnState String String) (x : PostingAmt String),
    rp.balance = some x ∧ Spec.Holds x (Balance.get st2.bal rp.account) := by
  obtain ⟨es, st, txn, p, hk, hd, he, hj, hf⟩ :=
    hyps_of_checks exText 1 0 (fun p => p.amount.isSome && p.balance.isSome) (by decide +kernel) (by decide +kernel)
  simp only [Bool.and_eq_true] at hf
  obtain ⟨pa, hpa⟩ := Option.isSome_iff_exists.1 hf.1
  obtain ⟨X, hpb⟩ := Option.isSome_iff_exists.1 hf.2
  obtain ⟨stk, c1, st1, rp, c2, st2, ra, x, _, _, _, _, _, _, hx, _, hh⟩ :=
    C02_text_holds exText es st hd 1 hk txn he 0 p pa X hj hpa hpb
  exact ⟨rp, st2, x, hx, hh⟩

/-! ## rejection -/

/-- the same text with a false assertion (`= 14 USD`) -/
def exTextFalse : List Char := "2024/01/01 x\n A  = 10 USD\n B\n\n2024/01/02 y\n A  3 USD = 14 USD\n B\n".toList

/-- the hypotheses of `C02_text_reject` for posting line `j` of entry `k`, as a kernel-evaluable test (single-commodity
assertion) -/
def rejectCheck (t : List Char) (k j : Nat) : Bool :=
  match Parse.parseEntries t with
  | .ok es =>
    match es[k]? with
    | some (.txn txn) =>
      match process (es.take k), txn.posts[j]? with
      | .ok stk, some p =>
        match p.amount, p.balance with
        | some pa, some X =>
          match loopSyntax txn.date stk.ctx ⟨[], none, [], stk.bal, [], []⟩ 0 (txn.posts.take j) with
          | .ok (c1, st1) =>
            match resolveAmount c1.commodities pa with
            | .ok (ra, cs) =>
              match evalPostingAmt cs X with
              | .ok (.single s, _) =>
                decide (Amount.getPart (Spec.after (Balance.get st1.bal (c1.accounts.ensure p.account).1) ra.postingAmt)
                  s.commodity ≠ s.value)
              | _ => false
            | _ => false
          | _ => false
        | _, _ => false
      | _, _ => false
    | _ => false
  | _ => false

theorem reject_hyps_of_check (t : List Char) (k j : Nat) (h : rejectCheck t k j = true) :
    ∃ es txn stk p pa X c1 st1 ra x cs cs',
      Parse.parseEntries t = .ok es ∧ es[k]? = some (.txn txn) ∧ process (es.take k) = .ok stk ∧
      txn.posts[j]? = some p ∧ p.amount = some pa ∧ p.balance = some X ∧
      loopSyntax txn.date stk.ctx ⟨[], none, [], stk.bal, [], []⟩ 0 (txn.posts.take j) = .ok (c1, st1) ∧
      resolveAmount c1.commodities pa = .ok (ra, cs) ∧ evalPostingAmt cs X = .ok (x, cs') ∧
      ¬ Spec.Holds x (Spec.after (Balance.get st1.bal (c1.accounts.ensure p.account).1) ra.postingAmt) := by
  unfold rejectCheck at h
  repeat' split at h
  all_goals first | (cases h; done) | skip
  simp only [decide_eq_true_eq] at h
  exact ⟨_, _, _, _, _, _, _, _, _, _, _, _, ‹_›, ‹_›, ‹_›, ‹_›, ‹_›, ‹_›, ‹_›, ‹_›, ‹_›, by simpa [Spec.Holds] using h⟩

/-- the hypotheses of `C02_text_reject` are satisfiable on `exTextFalse` (entry 1, line 0) … -/
example : rejectCheck exTextFalse 1 0 = true := by decide +kernel

/-- … and the theorem then says: the text is rejected at entry 1 with `BalanceAssertionFailure` naming posting 0 -/
example : (∀ es, Parse.parseEntries exTextFalse = .ok es →
      ∃ computed diff, process es = .err (1, .assertionFailure 0 computed diff)) ∧ ¬ okaneAccepts exTextFalse := by
  obtain ⟨es, txn, stk, p, pa, X, c1, st1, ra, x, cs, cs', hp, hek, hpre, hj, hpa, hpb, hloop, hra, hx, hf⟩ :=
    reject_hyps_of_check exTextFalse 1 0 (by decide +kernel)
  obtain ⟨hk, he⟩ := List.getElem?_eq_some_iff.1 hek
  obtain ⟨g1, g2⟩ := C02_text_reject exTextFalse es hp 1 hk txn he stk hpre 0 p pa X hj hpa hpb c1 st1 hloop ra x cs cs' hra hx hf
  refine ⟨?_, g2⟩
  intro es' hp'
  have := parse_unique hp hp'
  subst this
  exact ⟨_, _, g1⟩


/-- the hypotheses of `C02_text_reject_sum` (falsity as a sum over the text's own postings) as a kernel-evaluable test -/
def rejectSumCheck (t : List Char) (k j : Nat) : Bool :=
  match Parse.parseEntries t with
  | .ok es =>
    match es[k]? with
    | some (.txn txn) =>
      match process (es.take k), txn.posts[j]? with
      | .ok stk, some p =>
        match p.amount, p.balance with
        | some pa, some X =>
          match loopSyntax txn.date stk.ctx ⟨[], none, [], stk.bal, [], []⟩ 0 (txn.posts.take j) with
          | .ok (c1, st1) =>
            match resolveAmount c1.commodities pa with
            | .ok (ra, cs) =>
              match evalPostingAmt cs X with
              | .ok (.single s, _) =>
                decide (ledgerSum stk.txns (c1.accounts.ensure p.account).1 s.commodity +
                  acctSum st1.postings (c1.accounts.ensure p.account).1 s.commodity +
                  Amount.getPart ra.postingAmt.toAmount s.commodity ≠ s.value)
              | _ => false
            | _ => false
          | _ => false
        | _, _ => false
      | _, _ => false
    | _ => false
  | _ => false

theorem rejectSum_hyps_of_check (t : List Char) (k j : Nat) (h : rejectSumCheck t k j = true) :
    ∃ es txn stk p pa X c1 st1 ra s cs cs',
      Parse.parseEntries t = .ok es ∧ es[k]? = some (.txn txn) ∧ process (es.take k) = .ok stk ∧
      txn.posts[j]? = some p ∧ p.amount = some pa ∧ p.balance = some X ∧
      loopSyntax txn.date stk.ctx ⟨[], none, [], stk.bal, [], []⟩ 0 (txn.posts.take j) = .ok (c1, st1) ∧
      resolveAmount c1.commodities pa = .ok (ra, cs) ∧ evalPostingAmt cs X = .ok (.single s, cs') ∧
      ledgerSum stk.txns (c1.accounts.ensure p.account).1 s.commodity +
        acctSum st1.postings (c1.accounts.ensure p.account).1 s.commodity +
        Amount.getPart ra.postingAmt.toAmount s.commodity ≠ s.value := by
  unfold rejectSumCheck at h
  repeat' split at h
  all_goals first | (cases h; done) | skip
  simp only [decide_eq_true_eq] at h
  exact ⟨_, _, _, _, _, _, _, _, _, _, _, _, ‹_›, ‹_›, ‹_›, ‹_›, ‹_›, ‹_›, ‹_›, ‹_›, ‹_›, h⟩

/-- `C02_text_reject_sum` on `exTextFalse`: 10 USD booked by the first transaction + nothing before line 0 + 3 USD written
≠ 14 USD asserted, hence rejected at entry 1 -/
example : ¬ okaneAccepts exTextFalse := by
  obtain ⟨es, txn, stk, p, pa, X, c1, st1, ra, s, cs, cs', hp, hek, hpre, hj, hpa, hpb, hloop, hra, hx, hs⟩ :=
    rejectSum_hyps_of_check exTextFalse 1 0 (by decide +kernel)
  obtain ⟨hk, he⟩ := List.getElem?_eq_some_iff.1 hek
  exact (C02_text_reject_sum exTextFalse es hp 1 hk txn he stk hpre 0 p pa X hj hpa hpb c1 st1 hloop ra s cs cs' hra hx hs).2


/-! ## after the transaction -/

/-- the hypotheses and the side condition of `C02_text_holds_after` for posting line `j` of entry `k`, as a kernel-evaluable
test -/
def afterCheck (t : List Char) (k j : Nat) : Bool :=
  match Parse.parseEntries t with
  | .ok es =>
    match es[k]? with
    | some (.txn txn) =>
      match process (es.take k), process (es.take (k + 1)), txn.posts[j]? with
      | .ok stk, .ok stk', some p =>
        match p.amount, p.balance with
        | some _, some _ =>
          match loopSyntax txn.date stk.ctx ⟨[], none, [], stk.bal, [], []⟩ 0 (txn.posts.take j) with
          | .ok (c1, _) =>
            match resolvePosting c1 p with
            | .ok (rp, _) =>
              (List.range txn.posts.length).all fun u =>
                match txn.posts[u]? with
                | some q => !(decide (j < u) || bare q) || decide (stk'.ctx.accounts.resolve q.account ≠ some rp.account)
                | none => true
            | _ => false
          | _ => false
        | _, _ => false
      | _, _, _ => false
    | _ => false
  | _ => false

theorem after_hyps_of_check (t : List Char) (k j : Nat) (h : afterCheck t k j = true) :
    ∃ es txn stk stk' p pa X c1 st1 rp c2,
      Parse.parseEntries t = .ok es ∧ es[k]? = some (.txn txn) ∧ process (es.take k) = .ok stk ∧
      process (es.take (k + 1)) = .ok stk' ∧ txn.posts[j]? = some p ∧ p.amount = some pa ∧ p.balance = some X ∧
      loopSyntax txn.date stk.ctx ⟨[], none, [], stk.bal, [], []⟩ 0 (txn.posts.take j) = .ok (c1, st1) ∧
      resolvePosting c1 p = .ok (rp, c2) ∧
      ∀ (u : Nat) (q : Posting), txn.posts[u]? = some q → (j < u ∨ bare q = true) →
        stk'.ctx.accounts.resolve q.account ≠ some rp.account := by
  unfold afterCheck at h
  repeat' split at h
  all_goals first | (cases h; done) | skip
  refine ⟨_, _, _, _, _, _, _, _, _, _, _, ‹_›, ‹_›, ‹_›, ‹_›, ‹_›, ‹_›, ‹_›, ‹_›, ‹_›, ?_⟩
  intro u q hq hc
  rw [List.all_eq_true] at h
  have hlt := (List.getElem?_eq_some_iff.1 hq).1
  have := h u (List.mem_range.2 hlt)
  rw [hq] at this
  simp only [Bool.or_eq_true, Bool.not_eq_true', Bool.or_eq_false_iff, decide_eq_false_iff_not, decide_eq_true_eq] at this
  rcases this with ⟨h1, h2⟩ | h3
  · rcases hc with hc | hc
    · exact absurd hc h1
    · rw [hc] at h2; cases h2
  · exact h3

/-- the side condition is satisfiable (`exText`, entry 1, line 0: the only other line is `B`), and `C02_text_holds_after` then
says that the account still holds the asserted value when the transaction has been booked -/
example : ∃ (stk' : ProcState) (a : String) (x : PostingAmt String), Spec.Holds x (Balance.get stk'.bal a) := by
  obtain ⟨es, txn, stk, stk', p, pa, X, c1, st1, rp, c2, hp, hek, hpre, hpost, hj, hpa, hpb, hloop, hres, hside⟩ :=
    after_hyps_of_check exText 1 0 (by decide +kernel)
  obtain ⟨hk, he⟩ := List.getElem?_eq_some_iff.1 hek
  obtain ⟨es', st, hd⟩ := denotes_of_check (t := exText) (by decide +kernel)
  have := parse_unique hp hd.1
  subst this
  obtain ⟨stk2, stk2', c1', st1', rp', c2', st2', x, g1, g2, hat, _, _, himp⟩ :=
    C02_text_holds_after exText es st hd 1 hk txn he 0 p pa X hj hpa hpb
  -- the theorem's states are the ones the test computed
  have e1 : stk2 = stk := by rw [hpre] at g1; simpa using g1.symm
  have e2 : stk2' = stk' := by rw [hpost] at g2; simpa using g2.symm
  subst e1; subst e2
  have e3 := hat.before.symm.trans hloop
  simp only [Outcome.ok.injEq, Prod.mk.injEq] at e3
  obtain ⟨rfl, rfl⟩ := e3
  have e4 := hat.resolved.symm.trans hres
  simp only [Outcome.ok.injEq, Prod.mk.injEq] at e4
  obtain ⟨rfl, rfl⟩ := e4
  exact ⟨stk2', rp'.account, x, himp hside⟩

/-! ## file order (F12) -/

/-- the F12 text is accepted, and its asserted line fails the file-order test: the negation witness -/
example : okaneAccepts f12Text ∧ fileOrderCheck f12Text 0 1 = false := ⟨f12Text_accepted, by decide +kernel⟩

/-- `C02_text_fileorder_partial` is not vacuous: on `exText` the side condition holds (the bare line `B` comes after the
asserted line) and the file-order test passes -/
example : fileOrderCheck exText 1 0 = true := by decide +kernel

/-! ## what is written -/

/-- `text_written` on `exText`: the `= 13 USD` of entry 1, line 0 stands in the text as `=`, a blank, and a text the
expression parser reads as the assertion of the tree -/
example : ∃ p X i2, (lineAt exText 1 0 = some p) ∧ p.balance = some X ∧ i2 <:+ exText ∧ AssertionAt i2 X := by
  obtain ⟨es, st, txn, p, hk, hd, he, hj, hf⟩ :=
    hyps_of_checks exText 1 0 (fun p => p.amount.isSome && p.balance.isSome) (by decide +kernel) (by decide +kernel)
  simp only [Bool.and_eq_true] at hf
  obtain ⟨X, hpb⟩ := Option.isSome_iff_exists.1 hf.2
  have hm : Entry.txn txn ∈ es := he ▸ List.getElem_mem hk
  obtain ⟨i0, i1, i2, h0, h1, h2, _, _, _, _, hw⟩ := text_written exText es hd.1 txn hm p (List.mem_of_getElem? hj)
  refine ⟨p, X, i2, ?_, hpb, (h2.trans h1).trans h0, hw X hpb⟩
  unfold lineAt
  rw [hd.1]
  simp only
  have : es[1]? = some (.txn txn) := by rw [List.getElem?_eq_some_iff]; exact ⟨hk, he⟩
  rw [this]
  exact hj

end Okane.C02Text
