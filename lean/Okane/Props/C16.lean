import Okane.Model.ImportCsv
import Okane.Lemmas.ImportTxn
import Okane.Lemmas.ImportConvCsv
import Okane.Lemmas.ImportCsvCells
import Okane.Lemmas.ImportCsvCellsUse
import Okane.Lemmas.CsvTextFacts
import Okane.Lemmas.CsvTextTotal
import Okane.Lemmas.CsvTextNormal
/-!
# C16 — CSV import books each row with the right sign, amount and balance

Model: `Okane.Import.csvImport` (`Model/ImportCsv.lean`, mirror of `cli/src/import/csv.rs` after decoding) on top of
`Txn` / `toDoubleEntry` (`Model/Import.lean`), composed with the book-keeping model `process` (`Model/Process.lean`).
All theorems hold for every number parser, date parser and regex engine (`CsvEnv`).
-/
namespace Okane.Import
open Okane

/-! ## sign and amount -/

/-- what a non-empty cell means to `str_to_comma_decimal` -/
theorem strToCommaDecimal_some (env : CsvEnv) (s : String) (v : Option Dec) (h : strToCommaDecimal env s = .ok v)
    (hs : s.isEmpty = false) : ∃ d, v = some d ∧ env.parseAmt s = some d := by
  unfold strToCommaDecimal at h
  simp only [hs] at h
  cases hp : env.parseAmt s with
  | none => simp [hp] at h
  | some d => simp [hp] at h; exact ⟨d, h.symm, rfl⟩

/-- **C16_sign (credit/debit columns).**  With a credit and a debit column the row moves the account by `+credit` when the
credit cell holds something other than zero (or the debit cell is empty) and by `−debit` otherwise — whatever the account
type (`CreditDebitRule`; after fix F41 a zero printed in the credit cell of a debit row no longer hides the debit). -/
theorem C16_sign_credit_debit (env : CsvEnv) (fm : FieldMap) (at_ : AccountType) (rec : List String)
    (cf df : CsvField) (a : Dec) (hv : fm.value = .creditDebit cf df) (h : fm.amount env at_ rec = .ok a) :
    ∃ credit debit, fm.resolve .credit cf rec = .ok (some credit) ∧ fm.resolve .debit df rec = .ok (some debit) ∧
      CreditDebitRule env.parseAmt credit debit a :=
  CellsUse.sign_credit_debit env fm at_ rec cf df a hv h

/-- **C16_sign (amount column).**  With an `amount` column the row moves an asset account by the amount and a
liability account by its negation (an empty cell counts as zero). -/
theorem C16_sign_amount (env : CsvEnv) (fm : FieldMap) (at_ : AccountType) (rec : List String)
    (f : CsvField) (a : Dec) (hv : fm.value = .amount f) (h : fm.amount env at_ rec = .ok a) :
    ∃ cell v, fm.resolve .amount f rec = .ok (some cell) ∧ strToCommaDecimal env cell = .ok v ∧
      (at_ = .asset → a = v.getD {}) ∧ (at_ = .liability → a = (v.getD {}).negate) := by
  unfold FieldMap.amount at h
  simp only [hv] at h
  split at h <;> try (simp at h; done)
  rename_i cell hc
  split at h <;> try (simp at h; done)
  rename_i v hs
  simp at h
  refine ⟨cell, v, hc, hs, ?_, ?_⟩ <;> intro hat <;> subst hat <;> exact h.symm

theorem readRow_amount (env : CsvEnv) (cfg : CsvCfg) (fm : FieldMap) (rec : List String) (v : RowValues)
    (h : readRow env cfg fm rec = .ok (some v)) : fm.amount env cfg.accountType rec = .ok v.amount := by
  unfold readRow at h
  simp only [bind, Outcome.bind] at h
  repeat' split at h
  all_goals first | (simp at h; done) | skip
  all_goals (simp at h; try (subst h; assumption))

/-- everything `csv::import` does before the conversion block leaves the amount, date, balance as read, no rate,
no transferred amount, and at most one charge (non-zero, in the row's commodity). -/
theorem baseTxn_spec (env : CsvEnv) (cfg : CsvCfg) (fm : FieldMap) (rec : List String) (v : RowValues) (t : Txn)
    (h : baseTxn env cfg fm rec v = .ok t) :
    t.amount = ⟨v.amount, v.commodity⟩ ∧ t.date = v.date ∧ t.rates = [] ∧ t.transferredAmount = none ∧
    t.balance = v.balance.map (fun b => ⟨b, v.commodity⟩) ∧
    t.destAccount = (rowFragment env cfg v).account ∧
    (t.charges = [] ∨ ∃ op value, t.charges = [⟨op, ⟨value, v.commodity⟩⟩] ∧ value.isZero = false) := by
  unfold baseTxn at h
  repeat' split at h
  all_goals first | (simp at h; done) | skip
  all_goals simp only [Outcome.ok.injEq] at h
  all_goals subst h
  all_goals simp [Txn.new, Txn.codeOption, Txn.destAccountOption, Txn.setClearState, Txn.addComment, Txn.setBalance,
    Txn.addCharge]
  all_goals (try (split <;> simp_all))
  all_goals (try (split <;> simp_all))
  all_goals (try exact ⟨_, _, ⟨rfl, rfl⟩, by assumption⟩)

theorem addRate_ok (t t' : Txn) (key : CommodityPair) (rate : Dec) (h : t.addRate key rate = .ok t') :
    key.source ≠ key.target ∧ t' = { t with rates := AMap.insert t.rates key.target ⟨rate, key.source⟩ } := by
  unfold Txn.addRate at h
  split at h
  · simp at h
  · rename_i hne
    refine ⟨hne, ?_⟩
    simp only at h
    cases hg : AMap.get? t.rates key.target with
    | none => simp [hg] at h; exact h.symm
    | some ex =>
      simp only [hg] at h
      split at h
      · simp at h
      · simp at h; exact h.symm

/-- **C16_counter (no conversion).**  Without a conversion the counter-posting is `−amount` in the same commodity,
and no rate is attached to either posting. -/
theorem C16_counter_plain (env : CsvEnv) (cfg : CsvCfg) (fm : FieldMap) (rec : List String) (v : RowValues)
    (txn : Txn) (i : Bool) (h : buildTxn env cfg fm rec v = .ok (txn, i)) (hno : selectedConversion env cfg v = none) :
    txn.amount = ⟨v.amount, v.commodity⟩ ∧
    txn.destAmount = { amount := .amt v.amount.negate.toPDec v.commodity, cost := none, lot := {} } ∧
    txn.srcAmount = { amount := .amt v.amount.toPDec v.commodity, cost := none, lot := {} } := by
  unfold buildTxn at h
  split at h <;> try (simp at h; done)
  rename_i t hb
  rw [hno] at h
  simp only [Outcome.ok.injEq, Prod.mk.injEq] at h
  obtain ⟨ht, _⟩ := h
  subst ht
  obtain ⟨ha, _, hr, htr, _, _, _⟩ := baseTxn_spec env cfg fm rec v t hb
  refine ⟨ha, ?_, ?_⟩
  · simp [Txn.destAmount, htr, Txn.toPostingAmount, Txn.asSyntaxAmount, Txn.rate, hr, ha, OwnedAmount.negate]
  · simp [Txn.srcAmount, Txn.toPostingAmount, Txn.asSyntaxAmount, Txn.rate, hr, ha]

/-- **C16_counter (conversion).**  When a conversion applies, with secondary commodity `sc` (the rule's `commodity`,
else the record's), the counter-posting carries the secondary amount — the statement's own figure (`extract`) or
`amount × rate` / `amount ÷ rate` (`compute`) — with the sign flag opposite to the primary amount, and `@ rate` is
attached to the commodity it prices: to the account posting in the *secondary* unit for `price_of_primary`, to the
counter-posting in the *primary* unit for `price_of_secondary`; the other posting carries no rate. -/
theorem C16_counter_conversion (base txn : Txn) (conv : Conversion) (amount : Dec) (commodity : String)
    (rate : Option Dec) (sa : Option Dec) (scField : Option String) (i : Bool)
    (hbase : base.amount = ⟨amount, commodity⟩) (hr : base.rates = [])
    (h : applyConversion base conv amount commodity rate sa scField = .ok (txn, i)) :
    ∃ r sc tr, rate = some r ∧ conv.commodity.or scField = some sc ∧ sc ≠ commodity ∧
      txn.amount = ⟨amount, commodity⟩ ∧
      txn.transferredAmount = some ⟨tr, sc⟩ ∧
      (conv.amount = .extract → sa = some tr) ∧
      (conv.amount = .compute → conv.rate = .priceOfPrimary → tr = Dec.mul amount r) ∧
      (conv.amount = .compute → conv.rate = .priceOfSecondary → ∃ flag, Dec.div amount r = .ok (tr, flag)) ∧
      -- the counter amount: magnitude of the secondary amount, sign flag opposite to the primary
      (∃ cost, txn.destAmount = { amount := .amt ⟨!amount.neg, tr.mant, tr.scale, none⟩ sc, cost := cost, lot := {} } ∧
        (conv.rate = .priceOfPrimary → cost = none ∧
            txn.srcAmount = { amount := .amt amount.toPDec commodity, cost := some (.rate (.amt r.toPDec sc)), lot := {} }) ∧
        (conv.rate = .priceOfSecondary → cost = some (.rate (.amt r.toPDec commodity)) ∧
            txn.srcAmount = { amount := .amt amount.toPDec commodity, cost := none, lot := {} })) := by
  unfold applyConversion at h
  cases rate with
  | none => simp at h
  | some r =>
    simp only at h
    cases hsc : conv.commodity.or scField with
    | none => simp [hsc] at h
    | some sc =>
      simp only [hsc] at h
      cases hrm : conv.rate with
      | priceOfPrimary =>
        simp only [hrm] at h
        split at h <;> try (simp at h; done)
        rename_i t1 hadd
        obtain ⟨hne, ht1⟩ := addRate_ok _ _ _ _ hadd
        simp only at hne
        cases ham : conv.amount with
        | extract =>
          simp only [ham] at h
          cases sa with
          | none => simp at h
          | some tr =>
            simp only [Outcome.ok.injEq, Prod.mk.injEq] at h
            obtain ⟨ht, _⟩ := h
            subst ht; subst ht1
            refine ⟨r, sc, tr, rfl, rfl, hne, by simp [Txn.setTransferredAmount, hbase], by simp [Txn.setTransferredAmount],
              by simp, by simp, by simp, none, ?_, ?_, by simp⟩
            · simp [Txn.destAmount, Txn.setTransferredAmount, Txn.toPostingAmount, Txn.asSyntaxAmount, Txn.amountWithSign,
                Txn.rate, hr, AMap.insert, AMap.get?, hbase, Dec.setSignPositive, Dec.isSignPositive, Dec.negate, Dec.toPDec, Ne.symm hne]
            · intro _
              simp [Txn.srcAmount, Txn.setTransferredAmount, Txn.toPostingAmount, Txn.asSyntaxAmount, Txn.rate, hr,
                AMap.insert, AMap.get?, hbase]
        | compute =>
          simp only [ham, Outcome.ok.injEq, Prod.mk.injEq] at h
          obtain ⟨ht, _⟩ := h
          subst ht; subst ht1
          refine ⟨r, sc, Dec.mul amount r, rfl, rfl, hne, by simp [Txn.setTransferredAmount, hbase],
            by simp [Txn.setTransferredAmount], by simp, by simp, by simp, none, ?_, ?_, by simp⟩
          · simp [Txn.destAmount, Txn.setTransferredAmount, Txn.toPostingAmount, Txn.asSyntaxAmount, Txn.amountWithSign,
              Txn.rate, hr, AMap.insert, AMap.get?, hbase, Dec.setSignPositive, Dec.isSignPositive, Dec.negate, Dec.toPDec, Ne.symm hne]
          · intro _
            simp [Txn.srcAmount, Txn.setTransferredAmount, Txn.toPostingAmount, Txn.asSyntaxAmount, Txn.rate, hr,
              AMap.insert, AMap.get?, hbase]
      | priceOfSecondary =>
        simp only [hrm] at h
        cases hdiv : Dec.div amount r with
        | err e => simp [hdiv] at h
        | panic s => simp [hdiv] at h
        | fuelOut => simp [hdiv] at h
        | ok qf =>
          obtain ⟨q, flag⟩ := qf
          simp only [hdiv] at h
          split at h <;> try (simp at h; done)
          rename_i t1 hadd
          obtain ⟨hne, ht1⟩ := addRate_ok _ _ _ _ hadd
          simp only at hne
          cases ham : conv.amount with
          | extract =>
            simp only [ham] at h
            cases sa with
            | none => simp at h
            | some tr =>
              simp only [Outcome.ok.injEq, Prod.mk.injEq] at h
              obtain ⟨ht, _⟩ := h
              subst ht; subst ht1
              refine ⟨r, sc, tr, rfl, rfl, Ne.symm hne, by simp [Txn.setTransferredAmount, hbase],
                by simp [Txn.setTransferredAmount], by simp, by simp, by simp, some (.rate (.amt r.toPDec commodity)), ?_, by simp, ?_⟩
              · simp [Txn.destAmount, Txn.setTransferredAmount, Txn.toPostingAmount, Txn.asSyntaxAmount,
                  Txn.amountWithSign, Txn.rate, hr, AMap.insert, AMap.get?, hbase, Dec.setSignPositive,
                  Dec.isSignPositive, Dec.negate, Dec.toPDec]
              · intro _
                refine ⟨rfl, ?_⟩
                simp [Txn.srcAmount, Txn.setTransferredAmount, Txn.toPostingAmount, Txn.asSyntaxAmount, Txn.rate, hr,
                  AMap.insert, AMap.get?, hbase, Ne.symm hne]
          | compute =>
            simp only [ham, Outcome.ok.injEq, Prod.mk.injEq] at h
            obtain ⟨ht, _⟩ := h
            subst ht; subst ht1
            refine ⟨r, sc, q, rfl, rfl, Ne.symm hne, by simp [Txn.setTransferredAmount, hbase],
              by simp [Txn.setTransferredAmount], by simp, by simp, fun _ _ => ⟨flag, hdiv⟩, some (.rate (.amt r.toPDec commodity)), ?_, by simp, ?_⟩
            · simp [Txn.destAmount, Txn.setTransferredAmount, Txn.toPostingAmount, Txn.asSyntaxAmount,
                Txn.amountWithSign, Txn.rate, hr, AMap.insert, AMap.get?, hbase, Dec.setSignPositive,
                Dec.isSignPositive, Dec.negate, Dec.toPDec]
            · intro _
              refine ⟨rfl, ?_⟩
              simp [Txn.srcAmount, Txn.setTransferredAmount, Txn.toPostingAmount, Txn.asSyntaxAmount, Txn.rate, hr,
                AMap.insert, AMap.get?, hbase, Ne.symm hne]

/-! ## row order -/

/-- the statement is monotone in the declared order -/
def DeclaredMonotone (o : RowOrder) (l : List Txn) : Prop :=
  match o with
  | .oldToNew => l.Pairwise (fun a b => a.date ≤ b.date)
  | .newToOld => l.Pairwise (fun a b => b.date ≤ a.date)

/-- **C16_order.**  The importer hands over one transaction per dated record, in file order for `old_to_new` and in
reverse file order for `new_to_old`; so a statement that is monotone in the declared order comes out oldest first. -/
theorem C16_order (env : CsvEnv) (cfg : CsvCfg) (header : List String) (records : List (List String))
    (txns : List Txn) (h : csvImport env cfg header records = .ok txns) :
    ∃ fm ts, FieldMap.tryNew cfg.fields header = .ok fm ∧ csvRows env cfg fm records = .ok ts ∧
      txns = applyRowOrder cfg.rowOrder (ts.map Prod.fst) ∧
      (DeclaredMonotone cfg.rowOrder (ts.map Prod.fst) → txns.Pairwise (fun a b => a.date ≤ b.date)) := by
  unfold csvImport csvImportFlagged at h
  cases hfm : FieldMap.tryNew cfg.fields header with
  | err e => simp [hfm, Outcome.map'] at h
  | panic s => simp [hfm, Outcome.map'] at h
  | fuelOut => simp [hfm, Outcome.map'] at h
  | ok fm =>
    cases hrows : csvRows env cfg fm records with
    | err e => simp [hfm, hrows, Outcome.map'] at h
    | panic s => simp [hfm, hrows, Outcome.map'] at h
    | fuelOut => simp [hfm, hrows, Outcome.map'] at h
    | ok ts =>
      simp only [hfm, hrows, Outcome.map', Outcome.ok.injEq] at h
      have hmap : txns = applyRowOrder cfg.rowOrder (ts.map Prod.fst) := by
        rw [← h]
        unfold applyRowOrder
        cases cfg.rowOrder <;> simp [List.map_reverse]
      refine ⟨fm, ts, rfl, hrows, hmap, ?_⟩
      intro hm
      rw [hmap]
      unfold DeclaredMonotone at hm
      unfold applyRowOrder
      cases ho : cfg.rowOrder with
      | oldToNew => simpa [ho] using hm
      | newToOld =>
        simp only [ho] at hm ⊢
        exact List.pairwise_reverse.2 hm

/-! ## acceptance by okane's own book-keeping -/

/-- every row carries the running balance of the account: `bᵢ = bᵢ₋₁ + amountᵢ` (starting from `x`) -/
def ConsistentRunningBalance (c : String) : Rat → List Txn → Prop
  | _, [] => True
  | x, t :: ts =>
    (∃ b, t.balance = some ⟨b, c⟩ ∧ b.toRat = x + t.amount.value.toRat) ∧
    ConsistentRunningBalance c (x + t.amount.value.toRat) ts

theorem runX_last (c : String) : ∀ (txns : List Txn) (x : Rat), ConsistentRunningBalance c x txns →
    ∀ t b, txns.getLast? = some t → t.balance = some ⟨b, c⟩ → runX x txns = b.toRat := by
  intro txns
  induction txns with
  | nil => intro x _ t b h; simp at h
  | cons t ts ih =>
    intro x h tl b hl hb
    obtain ⟨⟨b', hb', hv⟩, hrest⟩ := h
    cases ts with
    | nil =>
      simp at hl
      subst hl
      rw [hb'] at hb
      simp at hb
      subst hb
      simp [runX, hv]
    | cons t2 ts2 =>
      have : (t2 :: ts2).getLast? = some tl := by simpa [List.getLast?_cons_cons] using hl
      simpa [runX] using ih _ hrest tl b this hb

/-- a balanced run from a consistent running balance, when no row has a charge or a conversion -/
theorem runOK_of_plain (acct c : String) : ∀ (txns : List Txn) (x : Rat),
    (∀ t ∈ txns, t.Mono c ∧ t.OtherAccounts acct ∧ t.transferredAmount = none ∧ t.charges = []) →
    ConsistentRunningBalance c x txns → RunOK acct c x txns := by
  intro txns
  induction txns with
  | nil => intro _ _ _; trivial
  | cons t ts ih =>
    intro x hp hb
    obtain ⟨hm, ho, htr, hch⟩ := hp t (by simp)
    obtain ⟨hbt, hrest⟩ := hb
    refine ⟨hm, ?_, ho, Or.inr hbt, ih _ (fun t' h' => hp t' (by simp [h'])) hrest⟩
    unfold Txn.Balanced Txn.destVal
    rw [hch, htr]
    simp only [chargeSum, Dec.negate_toRat]
    grind

/-- **C16_accepts (rows without charge and without conversion).**  Given that the account held `b₀` beforehand,
a CSV statement whose running-balance column is consistent imports into a ledger that the book-keeping model
accepts, and the account ends at the statement's last balance. -/
theorem C16_accepts_partial (env : CsvEnv) (cfg : CsvCfg) (header : List String) (records : List (List String))
    (txns : List Txn) (c : String) (date : Date) (b₀ : Dec)
    (_himp : csvImport env cfg header records = .ok txns)
    (hc : c ≠ "") (hne : "Equity:Opening" ≠ cfg.account)
    (hrows : ∀ t ∈ txns, t.Mono c ∧ t.OtherAccounts cfg.account ∧ t.transferredAmount = none)
    (hnocharge : ∀ t ∈ txns, t.charges = [])
    (hbal : ConsistentRunningBalance c b₀.toRat txns) :
    ∃ trs st, ledgerOf cfg.account txns = .ok trs ∧
      process (Entry.txn (fundTxn cfg.account date b₀ c) :: trs.map Entry.txn) = .ok st ∧
      Amount.getPart (Balance.get st.bal cfg.account) c = runX b₀.toRat txns ∧
      (∀ t b, txns.getLast? = some t → t.balance = some ⟨b, c⟩ →
        Amount.getPart (Balance.get st.bal cfg.account) c = b.toRat) := by
  have hrun := runOK_of_plain cfg.account c txns b₀.toRat
    (fun t ht => ⟨(hrows t ht).1, (hrows t ht).2.1, (hrows t ht).2.2, hnocharge t ht⟩) hbal
  obtain ⟨trs, st, hl, hp, hv⟩ := run_accepts cfg.account c hc hne date b₀ txns hrun
  exact ⟨trs, st, hl, hp, hv, fun t b hlast hb => by rw [hv]; exact runX_last c txns _ hbal t b hlast hb⟩

/-- The statement at full strength: as `C16_accepts_partial`, but rows may carry a charge. -/
def C16_accepts_full : Prop :=
  ∀ (acct c : String) (date : Date) (b₀ : Dec) (txns : List Txn), c ≠ "" → "Equity:Opening" ≠ acct →
    (∀ t ∈ txns, t.Mono c ∧ t.OtherAccounts acct ∧ t.transferredAmount = none) →
    ConsistentRunningBalance c b₀.toRat txns →
    ∃ trs st, ledgerOf acct txns = .ok trs ∧
      process (Entry.txn (fundTxn acct date b₀ c) :: trs.map Entry.txn) = .ok st ∧
      Amount.getPart (Balance.get st.bal acct) c = runX b₀.toRat txns

/-- F19's row: `-50.00`, charge `2.00`, balance `950.00` (account held `1000.00`). -/
def f19Txn : Txn :=
  { date := ⟨2024, 1, 2⟩, payee := "shop", amount := ⟨⟨true, 5000, 2⟩, "USD"⟩, clearState := some .pending,
    balance := some ⟨⟨false, 95000, 2⟩, "USD"⟩, charges := [⟨"The Bank", ⟨⟨false, 200, 2⟩, "USD"⟩⟩] }

def f19Ledger : List Entry :=
  match ledgerOf "Assets:Bank" [f19Txn] with
  | .ok trs => Entry.txn (fundTxn "Assets:Bank" ⟨2024, 1, 1⟩ ⟨false, 100000, 2⟩ "USD") :: trs.map Entry.txn
  | _ => []

theorem f19Ledger_rejected : (process f19Ledger).isOk = false := by decide +kernel

/-- **F19.**  The full statement is false: the charge posting is added without adjusting the counter-posting, the
printed transaction does not balance, and the book-keeping rejects it. -/
theorem C16_accepts_full_false : ¬ C16_accepts_full := by
  intro h
  have hm : f19Txn.Mono "USD" := by
    refine ⟨rfl, ?_, ?_, rfl, ?_⟩
    · intro ch hch; simp [f19Txn] at hch; subst hch; rfl
    · intro tr htr; simp [f19Txn] at htr
    · intro b hb; simp [f19Txn] at hb; subst hb; rfl
  have ho : f19Txn.OtherAccounts "Assets:Bank" := by
    refine ⟨?_, by decide⟩
    intro fb hfb
    rcases hfb with h1 | h1 <;> subst h1 <;> decide
  have hcrb : ConsistentRunningBalance "USD" (⟨false, 100000, 2⟩ : Dec).toRat [f19Txn] :=
    ⟨⟨⟨false, 95000, 2⟩, rfl, by decide +kernel⟩, trivial⟩
  obtain ⟨trs, st, hl, hp, _⟩ := h "Assets:Bank" "USD" ⟨2024, 1, 1⟩ ⟨false, 100000, 2⟩ [f19Txn] (by decide) (by decide)
    (fun t ht => by simp at ht; subst ht; exact ⟨hm, ho, rfl⟩) hcrb
  have hrej := f19Ledger_rejected
  unfold f19Ledger at hrej
  rw [hl] at hrej
  simp only at hrej
  rw [hp] at hrej
  simp [Outcome.isOk] at hrej

/-! ## non-vacuity: the hypotheses are met by concrete statements -/

/-- decoders for the examples: a two-entry number table, ISO dates `2024-01-0d`, no regex match -/
def exEnv : CsvEnv :=
  { parseAmt := fun s =>
      if s = "-50.00" then some ⟨true, 5000, 2⟩ else if s = "2.00" then some ⟨false, 200, 2⟩
      else if s = "950.00" then some ⟨false, 95000, 2⟩ else if s = "25.5" then some ⟨false, 255, 1⟩
      else if s = "975.50" then some ⟨false, 97550, 2⟩ else none
    parseDate := fun s => if s = "2024-01-02" then some ⟨2024, 1, 2⟩ else if s = "2024-01-03" then some ⟨2024, 1, 3⟩ else none
    cap := fun _ _ => none }

def exCfg (charge : Bool) (order : RowOrder) : CsvCfg :=
  { account := "Assets:Bank", accountType := .asset, operator := some "The Bank", primary := "USD", conversion := {},
    rowOrder := order,
    fields := [(.date, .index 1), (.payee, .label "payee"), (.amount, .index 3), (.balance, .index 5)] ++
      (if charge then [(.charge, .index 4)] else []),
    rewrite := [] }

def exHeader : List String := ["date", "payee", "amount", "charge", "balance"]

/-- F19's witness is what the importer model makes of the CSV row `2024-01-02,shop,-50.00,2.00,950.00`. -/
example : csvImport exEnv (exCfg true .oldToNew) exHeader [["2024-01-02", "shop", "-50.00", "2.00", "950.00"]] = .ok [f19Txn] := by
  rfl

/-- a statement without charge column, newest row first: imported oldest first, accepted, ends at 975.50 -/
def exRecords : List (List String) :=
  [["2024-01-03", "refund", "25.5", "", "975.50"], ["2024-01-02", "shop", "-50.00", "", "950.00"]]

example :
    (match csvImport exEnv (exCfg false .newToOld) exHeader exRecords with
     | .ok txns =>
       txns.map (·.date) == [⟨2024, 1, 2⟩, ⟨2024, 1, 3⟩] &&
       (match ledgerOf "Assets:Bank" txns with
        | .ok trs =>
          (match process (Entry.txn (fundTxn "Assets:Bank" ⟨2024, 1, 1⟩ ⟨false, 100000, 2⟩ "USD") :: trs.map Entry.txn) with
           | .ok st => Amount.getPart (Balance.get st.bal "Assets:Bank") "USD" == (⟨false, 97550, 2⟩ : Dec).toRat
           | _ => false)
        | _ => false)
     | _ => false) = true := by
  decide +kernel

/-! ## acceptance with currency conversions, and with zero charges

A row with a conversion prints `amount c @ r sc` / `∓|tr| sc` (`price_of_primary`) or `amount c` / `∓|tr| sc @ r c`
(`price_of_secondary`).  The book-keeping (no commodity has a declared precision in the printed ledger, so nothing
is rounded) accepts it exactly when the two sides cancel after applying the rate: `Txn.ConvPrimary.consistent`
(`|tr| = r·|amount|`), `Txn.ConvSecondary.consistent` (`|amount| = r·|tr|`), with `r ≠ 0`
(`Lemmas/ImportConvTxn.lean`).  On the CSV row that is `ConvConsistent` (`Lemmas/ImportConvCsv.lean`). -/

/-- **C16_accepts (conversions, zero charges).**  Given that the account held `b₀` beforehand, a CSV statement whose
running-balance column is consistent and whose rows are either single-commodity with no or only zero charges, or
carry a conversion that is consistent with its rate (and no charge), imports into a ledger that the book-keeping
model accepts, and the account ends at the statement's last balance. -/
theorem C16_accepts_conversion (env : CsvEnv) (cfg : CsvCfg) (header : List String) (records : List (List String))
    (txns : List Txn) (c : String) (date : Date) (b₀ : Dec)
    (_himp : csvImport env cfg header records = .ok txns)
    (hc : c ≠ "") (hne : "Equity:Opening" ≠ cfg.account)
    (hrows : ∀ t ∈ txns, t.OtherAccounts cfg.account ∧
      ((t.Mono c ∧ t.transferredAmount = none ∧ ∀ ch ∈ t.charges, ch.amount.value.isZero = true) ∨
       (t.charges = [] ∧ t.ConvRow c)))
    (hbal : ConsistentRunningBalance c b₀.toRat txns) :
    ∃ trs st, ledgerOf cfg.account txns = .ok trs ∧
      process (Entry.txn (fundTxn cfg.account date b₀ c) :: trs.map Entry.txn) = .ok st ∧
      Amount.getPart (Balance.get st.bal cfg.account) c = runX b₀.toRat txns ∧
      (∀ t b, txns.getLast? = some t → t.balance = some ⟨b, c⟩ →
        Amount.getPart (Balance.get st.bal cfg.account) c = b.toRat) := by
  have hrun : ∀ (l : List Txn) (x : Rat),
      (∀ t ∈ l, t.OtherAccounts cfg.account ∧
        ((t.Mono c ∧ t.transferredAmount = none ∧ ∀ ch ∈ t.charges, ch.amount.value.isZero = true) ∨
         (t.charges = [] ∧ t.ConvRow c))) →
      ConsistentRunningBalance c x l → RunOKx cfg.account c x l := by
    intro l
    induction l with
    | nil => intro _ _ _; trivial
    | cons t ts ih =>
      intro x hp hb
      obtain ⟨ho, hrow⟩ := hp t (by simp)
      obtain ⟨hbt, hrest⟩ := hb
      refine ⟨?_, ho, Or.inr hbt, ih _ (fun t' h' => hp t' (by simp [h'])) hrest⟩
      rcases hrow with ⟨hm, htr, hch⟩ | hconv
      · exact Or.inl ⟨hm, Txn.balanced_of_zero_charges t htr hch⟩
      · exact Or.inr hconv
  obtain ⟨trs, st, hl, hp, hv⟩ := run_acceptsx cfg.account c hc hne date b₀ txns (hrun txns _ hrows hbal)
  exact ⟨trs, st, hl, hp, hv, fun t b hlast hb => by rw [hv]; exact runX_last c txns _ hbal t b hlast hb⟩

/-- **C16_accepts (zero charges).**  `C16_accepts_full` restricted to charges that are all zero: the positive
counterpart of F19 (a `Txn` with zero charges prints `Expenses:Commissions  0.00` postings, which do not disturb the
balance).  The CSV importer itself never records a zero charge (`C16_zero_charge_dropped`). -/
theorem C16_accepts_zero_charge (acct c : String) (date : Date) (b₀ : Dec) (txns : List Txn)
    (hc : c ≠ "") (hne : "Equity:Opening" ≠ acct)
    (hrows : ∀ t ∈ txns, t.Mono c ∧ t.OtherAccounts acct ∧ t.transferredAmount = none)
    (hzero : ∀ t ∈ txns, ∀ ch ∈ t.charges, ch.amount.value.isZero = true)
    (hbal : ConsistentRunningBalance c b₀.toRat txns) :
    ∃ trs st, ledgerOf acct txns = .ok trs ∧
      process (Entry.txn (fundTxn acct date b₀ c) :: trs.map Entry.txn) = .ok st ∧
      Amount.getPart (Balance.get st.bal acct) c = runX b₀.toRat txns ∧
      (∀ t b, txns.getLast? = some t → t.balance = some ⟨b, c⟩ →
        Amount.getPart (Balance.get st.bal acct) c = b.toRat) := by
  have hrun : ∀ (l : List Txn) (x : Rat),
      (∀ t ∈ l, t.Mono c ∧ t.OtherAccounts acct ∧ t.transferredAmount = none) →
      (∀ t ∈ l, ∀ ch ∈ t.charges, ch.amount.value.isZero = true) →
      ConsistentRunningBalance c x l → RunOK acct c x l := by
    intro l
    induction l with
    | nil => intro _ _ _ _; trivial
    | cons t ts ih =>
      intro x hp hz hb
      obtain ⟨hm, ho, htr⟩ := hp t (by simp)
      obtain ⟨hbt, hrest⟩ := hb
      exact ⟨hm, Txn.balanced_of_zero_charges t htr (hz t (by simp)), ho, Or.inr hbt,
        ih _ (fun t' h' => hp t' (by simp [h'])) (fun t' h' => hz t' (by simp [h'])) hrest⟩
  obtain ⟨trs, st, hl, hp, hv⟩ := run_accepts acct c hc hne date b₀ txns (hrun txns _ hrows hzero hbal)
  exact ⟨trs, st, hl, hp, hv, fun t b hlast hb => by rw [hv]; exact runX_last c txns _ hbal t b hlast hb⟩

/-- **A zero (or empty, or absent) charge cell leaves no charge** in the transaction: the importer only records
`!value.is_zero()` charges, and the conversion block does not touch them. -/
theorem C16_zero_charge_dropped (env : CsvEnv) (cfg : CsvCfg) (fm : FieldMap) (rec : List String) (v : RowValues)
    (txn : Txn) (i : Bool) (h : buildTxn env cfg fm rec v = .ok (txn, i))
    (hcell : ∀ cell d, fm.extract .charge rec = .ok (some cell) → strToCommaDecimal env cell = .ok (some d) →
      d.isZero = true) :
    txn.charges = [] := by
  have hbase : ∀ t, baseTxn env cfg fm rec v = .ok t → t.charges = [] := by
    intro t hb
    unfold baseTxn at hb
    repeat' split at hb
    all_goals first | (simp at hb; done) | skip
    all_goals simp only [Outcome.ok.injEq] at hb
    all_goals subst hb
    all_goals simp [Txn.new, Txn.codeOption, Txn.destAccountOption, Txn.setClearState, Txn.addComment, Txn.setBalance,
      Txn.addCharge]
    all_goals (try (split <;> simp_all))
    all_goals (try (split <;> simp_all))
    all_goals (have hz := hcell _ _ ‹fm.extract FieldKey.charge rec = Outcome.ok (some _)› ‹strToCommaDecimal env _ = Outcome.ok (some _)›; simp_all)
  unfold buildTxn at h
  split at h <;> try (simp at h; done)
  rename_i t hb
  cases hsel : selectedConversion env cfg v with
  | none =>
    rw [hsel] at h
    simp only [Outcome.ok.injEq, Prod.mk.injEq] at h
    rw [← h.1]; exact hbase t hb
  | some conv =>
    rw [hsel] at h
    obtain ⟨_, _, hr, _⟩ := baseTxn_spec env cfg fm rec v t hb
    obtain ⟨r, sc, tr, _, _, _, htxn, _⟩ := applyConversion_spec t txn conv v.amount v.commodity v.rate
      v.secondaryAmount v.secondaryCommodity i hr h
    rw [htxn]; exact hbase t hb

/-- the conversion in force for the row (if any) names a secondary commodity and is consistent with the row's
figures (`ConvConsistent`); `inexact` is the importer's own verdict on its division -/
def RowConsistent (env : CsvEnv) (cfg : CsvCfg) (v : RowValues) (inexact : Bool) : Prop :=
  match selectedConversion env cfg v with
  | none => True
  | some conv =>
    (∀ sc, conv.commodity.or v.secondaryCommodity = some sc → sc ≠ "") ∧
    ∀ r, v.rate = some r → ConvConsistent conv v.amount r v.secondaryAmount inexact

/-- **One CSV row.**  A row without (non-zero) charge whose conversion — if one applies — is consistent becomes a
transaction the book-keeping accepts (`Txn.RowOK`), with the row's amount, balance and counter-account. -/
theorem C16_row_ok (env : CsvEnv) (cfg : CsvCfg) (fm : FieldMap) (rec : List String) (v : RowValues)
    (txn : Txn) (i : Bool) (h : buildTxn env cfg fm rec v = .ok (txn, i))
    (hch : txn.charges = []) (hcons : RowConsistent env cfg v i) :
    txn.RowOK v.commodity ∧ txn.amount = ⟨v.amount, v.commodity⟩ ∧
      txn.balance = v.balance.map (fun b => ⟨b, v.commodity⟩) ∧
      txn.destAccount = (rowFragment env cfg v).account ∧ txn.date = v.date := by
  unfold buildTxn at h
  split at h <;> try (simp at h; done)
  rename_i t hb
  obtain ⟨ha, hd, hr, htr, hbl, hdest, _⟩ := baseTxn_spec env cfg fm rec v t hb
  unfold RowConsistent at hcons
  cases hsel : selectedConversion env cfg v with
  | none =>
    rw [hsel] at h
    simp only [Outcome.ok.injEq, Prod.mk.injEq] at h
    obtain ⟨ht, _⟩ := h
    subst ht
    refine ⟨Or.inl ⟨⟨by rw [ha], by rw [hch]; simp, by rw [htr]; simp, hr, ?_⟩, ?_⟩, ha, hbl, hdest, hd⟩
    · intro b hb'
      rw [hbl] at hb'
      cases hvb : v.balance with
      | none => simp [hvb] at hb'
      | some x => simp [hvb] at hb'; rw [← hb']
    · exact Txn.balanced_of_zero_charges t htr (by rw [hch]; simp)
  | some conv =>
    rw [hsel] at h hcons
    obtain ⟨hscne, hcc⟩ := hcons
    obtain ⟨hrow, h1, h2, h3, h4, h5⟩ := applyConversion_convRow t txn conv v.amount v.commodity v.rate
      v.secondaryAmount v.secondaryCommodity i ha hr h hscne hcc
    exact ⟨Or.inr ⟨hch, hrow⟩, by rw [h1, ha], by rw [h3, hbl], by rw [h4, hdest], by rw [h5, hd]⟩

theorem csvRows_mem (env : CsvEnv) (cfg : CsvCfg) (fm : FieldMap) : ∀ (records : List (List String))
    (ts : List (Txn × Bool)), csvRows env cfg fm records = .ok ts →
    ∀ p ∈ ts, ∃ rec ∈ records, csvRow env cfg fm rec = .ok (some p) := by
  intro records
  induction records with
  | nil => intro ts h p hp; simp [csvRows] at h; subst h; simp at hp
  | cons rec rest ih =>
    intro ts h p hp
    unfold csvRows at h
    split at h <;> try (simp at h; done)
    rename_i r hrow
    split at h <;> try (simp at h; done)
    rename_i ts' hrest
    simp only [Outcome.ok.injEq] at h
    subst h
    rcases List.mem_append.1 hp with h1 | h1
    · cases r with
      | none => simp at h1
      | some q =>
        simp at h1
        subst h1
        exact ⟨rec, by simp, hrow⟩
    · obtain ⟨rec', hmem, hr'⟩ := ih ts' hrest p h1
      exact ⟨rec', by simp [hmem], hr'⟩

theorem csvRow_some (env : CsvEnv) (cfg : CsvCfg) (fm : FieldMap) (rec : List String) (p : Txn × Bool)
    (h : csvRow env cfg fm rec = .ok (some p)) :
    ∃ v, readRow env cfg fm rec = .ok (some v) ∧ buildTxn env cfg fm rec v = .ok p := by
  unfold csvRow at h
  split at h <;> try (simp at h; done)
  rename_i v hv
  split at h <;> try (simp at h; done)
  rename_i r hr
  simp only [Outcome.ok.injEq, Option.some.injEq] at h
  subst h
  exact ⟨v, hv, hr⟩

/-- what `C16_accepts_conversion_rows` asks of one decoded row: it is in the account's commodity, its charge cell
(if the column exists) is empty or zero, its counter-account is not the imported account, and its conversion (if
any) is consistent -/
structure RowAcceptable (env : CsvEnv) (cfg : CsvCfg) (fm : FieldMap) (c : String) (rec : List String)
    (v : RowValues) (inexact : Bool) : Prop where
  commodity : v.commodity = c
  nocharge : ∀ cell d, fm.extract .charge rec = .ok (some cell) → strToCommaDecimal env cell = .ok (some d) →
    d.isZero = true
  other : ∀ fb, fb = "Income:Unknown" ∨ fb = "Expenses:Unknown" →
    (rowFragment env cfg v).account.getD fb ≠ cfg.account
  consistent : RowConsistent env cfg v inexact

/-- **C16_accepts, on the CSV rows.**  Every imported record is in the account's commodity `c`, has no (or a zero)
charge, books its counter-posting elsewhere, and — when a conversion applies to it — has a non-empty secondary
commodity and figures consistent with its rate (`ConvConsistent`); the running-balance column is consistent.
Then `fund b₀ :: import` is accepted by the book-keeping model and the account ends at the last balance. -/
theorem C16_accepts_conversion_rows (env : CsvEnv) (cfg : CsvCfg) (header : List String)
    (records : List (List String)) (txns : List Txn) (c : String) (date : Date) (b₀ : Dec)
    (himp : csvImport env cfg header records = .ok txns)
    (hc : c ≠ "") (hne : "Equity:Opening" ≠ cfg.account) (hcomm : "Expenses:Commissions" ≠ cfg.account)
    (hrows : ∀ fm, FieldMap.tryNew cfg.fields header = .ok fm → ∀ rec ∈ records, ∀ v txn i,
      readRow env cfg fm rec = .ok (some v) → buildTxn env cfg fm rec v = .ok (txn, i) →
      RowAcceptable env cfg fm c rec v i)
    (hbal : ConsistentRunningBalance c b₀.toRat txns) :
    ∃ trs st, ledgerOf cfg.account txns = .ok trs ∧
      process (Entry.txn (fundTxn cfg.account date b₀ c) :: trs.map Entry.txn) = .ok st ∧
      Amount.getPart (Balance.get st.bal cfg.account) c = runX b₀.toRat txns ∧
      (∀ t b, txns.getLast? = some t → t.balance = some ⟨b, c⟩ →
        Amount.getPart (Balance.get st.bal cfg.account) c = b.toRat) := by
  obtain ⟨fm, ts, hfm, hcsv, htx, _⟩ := C16_order env cfg header records txns himp
  have hrowOK : ∀ t ∈ txns, t.RowOK c ∧ t.OtherAccounts cfg.account := by
    intro t ht
    have hmem : t ∈ ts.map Prod.fst := by
      rw [htx] at ht
      unfold applyRowOrder at ht
      cases ho : cfg.rowOrder <;> simp only [ho] at ht
      · exact ht
      · exact List.mem_reverse.1 ht
    obtain ⟨p, hp, hpt⟩ := List.mem_map.1 hmem
    obtain ⟨rec, hrec, hrow⟩ := csvRows_mem env cfg fm records ts hcsv p hp
    obtain ⟨v, hv, hb⟩ := csvRow_some env cfg fm rec p hrow
    obtain ⟨t', i⟩ := p
    simp only at hpt
    subst hpt
    have hacc := hrows fm hfm rec hrec v t' i hv hb
    have hnc := C16_zero_charge_dropped env cfg fm rec v t' i hb hacc.nocharge
    obtain ⟨h1, _, _, h4, _⟩ := C16_row_ok env cfg fm rec v t' i hb hnc hacc.consistent
    rw [hacc.commodity] at h1
    refine ⟨h1, ⟨?_, hcomm⟩⟩
    intro fb hfb
    rw [h4]
    exact hacc.other fb hfb
  have hrun : ∀ (l : List Txn) (x : Rat), (∀ t ∈ l, t.RowOK c ∧ t.OtherAccounts cfg.account) →
      ConsistentRunningBalance c x l → RunOKx cfg.account c x l := by
    intro l
    induction l with
    | nil => intro _ _ _; trivial
    | cons t ts ih =>
      intro x hp hb
      obtain ⟨hrow, ho⟩ := hp t (by simp)
      obtain ⟨hbt, hrest⟩ := hb
      exact ⟨hrow, ho, Or.inr hbt, ih _ (fun t' h' => hp t' (by simp [h'])) hrest⟩
  obtain ⟨trs, st, hl, hp, hv⟩ := run_acceptsx cfg.account c hc hne date b₀ txns (hrun txns _ hrowOK hbal)
  exact ⟨trs, st, hl, hp, hv, fun t b hlast hb => by rw [hv]; exact runX_last c txns _ hbal t b hlast hb⟩

/-! ## non-vacuity and negation witnesses for the conversion theorems -/

/-- decoders for the conversion examples -/
def exConvEnv : CsvEnv :=
  { parseAmt := fun s =>
      if s = "-50.00" then some ⟨true, 5000, 2⟩ else if s = "950.00" then some ⟨false, 95000, 2⟩
      else if s = "25.5" then some ⟨false, 255, 1⟩ else if s = "975.50" then some ⟨false, 97550, 2⟩
      else if s = "0.8" then some ⟨false, 8, 1⟩ else if s = "62.50" then some ⟨false, 6250, 2⟩
      else if s = "62.49" then some ⟨false, 6249, 2⟩ else if s = "150" then some ⟨false, 150, 0⟩
      else if s = "3" then some ⟨false, 3, 0⟩ else if s = "1" then some ⟨false, 1, 0⟩
      else if s = "0.00" then some ⟨false, 0, 2⟩ else none
    parseDate := fun s => if s = "2024-01-02" then some ⟨2024, 1, 2⟩ else if s = "2024-01-03" then some ⟨2024, 1, 3⟩ else none
    cap := fun _ _ => none }

/-- columns: date, payee, amount, balance, rate, secondary amount, secondary commodity, charge -/
def exConvCfg (conv : Conversion) : CsvCfg :=
  { account := "Assets:Bank", accountType := .asset, operator := some "The Bank", primary := "USD", conversion := conv,
    rowOrder := .oldToNew,
    fields := [(.date, .index 1), (.payee, .index 2), (.amount, .index 3), (.balance, .index 4), (.rate, .index 5),
      (.secondaryAmount, .index 6), (.secondaryCommodity, .index 7), (.charge, .index 8)],
    rewrite := [] }

def exConvHeader : List String := ["date", "payee", "amount", "balance", "rate", "counter", "ccy", "charge"]

/-- `-50.00 USD` paid as `62.50 EUR` at `0.8 USD` per EUR (charge cell `0.00`), then a plain refund -/
def exConvRecords : List (List String) :=
  [["2024-01-02", "shop", "-50.00", "950.00", "0.8", "62.50", "EUR", "0.00"],
   ["2024-01-03", "refund", "25.5", "975.50", "", "", "", ""]]

def exConvTxn1 : Txn :=
  { date := ⟨2024, 1, 2⟩, payee := "shop", amount := ⟨⟨true, 5000, 2⟩, "USD"⟩, clearState := some .pending,
    balance := some ⟨⟨false, 95000, 2⟩, "USD"⟩, rates := [("EUR", ⟨⟨false, 8, 1⟩, "USD"⟩)],
    transferredAmount := some ⟨⟨false, 6250, 2⟩, "EUR"⟩ }

def exConvTxn2 : Txn :=
  { date := ⟨2024, 1, 3⟩, payee := "refund", amount := ⟨⟨false, 255, 1⟩, "USD"⟩, clearState := some .pending,
    balance := some ⟨⟨false, 97550, 2⟩, "USD"⟩ }

/-- the default conversion (`extract`, `price_of_secondary`) applies to the first row only -/
theorem exConv_import : csvImport exConvEnv (exConvCfg {}) exConvHeader exConvRecords = .ok [exConvTxn1, exConvTxn2] := by
  rfl

theorem exConv_other (t : Txn) (h : t.destAccount = none) : t.OtherAccounts "Assets:Bank" := by
  refine ⟨?_, by decide⟩
  intro fb hfb
  rw [h]
  rcases hfb with h1 | h1 <;> subst h1 <;> decide

theorem exConv_rows : ∀ t ∈ [exConvTxn1, exConvTxn2], t.OtherAccounts "Assets:Bank" ∧
    ((t.Mono "USD" ∧ t.transferredAmount = none ∧ ∀ ch ∈ t.charges, ch.amount.value.isZero = true) ∨
     (t.charges = [] ∧ t.ConvRow "USD")) := by
  intro t ht
  simp only [List.mem_cons, List.mem_nil_iff, or_false] at ht
  rcases ht with h | h <;> subst h
  · refine ⟨exConv_other _ rfl, Or.inr ⟨rfl, "EUR", ⟨false, 6250, 2⟩, ⟨false, 8, 1⟩, by decide, by decide,
      by decide +kernel, rfl, rfl, Or.inr ⟨rfl, rfl, by decide +kernel⟩⟩⟩
  · refine ⟨exConv_other _ rfl, Or.inl ⟨⟨rfl, ?_, ?_, rfl, ?_⟩, rfl, ?_⟩⟩
    · intro ch hch; simp [exConvTxn2] at hch
    · intro tr htr; simp [exConvTxn2] at htr
    · intro b hb; simp [exConvTxn2] at hb; subst hb; rfl
    · intro ch hch; simp [exConvTxn2] at hch

theorem exConv_balance : ConsistentRunningBalance "USD" (⟨false, 100000, 2⟩ : Dec).toRat [exConvTxn1, exConvTxn2] :=
  ⟨⟨⟨false, 95000, 2⟩, rfl, by decide +kernel⟩, ⟨⟨false, 97550, 2⟩, rfl, by decide +kernel⟩, trivial⟩

/-- non-vacuity of `C16_accepts_conversion`: its hypotheses hold for the statement above (a converted row and a
plain row), and the account ends at `975.50` -/
example : ∃ trs st, ledgerOf "Assets:Bank" [exConvTxn1, exConvTxn2] = .ok trs ∧
    process (Entry.txn (fundTxn "Assets:Bank" ⟨2024, 1, 1⟩ ⟨false, 100000, 2⟩ "USD") :: trs.map Entry.txn) = .ok st ∧
    Amount.getPart (Balance.get st.bal "Assets:Bank") "USD" = (⟨false, 97550, 2⟩ : Dec).toRat := by
  obtain ⟨trs, st, h1, h2, _, h4⟩ := C16_accepts_conversion exConvEnv (exConvCfg {}) exConvHeader exConvRecords
    [exConvTxn1, exConvTxn2] "USD" ⟨2024, 1, 1⟩ ⟨false, 100000, 2⟩ exConv_import (by decide) (by decide)
    exConv_rows exConv_balance
  exact ⟨trs, st, h1, h2, h4 exConvTxn2 ⟨false, 97550, 2⟩ rfl rfl⟩

/-- non-vacuity of `C16_accepts_zero_charge`: a row whose only charge is `0.00` -/
def exZeroChargeTxn : Txn :=
  { date := ⟨2024, 1, 2⟩, payee := "shop", amount := ⟨⟨true, 5000, 2⟩, "USD"⟩, clearState := some .pending,
    balance := some ⟨⟨false, 95000, 2⟩, "USD"⟩, charges := [⟨"The Bank", ⟨⟨false, 0, 2⟩, "USD"⟩⟩] }

example : ∃ trs st, ledgerOf "Assets:Bank" [exZeroChargeTxn] = .ok trs ∧
    process (Entry.txn (fundTxn "Assets:Bank" ⟨2024, 1, 1⟩ ⟨false, 100000, 2⟩ "USD") :: trs.map Entry.txn) = .ok st ∧
    Amount.getPart (Balance.get st.bal "Assets:Bank") "USD" = (⟨false, 95000, 2⟩ : Dec).toRat := by
  have hm : exZeroChargeTxn.Mono "USD" := by
    refine ⟨rfl, ?_, ?_, rfl, ?_⟩
    · intro ch hch; simp [exZeroChargeTxn] at hch; subst hch; rfl
    · intro tr htr; simp [exZeroChargeTxn] at htr
    · intro b hb; simp [exZeroChargeTxn] at hb; subst hb; rfl
  obtain ⟨trs, st, h1, h2, _, h4⟩ := C16_accepts_zero_charge "Assets:Bank" "USD" ⟨2024, 1, 1⟩ ⟨false, 100000, 2⟩
    [exZeroChargeTxn] (by decide) (by decide)
    (fun t ht => by simp at ht; subst ht; exact ⟨hm, exConv_other _ rfl, rfl⟩)
    (fun t ht ch hch => by simp at ht; subst ht; simp [exZeroChargeTxn] at hch; subst hch; rfl)
    ⟨⟨⟨false, 95000, 2⟩, rfl, by decide +kernel⟩, trivial⟩
  exact ⟨trs, st, h1, h2, h4 exZeroChargeTxn ⟨false, 95000, 2⟩ rfl rfl⟩

/-- the whole pipeline on a statement: import, print, fund, book; `some balance` of the account when accepted -/
def exPipeline (conv : Conversion) (records : List (List String)) : Option Rat :=
  match csvImport exConvEnv (exConvCfg conv) exConvHeader records with
  | .ok txns =>
    (match ledgerOf "Assets:Bank" txns with
     | .ok trs =>
       (match process (Entry.txn (fundTxn "Assets:Bank" ⟨2024, 1, 1⟩ ⟨false, 100000, 2⟩ "USD") :: trs.map Entry.txn) with
        | .ok st => some (Amount.getPart (Balance.get st.bal "Assets:Bank") "USD")
        | _ => none)
     | _ => none)
  | _ => none

/-- the other three modes on the same row: accepted when consistent (`compute` always is for a positive rate and an
exact quotient): `-50.00 USD @ 150 JPY` / `7500.00 JPY`;  `-50.00 USD` / `62.5 EUR @ 0.8 USD`;
`-50.00 USD @ 0.8 EUR` / `40.000 EUR` -/
example : exPipeline { amount := .compute, rate := .priceOfPrimary, commodity := some "JPY" }
    [["2024-01-02", "shop", "-50.00", "950.00", "150", "1", "JPY", ""]] = some (⟨false, 95000, 2⟩ : Dec).toRat := by
  decide +kernel
example : exPipeline { amount := .compute, rate := .priceOfSecondary }
    [["2024-01-02", "shop", "-50.00", "950.00", "0.8", "1", "EUR", ""]] = some (⟨false, 95000, 2⟩ : Dec).toRat := by
  decide +kernel
example : exPipeline { amount := .compute, rate := .priceOfPrimary }
    [["2024-01-02", "shop", "-50.00", "950.00", "0.8", "1", "EUR", ""]] = some (⟨false, 95000, 2⟩ : Dec).toRat := by
  decide +kernel

/-- **The consistency condition cannot be dropped.**  The statement's own secondary amount is one cent off the rate
(`62.49 EUR @ 0.8 USD ≠ 50.00 USD`): the import succeeds, the running balance is consistent, and the book-keeping
rejects the printed ledger. -/
theorem C16_inconsistent_conversion_rejected :
    exPipeline {} [["2024-01-02", "shop", "-50.00", "950.00", "0.8", "62.49", "EUR", ""]] = none ∧
    (csvImport exConvEnv (exConvCfg {}) exConvHeader
      [["2024-01-02", "shop", "-50.00", "950.00", "0.8", "62.49", "EUR", ""]]).isOk = true := by
  constructor <;> decide +kernel

/-- … nor can exactness of the importer's division: `compute`, `price_of_secondary`, `-50.00 ÷ 3` is rounded at 28
places, and `16.66…67 EUR @ 3 USD` does not cancel `-50.00 USD`. -/
theorem C16_inexact_conversion_rejected :
    exPipeline { amount := .compute, rate := .priceOfSecondary }
      [["2024-01-02", "shop", "-50.00", "950.00", "3", "1", "EUR", ""]] = none ∧
    (csvImportFlagged exConvEnv (exConvCfg { amount := .compute, rate := .priceOfSecondary }) exConvHeader
      [["2024-01-02", "shop", "-50.00", "950.00", "3", "1", "EUR", ""]]).map' (List.map Prod.snd) = .ok [true] := by
  constructor <;> decide +kernel

def exConvFm : FieldMap :=
  ⟨.column 0, .column 1, .amount (.column 2),
    [(.date, .column 0), (.payee, .column 1), (.amount, .column 2), (.balance, .column 3), (.rate, .column 4),
     (.secondaryAmount, .column 5), (.secondaryCommodity, .column 6), (.charge, .column 7)], 7⟩

def exConvRow1 : RowValues :=
  ⟨⟨2024, 1, 2⟩, "shop", ⟨true, 5000, 2⟩, some ⟨false, 95000, 2⟩, some ⟨false, 6250, 2⟩, some "EUR", none, "USD",
    some ⟨false, 8, 1⟩⟩

def exConvRow2 : RowValues :=
  ⟨⟨2024, 1, 3⟩, "refund", ⟨false, 255, 1⟩, some ⟨false, 97550, 2⟩, none, some "", none, "USD", none⟩

/-- non-vacuity of `C16_accepts_conversion_rows`: the hypotheses hold for the CSV statement `exConvRecords`
(a converted row with a `0.00` charge cell and a plain row with an empty one) -/
example : ∃ trs st, ledgerOf "Assets:Bank" [exConvTxn1, exConvTxn2] = .ok trs ∧
    process (Entry.txn (fundTxn "Assets:Bank" ⟨2024, 1, 1⟩ ⟨false, 100000, 2⟩ "USD") :: trs.map Entry.txn) = .ok st ∧
    Amount.getPart (Balance.get st.bal "Assets:Bank") "USD" = (⟨false, 97550, 2⟩ : Dec).toRat := by
  obtain ⟨trs, st, h1, h2, _, h4⟩ := C16_accepts_conversion_rows exConvEnv (exConvCfg {}) exConvHeader exConvRecords
    [exConvTxn1, exConvTxn2] "USD" ⟨2024, 1, 1⟩ ⟨false, 100000, 2⟩ exConv_import (by decide) (by decide) (by decide)
    (by
      intro fm hfm rec hrec v txn i hv hb
      have hfm' : FieldMap.tryNew (exConvCfg {}).fields exConvHeader = .ok exConvFm := by rfl
      rw [hfm'] at hfm
      simp only [Outcome.ok.injEq] at hfm
      subst hfm
      simp only [exConvRecords, List.mem_cons, List.mem_nil_iff, or_false] at hrec
      rcases hrec with h | h <;> subst h
      · have hv' : readRow exConvEnv (exConvCfg {}) exConvFm ["2024-01-02", "shop", "-50.00", "950.00", "0.8", "62.50", "EUR", "0.00"] =
            .ok (some exConvRow1) := by rfl
        rw [hv'] at hv
        simp only [Outcome.ok.injEq, Option.some.injEq] at hv
        subst hv
        have hi : i = false := by
          have hb' : buildTxn exConvEnv (exConvCfg {}) exConvFm ["2024-01-02", "shop", "-50.00", "950.00", "0.8", "62.50", "EUR", "0.00"] exConvRow1 =
            .ok (exConvTxn1, false) := by rfl
          rw [hb'] at hb
          simp only [Outcome.ok.injEq, Prod.mk.injEq] at hb
          exact hb.2.symm
        subst hi
        refine ⟨rfl, ?_, ?_, ?_⟩
        rotate_left 2
        · unfold RowConsistent
          have hsel : selectedConversion exConvEnv (exConvCfg {}) exConvRow1 = some {} := by rfl
          rw [hsel]
          refine ⟨?_, ?_⟩
          · intro sc hsc
            simp [exConvRow1] at hsc
            subst hsc; decide
          · intro r hr
            simp [exConvRow1] at hr
            subst hr
            refine ⟨by decide, ?_⟩
            intro tr htr
            simp [exConvRow1] at htr
            subst htr
            decide +kernel
        · intro cell d hcell hd
          have : cell = "0.00" := by
            have hc' : FieldMap.extract exConvFm FieldKey.charge ["2024-01-02", "shop", "-50.00", "950.00", "0.8", "62.50", "EUR", "0.00"] =
              .ok (some "0.00") := by rfl
            rw [hc'] at hcell
            simp only [Outcome.ok.injEq, Option.some.injEq] at hcell
            exact hcell.symm
          subst this
          have hd' : strToCommaDecimal exConvEnv "0.00" = .ok (some ⟨false, 0, 2⟩) := by rfl
          rw [hd'] at hd
          simp only [Outcome.ok.injEq, Option.some.injEq] at hd
          subst hd
          rfl
        · intro fb hfb
          rcases hfb with h1 | h1 <;> subst h1 <;> decide
      · have hv' : readRow exConvEnv (exConvCfg {}) exConvFm ["2024-01-03", "refund", "25.5", "975.50", "", "", "", ""] =
            .ok (some exConvRow2) := by rfl
        rw [hv'] at hv
        simp only [Outcome.ok.injEq, Option.some.injEq] at hv
        subst hv
        refine ⟨rfl, ?_, ?_, ?_⟩
        rotate_left 2
        · unfold RowConsistent
          have hsel : selectedConversion exConvEnv (exConvCfg {}) exConvRow2 = none := by rfl
          rw [hsel]
          trivial
        · intro cell d hcell hd
          have : cell = "" := by
            have hc' : FieldMap.extract exConvFm FieldKey.charge ["2024-01-03", "refund", "25.5", "975.50", "", "", "", ""] =
              .ok (some "") := by rfl
            rw [hc'] at hcell
            simp only [Outcome.ok.injEq, Option.some.injEq] at hcell
            exact hcell.symm
          subst this
          have hd' : strToCommaDecimal exConvEnv "" = .ok none := by rfl
          rw [hd'] at hd
          simp at hd
        · intro fb hfb
          rcases hfb with h1 | h1 <;> subst h1 <;> decide)
    exConv_balance
  exact ⟨trs, st, h1, h2, h4 exConvTxn2 ⟨false, 97550, 2⟩ rfl rfl⟩

/-! ## the consistency condition is exact -/

/-- **C16_conversion_iff.**  For a row with a conversion (transferred amount `tr sc`, non-zero rate `r` on one of
the two commodities, no charge) whose balance column is consistent, the book-keeping accepts `fund b₀ :: row`
**if and only if** the amounts agree with the rate exactly: `|tr| = r·|amount|` when the rate prices the primary
commodity, `|amount| = r·|tr|` when it prices the secondary (`Txn.ConvConsistent`). -/
theorem C16_conversion_iff (acct c : String) (date : Date) (b₀ : Dec) (t : Txn) (sc : String) (tr r : Dec)
    (hc : c ≠ "") (hne : "Equity:Opening" ≠ acct) (hshape : t.ConvShape c sc tr r) (ho : t.OtherAccounts acct)
    (hbal : ConsistentRunningBalance c b₀.toRat [t]) :
    (∃ trs st, ledgerOf acct [t] = .ok trs ∧
      process (Entry.txn (fundTxn acct date b₀ c) :: trs.map Entry.txn) = .ok st) ↔ t.ConvConsistent c sc tr r := by
  constructor
  · rintro ⟨trs, st, hl, hp⟩
    apply Classical.byContradiction
    intro hcons
    obtain ⟨res, hres⟩ := run_rejects_inconsistent acct c hc hne date b₀ [] t [] sc tr r trivial hshape ho
      (Or.inr hbal.1) hcons trs hl
    rw [hp] at hres
    simp at hres
  · intro hcons
    obtain ⟨trs, st, hl, hp, _⟩ := run_acceptsx acct c hc hne date b₀ [t]
      ⟨hshape.row_of_consistent hcons, ho, Or.inr hbal.1, trivial⟩
    exact ⟨trs, st, hl, hp⟩

/-- **C16_conversion_necessary.**  In a statement whose rows up to some row are acceptable, a converted row that is
not consistent with its rate makes the book-keeping reject the printed ledger at that row (entry `|pre| + 1`, the
funding transaction being entry 0) as unbalanced — whatever follows. -/
theorem C16_conversion_necessary (acct c : String) (date : Date) (b₀ : Dec) (pre post : List Txn) (t : Txn)
    (sc : String) (tr r : Dec) (hc : c ≠ "") (hne : "Equity:Opening" ≠ acct)
    (hrows : ∀ t' ∈ pre, t'.OtherAccounts acct ∧
      ((t'.Mono c ∧ t'.transferredAmount = none ∧ ∀ ch ∈ t'.charges, ch.amount.value.isZero = true) ∨
       (t'.charges = [] ∧ t'.ConvRow c)))
    (hshape : t.ConvShape c sc tr r) (ho : t.OtherAccounts acct)
    (hbal : ConsistentRunningBalance c b₀.toRat (pre ++ [t]))
    (hcons : ¬ t.ConvConsistent c sc tr r) (trs : List Transaction)
    (hl : ledgerOf acct (pre ++ t :: post) = .ok trs) :
    ∃ res, process (Entry.txn (fundTxn acct date b₀ c) :: trs.map Entry.txn) =
      .err (pre.length + 1, .unbalanced res) := by
  have hsplit : ∀ (l : List Txn) (x : Rat),
      (∀ t' ∈ l, t'.OtherAccounts acct ∧
        ((t'.Mono c ∧ t'.transferredAmount = none ∧ ∀ ch ∈ t'.charges, ch.amount.value.isZero = true) ∨
         (t'.charges = [] ∧ t'.ConvRow c))) →
      ConsistentRunningBalance c x (l ++ [t]) →
      RunOKx acct c x l ∧ ∃ b, t.balance = some ⟨b, c⟩ ∧ b.toRat = runX x l + t.amount.value.toRat := by
    intro l
    induction l with
    | nil => intro x _ hb; exact ⟨trivial, hb.1⟩
    | cons t' ts ih =>
      intro x hp hb
      obtain ⟨ho', hrow⟩ := hp t' (by simp)
      obtain ⟨hbt, hrest⟩ := hb
      obtain ⟨h1, h2⟩ := ih _ (fun t'' h' => hp t'' (by simp [h'])) hrest
      refine ⟨⟨?_, ho', Or.inr hbt, h1⟩, h2⟩
      rcases hrow with ⟨hm, htr, hch⟩ | hconv
      · exact Or.inl ⟨hm, Txn.balanced_of_zero_charges t' htr hch⟩
      · exact Or.inr hconv
  obtain ⟨hpre, hassert⟩ := hsplit pre _ hrows hbal
  exact run_rejects_inconsistent acct c hc hne date b₀ pre t post sc tr r hpre hshape ho (Or.inr hassert) hcons trs hl

/-- the row of `C16_inconsistent_conversion_rejected` (`62.49 EUR @ 0.8 USD` against `-50.00 USD`) -/
def exBadConvTxn : Txn :=
  { date := ⟨2024, 1, 2⟩, payee := "shop", amount := ⟨⟨true, 5000, 2⟩, "USD"⟩, clearState := some .pending,
    balance := some ⟨⟨false, 95000, 2⟩, "USD"⟩, rates := [("EUR", ⟨⟨false, 8, 1⟩, "USD"⟩)],
    transferredAmount := some ⟨⟨false, 6249, 2⟩, "EUR"⟩ }

/-- non-vacuity of `C16_conversion_necessary` / both directions of `C16_conversion_iff`: the importer produces
converted rows of either kind -/
example : csvImport exConvEnv (exConvCfg {}) exConvHeader
    [["2024-01-02", "shop", "-50.00", "950.00", "0.8", "62.49", "EUR", ""]] = .ok [exBadConvTxn] := by rfl

example : exBadConvTxn.ConvShape "USD" "EUR" ⟨false, 6249, 2⟩ ⟨false, 8, 1⟩ ∧
    ¬ exBadConvTxn.ConvConsistent "USD" "EUR" ⟨false, 6249, 2⟩ ⟨false, 8, 1⟩ ∧
    exConvTxn1.ConvShape "USD" "EUR" ⟨false, 6250, 2⟩ ⟨false, 8, 1⟩ ∧
    exConvTxn1.ConvConsistent "USD" "EUR" ⟨false, 6250, 2⟩ ⟨false, 8, 1⟩ := by
  refine ⟨⟨by decide, by decide, by decide +kernel, rfl, rfl, rfl, Or.inr ⟨rfl, rfl⟩⟩, ?_,
    ⟨by decide, by decide, by decide +kernel, rfl, rfl, rfl, Or.inr ⟨rfl, rfl⟩⟩, ?_⟩
  · intro h
    have := h.2 ⟨rfl, rfl⟩
    revert this
    decide +kernel
  · refine ⟨fun hp => ?_, fun _ => by decide +kernel⟩
    have := hp.rateC
    simp [exConvTxn1, AMap.get?] at this

/-! ## The cell decoders: number cells and templates (`Model/ImportCsvCells.lean`, `Lemmas/ImportCsvCells.lean`)

Everything above holds for every number parser (`CsvEnv.parseAmt`) and for templates that arrive parsed.  Here the two
decoders that are okane's own code are plugged in: `Cells.cellDecimal` (`str_to_comma_decimal` =
`TryFrom<&str> for expr::Amount`, `permutation` of number and commodity) and `Cells.parseTemplate`
(`Template::from_str`).  The main theorems are restated; proofs in `Lemmas/ImportCsvCells.lean`. -/

open Cells in
/-- **C16_cell_total**: the parser behind `str_to_comma_decimal` has no panic, no fuel, no cut: a value with the whole
cell consumed, or a backtrack. -/
theorem C16_cell_total (s : List Char) : (∃ v, cellParse s = .ok v []) ∨ (∃ p, cellParse s = .bt p) :=
  cellParse_total s

open Cells in
/-- **C16_cell_exact**: a number cell is accepted iff it is an optional minus, then a well-formed literal within range
(C07: `Spec.WellFormedLiteral`, `Spec.Representable`) and a commodity text in either order, each followed by optional
blanks, nothing left; the decimal is the one written, sign flag toggled by the leading minus. -/
theorem C16_cell_accepts_exactly (s : List Char) (v : PDec) (c : List Char) :
    cellAmount s = some (v, c) ↔
      ∃ neg tok, CellForm s neg tok c ∧ Spec.WellFormedLiteral tok = true ∧ Spec.Representable tok = true ∧
        v = (if neg then flipSign (C07.litDec tok) else C07.litDec tok) :=
  C16_cell_exact s v c

open Cells in
/-- **C16_cell_sign**: the value of an accepted cell is the unsigned literal written, times `(-1)^(number of minus signs
written)` (`--100.00` = `100.00`, `-$-1.46` = `1.46`, `$-1.46` = `-$1.46` = `-1.46`); its scale is the number of decimal
places written. -/
theorem C16_cell_minus_signs (s : String) (x : Dec) (h : cellDecimal s = some x) :
    ∃ neg tok com, CellForm s.toList neg tok com ∧
      Spec.WellFormedLiteral tok = true ∧ Spec.Representable tok = true ∧
      x.toRat = (-1 : Rat) ^ minusCount neg tok * Spec.litValue (Spec.stripMinus tok) ∧
      x.scale = Spec.litScale tok := by
  obtain ⟨neg, tok, com, hf, hw, hr, hv, hs, _⟩ := C16_cell_value s.toList x h
  refine ⟨neg, tok, com, hf, hw, hr, ?_, hs⟩
  obtain ⟨_, _, ht, _, _⟩ := hf
  rw [hv, litValue_strip tok (isNegative_token_body ht)]
  unfold minusCount
  cases neg <;> cases Spec.isNegative tok <;> simp <;> grind

theorem Dec.toRat_negate (d : Dec) : d.negate.toRat = - d.toRat := by
  unfold Dec.negate Dec.isSignPositive Dec.toRat
  cases d.neg <;> simp

open Cells in
/-- **C16_amount_written** (sign and amount clause on the TEXT of the cell): with okane's own number decoder, a row
whose `amount` cell is non-empty moves an asset account by exactly the number written in the cell (unsigned literal
times `(-1)^(minus signs written)`, same number of decimal places) and a liability account by its negation; an empty
cell counts as zero. -/
theorem C16_amount_written (parseDate : String → Option Date) (cap : Captures) (fm : FieldMap) (at_ : AccountType)
    (rec : List String) (f : CsvField) (a : Dec) (hv : fm.value = .amount f)
    (h : fm.amount (cellEnv parseDate cap) at_ rec = .ok a) :
    ∃ cell, fm.resolve .amount f rec = .ok (some cell) ∧
      ((cell.isEmpty = true ∧ a.mant = 0) ∨
       (cell.isEmpty = false ∧ ∃ neg tok com, CellForm cell.toList neg tok com ∧
          Spec.WellFormedLiteral tok = true ∧ Spec.Representable tok = true ∧ a.scale = Spec.litScale tok ∧
          (at_ = .asset → a.toRat = (-1 : Rat) ^ minusCount neg tok * Spec.litValue (Spec.stripMinus tok)) ∧
          (at_ = .liability → a.toRat = - ((-1 : Rat) ^ minusCount neg tok * Spec.litValue (Spec.stripMinus tok))))) := by
  obtain ⟨cell, v, hc, hs, ha, hl⟩ := C16_sign_amount _ fm at_ rec f a hv h
  refine ⟨cell, hc, ?_⟩
  by_cases he : cell.isEmpty = true
  · left
    refine ⟨he, ?_⟩
    have : v = none := by
      unfold strToCommaDecimal at hs
      simp only [he, if_true] at hs
      injection hs with hs; exact hs.symm
    subst this
    cases at_
    · rw [ha rfl]; rfl
    · rw [hl rfl]; rfl
  · right
    have he' : cell.isEmpty = false := by simpa using he
    obtain ⟨d, rfl, hp⟩ := strToCommaDecimal_some _ cell v hs he'
    have hp' : cellDecimal cell = some d := hp
    obtain ⟨neg, tok, com, hf, hw, hr, hval, hsc⟩ := C16_cell_minus_signs cell d hp'
    refine ⟨he', neg, tok, com, hf, hw, hr, ?_, ?_, ?_⟩
    · cases at_
      · rw [ha rfl]; exact hsc
      · rw [hl rfl]; exact hsc
    · intro hat; rw [ha hat]; exact hval
    · intro hat; rw [hl hat, Option.getD_some, Dec.toRat_negate, hval]

open Cells in
/-- **C16_credit_debit_written**: with a credit and a debit column and okane's own number decoder, the row moves the
account by `+` the number written in the credit cell when that number is not zero (or the debit cell is empty), else by `−`
the number written in the debit cell. -/
theorem C16_credit_debit_written (parseDate : String → Option Date) (cap : Captures) (fm : FieldMap) (at_ : AccountType)
    (rec : List String) (cf df : CsvField) (a : Dec) (hv : fm.value = .creditDebit cf df)
    (h : fm.amount (cellEnv parseDate cap) at_ rec = .ok a) :
    ∃ credit debit, fm.resolve .credit cf rec = .ok (some credit) ∧ fm.resolve .debit df rec = .ok (some debit) ∧
      ((credit.isEmpty = false ∧ (a.isZero = false ∨ debit.isEmpty = true) ∧ ∃ neg tok com, CellForm credit.toList neg tok com ∧
          a.toRat = (-1 : Rat) ^ minusCount neg tok * Spec.litValue (Spec.stripMinus tok) ∧ a.scale = Spec.litScale tok) ∨
       (debit.isEmpty = false ∧ (credit.isEmpty = true ∨ (credit.isEmpty = false ∧ ∃ c0, cellDecimal credit = some c0 ∧ c0.isZero = true)) ∧
          ∃ neg tok com, CellForm debit.toList neg tok com ∧
          a.toRat = - ((-1 : Rat) ^ minusCount neg tok * Spec.litValue (Spec.stripMinus tok)) ∧ a.scale = Spec.litScale tok)) := by
  obtain ⟨credit, debit, h1, h2, h3⟩ := C16_sign_credit_debit _ fm at_ rec cf df a hv h
  refine ⟨credit, debit, h1, h2, ?_⟩
  rcases h3 with ⟨he, hp, hnz⟩ | ⟨hd, hc0, d, hp, rfl⟩
  · left
    have hp' : cellDecimal credit = some a := hp
    obtain ⟨neg, tok, com, hf, _, _, hval, hsc⟩ := C16_cell_minus_signs credit a hp'
    exact ⟨he, hnz, neg, tok, com, hf, hval, hsc⟩
  · right
    have hp' : cellDecimal debit = some d := hp
    obtain ⟨neg, tok, com, hf, _, _, hval, hsc⟩ := C16_cell_minus_signs debit d hp'
    exact ⟨hd, hc0, neg, tok, com, hf, by rw [Dec.toRat_negate, hval], hsc⟩

/-- non-vacuity of `C16_amount_written` / `C16_credit_debit_written`: a liability statement listing `--100.00`, read
through the real decoder model, moves the account by `-100.00` (two minus signs cancel, the account type negates);
`$-1.46` in the debit column moves it by `+1.46`. -/
example :
    (⟨.column 0, .column 1, .amount (.column 2), [(.amount, .column 2)], 2⟩ : FieldMap).amount
      (Cells.cellEnv (fun _ => none) (fun _ _ => none)) .liability ["d", "p", "--100.00"] = .ok ⟨true, 10000, 2⟩ ∧
    (⟨.column 0, .column 1, .creditDebit (.column 2) (.column 3), [], 3⟩ : FieldMap).amount
      (Cells.cellEnv (fun _ => none) (fun _ _ => none)) .asset ["d", "p", "", "$-1.46"] = .ok ⟨false, 146, 2⟩ := by
  decide +kernel

/-- **F41 (fixed)**: a statement that fills both cells of every row.  A zero printed in the credit cell of a debit row no
longer hides the debit (`0.00 | 400.00` moves the account by −400.00), a zero in the debit cell of a credit row changes
nothing, and a row with two zeros is a zero row. -/
theorem C16_both_cells_filled :
    (⟨.column 0, .column 1, .creditDebit (.column 2) (.column 3), [], 3⟩ : FieldMap).amount
      (Cells.cellEnv (fun _ => none) (fun _ _ => none)) .asset ["d", "p", "0.00", "400.00"] = .ok ⟨true, 40000, 2⟩ ∧
    (⟨.column 0, .column 1, .creditDebit (.column 2) (.column 3), [], 3⟩ : FieldMap).amount
      (Cells.cellEnv (fun _ => none) (fun _ _ => none)) .asset ["d", "p", "45.50", "0.00"] = .ok ⟨false, 4550, 2⟩ ∧
    (⟨.column 0, .column 1, .creditDebit (.column 2) (.column 3), [], 3⟩ : FieldMap).amount
      (Cells.cellEnv (fun _ => none) (fun _ _ => none)) .asset ["d", "p", "0.00", "0.00"] = .ok ⟨true, 0, 2⟩ := by
  decide +kernel

/-- **statements that fill both cells**: when both the credit and the debit cell hold a number and one of the two is zero, the row
moves the account by `credit − debit` - a zero in either cell changes nothing (after fix F41; before it this failed for a zero in the
credit cell). -/
theorem C16_both_cells_net (parse : String → Option Dec) (credit debit : String) (a c d : Dec)
    (hc : parse credit = some c) (hd : parse debit = some d) (hce : credit.isEmpty = false) (hde : debit.isEmpty = false)
    (hz : c.isZero = true ∨ d.isZero = true) (h : CreditDebitRule parse credit debit a) :
    a.toRat = c.toRat - d.toRat := by
  have zero_toRat : ∀ x : Dec, x.isZero = true → x.toRat = 0 := by
    intro x hx
    have hm : x.mant = 0 := by simpa [Dec.isZero] using hx
    simp [Dec.toRat, hm, Rat.div_def]
  rcases h with ⟨_, hp, hnz⟩ | ⟨_, hcz, d', hp, rfl⟩
  · rw [hc] at hp
    injection hp with hp
    subst hp
    rcases hnz with hnz | hnz
    · rcases hz with hz | hz
      · rw [hz] at hnz; cases hnz
      · rw [zero_toRat d hz]; grind
    · rw [hde] at hnz; cases hnz
  · rw [hd] at hp
    injection hp with hp
    subst hp
    rcases hcz with hcz | ⟨_, c0, hpc, hz0⟩
    · rw [hce] at hcz; cases hcz
    · rw [hc] at hpc
      injection hpc with hpc
      subst hpc
      rw [Dec.toRat_negate, zero_toRat c hz0]; grind

open Cells in
/-- **C16_template_accepts_exactly**: `Template::from_str` accepts exactly the sequences of maximal non-empty brace-free
literal runs and `{key}` references with a valid key (positive column number within `usize`, or one of `date`, `payee`,
`category`, `note`, `commodity`, `secondary_commodity`); everything else is `InvalidTemplate`. -/
theorem C16_template_accepts_exactly (s : List Char) (segs : List Seg) :
    parseTemplateL s = some segs ↔
      ∃ ws, s = spell ws ∧ (∀ w ∈ ws, w.WF) ∧ NoAdjLit ws ∧ meanings ws = some segs :=
  C16_template_exact s segs

open Cells in
/-- **C16_template_round_trip**: parsing the `Display` text of a parsed template gives the same template; the text
itself is reproduced unless a column number is written with a leading zero (`{007}` prints as `{7}`). -/
theorem C16_template_round_trip (s : List Char) (segs : List Seg) (h : parseTemplateL s = some segs) :
    parseTemplateL (printTemplateL segs) = some segs ∧ (¬ ['{', '0'] <:+: s → printTemplateL segs = s) :=
  ⟨C16_template_roundtrip s segs h, C16_template_print_id s segs h⟩

open Cells in
/-- **C16_template_rejects**: unbalanced braces and invalid keys are rejected — an accepted template has as many `{`
as `}`, and a `{key}` with a key `template_key_from_str` refuses makes the template invalid wherever it stands. -/
theorem C16_template_rejects :
    (∀ (s : List Char) (segs : List Seg), parseTemplateL s = some segs → s.count '{' = s.count '}') ∧
    (∀ (pre k post : List Char), (∃ segs, parseTemplateL pre = some segs) → NoBrace k → templateKeyFromStr k = none →
      parseTemplateL (pre ++ '{' :: (k ++ '}' :: post)) = none) :=
  ⟨C16_template_braces, C16_template_bad_key⟩

/-- the importer with templates given as text: a good one is parsed by `parseTemplate` and rendered by `renderTemplate`
(the statement lists `$-5.00` under a negating template `-{3}`: two minus signs, the account moves by `+5.00`); a text
that is not a template fails `FieldMap::try_new` with `TemplateParseFailed` (non-vacuity: both happen) -/
example :
    (csvImport (Cells.cellEnv (fun s => if s = "2024-01-02" then some ⟨2024, 1, 2⟩ else none) (fun _ _ => none))
      ⟨"Assets:Bank", .asset, none, "USD", {}, .oldToNew,
        [(.date, .index 1), (.amount, Cells.decodePos (.template "-{3}")), (.payee, Cells.decodePos (.template "{2} [{1}]"))], []⟩
      ["d", "p", "a"] [["2024-01-02", "shop", "$-5.00"]]).map' (List.map fun t => (t.payee, t.amount)) =
      .ok [("shop [2024-01-02]", ⟨⟨false, 500, 2⟩, "USD"⟩)] ∧
    (csvImport (Cells.cellEnv (fun _ => none) (fun _ _ => none))
      ⟨"Assets:Bank", .asset, none, "USD", {}, .oldToNew,
        [(.date, .index 1), (.amount, .index 3), (.payee, Cells.decodePos (.template "{amount}"))], []⟩
      ["d", "p", "a"] []).map' (List.map fun t => (t.payee, t.amount)) = .err .templateParseFailed := by
  decide +kernel

/-! ## from the FILE TEXT: the `csv` crate's record reader inside the model

`Model/CsvText.lean` mirrors `csv-core`'s state machine under the reader options `csv::import` sets (flexible, delimiter =
first byte of `format.delimiter`, quote `"` with doubling, `\r` / `\n` / `\r\n` line ends, header row), `read_line` skipping of
`format.skip.head` lines, and the UTF-8 validation of `StringRecord`; `csvImportText` is `csv::import` from the BYTES of the
file.  The theorems of this section say that the reader is total, that it inverts the canonical CSV writer (so every list of
records is the reading of some file), and restate the CSV theorems above for `csvImportText` on that file. -/

open CsvText

/-- **C16_csv_reader_total.**  The reader is one table look-up per byte: from every state of the DFA table every byte is
consumed (the epsilon closure that builds the table never runs out of fuel) and leads to a state of the table.  The reader
has no error and no panic of its own. -/
theorem C16_csv_reader_total (d c : UInt8) (s : Nfa) (h : TableState s) :
    (dfaStep d s c).2 ≠ .epsilon ∧ TableState (dfaStep d s c).1 :=
  dfaStep_consumes d c s h

example : TableState .inDoubleEscapedQuote ∧ dfaStep COMMA .inDoubleEscapedQuote 98 = (.inField, .copyToOutput) :=
  ⟨by simp [TableState], by decide⟩

/-- **C16_csv_text_shape** (totality of the text layer): `csv::import` from bytes is an `IO` error (a skipped line is not
UTF-8), a `CSV` error (the header is not UTF-8), or the importer model on the decoded header and records — all records, or the
records in front of the first undecodable one, after which, if they all pass, the error is `CSV`. -/
theorem C16_csv_text_shape (env : CsvEnv) (cfg : CsvCfg) (t : TextCfg) (file : Bytes) :
    (skipHead t.skipHead.toNat file = .err .io ∧ csvImportTextFlagged env cfg t file = .err .io) ∨
    ∃ rest, skipHead t.skipHead.toNat file = .ok rest ∧
      ((decodeRecord (headerOf (readRecordsPos t.delimByte rest)) = none ∧ csvImportTextFlagged env cfg t file = .err .csv) ∨
       ∃ header good bad, decodeRecord (headerOf (readRecordsPos t.delimByte rest)) = some header ∧
         decodePrefix ((bodyOf (readRecordsPos t.delimByte rest)).map Prod.snd) = (good, bad) ∧
         ((bad = false ∧ csvImportTextFlagged env cfg t file = csvImportFlagged env cfg header good) ∨
          (bad = true ∧ ((∃ ts, csvImportFlagged env cfg header good = .ok ts ∧
                            csvImportTextFlagged env cfg t file = .err .csv) ∨
                          ((∀ ts, csvImportFlagged env cfg header good ≠ .ok ts) ∧
                            csvImportTextFlagged env cfg t file = csvImportFlagged env cfg header good))))) :=
  csvImportText_shape env cfg t file

/-- **C16_csv_import_total.**  For every file (any bytes), configuration and decoder environment, `csv::import` from the bytes
terminates without fuel, and the only panic it can reach is rust_decimal's division by zero (`amount / rate` with a zero rate
cell under `compute` / `price_of_secondary`): the reader, the skipping, the field map, the templates and the record loop have no
panic site and no unbounded loop. -/
theorem C16_csv_import_total (env : CsvEnv) (cfg : CsvCfg) (t : TextCfg) (file : Bytes) :
    csvImportText env cfg t file ≠ .fuelOut ∧ ∀ s, csvImportText env cfg t file = .panic s → s = divSite :=
  csvImportText_total env cfg t file

-- the panic is reachable from the text of a file (confirmed on the real importer: `Division by zero`): a computed
-- `price_of_secondary` conversion whose rate cell is `0`
example : (csvImportText (Cells.cellEnv (fun s => if s = "2024-01-02" then some ⟨2024, 1, 2⟩ else none) (fun _ _ => none))
    ⟨"Assets:Bank", .asset, none, "USD", { amount := .compute, rate := .priceOfSecondary }, .oldToNew,
     [(.date, .index 1), (.payee, .index 2), (.amount, .index 3), (.rate, .index 4), (.secondaryAmount, .index 5),
      (.secondaryCommodity, .index 6)], []⟩ ⟨"", 0⟩
    (utf8 "d,p,a,r,s,c\n2024-01-02,x,5,0,1,EUR\n")).map' List.length = .panic divSite := by decide +kernel

-- the three outcomes occur: a skipped line that is not text, a header that is not text, a record that is not text
example : (csvImportText exEnv (exCfg false .oldToNew) ⟨",", 1⟩ [0xFF, 10, 97, 10]).map' List.length = .err .io := by decide +kernel
example : (csvImportText exEnv (exCfg false .oldToNew) ⟨",", 0⟩ [0xFF, 10, 97, 10]).map' List.length = .err .csv := by decide +kernel
example : (csvImportText exEnv (exCfg false .oldToNew) ⟨",", 0⟩
    (utf8 "date,payee,amount,charge,balance\n2024-01-02,shop,-50.00,,950.00\n" ++ [0xFF, 10])).map' List.length = .err .csv := by
  decide +kernel

/-- **C16_csv_read_write** (`readCsv (writeCsv rows) = rows`).  For a delimiter that is not the quote or a line end, rows with
at least one cell that are not a lone empty cell, and a text that does not begin with a byte order mark, reading the canonical
writer's text (a cell is quoted iff it contains the delimiter, a quote, `\r` or `\n`; quotes doubled; `\n` after each row) gives
back exactly the rows, cell for cell, each stamped with the line on which it starts. -/
theorem C16_csv_read_write (d : UInt8) (hd : GoodDelim d) (rows : List (List String)) (hrows : ∀ r ∈ rows, WritableText r)
    (hbom : NoBom (writeCsv d rows)) :
    (readRecords d (writeCsv d rows)).map decodeRecord = rows.map some ∧
    readRecordsPos d (writeCsv d rows) = withLines d 1 (rows.map (List.map utf8)) := by
  have hw : ∀ r ∈ rows.map (List.map utf8), WritableRow r := by
    intro r hr
    obtain ⟨r', hr', rfl⟩ := List.mem_map.1 hr
    exact writableRow_of_text (hrows r' hr')
  have h := readRecordsPos_write d hd (rows.map (List.map utf8)) hw hbom
  refine ⟨?_, h⟩
  unfold readRecords writeCsv
  rw [h]
  simp [decodeRecord_utf8]

example : writeCsv COMMA [["date", "payee"], ["2024-01-02", "shop, \"the\"\nannex"], ["", ""]] =
    utf8 "date,payee\n2024-01-02,\"shop, \"\"the\"\"\nannex\"\n,\n" := by decide +kernel
example : (readRecordsPos COMMA (utf8 "date,payee\n2024-01-02,\"shop, \"\"the\"\"\nannex\"\n,\n")).map
    (fun p => (p.1, decodeRecord p.2)) =
    [(1, some ["date", "payee"]), (2, some ["2024-01-02", "shop, \"the\"\nannex"]), (4, some ["", ""])] := by decide +kernel

/-- the side conditions are needed: a lone empty cell (or no cell) is an empty line, which the reader skips; a leading byte
order mark is stripped; the quote or `\n` as delimiter break the writer's quoting -/
theorem C16_csv_read_write_conditions_needed :
    readRecords COMMA (writeCsvBytes COMMA [[[97]], [[]], [[98]]]) = [[[97]], [[98]]] ∧
    readRecords COMMA (writeCsvBytes COMMA [[[97]], [], [[98]]]) = [[[97]], [[98]]] ∧
    readRecords COMMA (writeCsvBytes COMMA [[[0xEF, 0xBB, 0xBF, 97]]]) = [[[97]]] ∧
    readRecords QUOTE (writeCsvBytes QUOTE [[[], [97]]]) = [[[97, 10]]] ∧
    readRecords LF (writeCsvBytes LF [[[97], [98]]]) = [[[97], [98], []]] :=
  ⟨needs_not_lone_empty, needs_nonempty_row, needs_no_bom, needs_delim_not_quote, needs_delim_not_lf⟩

/-- **C16_csv_normal_form.**  With the `csv` crate's own special case (a record that is a single empty field is written `""`)
every list of records with at least one field each is the reading of its written text, for each of the three line ends; the
reader never yields a record without fields; hence rewriting ANY file as the canonical text of its own reading does not change
what is read (provided the rewritten text does not begin with a byte order mark). -/
theorem C16_csv_normal_form (d : UInt8) (hd : GoodDelim d) (e : LineEnd) :
    (∀ rows : List (List Bytes), (∀ r ∈ rows, r ≠ []) → NoBom (writeCsvQ d e rows) → readRecords d (writeCsvQ d e rows) = rows) ∧
    (∀ bs : Bytes, ∀ r ∈ readRecords d bs, r ≠ []) ∧
    (∀ bs : Bytes, NoBom (writeCsvQ d e (readRecords d bs)) →
      readRecords d (writeCsvQ d e (readRecords d bs)) = readRecords d bs) :=
  ⟨fun rows h hb => readRecords_writeQ d hd e rows h hb, fun bs => records_nonempty d bs,
   fun bs hb => readRecords_normal d hd e bs hb⟩

-- `"a"b,""`, blank lines, `""` alone, `c"d` without line end — and the normal form of that text
example : readRecords COMMA (utf8 "\"a\"b,\"\"\r\n\r\n\"\"\nc\"d") = [[utf8 "ab", []], [[]], [utf8 "c\"d"]] ∧
    writeCsvQ COMMA .lf [[utf8 "ab", []], [[]], [utf8 "c\"d"]] = utf8 "ab,\n\"\"\n\"c\"\"d\"\n" := by decide +kernel

/-- **C16_csv_skip_head.**  `format.skip.head = n` consumes exactly `n` physical lines — empty, blank, or full of quotes and
delimiters — and the reader starts on the byte after the `n`-th `\n`. -/
theorem C16_csv_skip_head (lines : List Bytes) (rest : Bytes) (h : ∀ l ∈ lines, TextLine l) :
    skipHead lines.length (lines.flatten ++ rest) = .ok rest :=
  skipHead_lines lines rest h

example : skipHead 3 (utf8 "\n   \nnot \"csv, at all\ndate,payee\n") = .ok (utf8 "date,payee\n") := by decide +kernel

/-- a CSV file as the canonical writer produces it: `n = format.skip.head` lines of any text, then header and rows -/
structure WrittenFile (t : TextCfg) (lines : List Bytes) (header : List String) (rows : List (List String)) : Prop where
  hdelim : GoodDelim t.delimByte
  hskip : t.skipHead = lines.length
  hlines : ∀ l ∈ lines, TextLine l
  hrows : ∀ r ∈ header :: rows, WritableText r
  hbom : NoBom (writeCsv t.delimByte (header :: rows))

/-- the bytes of the file -/
def fileBytes (t : TextCfg) (lines : List Bytes) (header : List String) (rows : List (List String)) : Bytes :=
  lines.flatten ++ writeCsv t.delimByte (header :: rows)

/-- **C16_import_file** (the bridge).  The importer from the bytes of a written file IS the importer model on its header and
rows: every list of records is the reading of some file, and everything proved of `csvImport` holds of files. -/
theorem C16_import_file (env : CsvEnv) (cfg : CsvCfg) (t : TextCfg) (lines : List Bytes) (header : List String)
    (rows : List (List String)) (w : WrittenFile t lines header rows) :
    csvImportText env cfg t (fileBytes t lines header rows) = csvImport env cfg header rows ∧
    csvImportTextFlagged env cfg t (fileBytes t lines header rows) = csvImportFlagged env cfg header rows :=
  ⟨csvImportText_write env cfg t lines header rows w.hdelim w.hskip w.hlines w.hrows w.hbom,
   csvImportTextFlagged_write env cfg t lines header rows w.hdelim w.hskip w.hlines w.hrows w.hbom⟩

/-! ### non-vacuity: a statement with two skipped lines (one of them empty), a quoted payee with a delimiter and quotes -/

def exTextCfg : TextCfg := ⟨",", 2⟩
def exSkipped : List Bytes := [utf8 "Statement; \"exported, 2024\n", utf8 "\n"]
def exFileRecords : List (List String) :=
  [["2024-01-03", "refund, \"partial\"", "25.5", "", "975.50"], ["2024-01-02", "shop", "-50.00", "", "950.00"]]

theorem exWritten : WrittenFile exTextCfg exSkipped exHeader exFileRecords where
  hdelim := by decide +kernel
  hskip := rfl
  hlines := by
    intro l hl
    simp only [exSkipped, List.mem_cons, List.not_mem_nil, or_false] at hl
    rcases hl with rfl | rfl
    · exact ⟨⟨utf8 "Statement; \"exported, 2024", by decide +kernel, by decide +kernel⟩, by decide +kernel⟩
    · exact ⟨⟨[], by decide +kernel, by decide +kernel⟩, by decide +kernel⟩
  hrows := by decide +kernel
  hbom := by decide +kernel

example : fileBytes exTextCfg exSkipped exHeader exFileRecords =
    utf8 ("Statement; \"exported, 2024\n\ndate,payee,amount,charge,balance\n" ++
          "2024-01-03,\"refund, \"\"partial\"\"\",25.5,,975.50\n2024-01-02,shop,-50.00,,950.00\n") := by decide +kernel

example : (csvImportText exEnv (exCfg false .newToOld) exTextCfg
    (fileBytes exTextCfg exSkipped exHeader exFileRecords)).map' (List.map fun t => (t.date, t.payee, t.amount.value)) =
    .ok [(⟨2024, 1, 2⟩, "shop", ⟨true, 5000, 2⟩), (⟨2024, 1, 3⟩, "refund, \"partial\"", ⟨false, 255, 1⟩)] := by
  decide +kernel

/-- **C16_order_file.**  `C16_order` for the file: the transactions come one per dated record in file order (`old_to_new`) or
reversed (`new_to_old`); a statement that is monotone in the declared order comes out oldest first. -/
theorem C16_order_file (env : CsvEnv) (cfg : CsvCfg) (t : TextCfg) (lines : List Bytes) (header : List String)
    (rows : List (List String)) (w : WrittenFile t lines header rows) (txns : List Txn)
    (h : csvImportText env cfg t (fileBytes t lines header rows) = .ok txns) :
    ∃ fm ts, FieldMap.tryNew cfg.fields header = .ok fm ∧ csvRows env cfg fm rows = .ok ts ∧
      txns = applyRowOrder cfg.rowOrder (ts.map Prod.fst) ∧
      (DeclaredMonotone cfg.rowOrder (ts.map Prod.fst) → txns.Pairwise (fun a b => a.date ≤ b.date)) := by
  rw [(C16_import_file env cfg t lines header rows w).1] at h
  exact C16_order env cfg header rows txns h

/-- **C16_sign_file.**  `C16_sign` for the file: every transaction of the import is the transaction of one row of the file,
and the amount it books on the account is what the row's cells say — the `amount` cell (negated for a liability account; an
empty cell is zero), or `+credit` when the credit cell holds something other than zero (or the debit cell is empty) and `−debit`
otherwise (`CreditDebitRule`). -/
theorem C16_sign_file (env : CsvEnv) (cfg : CsvCfg) (t : TextCfg) (lines : List Bytes) (header : List String)
    (rows : List (List String)) (w : WrittenFile t lines header rows) (txns : List Txn)
    (h : csvImportText env cfg t (fileBytes t lines header rows) = .ok txns) :
    ∃ fm, FieldMap.tryNew cfg.fields header = .ok fm ∧
      ∀ tx ∈ txns, ∃ rec ∈ rows, ∃ v i, readRow env cfg fm rec = .ok (some v) ∧ buildTxn env cfg fm rec v = .ok (tx, i) ∧
        tx.amount = ⟨v.amount, v.commodity⟩ ∧
        (∀ f, fm.value = .amount f → ∃ cell x, fm.resolve .amount f rec = .ok (some cell) ∧
          strToCommaDecimal env cell = .ok x ∧ (cfg.accountType = .asset → v.amount = x.getD {}) ∧
          (cfg.accountType = .liability → v.amount = (x.getD {}).negate)) ∧
        (∀ cf df, fm.value = .creditDebit cf df → ∃ credit debit,
          fm.resolve .credit cf rec = .ok (some credit) ∧ fm.resolve .debit df rec = .ok (some debit) ∧
          CreditDebitRule env.parseAmt credit debit v.amount) := by
  rw [(C16_import_file env cfg t lines header rows w).1] at h
  obtain ⟨fm, hfm, hmem⟩ := csvImport_mem env cfg header rows txns h
  refine ⟨fm, hfm, ?_⟩
  intro tx htx
  obtain ⟨rec, hrec, v, i, hrow, hb⟩ := hmem tx htx
  have hamt := readRow_amount env cfg fm rec v hrow
  refine ⟨rec, hrec, v, i, hrow, hb, ?_, ?_, ?_⟩
  · obtain ⟨base, hbase, hcase⟩ := buildTxn_spec env cfg fm rec v tx i hb
    have ha := (baseTxn_spec env cfg fm rec v base hbase).1
    cases hsel : selectedConversion env cfg v with
    | none => rw [hsel] at hcase; rw [hcase.1]; exact ha
    | some conv =>
      rw [hsel] at hcase
      obtain ⟨r, sc, tr, _, _, _, htx', _⟩ := hcase
      rw [htx']; exact ha
  · intro f hf
    exact C16_sign_amount env fm cfg.accountType rec f v.amount hf hamt
  · intro cf df hf
    exact C16_sign_credit_debit env fm cfg.accountType rec cf df v.amount hf hamt

example := C16_order_file exEnv (exCfg false .newToOld) exTextCfg exSkipped exHeader exFileRecords exWritten
example := C16_sign_file exEnv (exCfg false .newToOld) exTextCfg exSkipped exHeader exFileRecords exWritten

/-- **C16_import_file_line_ends.**  The bridge for the files banks export: lines ending in `\n`, `\r\n` or `\r`, with or
without a line end after the last row.  Reading the canonical text gives back the rows, and the importer from the bytes of
`skipped lines ++ that text` is the importer model on header and rows. -/
theorem C16_import_file_line_ends (env : CsvEnv) (cfg : CsvCfg) (t : TextCfg) (lines : List Bytes) (header : List String)
    (rows : List (List String)) (e : LineEnd) (final : Bool) (hd : GoodDelim t.delimByte) (hskip : t.skipHead = lines.length)
    (hlines : ∀ l ∈ lines, TextLine l) (hrows : ∀ r ∈ header :: rows, WritableText r)
    (hbom : NoBom (writeCsvWith t.delimByte e final ((header :: rows).map (List.map utf8)))) :
    readRecords t.delimByte (writeCsvWith t.delimByte e final ((header :: rows).map (List.map utf8))) =
      (header :: rows).map (List.map utf8) ∧
    csvImportText env cfg t (lines.flatten ++ writeCsvWith t.delimByte e final ((header :: rows).map (List.map utf8))) =
      csvImport env cfg header rows := by
  refine ⟨readRecords_writeWith t.delimByte hd e final _ ?_ hbom,
    csvImportText_writeWith env cfg t lines header rows e final hd hskip hlines hrows hbom⟩
  intro r hr
  obtain ⟨r', hr', rfl⟩ := List.mem_map.1 hr
  exact writableRow_of_text (hrows r' hr')

-- the example statement with `\r\n` line ends and no line end after the last row
example : exSkipped.flatten ++ writeCsvWith COMMA .crlf false ((exHeader :: exFileRecords).map (List.map utf8)) =
    utf8 ("Statement; \"exported, 2024\n\ndate,payee,amount,charge,balance\r\n" ++
          "2024-01-03,\"refund, \"\"partial\"\"\",25.5,,975.50\r\n2024-01-02,shop,-50.00,,950.00") := by decide +kernel
example := C16_import_file_line_ends exEnv (exCfg false .newToOld) exTextCfg exSkipped exHeader exFileRecords .crlf false
  exWritten.hdelim exWritten.hskip exWritten.hlines exWritten.hrows (by decide +kernel)

/-- **C16_count_file** (record count).  A successful import of the bytes of ANY file yields exactly as many transactions as the
file has records — as the reader model splits it, after the skipped lines and the header — with a non-empty date cell. -/
theorem C16_count_file (env : CsvEnv) (cfg : CsvCfg) (t : TextCfg) (file : Bytes) (txns : List Txn)
    (h : csvImportText env cfg t file = .ok txns) :
    ∃ rest header records fm, skipHead t.skipHead.toNat file = .ok rest ∧
      decodeRecord (headerOf (readRecordsPos t.delimByte rest)) = some header ∧
      decodePrefix ((bodyOf (readRecordsPos t.delimByte rest)).map Prod.snd) = (records, false) ∧
      FieldMap.tryNew cfg.fields header = .ok fm ∧
      txns.length = (records.filter fun rec => !emptyDate fm rec).length :=
  csvImportText_count env cfg t file txns h

-- three records, one of them with an empty date cell (a trailer line), blank lines between them: two transactions
example : (csvImportText exEnv (exCfg false .oldToNew) ⟨",", 0⟩ (utf8
    "date,payee,amount,charge,balance\n\n2024-01-02,shop,-50.00,,950.00\n\n\n,total,,,\n2024-01-03,refund,25.5,,975.50")).map'
    List.length = .ok 2 := by decide +kernel

/-- **C16_short_record_line** (what `csv record length too short at line N` names).  A record with at most `fm.max()` cells
aborts the import (`csvRow_short`); in a written file whose earlier rows are all long enough the line named is 1 + the number of
`\n` bytes of the CSV part in front of the record — its physical line, counted from the header (the skipped lines are not
counted), line breaks inside quoted cells included. -/
theorem C16_short_record_line (d : UInt8) (hd : GoodDelim d) (size : Nat) (header : List String) (pre : List (List String))
    (r : List String) (post : List (List String)) (hrows : ∀ x ∈ header :: (pre ++ r :: post), WritableText x)
    (hbom : NoBom (writeCsv d (header :: (pre ++ r :: post)))) (hpre : ∀ p ∈ pre, size < p.length) (hr : r.length ≤ size) :
    shortRecord size (bodyOf (readRecordsPos d (writeCsv d (header :: (pre ++ r :: post))))) =
      some (1 + countLF (writeCsv d (header :: pre)), size, r.length) ∧
    ∀ env cfg fm, fm.maxColumn = size → csvRow env cfg fm r = .err (.other "csv record length too short") := by
  refine ⟨?_, fun env cfg fm hm => csvRow_short env cfg fm r (by omega)⟩
  rw [(C16_csv_read_write d hd _ hrows hbom).2]
  simp only [List.map_cons, List.map_append, withLines, bodyOf, List.drop_succ_cons, List.drop_zero]
  rw [shortRecord_withLines d size r (post.map (List.map utf8)) hr pre _ hpre]
  simp [writeCsv, writeCsvBytes, countLF_append, Nat.add_assoc]

example : shortRecord 2 (bodyOf (readRecordsPos COMMA (utf8 "d,p,a\n2024-01-02,\"x\ny\",5\n2024-01-03,z\n"))) = some (4, 2, 2) := by
  decide +kernel

/-- in a `\r\n` file the line named lags: records stamped 1, 1, 2 where the same text with `\n` gives 1, 2, 3 -/
theorem C16_crlf_line_lags :
    (readRecordsPos COMMA [97, 13, 10, 98, 13, 10, 99, 13, 10]).map Prod.fst = [1, 1, 2] ∧
    (readRecordsPos COMMA [97, 10, 98, 10, 99, 10]).map Prod.fst = [1, 2, 3] := crlf_line_lags

/-- **C16_field_boundaries.**  Outside quotes the delimiter byte always closes the current cell; inside a quoted cell it is
copied like any other byte; a quoted cell is ONE cell whatever it contains. -/
theorem C16_field_boundaries (d : UInt8) (hd : GoodDelim d) :
    (∀ s : Rd, TableState s.st → s.st ≠ .inQuotedField →
      s.step d d = ⟨.endFieldDelim, [], s.fields ++ [s.cur], s.recs, s.line, s.recLine⟩) ∧
    (∀ s : Rd, s.st = .inQuotedField → s.step d d = ⟨.inQuotedField, s.cur ++ [d], s.fields, s.recs, s.line, s.recLine⟩) ∧
    (∀ f : Bytes, readRecords d (QUOTE :: escapeQuotes f ++ [QUOTE, LF]) = [[f]]) :=
  ⟨fun s h1 h2 => delim_outside_quotes_splits d hd s h1 h2, fun s h => delim_inside_quotes_kept d hd s h,
   fun f => quoted_field_one_cell d hd f⟩

example : (readRecords COMMA (utf8 "a,\"b,c\",d\"e,f\n")).map decodeRecord = [some ["a", "b,c", "d\"e", "f"]] := by
  decide +kernel

end Okane.Import
