/-! # C16 — property theorems (stub) -/
