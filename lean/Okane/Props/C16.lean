import Okane.Model.ImportCsv
import Okane.Lemmas.ImportTxn
/-!
# C16 — CSV import books each row with the right sign, amount and balance

Model: `Okane.Import.csvImport` (`Model/ImportCsv.lean`, mirror of `cli/src/import/csv.rs` after decoding) on top of
`Txn` / `toDoubleEntry` (`Model/Import.lean`), composed with the book-keeping model `process` (`Model/Process.lean`).
All theorems hold for every number parser, date parser and regex engine (`CsvEnv`).
-/
namespace Okane.Import
open Okane

/-! ## sign and amount -/

/-- what a non-empty cell means to `str_to_comma_decimal` -/
theorem strToCommaDecimal_some (env : CsvEnv) (s : String) (v : Option Dec) (h : strToCommaDecimal env s = .ok v)
    (hs : s.isEmpty = false) : ∃ d, v = some d ∧ env.parseAmt s = some d := by
  unfold strToCommaDecimal at h
  simp only [hs] at h
  cases hp : env.parseAmt s with
  | none => simp [hp] at h
  | some d => simp [hp] at h; exact ⟨d, h.symm, rfl⟩

/-- **C16_sign (credit/debit columns).**  With a credit and a debit column the row moves the account by
`+credit` when the credit cell is non-empty and by `−debit` otherwise — whatever the account type. -/
theorem C16_sign_credit_debit (env : CsvEnv) (fm : FieldMap) (at_ : AccountType) (rec : List String)
    (cf df : CsvField) (a : Dec) (hv : fm.value = .creditDebit cf df) (h : fm.amount env at_ rec = .ok a) :
    ∃ credit debit, fm.resolve .credit cf rec = .ok (some credit) ∧ fm.resolve .debit df rec = .ok (some debit) ∧
      ((credit.isEmpty = false ∧ env.parseAmt credit = some a) ∨
       (credit.isEmpty = true ∧ debit.isEmpty = false ∧ ∃ d, env.parseAmt debit = some d ∧ a = d.negate)) := by
  unfold FieldMap.amount at h
  simp only [hv] at h
  split at h <;> try (simp at h; done)
  rename_i credit hc
  split at h <;> try (simp at h; done)
  rename_i debit hd
  refine ⟨credit, debit, hc, hd, ?_⟩
  by_cases hce : credit.isEmpty = true
  · simp only [hce, Bool.not_true, Bool.false_eq_true, if_false] at h
    by_cases hde : debit.isEmpty = true
    · simp [hde] at h
    · have hde' : debit.isEmpty = false := by simpa using hde
      simp only [hde', Bool.not_false, if_true] at h
      split at h <;> try (simp at h; done)
      rename_i v hs
      obtain ⟨d, hv', hp⟩ := strToCommaDecimal_some env debit v hs hde'
      subst hv'
      simp at h
      exact Or.inr ⟨hce, hde', d, hp, h.symm⟩
  · have hce' : credit.isEmpty = false := by simpa using hce
    simp only [hce', Bool.not_false, if_true] at h
    split at h <;> try (simp at h; done)
    rename_i v hs
    obtain ⟨d, hv', hp⟩ := strToCommaDecimal_some env credit v hs hce'
    subst hv'
    simp at h
    subst h
    exact Or.inl ⟨hce', hp⟩

/-- **C16_sign (amount column).**  With an `amount` column the row moves an asset account by the amount and a
liability account by its negation (an empty cell counts as zero). -/
theorem C16_sign_amount (env : CsvEnv) (fm : FieldMap) (at_ : AccountType) (rec : List String)
    (f : CsvField) (a : Dec) (hv : fm.value = .amount f) (h : fm.amount env at_ rec = .ok a) :
    ∃ cell v, fm.resolve .amount f rec = .ok (some cell) ∧ strToCommaDecimal env cell = .ok v ∧
      (at_ = .asset → a = v.getD {}) ∧ (at_ = .liability → a = (v.getD {}).negate) := by
  unfold FieldMap.amount at h
  simp only [hv] at h
  split at h <;> try (simp at h; done)
  rename_i cell hc
  split at h <;> try (simp at h; done)
  rename_i v hs
  simp at h
  refine ⟨cell, v, hc, hs, ?_, ?_⟩ <;> intro hat <;> subst hat <;> exact h.symm

theorem readRow_amount (env : CsvEnv) (cfg : CsvCfg) (fm : FieldMap) (rec : List String) (v : RowValues)
    (h : readRow env cfg fm rec = .ok (some v)) : fm.amount env cfg.accountType rec = .ok v.amount := by
  unfold readRow at h
  simp only [bind, Outcome.bind] at h
  repeat' split at h
  all_goals first | (simp at h; done) | skip
  all_goals (simp at h; try (subst h; assumption))

/-- everything `csv::import` does before the conversion block leaves the amount, date, balance as read, no rate,
no transferred amount, and at most one charge (non-zero, in the row's commodity). -/
theorem baseTxn_spec (env : CsvEnv) (cfg : CsvCfg) (fm : FieldMap) (rec : List String) (v : RowValues) (t : Txn)
    (h : baseTxn env cfg fm rec v = .ok t) :
    t.amount = ⟨v.amount, v.commodity⟩ ∧ t.date = v.date ∧ t.rates = [] ∧ t.transferredAmount = none ∧
    t.balance = v.balance.map (fun b => ⟨b, v.commodity⟩) ∧
    t.destAccount = (rowFragment env cfg v).account ∧
    (t.charges = [] ∨ ∃ op value, t.charges = [⟨op, ⟨value, v.commodity⟩⟩] ∧ value.isZero = false) := by
  unfold baseTxn at h
  repeat' split at h
  all_goals first | (simp at h; done) | skip
  all_goals simp only [Outcome.ok.injEq] at h
  all_goals subst h
  all_goals simp [Txn.new, Txn.codeOption, Txn.destAccountOption, Txn.setClearState, Txn.addComment, Txn.setBalance,
    Txn.addCharge]
  all_goals (try (split <;> simp_all))
  all_goals (try (split <;> simp_all))
  all_goals (try exact ⟨_, _, ⟨rfl, rfl⟩, by assumption⟩)

theorem addRate_ok (t t' : Txn) (key : CommodityPair) (rate : Dec) (h : t.addRate key rate = .ok t') :
    key.source ≠ key.target ∧ t' = { t with rates := AMap.insert t.rates key.target ⟨rate, key.source⟩ } := by
  unfold Txn.addRate at h
  split at h
  · simp at h
  · rename_i hne
    refine ⟨hne, ?_⟩
    simp only at h
    cases hg : AMap.get? t.rates key.target with
    | none => simp [hg] at h; exact h.symm
    | some ex =>
      simp only [hg] at h
      split at h
      · simp at h
      · simp at h; exact h.symm

/-- **C16_counter (no conversion).**  Without a conversion the counter-posting is `−amount` in the same commodity,
and no rate is attached to either posting. -/
theorem C16_counter_plain (env : CsvEnv) (cfg : CsvCfg) (fm : FieldMap) (rec : List String) (v : RowValues)
    (txn : Txn) (i : Bool) (h : buildTxn env cfg fm rec v = .ok (txn, i)) (hno : selectedConversion env cfg v = none) :
    txn.amount = ⟨v.amount, v.commodity⟩ ∧
    txn.destAmount = { amount := .amt v.amount.negate.toPDec v.commodity, cost := none, lot := {} } ∧
    txn.srcAmount = { amount := .amt v.amount.toPDec v.commodity, cost := none, lot := {} } := by
  unfold buildTxn at h
  split at h <;> try (simp at h; done)
  rename_i t hb
  rw [hno] at h
  simp only [Outcome.ok.injEq, Prod.mk.injEq] at h
  obtain ⟨ht, _⟩ := h
  subst ht
  obtain ⟨ha, _, hr, htr, _, _, _⟩ := baseTxn_spec env cfg fm rec v t hb
  refine ⟨ha, ?_, ?_⟩
  · simp [Txn.destAmount, htr, Txn.toPostingAmount, Txn.asSyntaxAmount, Txn.rate, hr, ha, OwnedAmount.negate]
  · simp [Txn.srcAmount, Txn.toPostingAmount, Txn.asSyntaxAmount, Txn.rate, hr, ha]

/-- **C16_counter (conversion).**  When a conversion applies, with secondary commodity `sc` (the rule's `commodity`,
else the record's), the counter-posting carries the secondary amount — the statement's own figure (`extract`) or
`amount × rate` / `amount ÷ rate` (`compute`) — with the sign flag opposite to the primary amount, and `@ rate` is
attached to the commodity it prices: to the account posting in the *secondary* unit for `price_of_primary`, to the
counter-posting in the *primary* unit for `price_of_secondary`; the other posting carries no rate. -/
theorem C16_counter_conversion (base txn : Txn) (conv : Conversion) (amount : Dec) (commodity : String)
    (rate : Option Dec) (sa : Option Dec) (scField : Option String) (i : Bool)
    (hbase : base.amount = ⟨amount, commodity⟩) (hr : base.rates = [])
    (h : applyConversion base conv amount commodity rate sa scField = .ok (txn, i)) :
    ∃ r sc tr, rate = some r ∧ conv.commodity.or scField = some sc ∧ sc ≠ commodity ∧
      txn.amount = ⟨amount, commodity⟩ ∧
      txn.transferredAmount = some ⟨tr, sc⟩ ∧
      (conv.amount = .extract → sa = some tr) ∧
      (conv.amount = .compute → conv.rate = .priceOfPrimary → tr = Dec.mul amount r) ∧
      (conv.amount = .compute → conv.rate = .priceOfSecondary → ∃ flag, Dec.div amount r = .ok (tr, flag)) ∧
      -- the counter amount: magnitude of the secondary amount, sign flag opposite to the primary
      (∃ cost, txn.destAmount = { amount := .amt ⟨!amount.neg, tr.mant, tr.scale, none⟩ sc, cost := cost, lot := {} } ∧
        (conv.rate = .priceOfPrimary → cost = none ∧
            txn.srcAmount = { amount := .amt amount.toPDec commodity, cost := some (.rate (.amt r.toPDec sc)), lot := {} }) ∧
        (conv.rate = .priceOfSecondary → cost = some (.rate (.amt r.toPDec commodity)) ∧
            txn.srcAmount = { amount := .amt amount.toPDec commodity, cost := none, lot := {} })) := by
  unfold applyConversion at h
  cases rate with
  | none => simp at h
  | some r =>
    simp only at h
    cases hsc : conv.commodity.or scField with
    | none => simp [hsc] at h
    | some sc =>
      simp only [hsc] at h
      cases hrm : conv.rate with
      | priceOfPrimary =>
        simp only [hrm] at h
        split at h <;> try (simp at h; done)
        rename_i t1 hadd
        obtain ⟨hne, ht1⟩ := addRate_ok _ _ _ _ hadd
        simp only at hne
        cases ham : conv.amount with
        | extract =>
          simp only [ham] at h
          cases sa with
          | none => simp at h
          | some tr =>
            simp only [Outcome.ok.injEq, Prod.mk.injEq] at h
            obtain ⟨ht, _⟩ := h
            subst ht; subst ht1
            refine ⟨r, sc, tr, rfl, rfl, hne, by simp [Txn.setTransferredAmount, hbase], by simp [Txn.setTransferredAmount],
              by simp, by simp, by simp, none, ?_, ?_, by simp⟩
            · simp [Txn.destAmount, Txn.setTransferredAmount, Txn.toPostingAmount, Txn.asSyntaxAmount, Txn.amountWithSign,
                Txn.rate, hr, AMap.insert, AMap.get?, hbase, Dec.setSignPositive, Dec.isSignPositive, Dec.negate, Dec.toPDec, Ne.symm hne]
            · intro _
              simp [Txn.srcAmount, Txn.setTransferredAmount, Txn.toPostingAmount, Txn.asSyntaxAmount, Txn.rate, hr,
                AMap.insert, AMap.get?, hbase]
        | compute =>
          simp only [ham, Outcome.ok.injEq, Prod.mk.injEq] at h
          obtain ⟨ht, _⟩ := h
          subst ht; subst ht1
          refine ⟨r, sc, Dec.mul amount r, rfl, rfl, hne, by simp [Txn.setTransferredAmount, hbase],
            by simp [Txn.setTransferredAmount], by simp, by simp, by simp, none, ?_, ?_, by simp⟩
          · simp [Txn.destAmount, Txn.setTransferredAmount, Txn.toPostingAmount, Txn.asSyntaxAmount, Txn.amountWithSign,
              Txn.rate, hr, AMap.insert, AMap.get?, hbase, Dec.setSignPositive, Dec.isSignPositive, Dec.negate, Dec.toPDec, Ne.symm hne]
          · intro _
            simp [Txn.srcAmount, Txn.setTransferredAmount, Txn.toPostingAmount, Txn.asSyntaxAmount, Txn.rate, hr,
              AMap.insert, AMap.get?, hbase]
      | priceOfSecondary =>
        simp only [hrm] at h
        cases hdiv : Dec.div amount r with
        | err e => simp [hdiv] at h
        | panic s => simp [hdiv] at h
        | fuelOut => simp [hdiv] at h
        | ok qf =>
          obtain ⟨q, flag⟩ := qf
          simp only [hdiv] at h
          split at h <;> try (simp at h; done)
          rename_i t1 hadd
          obtain ⟨hne, ht1⟩ := addRate_ok _ _ _ _ hadd
          simp only at hne
          cases ham : conv.amount with
          | extract =>
            simp only [ham] at h
            cases sa with
            | none => simp at h
            | some tr =>
              simp only [Outcome.ok.injEq, Prod.mk.injEq] at h
              obtain ⟨ht, _⟩ := h
              subst ht; subst ht1
              refine ⟨r, sc, tr, rfl, rfl, Ne.symm hne, by simp [Txn.setTransferredAmount, hbase],
                by simp [Txn.setTransferredAmount], by simp, by simp, by simp, some (.rate (.amt r.toPDec commodity)), ?_, by simp, ?_⟩
              · simp [Txn.destAmount, Txn.setTransferredAmount, Txn.toPostingAmount, Txn.asSyntaxAmount,
                  Txn.amountWithSign, Txn.rate, hr, AMap.insert, AMap.get?, hbase, Dec.setSignPositive,
                  Dec.isSignPositive, Dec.negate, Dec.toPDec]
              · intro _
                refine ⟨rfl, ?_⟩
                simp [Txn.srcAmount, Txn.setTransferredAmount, Txn.toPostingAmount, Txn.asSyntaxAmount, Txn.rate, hr,
                  AMap.insert, AMap.get?, hbase, Ne.symm hne]
          | compute =>
            simp only [ham, Outcome.ok.injEq, Prod.mk.injEq] at h
            obtain ⟨ht, _⟩ := h
            subst ht; subst ht1
            refine ⟨r, sc, q, rfl, rfl, Ne.symm hne, by simp [Txn.setTransferredAmount, hbase],
              by simp [Txn.setTransferredAmount], by simp, by simp, fun _ _ => ⟨flag, hdiv⟩, some (.rate (.amt r.toPDec commodity)), ?_, by simp, ?_⟩
            · simp [Txn.destAmount, Txn.setTransferredAmount, Txn.toPostingAmount, Txn.asSyntaxAmount,
                Txn.amountWithSign, Txn.rate, hr, AMap.insert, AMap.get?, hbase, Dec.setSignPositive,
                Dec.isSignPositive, Dec.negate, Dec.toPDec]
            · intro _
              refine ⟨rfl, ?_⟩
              simp [Txn.srcAmount, Txn.setTransferredAmount, Txn.toPostingAmount, Txn.asSyntaxAmount, Txn.rate, hr,
                AMap.insert, AMap.get?, hbase, Ne.symm hne]

/-! ## row order -/

/-- the statement is monotone in the declared order -/
def DeclaredMonotone (o : RowOrder) (l : List Txn) : Prop :=
  match o with
  | .oldToNew => l.Pairwise (fun a b => a.date ≤ b.date)
  | .newToOld => l.Pairwise (fun a b => b.date ≤ a.date)

/-- **C16_order.**  The importer hands over one transaction per dated record, in file order for `old_to_new` and in
reverse file order for `new_to_old`; so a statement that is monotone in the declared order comes out oldest first. -/
theorem C16_order (env : CsvEnv) (cfg : CsvCfg) (header : List String) (records : List (List String))
    (txns : List Txn) (h : csvImport env cfg header records = .ok txns) :
    ∃ fm ts, FieldMap.tryNew cfg.fields header = .ok fm ∧ csvRows env cfg fm records = .ok ts ∧
      txns = applyRowOrder cfg.rowOrder (ts.map Prod.fst) ∧
      (DeclaredMonotone cfg.rowOrder (ts.map Prod.fst) → txns.Pairwise (fun a b => a.date ≤ b.date)) := by
  unfold csvImport csvImportFlagged at h
  cases hfm : FieldMap.tryNew cfg.fields header with
  | err e => simp [hfm, Outcome.map'] at h
  | panic s => simp [hfm, Outcome.map'] at h
  | fuelOut => simp [hfm, Outcome.map'] at h
  | ok fm =>
    cases hrows : csvRows env cfg fm records with
    | err e => simp [hfm, hrows, Outcome.map'] at h
    | panic s => simp [hfm, hrows, Outcome.map'] at h
    | fuelOut => simp [hfm, hrows, Outcome.map'] at h
    | ok ts =>
      simp only [hfm, hrows, Outcome.map', Outcome.ok.injEq] at h
      have hmap : txns = applyRowOrder cfg.rowOrder (ts.map Prod.fst) := by
        rw [← h]
        unfold applyRowOrder
        cases cfg.rowOrder <;> simp [List.map_reverse]
      refine ⟨fm, ts, rfl, hrows, hmap, ?_⟩
      intro hm
      rw [hmap]
      unfold DeclaredMonotone at hm
      unfold applyRowOrder
      cases ho : cfg.rowOrder with
      | oldToNew => simpa [ho] using hm
      | newToOld =>
        simp only [ho] at hm ⊢
        exact List.pairwise_reverse.2 hm

/-! ## acceptance by okane's own book-keeping -/

/-- every row carries the running balance of the account: `bᵢ = bᵢ₋₁ + amountᵢ` (starting from `x`) -/
def ConsistentRunningBalance (c : String) : Rat → List Txn → Prop
  | _, [] => True
  | x, t :: ts =>
    (∃ b, t.balance = some ⟨b, c⟩ ∧ b.toRat = x + t.amount.value.toRat) ∧
    ConsistentRunningBalance c (x + t.amount.value.toRat) ts

theorem runX_last (c : String) : ∀ (txns : List Txn) (x : Rat), ConsistentRunningBalance c x txns →
    ∀ t b, txns.getLast? = some t → t.balance = some ⟨b, c⟩ → runX x txns = b.toRat := by
  intro txns
  induction txns with
  | nil => intro x _ t b h; simp at h
  | cons t ts ih =>
    intro x h tl b hl hb
    obtain ⟨⟨b', hb', hv⟩, hrest⟩ := h
    cases ts with
    | nil =>
      simp at hl
      subst hl
      rw [hb'] at hb
      simp at hb
      subst hb
      simp [runX, hv]
    | cons t2 ts2 =>
      have : (t2 :: ts2).getLast? = some tl := by simpa [List.getLast?_cons_cons] using hl
      simpa [runX] using ih _ hrest tl b this hb

/-- a balanced run from a consistent running balance, when no row has a charge or a conversion -/
theorem runOK_of_plain (acct c : String) : ∀ (txns : List Txn) (x : Rat),
    (∀ t ∈ txns, t.Mono c ∧ t.OtherAccounts acct ∧ t.transferredAmount = none ∧ t.charges = []) →
    ConsistentRunningBalance c x txns → RunOK acct c x txns := by
  intro txns
  induction txns with
  | nil => intro _ _ _; trivial
  | cons t ts ih =>
    intro x hp hb
    obtain ⟨hm, ho, htr, hch⟩ := hp t (by simp)
    obtain ⟨hbt, hrest⟩ := hb
    refine ⟨hm, ?_, ho, Or.inr hbt, ih _ (fun t' h' => hp t' (by simp [h'])) hrest⟩
    unfold Txn.Balanced Txn.destVal
    rw [hch, htr]
    simp only [chargeSum, Dec.negate_toRat]
    grind

/-- **C16_accepts (rows without charge and without conversion).**  Given that the account held `b₀` beforehand,
a CSV statement whose running-balance column is consistent imports into a ledger that the book-keeping model
accepts, and the account ends at the statement's last balance. -/
theorem C16_accepts_partial (env : CsvEnv) (cfg : CsvCfg) (header : List String) (records : List (List String))
    (txns : List Txn) (c : String) (date : Date) (b₀ : Dec)
    (_himp : csvImport env cfg header records = .ok txns)
    (hc : c ≠ "") (hne : "Equity:Opening" ≠ cfg.account)
    (hrows : ∀ t ∈ txns, t.Mono c ∧ t.OtherAccounts cfg.account ∧ t.transferredAmount = none)
    (hnocharge : ∀ t ∈ txns, t.charges = [])
    (hbal : ConsistentRunningBalance c b₀.toRat txns) :
    ∃ trs st, ledgerOf cfg.account txns = .ok trs ∧
      process (Entry.txn (fundTxn cfg.account date b₀ c) :: trs.map Entry.txn) = .ok st ∧
      Amount.getPart (Balance.get st.bal cfg.account) c = runX b₀.toRat txns ∧
      (∀ t b, txns.getLast? = some t → t.balance = some ⟨b, c⟩ →
        Amount.getPart (Balance.get st.bal cfg.account) c = b.toRat) := by
  have hrun := runOK_of_plain cfg.account c txns b₀.toRat
    (fun t ht => ⟨(hrows t ht).1, (hrows t ht).2.1, (hrows t ht).2.2, hnocharge t ht⟩) hbal
  obtain ⟨trs, st, hl, hp, hv⟩ := run_accepts cfg.account c hc hne date b₀ txns hrun
  exact ⟨trs, st, hl, hp, hv, fun t b hlast hb => by rw [hv]; exact runX_last c txns _ hbal t b hlast hb⟩

/-- The statement at full strength: as `C16_accepts_partial`, but rows may carry a charge. -/
def C16_accepts_full : Prop :=
  ∀ (acct c : String) (date : Date) (b₀ : Dec) (txns : List Txn), c ≠ "" → "Equity:Opening" ≠ acct →
    (∀ t ∈ txns, t.Mono c ∧ t.OtherAccounts acct ∧ t.transferredAmount = none) →
    ConsistentRunningBalance c b₀.toRat txns →
    ∃ trs st, ledgerOf acct txns = .ok trs ∧
      process (Entry.txn (fundTxn acct date b₀ c) :: trs.map Entry.txn) = .ok st ∧
      Amount.getPart (Balance.get st.bal acct) c = runX b₀.toRat txns

/-- F19's row: `-50.00`, charge `2.00`, balance `950.00` (account held `1000.00`). -/
def f19Txn : Txn :=
  { date := ⟨2024, 1, 2⟩, payee := "shop", amount := ⟨⟨true, 5000, 2⟩, "USD"⟩, clearState := some .pending,
    balance := some ⟨⟨false, 95000, 2⟩, "USD"⟩, charges := [⟨"The Bank", ⟨⟨false, 200, 2⟩, "USD"⟩⟩] }

def f19Ledger : List Entry :=
  match ledgerOf "Assets:Bank" [f19Txn] with
  | .ok trs => Entry.txn (fundTxn "Assets:Bank" ⟨2024, 1, 1⟩ ⟨false, 100000, 2⟩ "USD") :: trs.map Entry.txn
  | _ => []

theorem f19Ledger_rejected : (process f19Ledger).isOk = false := by decide +kernel

/-- **F19.**  The full statement is false: the charge posting is added without adjusting the counter-posting, the
printed transaction does not balance, and the book-keeping rejects it. -/
theorem C16_accepts_full_false : ¬ C16_accepts_full := by
  intro h
  have hm : f19Txn.Mono "USD" := by
    refine ⟨rfl, ?_, ?_, rfl, ?_⟩
    · intro ch hch; simp [f19Txn] at hch; subst hch; rfl
    · intro tr htr; simp [f19Txn] at htr
    · intro b hb; simp [f19Txn] at hb; subst hb; rfl
  have ho : f19Txn.OtherAccounts "Assets:Bank" := by
    refine ⟨?_, by decide⟩
    intro fb hfb
    rcases hfb with h1 | h1 <;> subst h1 <;> decide
  have hcrb : ConsistentRunningBalance "USD" (⟨false, 100000, 2⟩ : Dec).toRat [f19Txn] :=
    ⟨⟨⟨false, 95000, 2⟩, rfl, by decide +kernel⟩, trivial⟩
  obtain ⟨trs, st, hl, hp, _⟩ := h "Assets:Bank" "USD" ⟨2024, 1, 1⟩ ⟨false, 100000, 2⟩ [f19Txn] (by decide) (by decide)
    (fun t ht => by simp at ht; subst ht; exact ⟨hm, ho, rfl⟩) hcrb
  have hrej := f19Ledger_rejected
  unfold f19Ledger at hrej
  rw [hl] at hrej
  simp only at hrej
  rw [hp] at hrej
  simp [Outcome.isOk] at hrej

/-! ## non-vacuity: the hypotheses are met by concrete statements -/

/-- decoders for the examples: a two-entry number table, ISO dates `2024-01-0d`, no regex match -/
def exEnv : CsvEnv :=
  { parseAmt := fun s =>
      if s = "-50.00" then some ⟨true, 5000, 2⟩ else if s = "2.00" then some ⟨false, 200, 2⟩
      else if s = "950.00" then some ⟨false, 95000, 2⟩ else if s = "25.5" then some ⟨false, 255, 1⟩
      else if s = "975.50" then some ⟨false, 97550, 2⟩ else none
    parseDate := fun s => if s = "2024-01-02" then some ⟨2024, 1, 2⟩ else if s = "2024-01-03" then some ⟨2024, 1, 3⟩ else none
    cap := fun _ _ => none }

def exCfg (charge : Bool) (order : RowOrder) : CsvCfg :=
  { account := "Assets:Bank", accountType := .asset, operator := some "The Bank", primary := "USD", conversion := {},
    rowOrder := order,
    fields := [(.date, .index 1), (.payee, .label "payee"), (.amount, .index 3), (.balance, .index 5)] ++
      (if charge then [(.charge, .index 4)] else []),
    rewrite := [] }

def exHeader : List String := ["date", "payee", "amount", "charge", "balance"]

/-- F19's witness is what the importer model makes of the CSV row `2024-01-02,shop,-50.00,2.00,950.00`. -/
example : csvImport exEnv (exCfg true .oldToNew) exHeader [["2024-01-02", "shop", "-50.00", "2.00", "950.00"]] = .ok [f19Txn] := by
  rfl

/-- a statement without charge column, newest row first: imported oldest first, accepted, ends at 975.50 -/
def exRecords : List (List String) :=
  [["2024-01-03", "refund", "25.5", "", "975.50"], ["2024-01-02", "shop", "-50.00", "", "950.00"]]

example :
    (match csvImport exEnv (exCfg false .newToOld) exHeader exRecords with
     | .ok txns =>
       txns.map (·.date) == [⟨2024, 1, 2⟩, ⟨2024, 1, 3⟩] &&
       (match ledgerOf "Assets:Bank" txns with
        | .ok trs =>
          (match process (Entry.txn (fundTxn "Assets:Bank" ⟨2024, 1, 1⟩ ⟨false, 100000, 2⟩ "USD") :: trs.map Entry.txn) with
           | .ok st => Amount.getPart (Balance.get st.bal "Assets:Bank") "USD" == (⟨false, 97550, 2⟩ : Dec).toRat
           | _ => false)
        | _ => false)
     | _ => false) = true := by
  decide +kernel

end Okane.Import
