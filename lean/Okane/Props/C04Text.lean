import Okane.Lemmas.BookText2
/-!
# C04 on ledger TEXTS (parser model ∘ book-keeping)

Theorems (in `Lemmas/BookText2.lean`, namespace `Okane.BookText`), for the ledger `st` a text denotes
(`Denotes t es st`: the text parses to `es` — parser model — and `process es = .ok st`), with no side condition:

* `C04_text_register_total` — per account and commodity: final running total of `register ACCOUNT`
  (`registerTotal`, shown in the register's last row: `register_last`) = balance report = balance recomputed over the
  unbounded range = sum of the amounts of all postings to the account; no zero entry is held;
* `C04_text_additive` — reports over `[s, m)` and `[m, e)` add up to the report over `[s, e)`;
* `C04_text_range` — the recomputed balance over a range is the sum of the postings dated in it, zero entries dropped.
-/
namespace Okane.C04Text
open Okane Okane.Spec Okane.BookText

/-- three transactions on three days, an inferred amount in each -/
def exText : List Char :=
  "2024/01/01 x\n A  10 USD\n B\n\n2024/01/05 y\n A  -4 USD\n C  4 USD\n\n2024/01/09 z\n A  = 1 USD\n B\n".toList

example : ∃ es st, Denotes exText es st := denotes_of_check (by decide +kernel)

/-- a decidable look at the denoted ledger -/
def ledgerCheck (t : List Char) (f : ProcState → Bool) : Bool :=
  match Parse.parseEntries t with
  | .ok es => (match process es with | .ok st => f st | _ => false)
  | _ => false

/-- the ledger is not trivial: three transactions, A ends at 1 USD, and the register of A has three rows whose last
running total is 1 USD -/
example : ledgerCheck exText (fun st => st.txns.length == 3 && Balance.get st.bal "A" == [("USD", (1 : Rat))] &&
    (register (postingsOf st.txns (some "A"))).length == 3 &&
    Amount.getPart (registerTotal (postingsOf st.txns (some "A"))) "USD" == 1) = true := by decide +kernel

/-- `C04_text_register_total` and `C04_text_additive` (split at 2024-01-05, both ends open) applied to it -/
example : ∃ st : ProcState,
    Amount.getPart (registerTotal (postingsOf st.txns (some "A"))) "USD" = Amount.getPart (Balance.get st.bal "A") "USD" ∧
    Amount.getPart (Balance.get (rangeBalanceRaw st.txns ⟨none, none⟩) "A") "USD" =
      Amount.getPart (Balance.get (rangeBalanceRaw st.txns ⟨none, some ⟨2024, 1, 5⟩⟩) "A") "USD" +
      Amount.getPart (Balance.get (rangeBalanceRaw st.txns ⟨some ⟨2024, 1, 5⟩, none⟩) "A") "USD" := by
  obtain ⟨es, st, hd⟩ := denotes_of_check (t := exText) (by decide +kernel)
  exact ⟨st, (C04_text_register_total exText es st hd "A" "USD").1,
    C04_text_additive exText es st hd none none ⟨2024, 1, 5⟩ (by intro _ h; cases h) (by intro _ h; cases h) "A" "USD"⟩

end Okane.C04Text
