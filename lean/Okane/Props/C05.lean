import Okane.Lemmas.C05Round
import Okane.Lemmas.C05DeclMerge
import Okane.Lemmas.C05TxnExpr
import Okane.Generated.ParamsTie
/-!
# C05 — documented syntax is read; formatting preserves meaning and is idempotent

Model: `Okane.Parse` (ledger parser over the winnow combinators of `Okane.Comb`), `Okane.Unparse` (printer of
`display.rs` / `format.rs`, well-formedness predicate `wfEntry`, meaning normalisation `canonEntry`).

* full-strength statements: `C05_entry_full`, `C05_image_full`, `C05_roundtrip_full`, `C05_idempotent_full`,
  `C05_eof_full` (kept visible as `def … : Prop`);
* what the current code violates, proved from concrete witnesses: `not_C05_image_full`, `not_C05_roundtrip_full`,
  `not_C05_idempotent_full` (known findings F27 / F28: Unicode white space that the parser does not treat as blank),
  `not_C05_eof_full` (an account followed by one blank at end of file — outside the documented grammar);
* proved: the entry loop and `format` compose (`C05_format_parse`, `C05_roundtrip_partial`, `C05_idempotent_partial`:
  for every ledger whose entries round-trip individually, any display-width function), the per-construct round trip
  for the directives `include`, `apply tag`, `end apply tag`, top-level comments (`C05_entry_partial`) and for
  tag-word / key-value metadata lines (`C05_metadata_partial`), hence `C05_roundtrip_directives`; the posting
  account (`C05_account`, the `repeat_till` with its peeked terminator).
-/
set_option linter.unusedSimpArgs false
namespace Okane.C05
open Okane Okane.Comb Okane.Parse Okane.Unparse

/-! ## full-strength statements -/

/-- every well-formed entry is read back from its printed form (followed by the empty line `format` writes) -/
def C05_entry_full : Prop := ∀ (w : List Char → Nat) (e : Entry), wfEntry e = true → EntryRT w e

/-- what the parser returns is printable: its meaning-normal form satisfies `wfEntry` -/
def C05_image_full : Prop :=
  ∀ (t : List Char) (es : List Entry), parseEntries t = .ok es → ∀ e ∈ es, wfEntry (canonEntry e) = true

/-- for every text that parses, the formatted text parses to the same entries (up to `canonEntry`: grouping style
of numbers without thousands) -/
def C05_roundtrip_full (w : List Char → Nat) : Prop :=
  ∀ (t : List Char) (es : List Entry), parseEntries t = .ok es →
    parseEntries (formatEntries w es) = .ok (es.map canonEntry)

/-- formatting formatted text returns it unchanged -/
def C05_idempotent_full (w : List Char → Nat) : Prop :=
  ∀ (t f : List Char), format w t = .ok f → format w f = .ok f

/-- a final line ended by end of file is read like one ended by a new-line -/
def C05_eof_full : Prop :=
  ∀ (t : List Char), t.getLast? ≠ some '\n' → t.getLast? ≠ some '\r' → parseEntries t = parseEntries (t ++ ['\n'])

/-! ## the entry loop and `format` (all entry kinds, any width function) -/

/-- parsing what `format` writes for entries that round-trip one by one gives those entries back -/
theorem C05_format_parse (w : List Char → Nat) (es : List Entry) (h : ∀ e ∈ es, EntryRT w e) :
    parseEntries (formatEntries w es) = .ok es :=
  parseEntries_format w es h

theorem C05_roundtrip_partial (w : List Char → Nat) (t : List Char) (es : List Entry)
    (hp : parseEntries t = .ok es) (hrt : ∀ e ∈ es, EntryRT w e) :
    ∃ f, format w t = .ok f ∧ parseEntries f = .ok es :=
  ⟨formatEntries w es, by simp [format, hp, Outcome.map'], parseEntries_format w es hrt⟩

theorem C05_idempotent_partial (w : List Char → Nat) (t : List Char) (es : List Entry)
    (hp : parseEntries t = .ok es) (hrt : ∀ e ∈ es, EntryRT w e) :
    ∃ f, format w t = .ok f ∧ format w f = .ok f :=
  ⟨formatEntries w es, by simp [format, hp, Outcome.map'],
    by simp [format, parseEntries_format w es hrt, Outcome.map']⟩

/-! ## per construct -/

/-- the directives whose round trip is proved -/
def isDirective : Entry → Bool
  | .comment _ => true
  | .applyTag _ _ => true
  | .endApplyTag => true
  | .include _ => true
  | _ => false

/-- `C05_entry` for `include`, `apply tag`, `end apply tag` and top-level comments -/
theorem C05_entry_partial (w : List Char → Nat) (e : Entry) (hwf : wfEntry e = true) (hd : isDirective e = true) :
    EntryRT w e := by
  cases e with
  | txn t => simp [isDirective] at hd
  | comment s => exact entryRT_comment w s (by simpa [wfEntry] using hwf)
  | applyTag k v =>
    simp [wfEntry] at hwf
    exact entryRT_applyTag w k v hwf.1 (by intro x hx; subst hx; simpa using hwf.2)
  | endApplyTag => exact entryRT_endApplyTag w
  | «include» p => exact entryRT_include w p (by simpa [wfEntry] using hwf)
  | account n ds => simp [isDirective] at hd
  | commodity n ds => simp [isDirective] at hd

/-- tag-word and key-value metadata lines (`    ; :a:b:`, `    ; key: value`, `    ; key:: expr`) are read back -/
theorem C05_metadata_partial (m : Metadata) (hm : wfMetadata m = true) (hnc : ∀ s, m ≠ .comment s) (rest : List Char) :
    preceded space1 lineMetadata (printMetaLine m ++ rest) = .ok m rest :=
  metaLine_rt m hm hnc rest

/-- `posting_account` reads back every account made of words (no blank, tab, `;`, CR, LF) joined by single blanks,
before two blanks, a tab, `;`, a line end (possibly after one blank) or the end of input; the blanks that follow
are skipped -/
theorem C05_account (w0 : List Char) (ws : List (List Char)) (X : List Char) (hw0 : wfWord w0)
    (hws : ∀ wd ∈ ws, wfWord wd) (hst : startTrimmed w0 = true) (hX : AccountFollow X) :
    postingAccount (w0 ++ (ws.flatMap (fun wd => ' ' :: wd) ++ X)) =
      .ok (String.ofList (w0 ++ ws.flatMap (fun wd => ' ' :: wd))) (X.dropWhile isSpace) :=
  postingAccount_rt w0 ws X hw0 hws hst hX

/-- round trip and idempotence for ledgers made of the proved directives -/
theorem C05_roundtrip_directives (w : List Char → Nat) (t : List Char) (es : List Entry)
    (hp : parseEntries t = .ok es) (hwf : ∀ e ∈ es, wfEntry e = true) (hd : ∀ e ∈ es, isDirective e = true) :
    ∃ f, format w t = .ok f ∧ parseEntries f = .ok es ∧ format w f = .ok f := by
  have hrt : ∀ e ∈ es, EntryRT w e := fun e he => C05_entry_partial w e (hwf e he) (hd e he)
  obtain ⟨f, h1, h2⟩ := C05_roundtrip_partial w t es hp hrt
  obtain ⟨f', h1', h3⟩ := C05_idempotent_partial w t es hp hrt
  rw [h1] at h1'
  cases h1'
  exact ⟨f, h1, h2, h3⟩

/-! ## every entry kind except transactions (account and commodity declarations included) -/

/-- `C05_entry` for every well-formed entry that is not a transaction: directives, top-level comments, and `account` /
`commodity` declarations with any list of sub-directives (comment, note, alias, format lines) -/
theorem C05_entry_nonTxn (w : List Char → Nat) (e : Entry) (hwf : wfEntry e = true) (hnt : ∀ t, e ≠ .txn t) :
    EntryRT w e :=
  entryRT_nonTxn w e hwf hnt

/-- round trip and idempotence for every ledger without transactions whose entries are well formed -/
theorem C05_roundtrip_nonTxn (w : List Char → Nat) (t : List Char) (es : List Entry)
    (hp : parseEntries t = .ok es) (hwf : ∀ e ∈ es, wfEntry e = true) (hnt : ∀ e ∈ es, ∀ x, e ≠ .txn x) :
    ∃ f, format w t = .ok f ∧ parseEntries f = .ok es ∧ format w f = .ok f := by
  have hrt : ∀ e ∈ es, EntryRT w e := fun e he => C05_entry_nonTxn w e (hwf e he) (hnt e he)
  obtain ⟨f, h1, h2⟩ := C05_roundtrip_partial w t es hp hrt
  obtain ⟨f', h1', h3⟩ := C05_idempotent_partial w t es hp hrt
  rw [h1] at h1'
  cases h1'
  exact ⟨f, h1, h2, h3⟩

/-- without the adjacency condition of `wfEntry` (two consecutive comment or two consecutive note sub-directives):
the printed declaration reads back with those neighbours merged, and the printed text is a fixed point of `format` -/
theorem C05_decl_merge (w : List Char → Nat) (es : List Entry) (h : ∀ e ∈ es, wfLoose e = true) :
    parseEntries (formatEntries w es) = .ok (es.map mergeEntry) ∧
    format w (formatEntries w es) = .ok (formatEntries w es) :=
  ⟨parseEntries_format_merge w es h, format_formatEntries_decl w es h⟩

example : wfEntry exAccount = true ∧ wfEntry exCommodity = true := by decide +kernel
example : EntryRT widthCjk exAccount := C05_entry_nonTxn _ _ (by decide +kernel) (by intro t h; cases h)

/-! ## every entry kind, transactions included

`wfEntry` alone is too weak for transactions: a *negative literal* as an operand inside parentheses
(`.paren (.val (.amt ⟨neg := true, …⟩ _))`, printed `(-1)`) is read back as a negation of the positive literal — the
parser (model and Rust alike) takes the `-` as the unary operator before a number token is tried
(`C05_entry_full_false`).  The parser never produces such a tree; `plainEntry` excludes it.  With it, every entry kind
round-trips. -/

/-- no value expression of the entry holds a negative literal in operand position (decidable) -/
def plainEntry (e : Entry) : Bool := (exprsOfEntry e).all ExprParse.plainV

/-- **C05_entry**: every well-formed, plain entry of every kind — transaction (header with date, effective date, clear
mark, code, payee, metadata; postings with account, value expressions, lot price/date/note, cost, balance assertion,
metadata), declaration, directive, comment — is read back from its printed form, for any display-width function -/
theorem C05_entry (w : List Char → Nat) (e : Entry) (hwf : wfEntry e = true) (hpl : plainEntry e = true) : EntryRT w e := by
  cases e with
  | txn t =>
    refine entryRT_txn_plain w t (by simpa [wfEntry] using hwf) ?_
    intro v hv
    have := List.all_eq_true.mp hpl v (by simpa [exprsOfEntry] using hv)
    exact this
  | comment s => exact C05_entry_nonTxn w _ hwf (by intro t h; cases h)
  | applyTag k v => exact C05_entry_nonTxn w _ hwf (by intro t h; cases h)
  | endApplyTag => exact C05_entry_nonTxn w _ hwf (by intro t h; cases h)
  | «include» p => exact C05_entry_nonTxn w _ hwf (by intro t h; cases h)
  | account n ds => exact C05_entry_nonTxn w _ hwf (by intro t h; cases h)
  | commodity n ds => exact C05_entry_nonTxn w _ hwf (by intro t h; cases h)

/-- the statement with `wfEntry` alone is false (`(-1)` as a posting amount) -/
theorem C05_entry_full_false : ¬ C05_entry_full := by
  intro h
  exact not_entryRT_txn_stmt (fun w t ht => h w (.txn t) (by simpa [wfEntry] using ht))

/-- **C05_roundtrip / C05_idempotent** for every text whose parsed entries are well formed and plain (the image
property — that the parser only returns such trees, up to `canonEntry` — is checked by the driver on every accepted
text of the correspondence stream; its proof is the remaining gap to `C05_roundtrip_full`): the formatted text parses to
exactly the same entries, and formatting it again returns it unchanged -/
theorem C05_roundtrip (w : List Char → Nat) (t : List Char) (es : List Entry)
    (hp : parseEntries t = .ok es) (hwf : ∀ e ∈ es, wfEntry e = true) (hpl : ∀ e ∈ es, plainEntry e = true) :
    ∃ f, format w t = .ok f ∧ parseEntries f = .ok es ∧ format w f = .ok f := by
  have hrt : ∀ e ∈ es, EntryRT w e := fun e he => C05_entry w e (hwf e he) (hpl e he)
  obtain ⟨f, h1, h2⟩ := C05_roundtrip_partial w t es hp hrt
  obtain ⟨f', h1', h3⟩ := C05_idempotent_partial w t es hp hrt
  rw [h1] at h1'
  cases h1'
  exact ⟨f, h1, h2, h3⟩

/-- what `format` writes for well-formed plain entries is a fixed point of `format` and parses back to them -/
theorem C05_format_fixed (w : List Char → Nat) (es : List Entry)
    (hwf : ∀ e ∈ es, wfEntry e = true) (hpl : ∀ e ∈ es, plainEntry e = true) :
    parseEntries (formatEntries w es) = .ok es ∧ format w (formatEntries w es) = .ok (formatEntries w es) := by
  have h := C05_format_parse w es (fun e he => C05_entry w e (hwf e he) (hpl e he))
  exact ⟨h, by simp [format, h, Outcome.map']⟩

example : wfEntry (.txn exTxn) = true ∧ plainEntry (.txn exTxn) = true :=
  ⟨by simpa [wfEntry] using exTxn_wf, by
    apply List.all_eq_true.mpr
    intro v hv
    exact exTxn_plain v (by simpa [exprsOfEntry] using hv)⟩

/-! ## non-vacuity -/

def exEntries : List Entry :=
  [.comment " top\n second line\n", .include "sub/*.ledger", .applyTag "trip" (some (.text "2024 Tōkyō")),
   .applyTag "k" none, .endApplyTag]

example : ∀ e ∈ exEntries, wfEntry e = true ∧ isDirective e = true := by decide
example : parseEntries (formatEntries widthStd exEntries) = .ok exEntries :=
  C05_format_parse widthStd exEntries (fun e he =>
    C05_entry_partial widthStd e ((by decide : ∀ e ∈ exEntries, wfEntry e = true) e he)
      ((by decide : ∀ e ∈ exEntries, isDirective e = true) e he))
example : wfMetadata (.wordTags ["a", "b"]) = true ∧ wfMetadata (.keyValue "k" (.text "v w")) = true := by decide
example : preceded space1 lineMetadata (printMetaLine (.keyValue "k" (.expr "1 + 2")) ++ ['x']) =
    .ok (.keyValue "k" (.expr "1 + 2")) ['x'] :=
  C05_metadata_partial _ (by decide) (by intro s h; cases h) _

example : postingAccount ("Assets:Bank of X  10 USD".toList) = .ok "Assets:Bank of X" "10 USD".toList := by
  have := C05_account "Assets:Bank".toList ["of".toList, "X".toList] "  10 USD".toList
    ⟨by decide, by decide⟩ (by intro wd h; simp at h; rcases h with rfl | rfl <;> exact ⟨by decide, by decide⟩)
    (by decide) (Or.inr (Or.inl ⟨_, rfl⟩))
  simpa [isSpace] using this

/-! ## what the current code violates (negation witnesses, evaluated by the kernel) -/

/-- F28: `2024/01/01 x⏎ <U+3000>⏎    B  1 USD⏎` — a posting whose account is only Unicode white space -/
def witF28 : List Char :=
  ['2','0','2','4','/','0','1','/','0','1',' ','x','\n',' ','　','\n',' ',' ',' ',' ','B',' ',' ','1',' ','U','S','D','\n']
/-- F27: `2024/01/01 x ; :a:b:<U+00A0>⏎` — tag words followed by white space that is not a blank -/
def witF27 : List Char :=
  ['2','0','2','4','/','0','1','/','0','1',' ','x',' ',';',' ',':','a',':','b',':',' ','\n']
/-- `2024/01/01 x⏎ A ` — an account followed by one blank at end of file -/
def witEof : List Char := ['2','0','2','4','/','0','1','/','0','1',' ','x','\n',' ','A',' ']

def imageOk (t : List Char) : Bool :=
  match parseEntries t with
  | .ok es => es.all fun e => wfEntry (canonEntry e)
  | _ => true

theorem not_C05_image_full : ¬ C05_image_full := by
  intro h
  have hw : imageOk witF28 = false := by decide +kernel
  unfold imageOk at hw
  split at hw
  · rename_i es hp
    have := h witF28 es hp
    simp [List.all_eq_true] at hw
    obtain ⟨e, he, hne⟩ := hw
    exact absurd (this e he) (by simp [hne])
  · simp at hw

/-- the same for F27 (a comment that is exactly tag words) -/
example : imageOk witF27 = false := by decide +kernel

def reparses (w : List Char → Nat) (t : List Char) : Bool :=
  match parseEntries t with
  | .ok es => (parseEntries (formatEntries w es)).isOk
  | _ => true

theorem not_C05_roundtrip_full : ¬ C05_roundtrip_full widthStd := by
  intro h
  have hw : reparses widthStd witF28 = false := by decide +kernel
  unfold reparses at hw
  split at hw
  · rename_i es hp
    rw [h witF28 es hp] at hw
    simp [Outcome.isOk] at hw
  · simp at hw

def reformats (w : List Char → Nat) (t : List Char) : Bool :=
  match format w t with
  | .ok f => (format w f).isOk
  | _ => true

theorem not_C05_idempotent_full : ¬ C05_idempotent_full widthStd := by
  intro h
  have hw : reformats widthStd witF28 = false := by decide +kernel
  unfold reformats at hw
  split at hw
  · rename_i f hf
    rw [h witF28 f hf] at hw
    simp [Outcome.isOk] at hw
  · simp at hw

theorem not_C05_eof_full : ¬ C05_eof_full := by
  intro h
  have h1 : (parseEntries witEof).isOk = false := by decide +kernel
  have h2 : (parseEntries (witEof ++ ['\n'])).isOk = true := by decide +kernel
  have := h witEof (by decide) (by decide)
  rw [this, h2] at h1
  exact absurd h1 (by simp)

end Okane.C05
