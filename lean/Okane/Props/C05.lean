/-! # C05 — property theorems (stub) -/
