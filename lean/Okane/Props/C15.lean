import Okane.Spec.Import
import Okane.Model.Literal
/-!
# C15 — import emits ledger text that reads back as intended

What is proved here is about the transaction `to_double_entry` builds (its exact shape, that it exists for
every record, that numbers are carried digit for digit and only padded by the printer) and about the class
`CleanText` of statement texts.  The read-back itself (printer then parser) is carried by the oracle on the
real code; `C15_readback` states it over the printer / parser models.
-/
namespace Okane.Import
open Okane

/-! ## Shape of the transaction -/

/-- the `@ rate` a posting in commodity `c` gets: the rate recorded for `c` as *target*, if any -/
def rateFor (t : Txn) (c : String) : Option Exchange :=
  (AMap.get? t.rates c).map fun x => Exchange.rate (.amt ⟨x.value.neg, x.value.mant, x.value.scale, none⟩ x.commodity)

/-- the number of the counter-posting: the transferred amount when there is one, else the amount;
in both cases with the sign flag opposite to the amount's -/
def counterAmount (t : Txn) : OwnedAmount :=
  match t.transferredAmount with
  | some tr => ⟨⟨!t.amount.value.neg, tr.value.mant, tr.value.scale⟩, tr.commodity⟩
  | none => ⟨⟨!t.amount.value.neg, t.amount.value.mant, t.amount.value.scale⟩, t.amount.commodity⟩

/-- how an amount appears in the tree: an unformatted number with exactly the decimal's sign flag, mantissa
and scale, followed by the commodity; `@ rate` if a rate is known for the commodity; no lot -/
def shownAmount (t : Txn) (a : OwnedAmount) : PostingAmount :=
  { amount := .amt ⟨a.value.neg, a.value.mant, a.value.scale, none⟩ a.commodity, cost := rateFor t a.commodity, lot := {} }

/-- **C15_tree.**  For every record and every imported account `to_double_entry` returns one transaction:
the record's date, the effective date as stored (the builder stores it only when it differs from the date),
state `*`, the code, the payee, the comments in order; postings: for a non-negative amount the imported
account first (with the balance assertion), then one `Expenses:Commissions` posting per charge (with its
`Payee:` tag), then the counter-posting; for a negative amount the same in the opposite order.  The
counter-posting goes to the destination account or to `Income:Unknown` / `Expenses:Unknown`, carries the
explicit state or, by default, nothing if the account is known and `!` otherwise. -/
theorem C15_tree (t : Txn) (src : String) :
    let neg := t.amount.value.neg
    let srcP : Posting := { account := src, clear := .uncleared, amount := some (shownAmount t t.amount),
      balance := t.balance.map fun b => .amt ⟨b.value.neg, b.value.mant, b.value.scale, none⟩ b.commodity, metadata := [] }
    let chargePs : List Posting := t.charges.map fun c =>
      { account := "Expenses:Commissions", clear := .uncleared, amount := some (shownAmount t c.amount),
        balance := none, metadata := [.keyValue "Payee" (.text c.payee)] }
    let destP : Posting :=
      { account := t.destAccount.getD (if neg then "Expenses:Unknown" else "Income:Unknown"),
        clear := t.clearState.getD (if t.destAccount.isSome then .uncleared else .pending),
        amount := some (shownAmount t (counterAmount t)), balance := none, metadata := [] }
    t.toDoubleEntry src = .ok
      { date := t.date, effectiveDate := t.effectiveDate, clear := .cleared, code := t.code, payee := t.payee,
        posts := if neg then destP :: chargePs ++ [srcP] else srcP :: chargePs ++ [destP],
        metadata := t.comments.map Metadata.comment } := by
  intro neg srcP chargePs destP
  have hcl : t.postClear = t.clearState.getD (if t.destAccount.isSome then .uncleared else .pending) := by
    simp only [Txn.postClear]
    cases t.clearState <;> cases t.destAccount <;> simp
  have hdest : t.destAmount = shownAmount t (counterAmount t) := by
    simp only [Txn.destAmount, counterAmount]
    cases t.transferredAmount <;>
      simp [Txn.toPostingAmount, shownAmount, Txn.asSyntaxAmount, Txn.amountWithSign, Dec.toPDec, Dec.setSignPositive,
        Dec.negate, Dec.isSignPositive, OwnedAmount.negate, rateFor, Txn.rate]
  have hsrc : t.srcPosting src = srcP := by
    simp [Txn.srcPosting, srcP, Txn.srcAmount, Txn.toPostingAmount, shownAmount, Txn.asSyntaxAmount, Dec.toPDec, rateFor, Txn.rate]
    cases t.balance <;> simp [Txn.asSyntaxAmount, Dec.toPDec]
  have hch : t.chargePostings = chargePs := by
    simp [Txn.chargePostings, chargePs, Txn.toPostingAmount, shownAmount, Txn.asSyntaxAmount, Dec.toPDec, rateFor, Txn.rate]
  cases hneg : t.amount.value.neg with
  | false =>
    simp only [Txn.toDoubleEntry, Txn.postings, Dec.isSignPositive, hneg, Bool.not_false, if_true, neg,
      Bool.false_eq_true, if_false, hsrc, hch]
    simp [Txn.destPosting, destP, hcl, hdest, neg, hneg]
  | true =>
    simp only [Txn.toDoubleEntry, Txn.postings, Dec.isSignPositive, Dec.isSignNegative, hneg, Bool.not_true,
      Bool.false_eq_true, if_false, if_true, neg, hsrc, hch]
    simp [Txn.destPosting, destP, hcl, hdest, neg, hneg]

/-- **`to_double_entry` cannot fail**: the "credit and debit both zero" branch is unreachable, because the
two tests look at the sign *flag* (a zero amount is booked as a credit of `0`, a negative zero as a debit). -/
theorem C15_never_err (t : Txn) (src : String) : ∃ tr, t.toDoubleEntry src = .ok tr :=
  ⟨_, C15_tree t src⟩

/-- **One transaction per statement record**: a list of records becomes a list of transactions of the same
length, in the same order, each being the transaction of its record. -/
theorem C15_one_per_record (ts : List Txn) (src : String) :
    ∃ trs, ts.mapM (fun t => t.toDoubleEntry src) = Outcome.ok trs ∧ trs.length = ts.length ∧
      ∀ i (h : i < ts.length) (h' : i < trs.length), ts[i].toDoubleEntry src = .ok trs[i] := by
  induction ts with
  | nil => exact ⟨[], rfl, rfl, by simp⟩
  | cons t rest ih =>
    obtain ⟨trs, h1, h2, h3⟩ := ih
    obtain ⟨tr, htr⟩ := C15_never_err t src
    refine ⟨tr :: trs, ?_, by simp [h2], ?_⟩
    · simp only [List.mapM_cons, htr, h1]
      rfl
    · intro i h h'
      cases i with
      | zero => simpa using htr
      | succ j => simpa using h3 j (by simpa using h) (by simpa using h')

/-- the builder stores an effective date only when it differs from the date -/
theorem setEffectiveDate_spec (t : Txn) (d : Date) :
    (t.setEffectiveDate d).effectiveDate = if t.date = d then t.effectiveDate else some d := by
  simp only [Txn.setEffectiveDate]
  by_cases h : t.date = d <;> simp [h]

/-- **Counter amount**: the value of the counter-posting is the negated amount, or — with a transferred
amount — the transferred amount's magnitude with the sign opposite to the amount's. -/
theorem C15_counter_amount (t : Txn) :
    (counterAmount t).value.neg = !t.amount.value.neg ∧
    (t.transferredAmount = none → (counterAmount t).commodity = t.amount.commodity ∧
        (counterAmount t).value.toRat = -t.amount.value.toRat) ∧
    (∀ tr, t.transferredAmount = some tr → (counterAmount t).commodity = tr.commodity ∧
        (counterAmount t).value.mant = tr.value.mant ∧ (counterAmount t).value.scale = tr.value.scale) := by
  refine ⟨?_, ?_, ?_⟩
  · simp only [counterAmount]; cases t.transferredAmount <;> rfl
  · intro h
    simp only [counterAmount, h, Dec.toRat, true_and]
    cases t.amount.value.neg <;> simp
  · intro tr h
    simp [counterAmount, h]

/-- **Rates sit on the commodity they price**: every posting whose amount is in commodity `c` carries
`@ rate` exactly when a rate with target `c` is known, and then it is that rate, in the source commodity. -/
theorem C15_rate_placement (t : Txn) (src : String) (tr : Transaction) (h : t.toDoubleEntry src = .ok tr) :
    ∀ p ∈ tr.posts, ∃ v c, p.amount = some { amount := .amt v c, cost := rateFor t c, lot := {} } := by
  rw [C15_tree t src] at h
  simp only [Outcome.ok.injEq] at h
  subst h
  intro p hp
  simp only at hp
  split at hp <;>
  · simp only [List.mem_cons, List.mem_append, List.mem_map, List.mem_singleton, List.not_mem_nil, or_false] at hp
    rcases hp with rfl | ⟨c, _, rfl⟩ | rfl <;> exact ⟨_, _, rfl⟩

/-! ## Numbers -/

/-- **Numbers enter the tree digit for digit**: the syntax number has the decimal's sign flag, mantissa and
scale (hence its value), and no format tag. -/
theorem C15_value (d : Dec) :
    d.toPDec.neg = d.neg ∧ d.toPDec.mant = d.mant ∧ d.toPDec.scale = d.scale ∧ d.toPDec.fmt = none ∧
    d.toPDec.toRat = d.toRat := by
  simp [Dec.toPDec, Dec.toRat, PDec.toRat]

private theorem mulLoop_spec (m : Nat) (diff : Nat) :
    ∃ k, k ≤ diff ∧ Literal.mulLoop m diff = (m * 10 ^ k, diff - k) ∧
      (m * 10 ^ diff ≤ Literal.maxMant → k = diff) := by
  induction diff generalizing m with
  | zero => exact ⟨0, by simp [Literal.mulLoop]⟩
  | succ n ih =>
    simp only [Literal.mulLoop]
    by_cases h : m * 10 > Literal.maxMant
    · refine ⟨0, by omega, by simp [h], ?_⟩
      intro hle
      have : m * 10 ≤ m * 10 ^ (n + 1) := by
        rw [Nat.pow_succ, ← Nat.mul_assoc, Nat.mul_comm (m * 10 ^ n) 10, ← Nat.mul_assoc]
        exact Nat.le_mul_of_pos_right _ (Nat.pow_pos (by omega))
      omega
    · obtain ⟨k, hk, he, hfull⟩ := ih (m * 10)
      refine ⟨k + 1, by omega, ?_, ?_⟩
      · simp only [h, if_false, he]
        rw [Nat.pow_succ, Nat.mul_assoc, Nat.mul_comm 10 (10 ^ k)]
        congr 1
        omega
      · intro hle
        have : m * 10 * 10 ^ n ≤ Literal.maxMant := by
          rwa [Nat.pow_succ, Nat.mul_comm (10 ^ n) 10, ← Nat.mul_assoc] at hle
        rw [hfull this]

private theorem scaled_toRat (neg : Bool) (m s k : Nat) (f : Option Fmt) :
    (PDec.mk neg (m * 10 ^ k) (s + k) f).toRat = (PDec.mk neg m s f).toRat := by
  simp only [PDec.toRat]
  have h10 : ((10 : Rat) ^ k) ≠ 0 := by
    apply Rat.pow_ne_zero; decide
  have : ((m * 10 ^ k : Nat) : Rat) / (10 : Rat) ^ (s + k) = (m : Rat) / (10 : Rat) ^ s := by
    rw [Rat.pow_add, Nat.cast_mul, Nat.cast_pow]
    simp only [Nat.cast_ofNat]
    rw [Rat.div_def, Rat.div_def, Rat.inv_mul_rev, ← Rat.mul_assoc, Rat.mul_assoc (m : Rat), Rat.mul_inv_cancel _ h10,
      Rat.mul_one]
  rw [this]

/-- **The printer only pads**: the number printed for an amount (`display.rs::rescale`) has the same value,
and (for scales within rust_decimal's 28) its scale is `max scale precision` whenever the padded mantissa still fits 96 bits (always the case for
mantissas below 2^96 / 10^precision); it never has a smaller scale. -/
theorem C15_rescale_value (prec : String → Nat) (v : PDec) (c : String) (hsc : v.scale ≤ Literal.maxScale) :
    (Literal.displayRescale prec v c).toRat = v.toRat ∧
    v.scale ≤ (Literal.displayRescale prec v c).scale ∧
    (v.mant ≠ 0 → v.mant * 10 ^ (max v.scale (prec c) - v.scale) ≤ Literal.maxMant →
      (Literal.displayRescale prec v c).scale = max v.scale (prec c)) := by
  simp only [Literal.displayRescale, Literal.rescale]
  by_cases h1 : v.scale = max v.scale (prec c)
  · simp only [h1.symm, if_true, Nat.le_refl, true_and]
    intros; trivial
  · simp only [h1, if_false]
    have hlt : v.scale < max v.scale (prec c) := by omega
    by_cases h2 : v.mant = 0
    · simp only [h2, if_true]
      refine ⟨by simp [PDec.toRat, h2], ?_, by simp⟩
      simp only [Literal.maxScale] at hsc ⊢
      omega
    · simp only [h2, if_false]
      have h3 : ¬ v.scale > max v.scale (prec c) := by omega
      simp only [h3, if_false]
      obtain ⟨k, hk, he, hfull⟩ := mulLoop_spec v.mant (max v.scale (prec c) - v.scale)
      simp only [he]
      have hs : max v.scale (prec c) - (max v.scale (prec c) - v.scale - k) = v.scale + k := by omega
      refine ⟨?_, by simp only [hs]; omega, ?_⟩
      · rw [hs]
        cases v with
        | mk n m s f => exact scaled_toRat n m s k f
      · intro _ hle
        rw [hs, hfull hle]
        omega

end Okane.Import
