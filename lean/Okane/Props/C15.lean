/-! # C15 — property theorems (stub) -/
