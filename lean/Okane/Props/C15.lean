import Okane.Spec.Import
import Okane.Model.Literal
import Okane.Lemmas.ImportReadback
import Okane.Lemmas.ImportReadbackZero
import Okane.Lemmas.ImportViseca
import Okane.Lemmas.ImportCsvCellsUse
/-!
# C15 — import emits ledger text that reads back as intended

What is proved here is about the transaction `to_double_entry` builds (its exact shape, that it exists for
every record, that numbers are carried digit for digit and only padded by the printer) and about the class
`CleanText` of statement texts.  The read-back itself (printer then parser) is carried by the oracle on the
real code; `C15_readback` / `C15_readback_ledger` (last section) prove it over the printer / parser models of C05, for
every record inside `CleanText`, under precisions ≤ 28.
-/
namespace Okane.Import
open Okane

/-! ## Shape of the transaction -/

/-- the `@ rate` a posting in commodity `c` gets: the rate recorded for `c` as *target*, if any -/
def rateFor (t : Txn) (c : String) : Option Exchange :=
  (AMap.get? t.rates c).map fun x => Exchange.rate (.amt ⟨x.value.neg, x.value.mant, x.value.scale, none⟩ x.commodity)

/-- the number of the counter-posting: the transferred amount when there is one, else the amount;
in both cases with the sign flag opposite to the amount's -/
def counterAmount (t : Txn) : OwnedAmount :=
  match t.transferredAmount with
  | some tr => ⟨⟨!t.amount.value.neg, tr.value.mant, tr.value.scale⟩, tr.commodity⟩
  | none => ⟨⟨!t.amount.value.neg, t.amount.value.mant, t.amount.value.scale⟩, t.amount.commodity⟩

/-- how an amount appears in the tree: an unformatted number with exactly the decimal's sign flag, mantissa
and scale, followed by the commodity; `@ rate` if a rate is known for the commodity; no lot -/
def shownAmount (t : Txn) (a : OwnedAmount) : PostingAmount :=
  { amount := .amt ⟨a.value.neg, a.value.mant, a.value.scale, none⟩ a.commodity, cost := rateFor t a.commodity, lot := {} }

/-- **C15_tree.**  For every record and every imported account `to_double_entry` returns one transaction:
the record's date, the effective date as stored (the builder stores it only when it differs from the date),
state `*`, the code, the payee, the comments in order; postings: for a non-negative amount the imported
account first (with the balance assertion), then one `Expenses:Commissions` posting per charge (with its
`Payee:` tag), then the counter-posting; for a negative amount the same in the opposite order.  The
counter-posting goes to the destination account or to `Income:Unknown` / `Expenses:Unknown`, carries the
explicit state or, by default, nothing if the account is known and `!` otherwise. -/
theorem C15_tree (t : Txn) (src : String) :
    let neg := t.amount.value.neg
    let srcP : Posting :=
      { account := src, clear := .uncleared, amount := some (shownAmount t t.amount),
        balance := t.balance.map (fun b => VExpr.amt ⟨b.value.neg, b.value.mant, b.value.scale, none⟩ b.commodity),
        metadata := [] }
    let chargePs : List Posting := t.charges.map (fun c =>
      { account := "Expenses:Commissions", clear := .uncleared, amount := some (shownAmount t c.amount),
        balance := none, metadata := [Metadata.keyValue "Payee" (MetaValue.text c.payee)] })
    let destP : Posting :=
      { account := t.destAccount.getD (if neg then "Expenses:Unknown" else "Income:Unknown"),
        clear := t.clearState.getD (if t.destAccount.isSome then .uncleared else .pending),
        amount := some (shownAmount t (counterAmount t)), balance := none, metadata := [] }
    t.toDoubleEntry src = .ok
      { date := t.date, effectiveDate := t.effectiveDate, clear := .cleared, code := t.code, payee := t.payee,
        posts := if neg then destP :: chargePs ++ [srcP] else srcP :: chargePs ++ [destP],
        metadata := t.comments.map Metadata.comment } := by
  intro neg srcP chargePs destP
  have hcl : t.postClear = t.clearState.getD (if t.destAccount.isSome then .uncleared else .pending) := by
    simp only [Txn.postClear]
    cases t.clearState <;> cases t.destAccount <;> simp
  have hdest : t.destAmount = shownAmount t (counterAmount t) := by
    simp only [Txn.destAmount, counterAmount]
    cases t.transferredAmount <;>
      simp [Txn.toPostingAmount, shownAmount, Txn.asSyntaxAmount, Txn.amountWithSign, Dec.toPDec, Dec.setSignPositive,
        Dec.negate, Dec.isSignPositive, OwnedAmount.negate, rateFor, Txn.rate]
  have hsrc : t.srcPosting src = srcP := by
    simp [Txn.srcPosting, srcP, Txn.srcAmount, Txn.toPostingAmount, shownAmount, Txn.asSyntaxAmount, Dec.toPDec, rateFor, Txn.rate]
    cases t.balance <;> simp [Txn.asSyntaxAmount, Dec.toPDec]
  have hch : t.chargePostings = chargePs := by
    simp [Txn.chargePostings, chargePs, Txn.toPostingAmount, shownAmount, Txn.asSyntaxAmount, Dec.toPDec, rateFor, Txn.rate]
  cases hneg : t.amount.value.neg with
  | false =>
    simp only [Txn.toDoubleEntry, Txn.postings, Dec.isSignPositive, hneg, Bool.not_false, if_true, neg,
      Bool.false_eq_true, if_false, hsrc, hch]
    simp [Txn.destPosting, destP, hcl, hdest, neg, hneg]
  | true =>
    simp only [Txn.toDoubleEntry, Txn.postings, Dec.isSignPositive, Dec.isSignNegative, hneg, Bool.not_true,
      Bool.false_eq_true, if_false, if_true, neg, hsrc, hch]
    simp [Txn.destPosting, destP, hcl, hdest, neg, hneg]

/-- **`to_double_entry` cannot fail**: the "credit and debit both zero" branch is unreachable, because the
two tests look at the sign *flag* (a zero amount is booked as a credit of `0`, a negative zero as a debit). -/
theorem C15_never_err (t : Txn) (src : String) : ∃ tr, t.toDoubleEntry src = .ok tr := by
  have h := C15_tree t src
  simp only at h
  exact ⟨_, h⟩

/-- **One transaction per statement record**: a list of records becomes a list of transactions of the same
length, in the same order, each being the transaction of its record. -/
theorem C15_one_per_record (ts : List Txn) (src : String) :
    ∃ trs, toDoubleEntries src ts = Outcome.ok trs ∧ trs.length = ts.length ∧
      ∀ i (h : i < ts.length) (h' : i < trs.length), ts[i].toDoubleEntry src = .ok trs[i] := by
  induction ts with
  | nil => exact ⟨[], rfl, rfl, by simp⟩
  | cons t rest ih =>
    obtain ⟨trs, h1, h2, h3⟩ := ih
    obtain ⟨tr, htr⟩ := C15_never_err t src
    refine ⟨tr :: trs, ?_, by simp [h2], ?_⟩
    · simp only [toDoubleEntries, htr, h1]
    · intro i h h'
      cases i with
      | zero => simpa using htr
      | succ j => simpa using h3 j (by simpa using h) (by simpa using h')

/-- the builder stores an effective date only when it differs from the date -/
theorem setEffectiveDate_spec (t : Txn) (d : Date) :
    (t.setEffectiveDate d).effectiveDate = if t.date = d then t.effectiveDate else some d := by
  simp only [Txn.setEffectiveDate]
  by_cases h : t.date = d <;> simp [h]

/-- **Counter amount**: the value of the counter-posting is the negated amount, or — with a transferred
amount — the transferred amount's magnitude with the sign opposite to the amount's. -/
theorem C15_counter_amount (t : Txn) :
    (counterAmount t).value.neg = !t.amount.value.neg ∧
    (t.transferredAmount = none → (counterAmount t).commodity = t.amount.commodity ∧
        (counterAmount t).value.toRat = -t.amount.value.toRat) ∧
    (∀ tr, t.transferredAmount = some tr → (counterAmount t).commodity = tr.commodity ∧
        (counterAmount t).value.mant = tr.value.mant ∧ (counterAmount t).value.scale = tr.value.scale) := by
  refine ⟨?_, ?_, ?_⟩
  · simp only [counterAmount]; cases t.transferredAmount <;> rfl
  · intro h
    simp only [counterAmount, h, Dec.toRat, true_and]
    cases hneg : t.amount.value.neg <;> simp
  · intro tr h
    simp [counterAmount, h]

/-- **Rates sit on the commodity they price**: every posting whose amount is in commodity `c` carries
`@ rate` exactly when a rate with target `c` is known, and then it is that rate, in the source commodity. -/
theorem C15_rate_placement (t : Txn) (src : String) (tr : Transaction) (h : t.toDoubleEntry src = .ok tr) :
    ∀ p ∈ tr.posts, ∃ v c, p.amount = some { amount := .amt v c, cost := rateFor t c, lot := {} } := by
  rw [C15_tree t src] at h
  simp only [Outcome.ok.injEq] at h
  subst h
  intro p hp
  simp only at hp
  split at hp <;>
  · simp only [List.mem_cons, List.mem_append, List.mem_map, List.not_mem_nil, or_false] at hp
    rcases hp with (rfl | ⟨c, _, rfl⟩) | rfl <;> exact ⟨_, _, rfl⟩

/-! ## Numbers -/

/-- **Numbers enter the tree digit for digit**: the syntax number has the decimal's sign flag, mantissa and
scale (hence its value), and no format tag. -/
theorem C15_value (d : Dec) :
    d.toPDec.neg = d.neg ∧ d.toPDec.mant = d.mant ∧ d.toPDec.scale = d.scale ∧ d.toPDec.fmt = none ∧
    d.toPDec.toRat = d.toRat :=
  ⟨rfl, rfl, rfl, rfl, rfl⟩

private theorem mulLoop_spec (m : Nat) (diff : Nat) :
    ∃ k, k ≤ diff ∧ Literal.mulLoop m diff = (m * 10 ^ k, diff - k) ∧
      (m * 10 ^ diff ≤ Literal.maxMant → k = diff) := by
  induction diff generalizing m with
  | zero => exact ⟨0, by simp [Literal.mulLoop]⟩
  | succ n ih =>
    simp only [Literal.mulLoop]
    by_cases h : m * 10 > Literal.maxMant
    · refine ⟨0, by omega, by simp [h], ?_⟩
      intro hle
      have h10 : 10 ^ 1 ≤ 10 ^ (n + 1) := Nat.pow_le_pow_right (by omega) (by omega)
      have : m * 10 ≤ m * 10 ^ (n + 1) := Nat.mul_le_mul_left m (by simpa using h10)
      omega
    · obtain ⟨k, hk, he, hfull⟩ := ih (m * 10)
      refine ⟨k + 1, by omega, ?_, ?_⟩
      · simp only [h, if_false, he]
        rw [Nat.pow_succ, Nat.mul_assoc, Nat.mul_comm 10 (10 ^ k)]
        congr 1
        omega
      · intro hle
        have : m * 10 * 10 ^ n ≤ Literal.maxMant := by
          rwa [Nat.pow_succ, Nat.mul_comm (10 ^ n) 10, ← Nat.mul_assoc] at hle
        rw [hfull this]

private theorem scaled_val (m s k : Nat) :
    ((m * 10 ^ k : Nat) : Rat) / (10 : Rat) ^ (s + k) = (m : Rat) / (10 : Rat) ^ s := by
  induction k with
  | zero => simp
  | succ k ih =>
    have h1 : ((m * 10 ^ (k + 1) : Nat) : Rat) = ((m * 10 ^ k : Nat) : Rat) * 10 := by
      rw [Nat.pow_succ, ← Nat.mul_assoc]
      simp [Rat.natCast_mul]
    rw [h1, ← Nat.add_assoc, Rat.pow_succ, ← ih]
    grind

private theorem scaled_toRat (neg : Bool) (m s k : Nat) (f : Option Fmt) :
    (PDec.mk neg (m * 10 ^ k) (s + k) f).toRat = (PDec.mk neg m s f).toRat := by
  simp only [PDec.toRat, scaled_val]

/-- **The printer only pads**: the number printed for an amount (`display.rs::rescale`) has the same value,
and (for scales within rust_decimal's 28) its scale is `max scale precision` whenever the padded mantissa still fits 96 bits (always the case for
mantissas below 2^96 / 10^precision); it never has a smaller scale. -/
theorem C15_rescale_value (prec : String → Nat) (v : PDec) (c : String) (hsc : v.scale ≤ Literal.maxScale) :
    (Literal.displayRescale prec v c).toRat = v.toRat ∧
    v.scale ≤ (Literal.displayRescale prec v c).scale ∧
    (v.mant ≠ 0 → v.mant * 10 ^ (max v.scale (prec c) - v.scale) ≤ Literal.maxMant →
      (Literal.displayRescale prec v c).scale = max v.scale (prec c)) := by
  simp only [Literal.displayRescale, Literal.rescale]
  by_cases h1 : v.scale = max v.scale (prec c)
  · simp only [h1.symm, if_true, Nat.le_refl, true_and]
    intros; trivial
  · simp only [h1, if_false]
    have hlt : v.scale < max v.scale (prec c) := by omega
    by_cases h2 : v.mant = 0
    · simp only [h2, if_true]
      refine ⟨by simp [PDec.toRat, h2, Rat.div_def], ?_, by simp⟩
      simp only [Literal.maxScale] at hsc ⊢
      omega
    · simp only [h2, if_false]
      have h3 : ¬ v.scale > max v.scale (prec c) := by omega
      simp only [h3, if_false]
      obtain ⟨k, hk, he, hfull⟩ := mulLoop_spec v.mant (max v.scale (prec c) - v.scale)
      simp only [he]
      have hs : max v.scale (prec c) - (max v.scale (prec c) - v.scale - k) = v.scale + k := by omega
      refine ⟨?_, by simp only [hs]; omega, ?_⟩
      · rw [hs]
        cases v with
        | mk n m s f => exact scaled_toRat n m s k f
      · intro _ hle
        rw [hs, hfull hle]
        omega

/-! ## Text: the clean class -/

private theorem cleanAmount_toPDec (a : OwnedAmount) (h : cleanAmount a = true) :
    readableVExpr (.amt ⟨a.value.neg, a.value.mant, a.value.scale, none⟩ a.commodity) = true := by
  simpa [cleanAmount, cleanDec, readableVExpr, readablePDec] using h

private theorem get?_mem {κ ν : Type} [DecidableEq κ] (m : AMap κ ν) (k : κ) (v : ν) (h : AMap.get? m k = some v) :
    ∃ k', (k', v) ∈ m := by
  induction m with
  | nil => simp [AMap.get?] at h
  | cons hd tl ih =>
    obtain ⟨a, b⟩ := hd
    simp only [AMap.get?] at h
    by_cases hk : a = k
    · simp only [hk, if_true, Option.some.injEq] at h
      exact ⟨a, by simp [h]⟩
    · simp only [hk, if_false] at h
      obtain ⟨k', hk'⟩ := ih h
      exact ⟨k', by simp [hk']⟩

private theorem readable_shown (t : Txn) (a : OwnedAmount) (ha : cleanAmount a = true)
    (hr : t.rates.all (fun kv => cleanAmount kv.2) = true) :
    readablePostingAmount (shownAmount t a) = true := by
  simp only [readablePostingAmount, shownAmount, cleanAmount_toPDec a ha, Bool.true_and, Option.isNone_none,
    Bool.and_true, rateFor]
  cases hg : AMap.get? t.rates a.commodity with
  | none => simp [readableCost]
  | some x =>
    obtain ⟨k', hk'⟩ := get?_mem _ _ _ hg
    have := List.all_eq_true.mp hr _ hk'
    simpa [readableCost, readableExchange] using cleanAmount_toPDec x this

/-- **C15_partial.**  For a record inside `CleanText` every text field of the transaction built lies in the
class the ledger syntax can carry at its place (`ReadableTree`): the payee holds no `;` / line break / outer
blank and no leading `(` unless a code precedes it, the code no `)`, comments are single lines that do not
look like tags, accounts survive `posting_account`, commodities survive `primitive::commodity`, charge
payees are trimmed single lines, amounts are plain numbers in range. -/
theorem C15_partial (t : Txn) (src : String) (tr : Transaction)
    (hclean : CleanText t src = true) (h : t.toDoubleEntry src = .ok tr) : ReadableTree tr = true := by
  rw [C15_tree t src] at h
  simp only [Outcome.ok.injEq] at h
  subst h
  simp only [CleanText, Bool.and_eq_true] at hclean
  obtain ⟨⟨⟨⟨⟨⟨⟨⟨⟨⟨⟨hd, he⟩, hp⟩, hc⟩, hcm⟩, hsrc⟩, hdst⟩, ham⟩, htr⟩, hbal⟩, hrates⟩, hch⟩ := hclean
  have hcounter : cleanAmount (counterAmount t) = true := by
    simp only [counterAmount]
    cases htt : t.transferredAmount with
    | none => simpa [cleanAmount, cleanDec] using ham
    | some x => simp only [htt] at htr; simpa [cleanAmount, cleanDec] using htr
  have hsrcP : readablePosting
      { account := src, clear := .uncleared, amount := some (shownAmount t t.amount),
        balance := t.balance.map (fun b => VExpr.amt ⟨b.value.neg, b.value.mant, b.value.scale, none⟩ b.commodity),
        metadata := [] } = true := by
    simp only [readablePosting, hsrc, Bool.true_and, readable_shown t _ ham hrates, List.all_nil, Bool.and_true]
    cases hb : t.balance with
    | none => rfl
    | some b => simp only [hb] at hbal; simpa [readableBalance] using cleanAmount_toPDec b hbal
  have hchP : ∀ c ∈ t.charges, readablePosting
      { account := "Expenses:Commissions", clear := .uncleared, amount := some (shownAmount t c.amount),
        balance := none, metadata := [Metadata.keyValue "Payee" (MetaValue.text c.payee)] } = true := by
    intro c hc
    have := List.all_eq_true.mp hch c hc
    simp only [Bool.and_eq_true] at this
    have hacc : cleanAccount "Expenses:Commissions" = true := by decide
    simp [readablePosting, hacc, readable_shown t _ this.2 hrates, readableMetadata, this.1, readableBalance]
  have hdestP : ∀ fb, cleanAccount fb = true → readablePosting
      { account := t.destAccount.getD fb,
        clear := t.clearState.getD (if t.destAccount.isSome then .uncleared else .pending),
        amount := some (shownAmount t (counterAmount t)), balance := none, metadata := [] } = true := by
    intro fb hfb
    have hacc : cleanAccount (t.destAccount.getD fb) = true := by
      cases hda : t.destAccount with
      | none => simpa using hfb
      | some a => simp only [hda] at hdst; simpa using hdst
    simp [readablePosting, hacc, readable_shown t _ hcounter hrates, readableBalance]
  have hmeta : (t.comments.map Metadata.comment).all readableMetadata = true := by
    rw [List.all_map]
    exact hcm
  simp only [ReadableTree, hd, he, hp, hc, hmeta, Bool.true_and]
  cases t.amount.value.neg with
  | false =>
    simp only [Bool.false_eq_true, if_false, List.all_cons, List.all_append, List.all_nil, Bool.and_true, hsrcP,
      hdestP "Income:Unknown" (by decide), Bool.true_and, List.all_map]
    exact List.all_eq_true.mpr (fun c hc => hchP c hc)
  | true =>
    simp only [if_true, List.all_cons, List.all_append, List.all_nil, Bool.and_true, hsrcP,
      hdestP "Expenses:Unknown" (by decide), Bool.true_and, List.all_map]
    exact List.all_eq_true.mpr (fun c hc => hchP c hc)

/-- **Kept visible, FALSE on the current code** — the property as stated ("whatever the statement file
contains"): every record yields a tree whose text the ledger syntax can carry. -/
def C15_full : Prop :=
  ∀ (t : Txn) (src : String) (tr : Transaction), t.toDoubleEntry src = .ok tr → ReadableTree tr = true

/-- the three F15 witnesses as records: payee `shop ; evil`; a note holding a line break followed by a
posting line; payee `(abc) def` -/
def f15Witnesses : List Txn :=
  [ Txn.new ⟨2024, 1, 5⟩ "shop ; evil" ⟨⟨true, 1250, 2⟩, "CHF"⟩,
    (Txn.new ⟨2024, 1, 5⟩ "shop" ⟨⟨true, 1250, 2⟩, "CHF"⟩).addComment "first line\n    Assets:Hidden  1000000 CHF",
    Txn.new ⟨2024, 1, 5⟩ "(abc) def" ⟨⟨true, 1250, 2⟩, "CHF"⟩ ]

/-- F15: none of the three witnesses yields a tree inside the class (each is printed verbatim by
`to_double_entry` + `Display`; the replay on the real importer, printer and parser runs on every check). -/
theorem C15_full_false : ¬ C15_full ∧
    ∀ t ∈ f15Witnesses, (t.toDoubleEntry "Assets:Bank").map' ReadableTree = .ok false := by
  have hw : ∀ t ∈ f15Witnesses, (t.toDoubleEntry "Assets:Bank").map' ReadableTree = .ok false := by
    decide
  refine ⟨?_, hw⟩
  intro hfull
  have h0 := hw _ (List.mem_cons_self)
  obtain ⟨tr, h1⟩ := C15_never_err (f15Witnesses.head (by decide)) "Assets:Bank"
  have h2 := hfull _ _ _ h1
  simp only [f15Witnesses, List.head_cons] at h1
  simp [h1, Outcome.map', h2] at h0

-- non-vacuity of C15_partial: a clean record with code, comment, charge, rate and transferred amount
def exCleanTxn : Txn :=
  { date := ⟨2024, 2, 29⟩, effectiveDate := some ⟨2024, 3, 1⟩, code := some "1234", payee := "Migros (Zürich) *",
    comments := ["ref 42"], destAccount := some "Expenses:Food & Drink", amount := ⟨⟨true, 1250, 2⟩, "CHF"⟩,
    transferredAmount := some ⟨⟨false, 1150, 2⟩, "EUR"⟩, rates := [("EUR", ⟨⟨false, 1087, 3⟩, "CHF"⟩)],
    balance := some ⟨⟨false, 100000, 2⟩, "CHF"⟩, charges := [⟨"Bank (fee)", ⟨⟨false, 50, 2⟩, "CHF"⟩⟩] }

example : CleanText exCleanTxn "Assets:Bank" = true := by decide
example : (exCleanTxn.toDoubleEntry "Assets:Bank").map' (fun tr => (tr.posts.map (·.account), ReadableTree tr))
    = .ok (["Expenses:Food & Drink", "Expenses:Commissions", "Assets:Bank"], true) := by decide
-- C15_counter_amount / C15_rate_placement on it: the counter-posting is `11.50 EUR @ 1.087 CHF`
example : (exCleanTxn.toDoubleEntry "Assets:Bank").map' (fun tr => tr.posts.head?.map (fun p => p.amount ==
      some { amount := .amt ⟨false, 1150, 2, none⟩ "EUR", cost := some (.rate (.amt ⟨false, 1087, 3, none⟩ "CHF")), lot := {} }))
    = .ok (some true) := by decide
-- C15_rescale_value: 12.5 CHF printed at precision 2 is 12.50 (same value, scale 2)
example : Literal.displayRescale (fun _ => 2) ⟨false, 125, 1, none⟩ "CHF" = ⟨false, 1250, 2, none⟩ := by decide

/-! ## Read-back: the printed text is parsed as the transaction built (printer and parser models of C05)

`ImportCmd::run` prints every transaction with the configured precisions (`printTransactionP prec`, the printer of
`Okane.Unparse` with a precision table; `printTransactionP_noPrec`, `printTransactionP_rescale` in
`Lemmas/ImportReadback.lean`).  What the parser returns for that text is `readbackTxn prec tr`: the transaction built,
with every number padded the way `display.rs::rescale` pads it and as the literal scanner returns it
(`readNum`: tag `plain` for four integer digits or more, no sign on a zero — `C07_print_exact`).
`C15_readback_number` / `C15_readback_shape` say what that does to the transaction: nothing but padding.

* `C15_readback`, `C15_readback_ledger` — every record inside `CleanText`, every precision table `≤ 28`: the parser reads
  the printed text back as `readbackTxn prec tr`, one transaction per record and nothing else.
* The one condition besides `CleanText`, `∀ c, prec c ≤ 28`, is needed: a configured precision beyond rust_decimal's
  maximal scale makes the printer write a number the parser rejects (`C15_readback_prec_needed`: precision 29, `-0.1`).
* `C15_readback_wf` — if moreover no number of the record enters the tree as a signed zero (`noSignedZero`), the tree read
  back satisfies `wfEntry` / `plainEntry` of C05 and prints to exactly the text it was read from (it is a fixed point of
  `format`).  That condition is needed for this part: the record `0.00 CHF` gets the counter-posting `-0.00 CHF`, read back
  as `0.00 CHF`, which prints differently (`C15_signed_zero_not_fixed`).  The read-back of such records is proved by the
  relational round trip of `Lemmas/ImportReadbackZero.lean` instead of `C05_entry`.
-/
open Okane.Parse Okane.Unparse

/-- a decimal that is not a zero with the sign flag set -/
def okDec (d : Dec) : Bool := !(d.neg && d.mant == 0)

/-- no number the record puts into the tree is a signed zero: the amount is not `-0`, the counter-posting's number (the
amount's or the transferred amount's magnitude under the opposite sign flag) is not a zero under a non-negative amount,
balance / rates / charges are not `-0` -/
def noSignedZero (t : Txn) : Bool :=
  okDec t.amount.value && okDec (counterAmount t).value &&
  (match t.balance with | some b => okDec b.value | none => true) &&
  t.rates.all (fun kv => okDec kv.2.value) && t.charges.all (fun c => okDec c.amount.value)

private theorem plain_of_okDec (d : Dec) (h : okDec d = true) : plainNum ⟨d.neg, d.mant, d.scale, none⟩ = true := by
  simpa [plainNum, okDec] using h

private theorem plain_shown (t : Txn) (a : OwnedAmount) (ha : okDec a.value = true)
    (hr : t.rates.all (fun kv => okDec kv.2.value) = true) :
    allV (fun d _ => plainNum d) (shownAmount t a).amount = true ∧
    allExchange (fun d _ => plainNum d) (shownAmount t a).lot.price = true ∧
    allExchange (fun d _ => plainNum d) (shownAmount t a).cost = true := by
  refine ⟨plain_of_okDec _ ha, rfl, ?_⟩
  simp only [shownAmount, rateFor]
  cases hg : AMap.get? t.rates a.commodity with
  | none => rfl
  | some x =>
    obtain ⟨k', hk'⟩ := get?_mem _ _ _ hg
    have := List.all_eq_true.mp hr _ hk'
    exact plain_of_okDec _ this

/-- the tree built for a record without signed zero has only untagged numbers, none of them a signed zero -/
theorem C15_plainNums (t : Txn) (src : String) (tr : Transaction) (hz : noSignedZero t = true)
    (h : t.toDoubleEntry src = .ok tr) : plainNums tr = true := by
  rw [C15_tree t src] at h
  simp only [Outcome.ok.injEq] at h
  subst h
  simp only [noSignedZero, Bool.and_eq_true] at hz
  obtain ⟨⟨⟨⟨z1, z2⟩, z3⟩, z4⟩, z5⟩ := hz
  have hS : ∀ a, okDec a.value = true → ∀ (acc : String) (cl : ClearState) (md : List Metadata),
      allPosting (fun d _ => plainNum d)
        { account := acc, clear := cl, amount := some (shownAmount t a), balance := none, metadata := md } = true := by
    intro a ha acc cl md
    obtain ⟨g1, g2, g3⟩ := plain_shown t a ha z4
    simp only [allPosting, g1, g2, g3, Bool.and_self]
  have hsrcP : allPosting (fun d _ => plainNum d)
      { account := src, clear := .uncleared, amount := some (shownAmount t t.amount),
        balance := t.balance.map (fun b => VExpr.amt ⟨b.value.neg, b.value.mant, b.value.scale, none⟩ b.commodity),
        metadata := [] } = true := by
    obtain ⟨g1, g2, g3⟩ := plain_shown t t.amount z1 z4
    simp only [allPosting, g1, g2, g3, Bool.and_self, Bool.true_and]
    cases hb : t.balance with
    | none => rfl
    | some b => rw [hb] at z3; exact plain_of_okDec _ z3
  have hch : ∀ c ∈ t.charges, allPosting (fun d _ => plainNum d)
      { account := "Expenses:Commissions", clear := .uncleared, amount := some (shownAmount t c.amount),
        balance := none, metadata := [Metadata.keyValue "Payee" (MetaValue.text c.payee)] } = true :=
    fun c hc => hS c.amount (List.all_eq_true.mp z5 c hc) _ _ _
  simp only [plainNums, allTxn]
  cases t.amount.value.neg with
  | false =>
    simp only [Bool.false_eq_true, if_false, List.all_cons, List.all_append, List.all_nil, Bool.and_true, hsrcP,
      hS _ z2, Bool.true_and, List.all_map]
    exact List.all_eq_true.mpr (fun c hc => hch c hc)
  | true =>
    simp only [if_true, List.all_cons, List.all_append, List.all_nil, Bool.and_true, hsrcP,
      hS _ z2, Bool.true_and, List.all_map]
    exact List.all_eq_true.mpr (fun c hc => hch c hc)

/-- the tree built for ANY record carries no format tag on any number (`PrettyDecimal::unformatted`) -/
theorem C15_untagged (t : Txn) (src : String) (tr : Transaction) (h : t.toDoubleEntry src = .ok tr) :
    untaggedNums tr = true := by
  rw [C15_tree t src] at h
  simp only [Outcome.ok.injEq] at h
  subst h
  have hshown : ∀ a, allV (fun d _ => d.fmt.isNone) (shownAmount t a).amount = true ∧
      allExchange (fun d _ => d.fmt.isNone) (shownAmount t a).lot.price = true ∧
      allExchange (fun d _ => d.fmt.isNone) (shownAmount t a).cost = true := by
    intro a
    refine ⟨rfl, rfl, ?_⟩
    simp only [shownAmount, rateFor]
    cases AMap.get? t.rates a.commodity <;> rfl
  have hS : ∀ a (acc : String) (cl : ClearState) (md : List Metadata),
      allPosting (fun d _ => d.fmt.isNone)
        { account := acc, clear := cl, amount := some (shownAmount t a), balance := none, metadata := md } = true := by
    intro a acc cl md
    obtain ⟨g1, g2, g3⟩ := hshown a
    simp only [allPosting, g1, g2, g3, Bool.and_self]
  have hsrcP : allPosting (fun d _ => d.fmt.isNone)
      { account := src, clear := .uncleared, amount := some (shownAmount t t.amount),
        balance := t.balance.map (fun b => VExpr.amt ⟨b.value.neg, b.value.mant, b.value.scale, none⟩ b.commodity),
        metadata := [] } = true := by
    obtain ⟨g1, g2, g3⟩ := hshown t.amount
    simp only [allPosting, g1, g2, g3, Bool.and_self, Bool.true_and]
    cases t.balance <;> rfl
  simp only [untaggedNums, allTxn]
  cases t.amount.value.neg with
  | false =>
    simp only [Bool.false_eq_true, if_false, List.all_cons, List.all_append, List.all_nil, Bool.and_true, hsrcP,
      hS, Bool.true_and, List.all_map]
    exact List.all_eq_true.mpr (fun c _ => hS _ _ _ _)
  | true =>
    simp only [if_true, List.all_cons, List.all_append, List.all_nil, Bool.and_true, hsrcP,
      hS, Bool.true_and, List.all_map]
    exact List.all_eq_true.mpr (fun c _ => hS _ _ _ _)

private theorem built_clear (t : Txn) (src : String) (tr : Transaction) (htr : t.toDoubleEntry src = .ok tr) :
    (tr.clear != .uncleared || notClearMarkStart tr.payee.toList) = true := by
  have := C15_tree t src
  simp only at this
  rw [this] at htr
  simp only [Outcome.ok.injEq] at htr
  subst htr
  rfl

/-- **The full statement of the read-back**: every record inside `CleanText`, every precision table within
rust_decimal's scale range, every display-width function. -/
def C15_readback_stmt : Prop :=
  ∀ (prec : String → Nat), (∀ c, prec c ≤ 28) → ∀ (w : List Char → Nat) (t : Txn) (src : String), CleanText t src = true →
    ∃ tr, t.toDoubleEntry src = .ok tr ∧ StartsEntry (printTransactionP prec w tr) ∧
      ∀ rest, parseLedgerEntry (printTransactionP prec w tr ++ '\n' :: rest) = .ok (.txn (readbackTxn prec tr)) ('\n' :: rest)

/-- **C15_readback.**  For every statement record inside `CleanText`, every imported account, every precision table
within rust_decimal's scale range and every display-width function: `to_double_entry` returns a transaction `tr`; the
text the importer writes for it under the configured precisions starts an entry, and the entry parser, whatever follows
the blank line the importer writes after it, consumes exactly that text and returns `readbackTxn prec tr` — `tr` with its
numbers padded as printed.  (Signed zeros included: `-0.00` is read back as `0.00`.) -/
theorem C15_readback : C15_readback_stmt := by
  intro prec hprec w t src hclean
  obtain ⟨tr, htr⟩ := C15_never_err t src
  have h := readback_tree_all prec hprec w tr (C15_partial t src tr hclean htr) (C15_untagged t src tr htr)
    (built_clear t src tr htr)
  exact ⟨tr, htr, h.1, h.2⟩

/-- **C15_readback_wf.**  If moreover the record puts no signed zero into the tree: the tree read back is well formed and
plain (`wfEntry`, `plainEntry` of C05) and the C05 printer prints it to exactly the text the importer wrote — the
importer's output is a fixed point of print-then-parse, tree for tree (`C05_entry` applies to it). -/
theorem C15_readback_wf (prec : String → Nat) (hprec : ∀ c, prec c ≤ 28) (w : List Char → Nat) (t : Txn) (src : String)
    (hclean : CleanText t src = true) (hz : noSignedZero t = true) :
    ∃ tr, t.toDoubleEntry src = .ok tr ∧
      wfEntry (.txn (readbackTxn prec tr)) = true ∧ C05.plainEntry (.txn (readbackTxn prec tr)) = true ∧
      printTransactionP prec w tr = printTransaction w (readbackTxn prec tr) ∧
      EntryRT w (.txn (readbackTxn prec tr)) := by
  obtain ⟨tr, htr⟩ := C15_never_err t src
  have hr := C15_partial t src tr hclean htr
  have hn := C15_plainNums t src tr hz htr
  obtain ⟨h1, h2⟩ := readableTree_wf prec hprec tr hr hn (built_clear t src tr htr)
  exact ⟨tr, htr, h1, h2, (readback_print prec hprec w tr hr hn).symm, C05.C05_entry w _ h1 h2⟩

/-- **Nothing but padding.**  What `readbackTxn` does to a number `d` standing next to commodity `c`: the value is
unchanged, the scale is never smaller and is `max scale (prec c)` whenever the padded mantissa fits 96 bits, the sign
flag is kept on non-zero numbers. -/
theorem C15_readback_number (prec : String → Nat) (d : PDec) (c : String) (hsc : d.scale ≤ 28) :
    (readbackNum prec d c).toRat = d.toRat ∧ d.scale ≤ (readbackNum prec d c).scale ∧
    (d.mant ≠ 0 → d.mant * 10 ^ (max d.scale (prec c) - d.scale) ≤ Literal.maxMant →
      (readbackNum prec d c).scale = max d.scale (prec c)) ∧
    (d.mant < 2 ^ 96 → prec c ≤ 28 → d.mant ≠ 0 → (readbackNum prec d c).neg = d.neg) := by
  obtain ⟨h1, h2, h3⟩ := C15_rescale_value prec d c hsc
  obtain ⟨g1, g2, g3⟩ := readNum_toRat (Literal.displayRescale prec d c)
  refine ⟨by rw [readbackNum, g1, h1], by rw [readbackNum, g3]; exact h2, fun a b => by rw [readbackNum, g3]; exact h3 a b, ?_⟩
  intro hm hp h0
  obtain ⟨k1, _, _, _, k5⟩ := displayRescale_props prec d c hm hsc hp
  have : (Literal.displayRescale prec d c).mant ≠ 0 := fun e => h0 (k5.mp e)
  simp [readbackNum, readNum, k1, this]

/-- every other field of the transaction (dates, state, code, payee, comments, accounts, posting states, tags, the shape
of every amount) is untouched by `readbackTxn` -/
theorem C15_readback_shape (prec : String → Nat) (tr : Transaction) :
    (readbackTxn prec tr).date = tr.date ∧ (readbackTxn prec tr).effectiveDate = tr.effectiveDate ∧
    (readbackTxn prec tr).clear = tr.clear ∧ (readbackTxn prec tr).code = tr.code ∧
    (readbackTxn prec tr).payee = tr.payee ∧ (readbackTxn prec tr).metadata = tr.metadata ∧
    (readbackTxn prec tr).posts.length = tr.posts.length ∧
    ∀ i (h : i < tr.posts.length) (h' : i < (readbackTxn prec tr).posts.length),
      (readbackTxn prec tr).posts[i].account = tr.posts[i].account ∧
      (readbackTxn prec tr).posts[i].clear = tr.posts[i].clear ∧
      (readbackTxn prec tr).posts[i].metadata = tr.posts[i].metadata ∧
      (readbackTxn prec tr).posts[i].amount = tr.posts[i].amount.map (mapPostingAmount (readbackNum prec)) ∧
      (readbackTxn prec tr).posts[i].balance = tr.posts[i].balance.map (mapV (readbackNum prec)) := by
  refine ⟨rfl, rfl, rfl, rfl, rfl, rfl, by simp [readbackTxn, mapTxn], ?_⟩
  intro i h h'
  simp [readbackTxn, mapTxn, mapPosting]

/-- **C15_readback_ledger**: one transaction per record, and nothing else.  For every list of records inside `CleanText`
the importer's loop (both models of it) returns one transaction per record, and the ledger parser reads the whole text
`ImportCmd::run` writes (each transaction followed by an empty line) as exactly those transactions, padded as printed, in
order. -/
theorem C15_readback_ledger (prec : String → Nat) (hprec : ∀ c, prec c ≤ 28) (w : List Char → Nat) (ts : List Txn)
    (src : String) (h : ∀ t ∈ ts, CleanText t src = true) :
    ∃ trs, toDoubleEntries src ts = .ok trs ∧ ledgerOf src ts = .ok trs ∧ trs.length = ts.length ∧
      parseEntries (importText prec w trs) = .ok (trs.map fun tr => Entry.txn (readbackTxn prec tr)) := by
  have hall : ∃ trs, toDoubleEntries src ts = .ok trs ∧ trs.length = ts.length ∧
      ∀ tr ∈ trs, ReadableTree tr = true ∧ untaggedNums tr = true ∧
        (tr.clear != .uncleared || notClearMarkStart tr.payee.toList) = true := by
    induction ts with
    | nil => exact ⟨[], rfl, rfl, by simp⟩
    | cons t rest ih =>
      obtain ⟨trs, e1, e2, e3⟩ := ih (fun x hx => h x (by simp [hx]))
      have hcl := h t (by simp)
      obtain ⟨tr, htr⟩ := C15_never_err t src
      refine ⟨tr :: trs, by simp only [toDoubleEntries, htr, e1], by simp [e2], ?_⟩
      intro x hx
      simp only [List.mem_cons] at hx
      rcases hx with rfl | hx
      · exact ⟨C15_partial t src _ hcl htr, C15_untagged t src _ htr, built_clear t src _ htr⟩
      · exact e3 x hx
  obtain ⟨trs, e1, e2, e3⟩ := hall
  exact ⟨trs, e1, by rw [ledgerOf_eq, e1], e2, readback_ledger_all prec hprec w trs e3⟩

/-! ### the conditions are needed; non-vacuity -/

/-- the tree of a record on the account `Assets:Bank` -/
def builtTree (t : Txn) : Transaction :=
  match t.toDoubleEntry "Assets:Bank" with
  | .ok tr => tr
  | _ => default

/-- the printed ledger is read back as the padded trees (executable form of `C15_readback_ledger`'s conclusion) -/
def readsBack (prec : String → Nat) (w : List Char → Nat) (trs : List Transaction) : Bool :=
  match parseEntries (importText prec w trs) with
  | .ok es => es == trs.map (fun tr => Entry.txn (readbackTxn prec tr))
  | _ => false

/-- CHF is configured with three decimal places -/
def exPrec : String → Nat := fun c => if c = "CHF" then 3 else 0
/-- a precision beyond rust_decimal's maximal scale -/
def exPrec29 : String → Nat := fun c => if c = "CHF" then 29 else 0
/-- a statement line with amount `0.00 CHF` -/
def exZeroTxn : Txn := Txn.new ⟨2024, 1, 5⟩ "info line" ⟨⟨false, 0, 2⟩, "CHF"⟩
/-- `-0.1 CHF` -/
def exSmallTxn : Txn := Txn.new ⟨2024, 1, 5⟩ "shop" ⟨⟨true, 1, 1⟩, "CHF"⟩

theorem exPrec_le : ∀ c, exPrec c ≤ 28 := by intro c; simp only [exPrec]; split <;> omega

example : CleanText exCleanTxn "Assets:Bank" = true ∧ noSignedZero exCleanTxn = true := by decide
/- the text `C15_readback` speaks about, for `exCleanTxn` under `exPrec` and `widthStd` (`#eval String.ofList
(printTransactionP exPrec widthStd (builtTree exCleanTxn))`; amounts in CHF are padded to three places):
```
2024/02/29=2024/03/01 * (1234) Migros (Zürich) *
    ; ref 42
    Expenses:Food & Drink                      11.50 EUR @ 1.087 CHF
    Expenses:Commissions                       0.500 CHF
    ; Payee: Bank (fee)
    Assets:Bank                              -12.500 CHF = 1000.000 CHF
```
`1000.000` is read back with the tag `plain`: -/
example : ((readbackTxn exPrec (builtTree exCleanTxn)).posts.getLast?.map (·.balance)) =
    some (some (VExpr.amt ⟨false, 1000000, 3, some .plain⟩ "CHF")) := by decide +kernel

/-- **precisions beyond 28 break the read-back**: under precision 29 the importer prints `-0.1 CHF` with 29 decimal
places, which the ledger parser rejects (the record is inside `CleanText` and has no signed zero). -/
theorem C15_readback_prec_needed :
    CleanText exSmallTxn "Assets:Bank" = true ∧ noSignedZero exSmallTxn = true ∧
    (parseEntries (importText exPrec29 widthStd [builtTree exSmallTxn])).isOk = false := by
  decide +kernel

/-- **a signed zero is not a fixed point of print-then-read** (why `C15_readback_wf` needs `noSignedZero`): for the record
`0.00 CHF` (inside `CleanText`) the counter-posting carries `-0.00`; the tree read back does not print to the text it was
read from. -/
theorem C15_signed_zero_not_fixed :
    CleanText exZeroTxn "Assets:Bank" = true ∧ noSignedZero exZeroTxn = false ∧
    (printTransaction widthStd (readbackTxn exPrec (builtTree exZeroTxn)) ==
      printTransactionP exPrec widthStd (builtTree exZeroTxn)) = false := by
  decide +kernel

-- `C15_readback_ledger` applied to three records, one of them the zero amount (CJK display width)
example : ∃ trs, toDoubleEntries "Assets:Bank" [exCleanTxn, exZeroTxn, exSmallTxn] = .ok trs ∧
    ledgerOf "Assets:Bank" [exCleanTxn, exZeroTxn, exSmallTxn] = .ok trs ∧ trs.length = 3 ∧
    parseEntries (importText exPrec widthCjk trs) = .ok (trs.map fun tr => Entry.txn (readbackTxn exPrec tr)) :=
  C15_readback_ledger exPrec exPrec_le widthCjk [exCleanTxn, exZeroTxn, exSmallTxn] "Assets:Bank" (by decide)
-- the same conclusion evaluated by the kernel on a small ledger with the zero amount
example : readsBack exPrec widthCjk [builtTree exSmallTxn, builtTree exZeroTxn] = true := by decide +kernel
-- `C15_readback` applies to the zero amount and to `exCleanTxn`; `C15_readback_wf` applies to `exCleanTxn`
example := C15_readback exPrec exPrec_le widthStd exZeroTxn "Assets:Bank" (by decide)
example := C15_readback exPrec exPrec_le widthCjk exCleanTxn "Assets:Bank" (by decide)
example := C15_readback_wf exPrec exPrec_le widthStd exCleanTxn "Assets:Bank" (by decide) (by decide)

end Okane.Import

/-! ## The Viseca statement parser (Model/ImportViseca.lean): from the text of the statement to the transactions

Restated from `Lemmas/ImportViseca*.lean`.  The model starts at the *lines of the file*: `LineReader`, the four regexes as explicit
recognisers, `parse_euro_date`, `parse_decimal` (rust_decimal's `from_str`), `Parser::parse_entry`, `viseca.rs::import`; tied to the
real `viseca::parser::Parser` and `import::import` by the stream `viseca-text` of this check. -/
namespace Okane.Import
open Okane Okane.Import.Viseca

/-- **C15_viseca_total** (totality): for every regex engine for the configured patterns, every configuration and every list of
lines — also lines that are not UTF-8 — the Viseca importer returns transactions or an `ImportError`: the model has no panic
site, and the one-line-per-turn fuel of its loops is never exhausted (`Fine` = neither `panic` nor `fuelOut`). -/
theorem C15_viseca_total (env : VisecaEnv) (cfg : ConfigEntry) (lines : List RawLine) :
    Fine (visecaImport env cfg lines) ∧ Fine (parseEntries cfg.commodity.primary lines) :=
  ⟨visecaImport_total env cfg lines, parseEntries_total _ lines⟩

/-- **C15_viseca_one_per_record**: when the import succeeds the parser alone reads the whole statement, the transactions are the
conversions of its records — one each, in order — and every record starts at its own head line of the file: the line numbered
`lineCount` matches `FIRST_LINE` after `trim_end`, the numbers strictly increase (`Heads`).  So the number of transactions is the
number of head lines consumed. -/
theorem C15_viseca_one_per_record (env : VisecaEnv) (cfg : ConfigEntry) (lines : List RawLine) (ts : List Txn)
    (h : visecaImport env cfg lines = .ok ts) :
    ∃ es, parseEntries cfg.commodity.primary lines = .ok es ∧
      Each₂ (fun e t => entryToTxn env cfg e = .ok t) es ts ∧ ts.length = es.length ∧ Heads lines 0 es ∧
      ∀ e ∈ es, WfEntry cfg.commodity.primary e := by
  obtain ⟨es, h1, h2, h3, h4⟩ := visecaImport_one_per_record env cfg lines ts h
  exact ⟨es, h1, h2, h3, h4, parseEntries_wf _ lines es h1⟩

/-- **C15_viseca_roundtrip**: for every list of canonical entries (`canonStatement`, decidable: dates in the two-digit-year window,
payee without line feed and — for a record without currency group — not itself ending like one, numbers that fit a `Decimal`,
one sign for the head line, a trimmed category that does not start with a digit, detail lines exactly where `parse_entry` asks
for them) the statement text `printStatement` writes is read back by the parser as exactly those entries, numbered by the lines
their records start at — also from the statement *text* (`statementText`, the lines one after the other), which `BufRead::read_line`
(`linesOf`) cuts back into exactly the lines written; and one record followed by anything that starts like a head line is read as
that record, consuming exactly its lines. -/
theorem C15_viseca_roundtrip (primary : String) :
    (∀ es, canonStatement primary es = true → parseEntries primary (printStatement es) = .ok (renumber 0 es)) ∧
    (∀ es, canonStatement primary es = true → linesOf (statementText es) = printStatement es ∧
      parseEntries primary (linesOf (statementText es)) = .ok (renumber 0 es)) ∧
    (∀ e rest n, canonEntry primary e = true → FollowOk rest →
      parseEntry primary ⟨(printEntry e).map RawLine.text ++ rest, n⟩ =
        .ok (some { e with lineCount := n + 1 }, ⟨rest, n + (printEntry e).length⟩)) :=
  ⟨fun es h => parseEntries_printStatement primary es h,
   fun es h => ⟨printStatement_linesOf primary es h, parseEntries_statementText primary es h⟩,
   fun e rest n h hf => parseEntry_printEntry primary e h rest hf n⟩

/-- **C15_viseca_amounts** (sign / amount facts of `viseca.rs::import`): the transaction of a record carries **minus** the
statement amount in the card's commodity; a fee line becomes exactly one charge (its amount as read, negative for a credit of
fee) paid to the operator; an exchange line becomes the one rate, keyed by the *spent* commodity and priced in the *equivalent's*
commodity, and the transferred amount is minus the spent amount. -/
theorem C15_viseca_amounts {env : VisecaEnv} {cfg : ConfigEntry} {e : Viseca.Entry} {t : Txn} (h : entryToTxn env cfg e = .ok t) :
    t.amount = ⟨e.amount.negate, cfg.commodity.primary⟩ ∧ t.date = e.date ∧
    t.effectiveDate = (if e.date ≠ e.effectiveDate then some e.effectiveDate else none) ∧
    (match e.fee with
     | some f => ∃ op, cfg.operator = some op ∧ t.charges = [⟨op, f.amount⟩]
     | none => t.charges = []) ∧
    (match e.exchange, e.spent with
     | some x, some s => t.rates = [(s.commodity, ⟨x.rate, x.equivalent.commodity⟩)] ∧ t.transferredAmount = some s.negate ∧
         x.equivalent.commodity ≠ s.commodity
     | some _, none => False
     | none, some s => t.rates = [] ∧ t.transferredAmount = some s.negate
     | none, none => t.rates = [] ∧ t.transferredAmount = none) := by
  have h1 := entryToTxn_amount h
  exact ⟨h1.1, h1.2.1, h1.2.2.1, entryToTxn_charges h, entryToTxn_rate h⟩

/-- **C15_viseca_card_posting** (the facts above in the tree `to_double_entry` builds, through `C15_tree`): for an entry the parser
can produce (`WfEntry`) the transaction has `2 + (1 if fee)` postings; the posting on the card account is the last one for a
spending and the first one for a credit, and it is `-amount` in the card's commodity, digit for digit, without `@ rate`. -/
theorem C15_viseca_card_posting {env : VisecaEnv} {cfg : ConfigEntry} {e : Viseca.Entry} {t : Txn} (src : String)
    (hw : WfEntry cfg.commodity.primary e) (h : entryToTxn env cfg e = .ok t) :
    ∃ tr, t.toDoubleEntry src = .ok tr ∧
      tr.posts.length = 2 + (if e.fee.isSome then 1 else 0) ∧
      (if e.amount.neg then tr.posts.head? else tr.posts.getLast?) = some
        { account := src, clear := .uncleared,
          amount := some { amount := .amt ⟨!e.amount.neg, e.amount.mant, e.amount.scale, none⟩ cfg.commodity.primary,
                           cost := none, lot := {} },
          balance := none, metadata := [] } := by
  have ht := C15_tree t src
  simp only at ht
  refine ⟨_, ht, ?_, ?_⟩
  · have hc := entryToTxn_charges h
    cases hf : e.fee with
    | none => rw [hf] at hc; simp only [] at hc; split <;> simp [hc]
    | some f => rw [hf] at hc; obtain ⟨op, _, hch⟩ := hc; split <;> simp [hch]
  · obtain ⟨ha, _, _, _, _, _, _, _, hbal⟩ := entryToTxn_amount h
    have hr := entryToTxn_rate h
    have hrate : rateFor t cfg.commodity.primary = none := by
      unfold rateFor
      cases hx : e.exchange with
      | none =>
        cases hs : e.spent <;> rw [hx, hs] at hr <;> simp only [] at hr <;> rw [hr.1] <;> rfl
      | some x =>
        obtain ⟨s, hs, hne⟩ := hw.1 x hx
        rw [hx, hs] at hr
        simp only [] at hr
        rw [hr.1]
        simp [AMap.get?, hne]
    have hneg : t.amount.value.neg = !e.amount.neg := by rw [ha]; rfl
    have hsrc : shownAmount t t.amount =
        { amount := .amt ⟨!e.amount.neg, e.amount.mant, e.amount.scale, none⟩ cfg.commodity.primary, cost := none, lot := {} } := by
      unfold shownAmount
      rw [ha]
      simp only [Dec.negate, Dec.isSignPositive]
      rw [hrate]
    rw [hneg, hsrc, hbal]
    cases e.amount.neg
    · simp only [Bool.not_false, if_true, Bool.false_eq_true, if_false, Option.map_none]
      rw [List.getLast?_concat]
    · simp

/-- the theorems apply: the sample statement's records are canonical (`Lemmas/ImportViseca.lean`: `exStatement`), are read from the
statement text as written, and the second one becomes `-52.10 CHF` on the card, `46.88 EUR @ 1.092432 CHF`, one `0.90 CHF` charge -/
example : canonStatement "CHF" exStatement = true := by decide +kernel
example := (C15_viseca_roundtrip "CHF").1 exStatement (by decide +kernel)
example : Fine (visecaImport exEnv exCfg exLines) := (C15_viseca_total exEnv exCfg exLines).1
example : ∃ ts, visecaImport exEnv exCfg exLines = .ok ts ∧ ts.length = 5 := by
  cases h : visecaImport exEnv exCfg exLines with
  | ok ts => exact ⟨ts, rfl, by have : (visecaImport exEnv exCfg exLines).map' List.length = .ok 5 := by decide +kernel
                                rw [h] at this; simpa [Outcome.map'] using this⟩
  | err x => have : (visecaImport exEnv exCfg exLines).isOk = true := by decide +kernel
             rw [h] at this; simp [Outcome.isOk] at this
  | panic s => have := (C15_viseca_total exEnv exCfg exLines).1; rw [h] at this; simp at this
  | fuelOut => have := (C15_viseca_total exEnv exCfg exLines).1; rw [h] at this; simp at this

end Okane.Import

/-! ## The CSV importer with okane's own number-cell decoder: from the TEXT of the cells to the text read back

`Model/ImportCsv.lean` takes the number decoder as a parameter; `Lemmas/ImportCsvCellsUse.lean` plugs in the model of
`str_to_comma_decimal` (`Cells.cellEnv`, characterised exactly by `C16_cell_exact` / `C16_cell_value`) and carries every number
of a row from the text of its cell to the `Txn`.  Here that is composed with `C15_tree` and the read-back theorems above:
the printed posting amounts read back as the numbers WRITTEN in the cells, padded to the configured precision. -/
namespace Okane.Import
open Okane Okane.Parse Okane.Unparse Okane.Import.Cells

/-- **a number as it is read back**: `n` is what the parser reads for the decimal `d` printed next to commodity `c` under the
precisions `prec` — the same value, never fewer decimal places, exactly `max places precision` places when the padded
mantissa still fits 96 bits (always for a zero), the sign flag kept on a non-zero number. -/
structure PaddedAs (prec : String → Nat) (c : String) (d : Dec) (n : PDec) : Prop where
  eq : n = readbackNum prec d.toPDec c
  value : n.toRat = d.toRat
  scale_ge : d.scale ≤ n.scale
  scale : (d.mant = 0 ∨ d.mant * 10 ^ (max d.scale (prec c) - d.scale) ≤ Literal.maxMant) → n.scale = max d.scale (prec c)
  sign : d.mant ≠ 0 → n.neg = d.neg

theorem readbackNum_zero_scale (prec : String → Nat) (d : PDec) (c : String) (hm : d.mant = 0) (hs : d.scale ≤ 28)
    (hp : prec c ≤ 28) : (readbackNum prec d c).scale = max d.scale (prec c) := by
  simp only [readbackNum, readNum, Literal.displayRescale, Literal.rescale]
  by_cases h1 : d.scale = max d.scale (prec c)
  · rw [if_pos h1]; exact h1
  · simp only [h1, if_false, hm, if_true, Literal.maxScale]
    omega

/-- every decimal in range is read back padded, for every precision table within rust_decimal's scale range -/
theorem C15_padded (prec : String → Nat) (c : String) (d : Dec) (hd : cleanDec d = true) (hp : prec c ≤ 28) :
    PaddedAs prec c d (readbackNum prec d.toPDec c) := by
  simp only [cleanDec, Bool.and_eq_true, decide_eq_true_eq] at hd
  obtain ⟨h1, h2, h3, h4⟩ := C15_readback_number prec d.toPDec c hd.2
  refine ⟨rfl, h1, h2, ?_, fun h0 => h4 hd.1 hp h0⟩
  rintro (h0 | h0)
  · exact readbackNum_zero_scale prec d.toPDec c h0 hd.2 hp
  · by_cases hz : d.mant = 0
    · exact readbackNum_zero_scale prec d.toPDec c hz hd.2 hp
    · exact h3 hz h0

/-- how an amount of the record stands in the tree that is read back: the number padded as printed, the commodity, `@ rate`
(itself padded, next to the rate's own commodity) when a rate is known for the commodity, no lot -/
def readbackAmount (prec : String → Nat) (t : Txn) (a : OwnedAmount) : PostingAmount :=
  { amount := .amt (readbackNum prec a.value.toPDec a.commodity) a.commodity,
    cost := (AMap.get? t.rates a.commodity).map fun x => Exchange.rate (.amt (readbackNum prec x.value.toPDec x.commodity) x.commodity),
    lot := {} }

theorem mapPostingAmount_shown (prec : String → Nat) (t : Txn) (a : OwnedAmount) :
    mapPostingAmount (readbackNum prec) (shownAmount t a) = readbackAmount prec t a := by
  simp only [mapPostingAmount, shownAmount, readbackAmount, mapV, rateFor, mapLot, Option.map_map, Dec.toPDec]
  congr 1

/-- **the postings that are read back** (`C15_tree` through `readbackTxn`): the posting on the imported account (with the
balance assertion), one `Expenses:Commissions` posting per charge, the counter-posting — account first for a non-negative
amount, last for a negative one — each number padded as printed. -/
theorem C15_readback_posts (prec : String → Nat) (t : Txn) (src : String) :
    ∃ tr, t.toDoubleEntry src = .ok tr ∧
      (readbackTxn prec tr).posts =
        (let acctP : Posting :=
          { account := src, clear := .uncleared, amount := some (readbackAmount prec t t.amount),
            balance := t.balance.map (fun b => VExpr.amt (readbackNum prec b.value.toPDec b.commodity) b.commodity),
            metadata := [] }
         let chargePs : List Posting := t.charges.map (fun c =>
          { account := "Expenses:Commissions", clear := .uncleared, amount := some (readbackAmount prec t c.amount),
            balance := none, metadata := [Metadata.keyValue "Payee" (MetaValue.text c.payee)] })
         let counterP : Posting :=
          { account := t.destAccount.getD (if t.amount.value.neg then "Expenses:Unknown" else "Income:Unknown"),
            clear := t.clearState.getD (if t.destAccount.isSome then .uncleared else .pending),
            amount := some (readbackAmount prec t (counterAmount t)), balance := none, metadata := [] }
         if t.amount.value.neg then counterP :: chargePs ++ [acctP] else acctP :: chargePs ++ [counterP]) := by
  have h := C15_tree t src
  simp only at h
  refine ⟨_, h, ?_⟩
  simp only [readbackTxn, mapTxn]
  cases t.amount.value.neg <;>
    simp [mapPosting, mapPostingAmount_shown, List.map_map, Function.comp_def, mapV, Dec.toPDec] <;>
    cases t.balance <;> simp [mapV]

/-- the posting on the imported account: number `n` of commodity `c`, optional `@ rate`, optional balance assertion -/
def acctPosting (src c : String) (n : PDec) (cost : Option Exchange) (bal : Option VExpr) : Posting :=
  { account := src, clear := .uncleared, amount := some { amount := .amt n c, cost := cost, lot := {} }, balance := bal,
    metadata := [] }

/-- a charge posting: `Expenses:Commissions  n c` with the tag `Payee: operator` -/
def chargePosting (op c : String) (n : PDec) (cost : Option Exchange) : Posting :=
  { account := "Expenses:Commissions", clear := .uncleared, amount := some { amount := .amt n c, cost := cost, lot := {} },
    balance := none, metadata := [Metadata.keyValue "Payee" (MetaValue.text op)] }

theorem cleanDec_flip (b : Bool) (d : Dec) (h : cleanDec d = true) : cleanDec ⟨b, d.mant, d.scale⟩ = true := h

/-- **C15 for one CSV row, from the TEXT of its cells to the postings that are read back** (importer model with okane's own
number decoder `Cells.cellEnv`; every date decoder, regex engine, configuration, field map, record; every precision table
within rust_decimal's range).  The transaction built for the row is read back with these postings — the account's posting
first for a non-negative amount, last for a negative one:
* (a) the account's posting carries the amount of the row: the number written in the amount / credit / debit cell under the
  importer's sign rule (`AmountWritten`), padded as printed (`PaddedAs`: same value, `max places precision` places);
* (b) its balance assertion is the number written in the balance cell, padded (none for an empty cell / no column);
* (c) the charge posting (if the charge cell holds a non-zero number) carries that number, padded, tagged with the operator;
* (d) the counter-posting carries, without conversion, the negated amount; with a conversion the secondary amount — in
  `extract` mode the number written in the secondary-amount cell — under the sign opposite to the amount's, in the secondary
  commodity; `@ rate` carries the number written in the rate cell, padded, and stands on the posting whose commodity it
  prices (`price_of_primary`: the account's posting, rate in the secondary commodity; `price_of_secondary`: the
  counter-posting, rate in the primary commodity). -/
theorem C15_csv_row_postings (pd : String → Option Date) (cap : Captures) (cfg : CsvCfg) (fm : FieldMap)
    (rec : List String) (v : RowValues) (txn : Txn) (i : Bool) (prec : String → Nat) (hprec : ∀ c, prec c ≤ 28)
    (hrow : readRow (cellEnv pd cap) cfg fm rec = .ok (some v))
    (hb : buildTxn (cellEnv pd cap) cfg fm rec v = .ok (txn, i))
    (hcomp : ∀ conv, selectedConversion (cellEnv pd cap) cfg v = some conv → conv.amount = .compute →
      ∀ tr, txn.transferredAmount = some tr → cleanDec tr.value = true) :
    ∃ tr, txn.toDoubleEntry cfg.account = .ok tr ∧
      ∃ (n : PDec) (acost : Option Exchange) (bal : Option VExpr) (chargePs : List Posting) (counterP : Posting),
        (readbackTxn prec tr).posts =
          (if v.amount.neg then counterP :: chargePs ++ [acctPosting cfg.account v.commodity n acost bal]
           else acctPosting cfg.account v.commodity n acost bal :: chargePs ++ [counterP]) ∧
        (PaddedAs prec v.commodity v.amount n ∧ AmountWritten fm cfg.accountType rec v.amount) ∧
        ((∃ c, fm.extract .balance rec = .ok c ∧ OptNumCell c v.balance) ∧
          match v.balance with
          | none => bal = none
          | some b => ∃ nb, bal = some (.amt nb v.commodity) ∧ PaddedAs prec v.commodity b nb) ∧
        ((txn.charges = [] ∧ chargePs = []) ∨
          ∃ op cell value nv ccost, cfg.operator = some op ∧ fm.extract .charge rec = .ok (some cell) ∧
            NumCell cell (some value) ∧ value.isZero = false ∧ chargePs = [chargePosting op v.commodity nv ccost] ∧
            PaddedAs prec v.commodity value nv) ∧
        (counterP.account = txn.destAccount.getD (if v.amount.neg then "Expenses:Unknown" else "Income:Unknown") ∧
         counterP.balance = none ∧ counterP.metadata = [] ∧
         match selectedConversion (cellEnv pd cap) cfg v with
         | none => acost = none ∧ ∃ m, counterP.amount = some { amount := .amt m v.commodity, cost := none, lot := {} } ∧
             PaddedAs prec v.commodity v.amount.negate m
         | some conv => ∃ r sc tr rcell nr m ccost, fm.extract .rate rec = .ok (some rcell) ∧ NumCell rcell (some r) ∧
             conv.commodity.or v.secondaryCommodity = some sc ∧ sc ≠ v.commodity ∧
             counterP.amount = some { amount := .amt m sc, cost := ccost, lot := {} } ∧
             PaddedAs prec sc ⟨!v.amount.neg, tr.mant, tr.scale⟩ m ∧
             (conv.amount = .extract →
               ∃ scell, fm.extract .secondaryAmount rec = .ok (some scell) ∧ NumCell scell (some tr)) ∧
             (conv.amount = .compute → conv.rate = .priceOfPrimary → tr = Dec.mul v.amount r) ∧
             (conv.amount = .compute → conv.rate = .priceOfSecondary → Dec.div v.amount r = .ok (tr, i)) ∧
             (conv.rate = .priceOfPrimary → acost = some (.rate (.amt nr sc)) ∧ ccost = none ∧ PaddedAs prec sc r nr) ∧
             (conv.rate = .priceOfSecondary →
               acost = none ∧ ccost = some (.rate (.amt nr v.commodity)) ∧ PaddedAs prec v.commodity r nr)) := by
  have hn := csvRow_numbers pd cap cfg fm rec v txn i hrow hb
  have hrange := csvRow_inRange pd cap cfg fm rec v txn i hrow hb hcomp
  have hamt : cleanDec v.amount = true :=
    (amount_written pd cap fm cfg.accountType rec v.amount (CellsUse.readRow_amount _ cfg fm rec v hrow)).2
  obtain ⟨tr, htr, hposts⟩ := C15_readback_posts prec txn cfg.account
  obtain ⟨ha1, ha2⟩ := hn.amount
  obtain ⟨hb1, hb2⟩ := hn.balance
  refine ⟨tr, htr, readbackNum prec v.amount.toPDec v.commodity,
    (AMap.get? txn.rates v.commodity).map (fun x => Exchange.rate (.amt (readbackNum prec x.value.toPDec x.commodity) x.commodity)),
    v.balance.map (fun b => VExpr.amt (readbackNum prec b.toPDec v.commodity) v.commodity),
    txn.charges.map (fun c =>
      { account := "Expenses:Commissions", clear := .uncleared, amount := some (readbackAmount prec txn c.amount),
        balance := none, metadata := [Metadata.keyValue "Payee" (MetaValue.text c.payee)] }),
    { account := txn.destAccount.getD (if v.amount.neg then "Expenses:Unknown" else "Income:Unknown"),
      clear := txn.clearState.getD (if txn.destAccount.isSome then .uncleared else .pending),
      amount := some (readbackAmount prec txn (counterAmount txn)), balance := none, metadata := [] }, ?_, ?_, ?_, ?_, ?_⟩
  · rw [hposts]
    simp only [ha1, hb1, acctPosting, readbackAmount, Option.map_map, Function.comp_def]
  · exact ⟨C15_padded prec v.commodity v.amount hamt (hprec _), ha2⟩
  · refine ⟨hb2, ?_⟩
    obtain ⟨c, _, hc⟩ := hb2
    cases hvb : v.balance with
    | none => rfl
    | some b => exact ⟨_, rfl, C15_padded prec v.commodity b (hc.clean b hvb) (hprec _)⟩
  · rcases hn.charge with h | ⟨op, cell, value, h1, h2, h3, h4, h5⟩
    · left; exact ⟨h, by rw [h]; rfl⟩
    · right
      refine ⟨op, cell, value, readbackNum prec value.toPDec v.commodity,
        (AMap.get? txn.rates v.commodity).map (fun x => Exchange.rate (.amt (readbackNum prec x.value.toPDec x.commodity) x.commodity)),
        h1, h2, h3, h4, ?_,
        C15_padded prec v.commodity value h3.clean_some (hprec _)⟩
      rw [h5]
      simp only [List.map_cons, List.map_nil, chargePosting, readbackAmount]
  · refine ⟨rfl, rfl, rfl, ?_⟩
    have hconv := hn.conversion
    cases hsel : selectedConversion (cellEnv pd cap) cfg v with
    | none =>
      rw [hsel] at hconv
      obtain ⟨hr, ht, _⟩ := hconv
      refine ⟨by rw [hr]; rfl, readbackNum prec v.amount.negate.toPDec v.commodity, ?_,
        C15_padded prec v.commodity v.amount.negate (by rw [cleanDec_negate]; exact hamt) (hprec _)⟩
      simp only [readbackAmount, counterAmount, ht, hr, ha1, AMap.get?_nil, Option.map_none]
      rfl
    | some conv =>
      rw [hsel] at hconv
      obtain ⟨r, sc, trd, rcell, h1, h2, h3, h4, h5, h6, h7, h8, h9⟩ := hconv
      have htrc : cleanDec trd = true := by
        cases hca : conv.amount with
        | extract => obtain ⟨scell, _, hs⟩ := h7 hca; exact hs.clean_some
        | compute => exact hcomp conv hsel hca ⟨trd, sc⟩ h6
      have hne' : ¬ v.commodity = sc := fun e => h4 e.symm
      cases hcr : conv.rate with
      | priceOfPrimary =>
        rw [hcr] at h5
        refine ⟨r, sc, trd, rcell, readbackNum prec r.toPDec sc, readbackNum prec (⟨!v.amount.neg, trd.mant, trd.scale⟩ : Dec).toPDec sc,
          none, h1, h2, h3, h4, ?_, C15_padded prec sc _ (cleanDec_flip _ trd htrc) (hprec _), h7, h8, h9, ?_, ?_⟩
        · simp [readbackAmount, counterAmount, h6, h5, ha1, AMap.get?, hne', Dec.toPDec]
        · intro _
          refine ⟨?_, rfl, C15_padded prec sc r h2.clean_some (hprec _)⟩
          simp [h5, AMap.get?]
        · intro hx; rw [hcr] at hx; cases hx
      | priceOfSecondary =>
        rw [hcr] at h5
        refine ⟨r, sc, trd, rcell, readbackNum prec r.toPDec v.commodity,
          readbackNum prec (⟨!v.amount.neg, trd.mant, trd.scale⟩ : Dec).toPDec sc,
          some (.rate (.amt (readbackNum prec r.toPDec v.commodity) v.commodity)), h1, h2, h3, h4, ?_,
          C15_padded prec sc _ (cleanDec_flip _ trd htrc) (hprec _), h7, h8, h9, ?_, ?_⟩
        · simp [readbackAmount, counterAmount, h6, h5, ha1, AMap.get?, Dec.toPDec]
        · intro hx; rw [hcr] at hx; cases hx
        · intro _
          refine ⟨?_, rfl, C15_padded prec v.commodity r h2.clean_some (hprec _)⟩
          simp [h5, AMap.get?, h4]

/-- **C15_csv_row_readback** (the read-back of one CSV row, hypotheses on its TEXT only).  For a row read with okane's own
number decoder whose text fields lie in `CleanWords` (payee, code, note, accounts, commodities, operator — the text part of
`CleanText`; the numbers need no hypothesis: decoded cells are always in range, `csvRow_inRange`), `to_double_entry`
returns `tr`, the text the importer prints for it starts an entry, and the entry parser reads exactly that text back as
`readbackTxn prec tr`, whose postings `C15_csv_row_postings` describes on the text of the cells. -/
theorem C15_csv_row_readback (pd : String → Option Date) (cap : Captures) (cfg : CsvCfg) (fm : FieldMap)
    (rec : List String) (v : RowValues) (txn : Txn) (i : Bool) (prec : String → Nat) (hprec : ∀ c, prec c ≤ 28)
    (w : List Char → Nat)
    (hrow : readRow (cellEnv pd cap) cfg fm rec = .ok (some v))
    (hb : buildTxn (cellEnv pd cap) cfg fm rec v = .ok (txn, i))
    (hcomp : ∀ conv, selectedConversion (cellEnv pd cap) cfg v = some conv → conv.amount = .compute →
      ∀ tr, txn.transferredAmount = some tr → cleanDec tr.value = true)
    (hwords : CleanWords txn cfg.account = true) :
    CleanText txn cfg.account = true ∧
    ∃ tr, txn.toDoubleEntry cfg.account = .ok tr ∧ StartsEntry (printTransactionP prec w tr) ∧
      ∀ rest, parseLedgerEntry (printTransactionP prec w tr ++ '\n' :: rest) =
        .ok (.txn (readbackTxn prec tr)) ('\n' :: rest) := by
  have hclean : CleanText txn cfg.account = true := by
    rw [csvRow_cleanText pd cap cfg fm rec v txn i hrow hb hcomp]; exact hwords
  exact ⟨hclean, C15_readback prec hprec w txn cfg.account hclean⟩

/-- **C15_csv_amount_readback** (headline, `amount` column): the printed posting on the imported account reads back as the
number WRITTEN in the amount cell.  For every row the importer model with okane's own decoder accepts, with `cell` the text
the field map yields for `amount`: the transaction is read back (previous theorem) with, on the imported account — first
posting for a non-negative amount, last for a negative one — the amount `n c` where `c` is the row's commodity and, when
the cell is not empty, `n` has the value written in the cell (unsigned literal times `(-1)^(minus signs written)`, see
`CellWritten`), negated for a liability account, never fewer decimal places than written, and exactly
`max (places written) (precision of c)` places whenever the padded mantissa fits 96 bits. -/
theorem C15_csv_amount_readback (pd : String → Option Date) (cap : Captures) (cfg : CsvCfg) (fm : FieldMap)
    (rec : List String) (v : RowValues) (txn : Txn) (i : Bool) (prec : String → Nat) (hprec : ∀ c, prec c ≤ 28)
    (f : CsvField) (hv : fm.value = .amount f)
    (hrow : readRow (cellEnv pd cap) cfg fm rec = .ok (some v))
    (hb : buildTxn (cellEnv pd cap) cfg fm rec v = .ok (txn, i))
    (hcomp : ∀ conv, selectedConversion (cellEnv pd cap) cfg v = some conv → conv.amount = .compute →
      ∀ tr, txn.transferredAmount = some tr → cleanDec tr.value = true) :
    ∃ tr cell p n, txn.toDoubleEntry cfg.account = .ok tr ∧ fm.resolve .amount f rec = .ok (some cell) ∧
      (if v.amount.neg then (readbackTxn prec tr).posts.getLast? else (readbackTxn prec tr).posts.head?) = some p ∧
      p.account = cfg.account ∧ p.amount.map (·.amount) = some (.amt n v.commodity) ∧
      (cell.isEmpty = true → n.mant = 0) ∧
      (cell.isEmpty = false → ∃ x places, CellWritten cell x places ∧
        n.toRat = cfg.accountType.signed x ∧
        places ≤ n.scale ∧
        ((v.amount.mant = 0 ∨ v.amount.mant * 10 ^ (max places (prec v.commodity) - places) ≤ Literal.maxMant) →
          n.scale = max places (prec v.commodity))) := by
  obtain ⟨tr, htr, n, acost, bal, chargePs, counterP, hposts, ⟨hpad, hw⟩, _⟩ :=
    C15_csv_row_postings pd cap cfg fm rec v txn i prec hprec hrow hb hcomp
  have hval := hw.value
  rw [hv] at hval
  obtain ⟨cell, hcell, hcase⟩ := hval
  refine ⟨tr, cell, acctPosting cfg.account v.commodity n acost bal, n, htr, hcell, ?_, rfl, rfl, ?_, ?_⟩
  · rw [hposts]
    cases v.amount.neg
    · simp
    · simp only [if_true]
      exact List.getLast?_concat
  · intro he
    rcases hcase with ⟨_, hm, _⟩ | ⟨he', _⟩
    · rw [hpad.eq]
      have := (readNum_toRat (Literal.displayRescale prec v.amount.toPDec v.commodity)).2.1
      simp only [readbackNum, this]
      simp only [Literal.displayRescale, Literal.rescale, Dec.toPDec, hm]
      split
      · rfl
      · rfl
    · rw [he] at he'; cases he'
  · intro he
    rcases hcase with ⟨he', _⟩ | ⟨_, x, hx, hxv⟩
    · rw [he] at he'; cases he'
    · exact ⟨x, v.amount.scale, hx, by rw [hpad.value]; exact hxv, hpad.scale_ge, hpad.scale⟩

/-- **C15_csv_readback_ledger** (the whole statement): for every CSV file the importer model with okane's own decoder
imports, whose transactions have clean text (`CleanWords`) and in-range computed amounts, the ledger parser reads the whole
output of `ImportCmd::run` as exactly the transactions built, padded as printed, one per dated record, in order — and each of
them is the transaction of one record of the file, to which `C15_csv_row_postings` applies. -/
theorem C15_csv_readback_ledger (pd : String → Option Date) (cap : Captures) (cfg : CsvCfg) (header : List String)
    (records : List (List String)) (txns : List Txn) (prec : String → Nat) (hprec : ∀ c, prec c ≤ 28)
    (w : List Char → Nat)
    (himp : csvImport (cellEnv pd cap) cfg header records = .ok txns)
    (hwords : ∀ t ∈ txns, CleanWords t cfg.account = true)
    (hcomp : ∀ t ∈ txns, ∀ tr, t.transferredAmount = some tr → cleanDec tr.value = true) :
    ∃ fm trs, FieldMap.tryNew cfg.fields header = .ok fm ∧
      toDoubleEntries cfg.account txns = .ok trs ∧ trs.length = txns.length ∧
      parseEntries (importText prec w trs) = .ok (trs.map fun tr => Entry.txn (readbackTxn prec tr)) ∧
      ∀ t ∈ txns, ∃ rec ∈ records, ∃ v i, readRow (cellEnv pd cap) cfg fm rec = .ok (some v) ∧
        buildTxn (cellEnv pd cap) cfg fm rec v = .ok (t, i) := by
  obtain ⟨fm, hfm, hmem⟩ := csvImport_mem _ cfg header records txns himp
  have hclean : ∀ t ∈ txns, CleanText t cfg.account = true := by
    intro t ht
    obtain ⟨rec, _, v, i, hrow, hb⟩ := hmem t ht
    rw [csvRow_cleanText pd cap cfg fm rec v t i hrow hb (fun _ _ _ tr htr => hcomp t ht tr htr)]
    exact hwords t ht
  obtain ⟨trs, h1, _, h3, h4⟩ := C15_readback_ledger prec hprec w txns cfg.account hclean
  exact ⟨fm, trs, hfm, h1, h3, h4, hmem⟩

/-! ### non-vacuity (the statement of `Lemmas/ImportCsvCellsUse.lean`: `-$1,234.50`, `8,765.50 USD`, `EUR 62.50`) -/

/-- USD is configured with three decimal places -/
def exCsvPrec : String → Nat := fun c => if c = "USD" then 3 else 0
theorem exCsvPrec_le : ∀ c, exCsvPrec c ≤ 28 := by intro c; simp only [exCsvPrec]; split <;> omega

-- the hypotheses of the row theorems hold for both rows of the example (the text condition is decided)
example := C15_csv_row_postings exCsvDates exCsvCap exCsvCfg exCsvFm exCsvRec1 exCsvRow1 exCsvTxn1 false exCsvPrec
  exCsvPrec_le exCsv_row1 exCsv_txn1 exCsv_hcomp1
example := C15_csv_row_postings exCsvDates exCsvCap exCsvCfg exCsvFm exCsvRec2 exCsvRow2 exCsvTxn2 false exCsvPrec
  exCsvPrec_le exCsv_row2 exCsv_txn2 exCsv_hcomp2
example := C15_csv_row_readback exCsvDates exCsvCap exCsvCfg exCsvFm exCsvRec1 exCsvRow1 exCsvTxn1 false exCsvPrec
  exCsvPrec_le widthStd exCsv_row1 exCsv_txn1 exCsv_hcomp1 (by decide)
example := C15_csv_amount_readback exCsvDates exCsvCap exCsvCfg exCsvFm exCsvRec1 exCsvRow1 exCsvTxn1 false exCsvPrec
  exCsvPrec_le (.column 2) rfl exCsv_row1 exCsv_txn1 exCsv_hcomp1
example := C15_csv_readback_ledger exCsvDates exCsvCap exCsvCfg exCsvHeader [exCsvRec1, exCsvRec2]
  [exCsvTxn1, exCsvTxn2] exCsvPrec exCsvPrec_le widthCjk exCsv_import (by decide) (by decide)
example := C15_padded exCsvPrec "USD" ⟨true, 123450, 2⟩ (by decide) (exCsvPrec_le _)
/- the text the importer writes for the two rows (`#eval String.ofList (importText exCsvPrec widthStd [builtTree exCsvTxn1,
builtTree exCsvTxn2])`; USD is padded to three places):
```
2024/01/02 * shop
    Expenses:Shop                           1234.500 USD
    Expenses:Commissions                       2.000 USD
    ; Payee: The Bank
    Assets:Bank                            -1234.500 USD = 8765.500 USD

2024/01/03 * fx
    ! Expenses:Unknown                         62.50 EUR @ 0.800 USD
    Assets:Bank                              -50.000 USD
```
and what is read back from it, evaluated by the kernel: the cell `-$1,234.50` comes back as `-1234.500` (tag `plain`), the
balance cell `8,765.50 USD` as `8765.500`, the fee `2.00` as `2.000`, the counter cell `EUR 62.50` as `62.50` with the
rate cell `0.8` as `@ 0.800 USD`: -/
example : ((readbackTxn exCsvPrec (builtTree exCsvTxn1)).posts.map fun p => (p.account, p.amount.map (·.amount), p.balance)) =
    [("Expenses:Shop", some (.amt ⟨false, 1234500, 3, some .plain⟩ "USD"), none),
     ("Expenses:Commissions", some (.amt ⟨false, 2000, 3, none⟩ "USD"), none),
     ("Assets:Bank", some (.amt ⟨true, 1234500, 3, some .plain⟩ "USD"), some (.amt ⟨false, 8765500, 3, some .plain⟩ "USD"))] := by
  decide +kernel
example : ((readbackTxn exCsvPrec (builtTree exCsvTxn2)).posts.map fun p => (p.account, p.amount)) ==
    [("Expenses:Unknown",
      some { amount := .amt ⟨false, 6250, 2, none⟩ "EUR", cost := some (.rate (.amt ⟨false, 800, 3, none⟩ "USD")), lot := {} }),
     ("Assets:Bank", some { amount := .amt ⟨true, 50000, 3, none⟩ "USD", cost := none, lot := {} })] := by
  decide +kernel
example : readsBack exCsvPrec widthStd [builtTree exCsvTxn1, builtTree exCsvTxn2] = true := by decide +kernel

end Okane.Import

/-! ### the hypothesis on computed amounts is needed -/
namespace Okane.Import
open Okane Okane.Parse Okane.Unparse Okane.Import.Cells

/-- configuration of the witness: the secondary amount is COMPUTED as `amount × rate` -/
def exCompCfg : CsvCfg :=
  { account := "Assets:Bank", accountType := .asset, operator := none, primary := "USD",
    conversion := { amount := .compute, rate := .priceOfPrimary }, rowOrder := .oldToNew,
    fields := [(.date, .index 1), (.payee, .index 2), (.amount, .index 3), (.rate, .index 4), (.secondaryAmount, .index 5),
      (.secondaryCommodity, .index 6)],
    rewrite := [] }
def exCompFm : FieldMap :=
  ⟨.column 0, .column 1, .amount (.column 2),
    [(.date, .column 0), (.payee, .column 1), (.amount, .column 2), (.rate, .column 3), (.secondaryAmount, .column 4),
     (.secondaryCommodity, .column 5)], 5⟩
/-- the largest 96-bit amount, at a rate of 10 -/
def exCompRec : List String := ["2024-01-02", "big", "79228162514264337593543950335", "10", "1", "JPY"]
def exCompTxn : Txn :=
  { date := ⟨2024, 1, 2⟩, payee := "big", amount := ⟨⟨false, 79228162514264337593543950335, 0⟩, "USD"⟩,
    clearState := some .pending, rates := [("USD", ⟨⟨false, 10, 0⟩, "JPY"⟩)],
    transferredAmount := some ⟨⟨false, 792281625142643375935439503350, 0⟩, "JPY"⟩ }

theorem exComp_import : csvImport exCsvEnv exCompCfg ["d", "p", "a", "r", "s", "c"] [exCompRec] = .ok [exCompTxn] := by rfl

/-- **the range condition on COMPUTED amounts cannot be dropped (in the model)**: every cell of this row writes a number in
range and every text field is clean, but the product `amount × rate` the model computes exceeds 96 bits (rust_decimal itself
fails on that multiplication — its behaviour outside the range is not modelled), and the text printed for it is rejected. -/
theorem C15_csv_computed_range_needed :
    CleanWords exCompTxn "Assets:Bank" = true ∧ NumbersInRange exCompTxn = false ∧
    (parseEntries (importText exCsvPrec widthStd [builtTree exCompTxn])).isOk = false := by
  decide +kernel

end Okane.Import
