import Okane.Lemmas.Diag
/-!
# C14 — diagnostics name the right file and line

All positions are byte positions in the file's UTF-8 text (`Okane.Diag`).  What the *parser* has to supply
(tracked spans lie inside the entry span; the entry span is a valid slice; `startPos ≤ errPos ≤ |file|`) enters
as explicit hypotheses: they are facts about the parser model (C05), checked on the real parser by the C14
correspondence stream for every generated case.
-/
namespace Okane.Diag

/-! ## C14_line -/

/-- **C14_line.** `compute_line_number(t, p)` is one plus the number of line-feed bytes before byte position
`p`, for every text and every in-range position.  Nothing else in the text matters: carriage returns and the
bytes of multi-byte characters are simply not line feeds. -/
theorem C14_line (t : Bytes) (p : Nat) (hp : p ≤ t.length) :
    computeLineNumber t p = .ok (1 + lfBefore t p) := by
  simp [computeLineNumber, hp, countLF_take_eq_lfBefore t p hp]

/-- **C14_line**, in characters: at the byte position that follows the first `k` characters of a text the
line number is one plus the number of `'\n'` *characters* among them — whatever else (CR, multi-byte
characters) the text contains. -/
theorem C14_line_chars (pre post : List Char) :
    computeLineNumber (encode (pre ++ post)) (encode pre).length = .ok (1 + pre.count '\n') := by
  have hle : (encode pre).length ≤ (encode (pre ++ post)).length := by
    rw [encode_append]; simp
  simp only [computeLineNumber, hle, ↓reduceIte]
  rw [encode_append, List.take_left' rfl, countLF_encode]

/-- positions out of range are the assert's panic (the callers never pass one: `C06`). -/
theorem computeLineNumber_out_of_range (t : Bytes) (p : Nat) (hp : t.length < p) :
    ∃ s, computeLineNumber t p = .panic s := by
  refine ⟨"compute_line_number: assert pos <= s.len()", ?_⟩
  simp only [computeLineNumber]
  rw [if_neg (by omega)]

/-! ## C14_bookkeep -/

/-- the snippet's line numbering agrees with the file's: position `q` of the entry text is on the line of
file position `span.start + q`. -/
theorem snippetLine_eq_file_line (c : PCtx) (hv : c.validSlice = true) (q : Nat)
    (hq : q ≤ c.span.stop - c.span.start) :
    computeLineNumber c.initial (c.span.start + q) =
      .ok (snippetLine (1 + countLF (c.initial.take c.span.start))
            ((c.initial.take c.span.stop).drop c.span.start) q) := by
  simp only [PCtx.validSlice, Bool.and_eq_true, decide_eq_true_eq] at hv
  obtain ⟨⟨⟨h1, h2⟩, _⟩, _⟩ := hv
  have hle : c.span.start + q ≤ c.initial.length := by omega
  simp only [computeLineNumber, hle, ↓reduceIte, snippetLine]
  congr 1
  -- take (s+q) initial = take s initial ++ take q (drop s (take stop initial))
  have hsplit : c.initial.take (c.span.start + q) =
      c.initial.take c.span.start ++ ((c.initial.take c.span.stop).drop c.span.start).take q := by
    rw [List.take_add]
    congr 1
    rw [List.drop_take, List.take_take]
    congr 1
    omega
  rw [hsplit, countLF_append]; omega

/-- **C14_bookkeep.**  For an entry whose span is a valid slice of its file and a book-keeping error whose
tracked spans lie inside the entry span (both are what `with_span` yields):
* the error context is built without panic, its `line_start` is the line of the entry's first byte in that
  file, its text is the entry's slice;
* every annotated range is `⊆ [0, |entry text|]` (start ≤ end ≤ length), and is the tracked span shifted by
  the entry start (for errors without tracked spans: the whole text);
* the line the renderer shows for any annotated position is the file's line of that byte, which lies between
  the entry's first line and the line of the entry's end. -/
theorem C14_bookkeep {π : Type} (path : π) (c : PCtx) (e : BkSpans)
    (hv : c.validSlice = true) (hin : ∀ r ∈ e.tracked, r.within c.span) :
    ∃ ctx first last anns,
      ErrorContext.new path c = .ok ctx ∧ ctx.path = path ∧
      computeLineNumber c.initial c.span.start = .ok first ∧ ctx.lineStart = first ∧
      computeLineNumber c.initial c.span.stop = .ok last ∧
      ctx.text.length = c.span.stop - c.span.start ∧
      ctx.annotations e = .ok anns ∧
      (∀ r ∈ anns, r.start ≤ r.stop ∧ r.stop ≤ ctx.text.length) ∧
      (e ≠ .other → anns = e.tracked.map fun r => ⟨r.start - c.span.start, r.stop - c.span.start⟩) ∧
      (∀ r ∈ anns, ∀ q, r.start ≤ q → q ≤ r.stop →
        computeLineNumber c.initial (c.span.start + q) = .ok (snippetLine ctx.lineStart ctx.text q) ∧
        first ≤ snippetLine ctx.lineStart ctx.text q ∧ snippetLine ctx.lineStart ctx.text q ≤ last) := by
  obtain ⟨text, htext, hlen, htextEq⟩ := asStr_length c hv
  have hv' := hv
  simp only [PCtx.validSlice, Bool.and_eq_true, decide_eq_true_eq] at hv'
  obtain ⟨⟨⟨h1, h2⟩, _⟩, _⟩ := hv'
  have hstart : c.span.start ≤ c.initial.length := by omega
  let first := 1 + countLF (c.initial.take c.span.start)
  let last := 1 + countLF (c.initial.take c.span.stop)
  have hnew : ErrorContext.new path c = .ok ⟨path, first, text, c.span⟩ := by
    simp [ErrorContext.new, PCtx.computeLineStart, computeLineNumber, hstart, htext, first]
  -- annotations
  have hanns : ∃ anns, (ErrorContext.annotations (⟨path, first, text, c.span⟩ : ErrorContext π) e) = .ok anns ∧
      (∀ r ∈ anns, r.start ≤ r.stop ∧ r.stop ≤ text.length) ∧
      (e ≠ .other → anns = e.tracked.map fun r => ⟨r.start - c.span.start, r.stop - c.span.start⟩) := by
    have hres := resolveAll_within c.span e.tracked hin
    have hbound : ∀ r ∈ (e.tracked.map fun r => (⟨r.start - c.span.start, r.stop - c.span.start⟩ : Range)),
        r.start ≤ r.stop ∧ r.stop ≤ text.length := by
      intro r hr
      simp only [List.mem_map] at hr
      obtain ⟨r0, hr0, rfl⟩ := hr
      obtain ⟨a, b, d⟩ := hin r0 hr0
      simp only; omega
    cases e with
    | other =>
      refine ⟨[⟨0, text.length⟩], by simp [ErrorContext.annotations], ?_, by simp⟩
      intro r hr; simp at hr; subst hr; simp
    | undeducible a b => exact ⟨_, by simpa [ErrorContext.annotations] using hres, hbound, fun _ => rfl⟩
    | assertion a b => exact ⟨_, by simpa [ErrorContext.annotations] using hres, hbound, fun _ => rfl⟩
    | zeroAmountWithExchange a => exact ⟨_, by simpa [ErrorContext.annotations] using hres, hbound, fun _ => rfl⟩
    | zeroExchangeRate a => exact ⟨_, by simpa [ErrorContext.annotations] using hres, hbound, fun _ => rfl⟩
    | exchangeWithAmountCommodity a b =>
      exact ⟨_, by simpa [ErrorContext.annotations] using hres, hbound, fun _ => rfl⟩
  obtain ⟨anns, hann, hb, hshift⟩ := hanns
  refine ⟨⟨path, first, text, c.span⟩, first, last, anns, hnew, rfl, ?_, rfl, ?_, hlen, hann, hb, hshift, ?_⟩
  · simp [computeLineNumber, hstart, first]
  · simp [computeLineNumber, h2, last]
  · intro r hr q hq1 hq2
    have hq : q ≤ c.span.stop - c.span.start := by
      have := (hb r hr).2; omega
    have hline := snippetLine_eq_file_line c hv q hq
    rw [← htextEq] at hline
    refine ⟨hline, ?_, ?_⟩
    · simp only [snippetLine]; omega
    · -- monotone: line at start+q ≤ line at stop
      have hmono := countLF_take_le c.initial (c.span.start + q) c.span.stop (by omega)
      have hle : c.span.start + q ≤ c.initial.length := by omega
      have h3 : computeLineNumber c.initial (c.span.start + q) =
          .ok (1 + countLF (c.initial.take (c.span.start + q))) := by
        simp [computeLineNumber, hle]
      rw [h3] at hline
      injection hline with hline
      show snippetLine first text q ≤ last
      rw [← hline]
      show 1 + countLF (c.initial.take (c.span.start + q)) ≤ 1 + countLF (c.initial.take c.span.stop)
      omega

/-! ## C14_syntax -/

/-- **C14_syntax.**  For a parse failure with `startPos ≤ errPos ≤ |file|` (checkpoint before the separator,
position where the failing parser stopped):
* `line_start` is the line of the checkpoint, i.e. the line where the iterator resumed;
* the snippet is the rest of the file from the checkpoint, so the error offset `errPos - startPos` denotes file
  position `errPos` exactly — between the entry start and where parsing stopped, for any entry start in
  `[startPos, errPos]`;
* the annotated span starts there, has `start ≤ end ≤ |snippet|`, ends at the next char boundary (nothing in
  between is one) or is empty at end of input;
* the line the renderer shows for the error is the file's line of `errPos`, between `line_start` and the line
  where parsing stopped. -/
theorem C14_syntax (initial : Bytes) (startPos errPos : Nat)
    (h1 : startPos ≤ errPos) (h2 : errPos ≤ initial.length) :
    ∃ pe stopLine,
      parseErrorNew (parseErrorFuel initial) initial startPos errPos = .ok pe ∧
      computeLineNumber initial startPos = .ok pe.lineStart ∧
      pe.input = initial.drop startPos ∧
      startPos + pe.errorSpan.start = errPos ∧
      pe.errorSpan.start ≤ pe.errorSpan.stop ∧ pe.errorSpan.stop ≤ pe.input.length ∧
      (errPos < initial.length →
        pe.errorSpan.start < pe.errorSpan.stop ∧ isCharBoundary pe.input pe.errorSpan.stop = true ∧
        ∀ x, pe.errorSpan.start < x → x < pe.errorSpan.stop → isCharBoundary pe.input x = false) ∧
      (errPos = initial.length → pe.errorSpan.stop = pe.errorSpan.start) ∧
      computeLineNumber initial errPos = .ok stopLine ∧
      snippetLine pe.lineStart pe.input pe.errorSpan.start = stopLine ∧
      pe.lineStart ≤ stopLine := by
  have hs : startPos ≤ initial.length := by omega
  have hinput : (initial.drop startPos).length = initial.length - startPos := by simp
  obtain ⟨r, hr⟩ := findBoundary_terminates (initial.drop startPos) (parseErrorFuel initial) (errPos - startPos + 1)
    (by rw [hinput]; show initial.length - startPos + 2 ≤ initial.length + 1 + (errPos - startPos + 1); omega)
    (by rw [hinput]; omega)
  have hspec := findBoundary_spec _ _ _ _ hr
  have hnew : parseErrorNew (parseErrorFuel initial) initial startPos errPos =
      .ok ⟨1 + countLF (initial.take startPos), ⟨errPos - startPos, r.getD (errPos - startPos)⟩,
        initial.drop startPos⟩ := by
    simp only [parseErrorNew]
    rw [if_neg (by omega)]
    simp [computeLineNumber, hs, hr]
  refine ⟨_, 1 + countLF (initial.take errPos), hnew, by simp [computeLineNumber, hs], rfl,
    (by show startPos + (errPos - startPos) = errPos; omega),
    ?_, ?_, ?_, ?_, by simp [computeLineNumber, h2], ?_, ?_⟩
  · cases r with
    | none => simp
    | some b => simp only [Option.getD_some]; simp only at hspec; omega
  · cases r with
    | none => simp only [Option.getD_none, hinput]; omega
    | some b => simp only [Option.getD_some]; simp only at hspec; exact hspec.2.1
  · intro hlt
    cases r with
    | none =>
      -- impossible: the end of the snippet is a boundary and is ≥ offset+1
      simp only at hspec
      have := hspec (initial.drop startPos).length (by rw [hinput]; omega) (Nat.le_refl _)
      rw [isCharBoundary_length] at this
      exact absurd this (by simp)
    | some b =>
      simp only [Option.getD_some]; simp only at hspec
      obtain ⟨a1, a2, a3, a4⟩ := hspec
      exact ⟨by omega, a3, fun x hx hxb => a4 x (by omega) hxb⟩
  · intro heq
    cases r with
    | none => simp
    | some b =>
      simp only at hspec
      obtain ⟨a1, a2, _, _⟩ := hspec
      rw [hinput] at a2
      omega
  · -- shown line = file line of errPos
    simp only [snippetLine]
    have hsplit : initial.take errPos = initial.take startPos ++ (initial.drop startPos).take (errPos - startPos) := by
      have : errPos = startPos + (errPos - startPos) := by omega
      conv => lhs; rw [this, List.take_add]
    rw [hsplit, countLF_append]; omega
  · have := countLF_take_le initial startPos errPos h1
    simp only; omega

/-- **C14_syntax**, in characters.  When the text is the UTF-8 encoding of characters and parsing stopped in front
of the character `c` (after `pre0 ++ pre`, the iterator having resumed after `pre0`): the annotated span is exactly the
bytes of `c` — whatever its width —, `line_start` is one plus the line feeds in `pre0`, and the line shown for the error
is one plus the line feeds in everything before `c`. -/
theorem C14_syntax_char (pre0 pre post : List Char) (c : Char) :
    ∃ pe, parseErrorNew (parseErrorFuel (encode (pre0 ++ pre ++ c :: post))) (encode (pre0 ++ pre ++ c :: post))
        (encode pre0).length (encode (pre0 ++ pre)).length = .ok pe ∧
      pe.input = encode (pre ++ c :: post) ∧
      pe.errorSpan = ⟨(encode pre).length, (encode pre).length + (String.utf8EncodeChar c).length⟩ ∧
      pe.lineStart = 1 + pre0.count '\n' ∧
      snippetLine pe.lineStart pe.input pe.errorSpan.start = 1 + (pre0 ++ pre).count '\n' := by
  have hinit : encode (pre0 ++ pre ++ c :: post) = encode pre0 ++ encode (pre ++ c :: post) := by
    rw [List.append_assoc, encode_append]
  have hlen2 : (encode (pre0 ++ pre)).length = (encode pre0).length + (encode pre).length := by
    rw [encode_append]; simp
  have hb := boundary_within_char pre post c
  simp only at hb
  obtain ⟨hno, hyes, hn0, hle⟩ := hb
  have h1 : (encode pre0).length ≤ (encode (pre0 ++ pre)).length := by omega
  have h2 : (encode (pre0 ++ pre)).length < (encode (pre0 ++ pre ++ c :: post)).length := by
    rw [hinit, hlen2]; simp; omega
  obtain ⟨pe, stopLine, hnew, hls, hinput, hstart, _, hstop, hlt, _, hstopLine, hshown, _⟩ :=
    C14_syntax (encode (pre0 ++ pre ++ c :: post)) (encode pre0).length (encode (pre0 ++ pre)).length h1 (by omega)
  have hin : pe.input = encode (pre ++ c :: post) := by
    rw [hinput, hinit, List.drop_left' rfl]
  have hs : pe.errorSpan.start = (encode pre).length := by omega
  obtain ⟨hgt, hbnd, hnone⟩ := hlt h2
  rw [hin] at hbnd hnone hstop
  have hstopEq : pe.errorSpan.stop = (encode pre).length + (String.utf8EncodeChar c).length := by
    by_cases hlt' : pe.errorSpan.stop < (encode pre).length + (String.utf8EncodeChar c).length
    · -- strictly inside the character: not a boundary
      have := hno (pe.errorSpan.stop - (encode pre).length) (by omega) (by omega)
      rw [show (encode pre).length + (pe.errorSpan.stop - (encode pre).length) = pe.errorSpan.stop by omega] at this
      rw [this] at hbnd; exact absurd hbnd (by simp)
    · by_cases hgt' : (encode pre).length + (String.utf8EncodeChar c).length < pe.errorSpan.stop
      · have := hnone ((encode pre).length + (String.utf8EncodeChar c).length) (by omega) hgt'
        rw [this] at hyes; exact absurd hyes (by simp)
      · omega
  refine ⟨pe, hnew, hin, ?_, ?_, ?_⟩
  · cases hpe : pe.errorSpan with
    | mk a b => rw [hpe] at hs hstopEq; simp only at hs hstopEq; rw [hs, hstopEq]
  · have := C14_line_chars pre0 (pre ++ c :: post)
    rw [← List.append_assoc] at this
    rw [this] at hls
    injection hls with hls; exact hls.symm
  · have := C14_line_chars (pre0 ++ pre) (c :: post)
    rw [this] at hstopLine
    injection hstopLine with hstopLine
    rw [hshown, ← hstopLine]

/-! ## C14_file -/

/-- **C14_file.**  `report::process` hands each entry to book-keeping together with the path and context the
loader delivered *with that entry*.  So when book-keeping rejects the `i`-th delivered entry (all earlier ones
having been accepted), the error context names the path delivered with entry `i`, its `line_start` is the line
of that entry's first byte in *that* file's text, and its text is that entry's slice of that file.  (That the
delivered path is the file being read is the loader's `callback(&path, &ctx, &entry)` with `path` the
canonicalised path whose content is being parsed: `Model/Load.lean`, C11.) -/
theorem C14_file {π : Type} (xs : List (Delivered π Entry)) (i : Nat) (x : BkErrS)
    (hproc : Okane.process (xs.map (·.entry)) = .err (i, x))
    (hvalid : ∀ d ∈ xs, d.pctx.validSlice = true) :
    ∃ d ctx, xs[i]? = some d ∧ reportAt xs i = .ok (some ctx) ∧
      ctx.path = d.path ∧
      computeLineNumber d.pctx.initial d.pctx.span.start = .ok ctx.lineStart ∧
      d.pctx.asStr = .ok ctx.text ∧ ctx.parsedSpan = d.pctx.span ∧
      (∃ st', Okane.process ((xs.take i).map (·.entry)) = .ok st' ∧ stepEntry st' d.entry = .err x) := by
  obtain ⟨_, hi, st', hpre, e, he, hstep⟩ := processFrom_err_index _ _ _ _ _ hproc
  simp only [Nat.zero_add, List.length_map, Nat.sub_zero] at hi hpre he
  have hd : xs[i]? = some xs[i] := List.getElem?_eq_getElem hi
  have hmem : xs[i] ∈ xs := List.getElem_mem hi
  obtain ⟨ctx, _, _, _, hnew, hpath, hfirst, hls, _, _, _, _, _, _⟩ :=
    C14_bookkeep xs[i].path xs[i].pctx .other (hvalid _ hmem) (by simp [BkSpans.tracked])
  obtain ⟨text, htext, _, _⟩ := asStr_length xs[i].pctx (hvalid _ hmem)
  refine ⟨xs[i], ctx, hd, ?_, hpath, ?_, ?_, ?_, st', ?_, ?_⟩
  · simp [reportAt, hd, hnew]
  · rw [hfirst, hls]
  · simp only [ErrorContext.new, PCtx.computeLineStart, hfirst, htext] at hnew
    injection hnew with hnew
    rw [← hnew]; exact htext
  · simp only [ErrorContext.new, PCtx.computeLineStart, hfirst, htext] at hnew
    injection hnew with hnew
    rw [← hnew]
  · simpa [Okane.process, List.map_take] using hpre
  · have : e = xs[i].entry := by
      simp [List.getElem?_map, hd] at he
      exact he.symm
    rw [← this]; exact hstep

/-! ## non-vacuity and negation witnesses -/

/-- a file with CRLF line ends, a blank line, multi-byte text and an entry starting on line 4 -/
def sampleFile : Bytes := encode "; 日本語\r\n\r\n; é\r\n2024/01/01 x\r\n  A  1 USD\r\n  B\r\n".toList

-- C14_line: the entry starts at byte 21; three line feeds precede it
example : computeLineNumber sampleFile 21 = .ok 4 := by decide
example : lfBefore sampleFile 21 = 3 := by decide
-- C14_bookkeep's hypotheses are satisfiable: entry span 21..52 is a valid slice, tracked span of `A` inside it
example : (PCtx.mk sampleFile ⟨21, 52⟩).validSlice = true := by decide
example : (Range.mk 37 38).within ⟨21, 52⟩ := by simp [Range.within]
example : (ErrorContext.new "f" (PCtx.mk sampleFile ⟨21, 52⟩)).map' (fun c => (c.lineStart, c.text.length))
    = .ok (4, 31) := by decide
example : resolve ⟨21, 52⟩ ⟨37, 38⟩ = .ok ⟨16, 17⟩ := by decide
-- C14_syntax: error at byte 2 (the start of `日`): the span covers the whole 3-byte character
example : (String.utf8EncodeChar '日').length = 3 := by decide
example : (parseErrorNew (parseErrorFuel sampleFile) sampleFile 0 2).map' (fun e => (e.lineStart, e.errorSpan))
    = .ok (1, ⟨2, 5⟩) := by decide
-- ... and at end of input the span is empty (the F1a hang is gone)
example : (parseErrorNew (parseErrorFuel sampleFile) sampleFile 21 sampleFile.length).map'
    (fun e => (e.lineStart, e.errorSpan)) = .ok (4, ⟨31, 31⟩) := by decide
-- negation witnesses: outside the hypotheses the panic sites are real
example : computeLineNumber sampleFile 60 = .panic "compute_line_number: assert pos <= s.len()" := by decide
example : clip ⟨21, 52⟩ ⟨3, 10⟩ = .panic "clip: attempt to subtract with overflow" := by decide
example : (PCtx.mk sampleFile ⟨3, 52⟩).asStr = .panic "ParsedContext::span must be a valid UTF-8 boundary" := by decide

end Okane.Diag
