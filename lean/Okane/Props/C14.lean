/-! # C14 — property theorems (stub) -/
