import Okane.Lemmas.Diag
import Okane.Lemmas.C14TextSpans
import Okane.Lemmas.C14TextBook
/-!
# C14 — diagnostics name the right file and line

All positions are byte positions in the file's UTF-8 text (`Okane.Diag`).  What the *parser* has to supply
(tracked spans lie inside the entry span; the entry span is a valid slice; `startPos ≤ errPos ≤ |file|`) enters
as explicit hypotheses: they are facts about the parser model (C05), checked on the real parser by the C14
correspondence stream for every generated case.
-/
namespace Okane.Diag

/-! ## C14_line -/

/-- **C14_line.** `compute_line_number(t, p)` is one plus the number of line-feed bytes before byte position
`p`, for every text and every in-range position.  Nothing else in the text matters: carriage returns and the
bytes of multi-byte characters are simply not line feeds. -/
theorem C14_line (t : Bytes) (p : Nat) (hp : p ≤ t.length) :
    computeLineNumber t p = .ok (1 + lfBefore t p) := by
  simp [computeLineNumber, hp, countLF_take_eq_lfBefore t p hp]

/-- **C14_line**, in characters: at the byte position that follows the first `k` characters of a text the
line number is one plus the number of `'\n'` *characters* among them — whatever else (CR, multi-byte
characters) the text contains. -/
theorem C14_line_chars (pre post : List Char) :
    computeLineNumber (encode (pre ++ post)) (encode pre).length = .ok (1 + pre.count '\n') := by
  have hle : (encode pre).length ≤ (encode (pre ++ post)).length := by
    rw [encode_append]; simp
  simp only [computeLineNumber, hle, ↓reduceIte]
  rw [encode_append, List.take_left' rfl, countLF_encode]

/-- positions out of range are the assert's panic (the callers never pass one: `C06`). -/
theorem computeLineNumber_out_of_range (t : Bytes) (p : Nat) (hp : t.length < p) :
    ∃ s, computeLineNumber t p = .panic s := by
  refine ⟨"compute_line_number: assert pos <= s.len()", ?_⟩
  simp only [computeLineNumber]
  rw [if_neg (by omega)]

/-! ## C14_bookkeep -/

/-- the snippet's line numbering agrees with the file's: position `q` of the entry text is on the line of
file position `span.start + q`. -/
theorem snippetLine_eq_file_line (c : PCtx) (hv : c.validSlice = true) (q : Nat)
    (hq : q ≤ c.span.stop - c.span.start) :
    computeLineNumber c.initial (c.span.start + q) =
      .ok (snippetLine (1 + countLF (c.initial.take c.span.start))
            ((c.initial.take c.span.stop).drop c.span.start) q) := by
  simp only [PCtx.validSlice, Bool.and_eq_true, decide_eq_true_eq] at hv
  obtain ⟨⟨⟨h1, h2⟩, _⟩, _⟩ := hv
  have hle : c.span.start + q ≤ c.initial.length := by omega
  simp only [computeLineNumber, hle, ↓reduceIte, snippetLine]
  congr 1
  -- take (s+q) initial = take s initial ++ take q (drop s (take stop initial))
  have hsplit : c.initial.take (c.span.start + q) =
      c.initial.take c.span.start ++ ((c.initial.take c.span.stop).drop c.span.start).take q := by
    rw [List.take_add]
    congr 1
    rw [List.drop_take, List.take_take]
    congr 1
    omega
  rw [hsplit, countLF_append]; omega

/-- **C14_bookkeep.**  For an entry whose span is a valid slice of its file and a book-keeping error whose
tracked spans lie inside the entry span (both are what `with_span` yields):
* the error context is built without panic, its `line_start` is the line of the entry's first byte in that
  file, its text is the entry's slice;
* every annotated range is `⊆ [0, |entry text|]` (start ≤ end ≤ length), and is the tracked span shifted by
  the entry start (for errors without tracked spans: the whole text);
* the line the renderer shows for any annotated position is the file's line of that byte, which lies between
  the entry's first line and the line of the entry's end. -/
theorem C14_bookkeep {π : Type} (path : π) (c : PCtx) (e : BkSpans)
    (hv : c.validSlice = true) (hin : ∀ r ∈ e.tracked, r.within c.span) :
    ∃ ctx first last anns,
      ErrorContext.new path c = .ok ctx ∧ ctx.path = path ∧
      computeLineNumber c.initial c.span.start = .ok first ∧ ctx.lineStart = first ∧
      computeLineNumber c.initial c.span.stop = .ok last ∧
      ctx.text.length = c.span.stop - c.span.start ∧
      ctx.annotations e = .ok anns ∧
      (∀ r ∈ anns, r.start ≤ r.stop ∧ r.stop ≤ ctx.text.length) ∧
      (e ≠ .other → anns = e.tracked.map fun r => ⟨r.start - c.span.start, r.stop - c.span.start⟩) ∧
      (∀ r ∈ anns, ∀ q, r.start ≤ q → q ≤ r.stop →
        computeLineNumber c.initial (c.span.start + q) = .ok (snippetLine ctx.lineStart ctx.text q) ∧
        first ≤ snippetLine ctx.lineStart ctx.text q ∧ snippetLine ctx.lineStart ctx.text q ≤ last) := by
  obtain ⟨text, htext, hlen, htextEq⟩ := asStr_length c hv
  have hv' := hv
  simp only [PCtx.validSlice, Bool.and_eq_true, decide_eq_true_eq] at hv'
  obtain ⟨⟨⟨h1, h2⟩, _⟩, _⟩ := hv'
  have hstart : c.span.start ≤ c.initial.length := by omega
  let first := 1 + countLF (c.initial.take c.span.start)
  let last := 1 + countLF (c.initial.take c.span.stop)
  have hnew : ErrorContext.new path c = .ok ⟨path, first, text, c.span⟩ := by
    simp [ErrorContext.new, PCtx.computeLineStart, computeLineNumber, hstart, htext, first]
  -- annotations
  have hanns : ∃ anns, (ErrorContext.annotations (⟨path, first, text, c.span⟩ : ErrorContext π) e) = .ok anns ∧
      (∀ r ∈ anns, r.start ≤ r.stop ∧ r.stop ≤ text.length) ∧
      (e ≠ .other → anns = e.tracked.map fun r => ⟨r.start - c.span.start, r.stop - c.span.start⟩) := by
    have hres := resolveAll_within c.span e.tracked hin
    have hbound : ∀ r ∈ (e.tracked.map fun r => (⟨r.start - c.span.start, r.stop - c.span.start⟩ : Range)),
        r.start ≤ r.stop ∧ r.stop ≤ text.length := by
      intro r hr
      simp only [List.mem_map] at hr
      obtain ⟨r0, hr0, rfl⟩ := hr
      obtain ⟨a, b, d⟩ := hin r0 hr0
      simp only; omega
    cases e with
    | other =>
      refine ⟨[⟨0, text.length⟩], by simp [ErrorContext.annotations], ?_, by simp⟩
      intro r hr; simp at hr; subst hr; simp
    | undeducible a b => exact ⟨_, by simpa [ErrorContext.annotations] using hres, hbound, fun _ => rfl⟩
    | assertion a b => exact ⟨_, by simpa [ErrorContext.annotations] using hres, hbound, fun _ => rfl⟩
    | zeroAmountWithExchange a => exact ⟨_, by simpa [ErrorContext.annotations] using hres, hbound, fun _ => rfl⟩
    | zeroExchangeRate a => exact ⟨_, by simpa [ErrorContext.annotations] using hres, hbound, fun _ => rfl⟩
    | exchangeWithAmountCommodity a b =>
      exact ⟨_, by simpa [ErrorContext.annotations] using hres, hbound, fun _ => rfl⟩
  obtain ⟨anns, hann, hb, hshift⟩ := hanns
  refine ⟨⟨path, first, text, c.span⟩, first, last, anns, hnew, rfl, ?_, rfl, ?_, hlen, hann, hb, hshift, ?_⟩
  · simp [computeLineNumber, hstart, first]
  · simp [computeLineNumber, h2, last]
  · intro r hr q hq1 hq2
    have hq : q ≤ c.span.stop - c.span.start := by
      have := (hb r hr).2; omega
    have hline := snippetLine_eq_file_line c hv q hq
    rw [← htextEq] at hline
    refine ⟨hline, ?_, ?_⟩
    · simp only [snippetLine]; omega
    · -- monotone: line at start+q ≤ line at stop
      have hmono := countLF_take_le c.initial (c.span.start + q) c.span.stop (by omega)
      have hle : c.span.start + q ≤ c.initial.length := by omega
      have h3 : computeLineNumber c.initial (c.span.start + q) =
          .ok (1 + countLF (c.initial.take (c.span.start + q))) := by
        simp [computeLineNumber, hle]
      rw [h3] at hline
      injection hline with hline
      show snippetLine first text q ≤ last
      rw [← hline]
      show 1 + countLF (c.initial.take (c.span.start + q)) ≤ 1 + countLF (c.initial.take c.span.stop)
      omega

/-! ## C14_syntax -/

/-- **C14_syntax.**  For a parse failure with `startPos ≤ errPos ≤ |file|` (checkpoint before the separator,
position where the failing parser stopped):
* `line_start` is the line of the checkpoint, i.e. the line where the iterator resumed;
* the snippet is the rest of the file from the checkpoint, so the error offset `errPos - startPos` denotes file
  position `errPos` exactly — between the entry start and where parsing stopped, for any entry start in
  `[startPos, errPos]`;
* the annotated span starts there, has `start ≤ end ≤ |snippet|`, ends at the next char boundary (nothing in
  between is one) or is empty at end of input;
* the line the renderer shows for the error is the file's line of `errPos`, between `line_start` and the line
  where parsing stopped. -/
theorem C14_syntax (initial : Bytes) (startPos errPos : Nat)
    (h1 : startPos ≤ errPos) (h2 : errPos ≤ initial.length) :
    ∃ pe stopLine,
      parseErrorNew (parseErrorFuel initial) initial startPos errPos = .ok pe ∧
      computeLineNumber initial startPos = .ok pe.lineStart ∧
      pe.input = initial.drop startPos ∧
      startPos + pe.errorSpan.start = errPos ∧
      pe.errorSpan.start ≤ pe.errorSpan.stop ∧ pe.errorSpan.stop ≤ pe.input.length ∧
      (errPos < initial.length →
        pe.errorSpan.start < pe.errorSpan.stop ∧ isCharBoundary pe.input pe.errorSpan.stop = true ∧
        ∀ x, pe.errorSpan.start < x → x < pe.errorSpan.stop → isCharBoundary pe.input x = false) ∧
      (errPos = initial.length → pe.errorSpan.stop = pe.errorSpan.start) ∧
      computeLineNumber initial errPos = .ok stopLine ∧
      snippetLine pe.lineStart pe.input pe.errorSpan.start = stopLine ∧
      pe.lineStart ≤ stopLine := by
  have hs : startPos ≤ initial.length := by omega
  have hinput : (initial.drop startPos).length = initial.length - startPos := by simp
  obtain ⟨r, hr⟩ := findBoundary_terminates (initial.drop startPos) (parseErrorFuel initial) (errPos - startPos + 1)
    (by rw [hinput]; show initial.length - startPos + 2 ≤ initial.length + 1 + (errPos - startPos + 1); omega)
    (by rw [hinput]; omega)
  have hspec := findBoundary_spec _ _ _ _ hr
  have hnew : parseErrorNew (parseErrorFuel initial) initial startPos errPos =
      .ok ⟨1 + countLF (initial.take startPos), ⟨errPos - startPos, r.getD (errPos - startPos)⟩,
        initial.drop startPos⟩ := by
    simp only [parseErrorNew]
    rw [if_neg (by omega)]
    simp [computeLineNumber, hs, hr]
  refine ⟨_, 1 + countLF (initial.take errPos), hnew, by simp [computeLineNumber, hs], rfl,
    (by show startPos + (errPos - startPos) = errPos; omega),
    ?_, ?_, ?_, ?_, by simp [computeLineNumber, h2], ?_, ?_⟩
  · cases r with
    | none => simp
    | some b => simp only [Option.getD_some]; simp only at hspec; omega
  · cases r with
    | none => simp only [Option.getD_none, hinput]; omega
    | some b => simp only [Option.getD_some]; simp only at hspec; exact hspec.2.1
  · intro hlt
    cases r with
    | none =>
      -- impossible: the end of the snippet is a boundary and is ≥ offset+1
      simp only at hspec
      have := hspec (initial.drop startPos).length (by rw [hinput]; omega) (Nat.le_refl _)
      rw [isCharBoundary_length] at this
      exact absurd this (by simp)
    | some b =>
      simp only [Option.getD_some]; simp only at hspec
      obtain ⟨a1, a2, a3, a4⟩ := hspec
      exact ⟨by omega, a3, fun x hx hxb => a4 x (by omega) hxb⟩
  · intro heq
    cases r with
    | none => simp
    | some b =>
      simp only at hspec
      obtain ⟨a1, a2, _, _⟩ := hspec
      rw [hinput] at a2
      omega
  · -- shown line = file line of errPos
    simp only [snippetLine]
    have hsplit : initial.take errPos = initial.take startPos ++ (initial.drop startPos).take (errPos - startPos) := by
      have : errPos = startPos + (errPos - startPos) := by omega
      conv => lhs; rw [this, List.take_add]
    rw [hsplit, countLF_append]; omega
  · have := countLF_take_le initial startPos errPos h1
    simp only; omega

/-- **C14_syntax**, in characters.  When the text is the UTF-8 encoding of characters and parsing stopped in front
of the character `c` (after `pre0 ++ pre`, the iterator having resumed after `pre0`): the annotated span is exactly the
bytes of `c` — whatever its width —, `line_start` is one plus the line feeds in `pre0`, and the line shown for the error
is one plus the line feeds in everything before `c`. -/
theorem C14_syntax_char (pre0 pre post : List Char) (c : Char) :
    ∃ pe, parseErrorNew (parseErrorFuel (encode (pre0 ++ pre ++ c :: post))) (encode (pre0 ++ pre ++ c :: post))
        (encode pre0).length (encode (pre0 ++ pre)).length = .ok pe ∧
      pe.input = encode (pre ++ c :: post) ∧
      pe.errorSpan = ⟨(encode pre).length, (encode pre).length + (String.utf8EncodeChar c).length⟩ ∧
      pe.lineStart = 1 + pre0.count '\n' ∧
      snippetLine pe.lineStart pe.input pe.errorSpan.start = 1 + (pre0 ++ pre).count '\n' := by
  have hinit : encode (pre0 ++ pre ++ c :: post) = encode pre0 ++ encode (pre ++ c :: post) := by
    rw [List.append_assoc, encode_append]
  have hlen2 : (encode (pre0 ++ pre)).length = (encode pre0).length + (encode pre).length := by
    rw [encode_append]; simp
  have hb := boundary_within_char pre post c
  simp only at hb
  obtain ⟨hno, hyes, hn0, hle⟩ := hb
  have h1 : (encode pre0).length ≤ (encode (pre0 ++ pre)).length := by omega
  have h2 : (encode (pre0 ++ pre)).length < (encode (pre0 ++ pre ++ c :: post)).length := by
    rw [hinit, hlen2]; simp; omega
  obtain ⟨pe, stopLine, hnew, hls, hinput, hstart, _, hstop, hlt, _, hstopLine, hshown, _⟩ :=
    C14_syntax (encode (pre0 ++ pre ++ c :: post)) (encode pre0).length (encode (pre0 ++ pre)).length h1 (by omega)
  have hin : pe.input = encode (pre ++ c :: post) := by
    rw [hinput, hinit, List.drop_left' rfl]
  have hs : pe.errorSpan.start = (encode pre).length := by omega
  obtain ⟨hgt, hbnd, hnone⟩ := hlt h2
  rw [hin] at hbnd hnone hstop
  have hstopEq : pe.errorSpan.stop = (encode pre).length + (String.utf8EncodeChar c).length := by
    by_cases hlt' : pe.errorSpan.stop < (encode pre).length + (String.utf8EncodeChar c).length
    · -- strictly inside the character: not a boundary
      have := hno (pe.errorSpan.stop - (encode pre).length) (by omega) (by omega)
      rw [show (encode pre).length + (pe.errorSpan.stop - (encode pre).length) = pe.errorSpan.stop by omega] at this
      rw [this] at hbnd; exact absurd hbnd (by simp)
    · by_cases hgt' : (encode pre).length + (String.utf8EncodeChar c).length < pe.errorSpan.stop
      · have := hnone ((encode pre).length + (String.utf8EncodeChar c).length) (by omega) hgt'
        rw [this] at hyes; exact absurd hyes (by simp)
      · omega
  refine ⟨pe, hnew, hin, ?_, ?_, ?_⟩
  · cases hpe : pe.errorSpan with
    | mk a b => rw [hpe] at hs hstopEq; simp only at hs hstopEq; rw [hs, hstopEq]
  · have := C14_line_chars pre0 (pre ++ c :: post)
    rw [← List.append_assoc] at this
    rw [this] at hls
    injection hls with hls; exact hls.symm
  · have := C14_line_chars (pre0 ++ pre) (c :: post)
    rw [this] at hstopLine
    injection hstopLine with hstopLine
    rw [hshown, ← hstopLine]

/-! ## C14_file -/

/-- **C14_file.**  `report::process` hands each entry to book-keeping together with the path and context the
loader delivered *with that entry*.  So when book-keeping rejects the `i`-th delivered entry (all earlier ones
having been accepted), the error context names the path delivered with entry `i`, its `line_start` is the line
of that entry's first byte in *that* file's text, and its text is that entry's slice of that file.  (That the
delivered path is the file being read is the loader's `callback(&path, &ctx, &entry)` with `path` the
canonicalised path whose content is being parsed: `Model/Load.lean`, C11.) -/
theorem C14_file {π : Type} (xs : List (Delivered π Entry)) (i : Nat) (x : BkErrS)
    (hproc : Okane.process (xs.map (·.entry)) = .err (i, x))
    (hvalid : ∀ d ∈ xs, d.pctx.validSlice = true) :
    ∃ d ctx, xs[i]? = some d ∧ reportAt xs i = .ok (some ctx) ∧
      ctx.path = d.path ∧
      computeLineNumber d.pctx.initial d.pctx.span.start = .ok ctx.lineStart ∧
      d.pctx.asStr = .ok ctx.text ∧ ctx.parsedSpan = d.pctx.span ∧
      (∃ st', Okane.process ((xs.take i).map (·.entry)) = .ok st' ∧ stepEntry st' d.entry = .err x) := by
  obtain ⟨_, hi, st', hpre, e, he, hstep⟩ := processFrom_err_index _ _ _ _ _ hproc
  simp only [Nat.zero_add, List.length_map, Nat.sub_zero] at hi hpre he
  have hd : xs[i]? = some xs[i] := List.getElem?_eq_getElem hi
  have hmem : xs[i] ∈ xs := List.getElem_mem hi
  obtain ⟨ctx, _, _, _, hnew, hpath, hfirst, hls, _, _, _, _, _, _⟩ :=
    C14_bookkeep xs[i].path xs[i].pctx .other (hvalid _ hmem) (by simp [BkSpans.tracked])
  obtain ⟨text, htext, _, _⟩ := asStr_length xs[i].pctx (hvalid _ hmem)
  refine ⟨xs[i], ctx, hd, ?_, hpath, ?_, ?_, ?_, st', ?_, ?_⟩
  · simp [reportAt, hd, hnew]
  · rw [hfirst, hls]
  · simp only [ErrorContext.new, PCtx.computeLineStart, hfirst, htext] at hnew
    injection hnew with hnew
    rw [← hnew]; exact htext
  · simp only [ErrorContext.new, PCtx.computeLineStart, hfirst, htext] at hnew
    injection hnew with hnew
    rw [← hnew]
  · simpa [Okane.process, List.map_take] using hpre
  · have : e = xs[i].entry := by
      simp [List.getElem?_map, hd] at he
      exact he.symm
    rw [← this]; exact hstep

/-! ## non-vacuity and negation witnesses -/

/-- a file with CRLF line ends, a blank line, multi-byte text and an entry starting on line 4 -/
def sampleFile : Bytes := encode "; 日本語\r\n\r\n; é\r\n2024/01/01 x\r\n  A  1 USD\r\n  B\r\n".toList

-- C14_line: the entry starts at byte 21; three line feeds precede it
example : computeLineNumber sampleFile 21 = .ok 4 := by decide
example : lfBefore sampleFile 21 = 3 := by decide
-- C14_bookkeep's hypotheses are satisfiable: entry span 21..52 is a valid slice, tracked span of `A` inside it
example : (PCtx.mk sampleFile ⟨21, 52⟩).validSlice = true := by decide
example : (Range.mk 37 38).within ⟨21, 52⟩ := by simp [Range.within]
example : (ErrorContext.new "f" (PCtx.mk sampleFile ⟨21, 52⟩)).map' (fun c => (c.lineStart, c.text.length))
    = .ok (4, 31) := by decide
example : resolve ⟨21, 52⟩ ⟨37, 38⟩ = .ok ⟨16, 17⟩ := by decide
-- C14_syntax: error at byte 2 (the start of `日`): the span covers the whole 3-byte character
example : (String.utf8EncodeChar '日').length = 3 := by decide
example : (parseErrorNew (parseErrorFuel sampleFile) sampleFile 0 2).map' (fun e => (e.lineStart, e.errorSpan))
    = .ok (1, ⟨2, 5⟩) := by decide
-- ... and at end of input the span is empty (the F1a hang is gone)
example : (parseErrorNew (parseErrorFuel sampleFile) sampleFile 21 sampleFile.length).map'
    (fun e => (e.lineStart, e.errorSpan)) = .ok (4, ⟨31, 31⟩) := by decide
-- negation witnesses: outside the hypotheses the panic sites are real
example : computeLineNumber sampleFile 60 = .panic "compute_line_number: assert pos <= s.len()" := by decide
example : clip ⟨21, 52⟩ ⟨3, 10⟩ = .panic "clip: attempt to subtract with overflow" := by decide
example : (PCtx.mk sampleFile ⟨3, 52⟩).asStr = .panic "ParsedContext::span must be a valid UTF-8 boundary" := by decide

end Okane.Diag

/-!
# C14 for every text: the parser-side hypotheses discharged in the parser model

`C14_syntax` and `C14_bookkeep` above take the facts the parser has to supply as hypotheses.  The theorems below
discharge them **for every text** with the parser model (`Model/Parse.lean`, and `Model/ParseSpans.lean` for the
`Tracking` decoration): `Lemmas/ParseTotal*.lean` (totality, spans, `ParseError::new`), `Lemmas/C14Text.lean` (where the
iterator stands), `Lemmas/C14TextSpans.lean` (tracked spans).  What remains outside Lean is the correspondence of those
models with the Rust parser (checked per case by the C05 / C06 / C14 streams).
-/
namespace Okane.Diag
open Okane.Comb Okane.Parse

/-- **C14_syntax_text.**  For *every* text `t` on which `parse_ledger` fails with the error `e`:

* the text splits as `pre ++ rest`, `pre` ending with the last entry delivered before the error (empty when there was
  none): that byte position `startPos` is where the iterator resumed (its checkpoint, taken *before* the separator);
  the separator `vertical_spaces` succeeds on `rest` and leaves the non-empty `entryAt` — the first byte of the entry
  that could not be parsed —, and `parse_ledger_entry` fails on it, leaving the stream at `pos`;
* `startPos ≤ entryStart ≤ errPos ≤ |t|` for the byte positions of `rest`, `entryAt`, `pos`;
* `e.line_start` is the line of `startPos`: one plus the line feeds before it (bytes, and characters of `pre`);
* the error span `[e.offset, e.spanEnd)` is relative to `startPos`, starts exactly at `errPos`, ends inside the file; it
  is the byte-level `ParseError::new` (no assertion fires, the boundary search ends), non-empty up to the next char
  boundary unless parsing stopped at the end of the file, where it is empty;
* the line shown for the error is the file's line of `errPos`; the first line of the bad entry lies between
  `line_start` and it. -/
theorem C14_syntax_text (t : List Char) (e : Parse.ParseErr) (h : Parse.parseLedger t = .err e) :
    ∃ (pre rest entryAt pos : List Char),
      t = pre ++ rest ∧ (encode pre).length = Parse.resumeAfter (Parse.parseLedgerRun t).1 ∧
      Parse.verticalSpaces rest = .ok () entryAt ∧ entryAt ≠ [] ∧
      (Parse.parseLedgerEntry entryAt = .bt pos ∨ Parse.parseLedgerEntry entryAt = .cut pos) ∧
      ∃ (startPos entryStart errPos : Nat),
        startPos = (encode pre).length ∧ entryStart = (encode t).length - (encode entryAt).length ∧
        errPos = (encode t).length - (encode pos).length ∧
        startPos ≤ entryStart ∧ entryStart ≤ errPos ∧ errPos ≤ (encode t).length ∧
        e.lineStart = 1 + lfBefore (encode t) startPos ∧ e.lineStart = 1 + pre.count '\n' ∧
        startPos + e.offset = errPos ∧ e.offset ≤ e.spanEnd ∧ startPos + e.spanEnd ≤ (encode t).length ∧
        ∃ pe stopLine entryLine,
          parseErrorNew (parseErrorFuel (encode t)) (encode t) startPos errPos = .ok pe ∧
          pe.lineStart = e.lineStart ∧ pe.errorSpan = ⟨e.offset, e.spanEnd⟩ ∧ pe.input = encode rest ∧
          (errPos < (encode t).length →
            e.offset < e.spanEnd ∧ isCharBoundary (encode rest) e.spanEnd = true ∧
            ∀ x, e.offset < x → x < e.spanEnd → isCharBoundary (encode rest) x = false) ∧
          (errPos = (encode t).length → e.spanEnd = e.offset) ∧
          computeLineNumber (encode t) errPos = .ok stopLine ∧
          snippetLine e.lineStart (encode rest) e.offset = stopLine ∧
          computeLineNumber (encode t) entryStart = .ok entryLine ∧
          e.lineStart ≤ entryLine ∧ entryLine ≤ stopLine := by
  obtain ⟨pre, rest, entryAt, pos, rfl, hres, hsep, hs1, hne, hp1, hfail, hnew⟩ := parseLedger_error_structure t e h
  have hposrest : pos <:+ rest := hp1.trans hs1
  have hrest : rest <:+ pre ++ rest := List.suffix_append pre rest
  obtain ⟨a1, a2, pe, a3, a4, a5, a6⟩ := parseErrorNew_agrees (pre ++ rest) rest pos e.isCut e hposrest hrest hnew
  -- byte positions
  have l0 : (encode (pre ++ rest)).length = utf8Len pre + utf8Len rest := by rw [length_encode, utf8Len_append]
  have l1 := utf8Len_suffix_le hs1
  have l2 := utf8Len_suffix_le hp1
  have hstart : utf8Len (pre ++ rest) - utf8Len rest = (encode pre).length := by
    rw [utf8Len_append, length_encode]; omega
  have herr : utf8Len (pre ++ rest) - utf8Len pos = (encode (pre ++ rest)).length - (encode pos).length := by
    rw [length_encode, length_encode]
  rw [hstart, herr] at a1 a3
  rw [herr] at a2
  obtain ⟨pe', stopLine, b1, b2, b3, b4, b5, b6, b7, b8, b9, b10, b11⟩ :=
    C14_syntax (encode (pre ++ rest)) (encode pre).length ((encode (pre ++ rest)).length - (encode pos).length) a1 a2
  have hpe : pe' = pe := by rw [a3] at b1; injection b1 with b1; exact b1.symm
  subst hpe
  have hoff : pe'.errorSpan.start = e.offset := by rw [a5]
  have hend : pe'.errorSpan.stop = e.spanEnd := by rw [a5]
  have hentry : (encode pre).length ≤ (encode (pre ++ rest)).length - (encode entryAt).length ∧
      (encode (pre ++ rest)).length - (encode entryAt).length ≤ (encode (pre ++ rest)).length - (encode pos).length := by
    simp only [length_encode, utf8Len_append] at *; omega
  refine ⟨pre, rest, entryAt, pos, rfl, by rw [length_encode]; exact hres, hsep, hne,
    hfail.elim (fun x => .inl x.1) (fun x => .inr x.1),
    (encode pre).length, _, _, rfl, rfl, rfl, hentry.1, hentry.2, a2, ?_, ?_, ?_, ?_, ?_, ?_⟩
  · -- line_start in bytes
    have := C14_line (encode (pre ++ rest)) (encode pre).length (by rw [encode_append]; simp)
    rw [this] at b2; injection b2 with b2; rw [← a4, ← b2]
  · have := C14_line_chars pre rest
    rw [this] at b2; injection b2 with b2; rw [← a4, ← b2]
  · rw [← hoff]; exact b4
  · rw [← hoff, ← hend]; exact b5
  · rw [← hend]
    have : pe'.input.length = (encode (pre ++ rest)).length - (encode pre).length := by rw [b3]; simp
    omega
  · have hentryLine : computeLineNumber (encode (pre ++ rest)) ((encode (pre ++ rest)).length - (encode entryAt).length)
        = .ok (1 + countLF ((encode (pre ++ rest)).take ((encode (pre ++ rest)).length - (encode entryAt).length))) := by
      simp only [computeLineNumber]; rw [if_pos (by omega)]
    have hls : pe'.lineStart = 1 + countLF ((encode (pre ++ rest)).take (encode pre).length) := by
      simp only [computeLineNumber] at b2
      rw [if_pos (by rw [encode_append]; simp)] at b2
      injection b2 with b2; exact b2.symm
    have hstop : stopLine = 1 + countLF ((encode (pre ++ rest)).take ((encode (pre ++ rest)).length - (encode pos).length)) := by
      simp only [computeLineNumber] at b9
      rw [if_pos a2] at b9
      injection b9 with b9; exact b9.symm
    have m1 := countLF_take_le (encode (pre ++ rest)) _ _ hentry.1
    have m2 := countLF_take_le (encode (pre ++ rest)) _ _ hentry.2
    refine ⟨pe', stopLine, _, a3, a4, a5, a6, ?_, ?_, b9, ?_, hentryLine, ?_, ?_⟩
    · intro hlt
      obtain ⟨c1, c2, c3⟩ := b7 hlt
      rw [a6] at c2 c3
      rw [hoff, hend] at c1
      rw [hend] at c2
      exact ⟨c1, c2, fun x hx1 hx2 => c3 x (by rw [hoff]; exact hx1) (by rw [hend]; exact hx2)⟩
    · intro heq; rw [← hoff, ← hend]; exact b8 heq
    · rw [← a4, ← a6, ← hoff]; exact b10
    · rw [← a4, hls]; omega
    · rw [hstop]; omega

/-- **C14_entry_text.**  For *every* text `t`, every entry `x` that `parse_ledger::<Tracking>` delivers from it (also
before a later syntax error) and every book-keeping error `e` whose tracked spans are tracked spans of that entry
(`SpansFrom`: what `book_keeping.rs` does), the hypotheses of `C14_bookkeep` hold for the context
`ParsedContext { initial: t, span: x.start..x.stop }` — so its conclusions do: the error context is built without panic,
`line_start` is the line of the entry's first byte, which is one plus the `'\n'` characters in front of the entry;
every annotation is the tracked span shifted by the entry start, inside the entry text; every annotated line is the
file's line of that byte, between the entry's first and last line. -/
theorem C14_entry_text {π : Type} (path : π) (t : List Char) (x : ParseSpans.ParsedT)
    (hx : x ∈ (ParseSpans.parseLedgerRunT t).1) (e : BkSpans)
    (he : ∀ r ∈ e.tracked, ∃ s ∈ x.entry.spans, r = s.range (utf8Len t)) :
    (PCtx.mk (encode t) ⟨x.start, x.stop⟩).validSlice = true ∧
    (∀ r ∈ e.tracked, r.within ⟨x.start, x.stop⟩) ∧
    (∃ pre i1, t = pre ++ i1 ∧ x.start = (encode pre).length ∧
      computeLineNumber (encode t) x.start = .ok (1 + pre.count '\n')) ∧
    ∃ ctx first last anns,
      ErrorContext.new path (PCtx.mk (encode t) ⟨x.start, x.stop⟩) = .ok ctx ∧ ctx.path = path ∧
      computeLineNumber (encode t) x.start = .ok first ∧ ctx.lineStart = first ∧
      computeLineNumber (encode t) x.stop = .ok last ∧
      ctx.text.length = x.stop - x.start ∧
      ctx.annotations e = .ok anns ∧
      (∀ r ∈ anns, r.start ≤ r.stop ∧ r.stop ≤ ctx.text.length) ∧
      (e ≠ .other → anns = e.tracked.map fun r => ⟨r.start - x.start, r.stop - x.start⟩) ∧
      (∀ r ∈ anns, ∀ q, r.start ≤ q → q ≤ r.stop →
        computeLineNumber (encode t) (x.start + q) = .ok (snippetLine ctx.lineStart ctx.text q) ∧
        first ≤ snippetLine ctx.lineStart ctx.text q ∧ snippetLine ctx.lineStart ctx.text q ≤ last) := by
  obtain ⟨_, _, hv, _⟩ := ParseSpans.parseLedgerRunT_tracked t x hx
  have hin : ∀ r ∈ e.tracked, r.within ⟨x.start, x.stop⟩ := by
    intro r hr
    obtain ⟨s, hs, rfl⟩ := he r hr
    exact ParseSpans.tracked_within t x hx s hs
  obtain ⟨pre, i1, r, rfl, _, _, hstart, _⟩ := ParseSpans.parseLedgerRunT_delivered t x hx
  refine ⟨hv, hin, ⟨pre, i1, rfl, hstart, ?_⟩, C14_bookkeep path ⟨encode (pre ++ i1), ⟨x.start, x.stop⟩⟩ e hv hin⟩
  rw [hstart]; exact C14_line_chars pre i1

/-- **C14_entry_text**, the instances `report::process` can produce: a transaction `tt` delivered by the parser and an
error whose spans `book_keeping.rs` took from postings of `tt` (`SpansFrom`).  E.g. for `UndeduciblePostingAmount(i, j)`
the two annotations are exactly the slices of posting `i` and posting `j` inside the entry text. -/
theorem C14_entry_text_txn {π : Type} (path : π) (t : List Char) (x : ParseSpans.ParsedT)
    (hx : x ∈ (ParseSpans.parseLedgerRunT t).1) (tt : ParseSpans.TTransaction) (htt : x.entry = .txn tt) (e : BkSpans)
    (he : ParseSpans.SpansFrom (utf8Len t) tt e) :
    ∃ ctx anns,
      ErrorContext.new path (PCtx.mk (encode t) ⟨x.start, x.stop⟩) = .ok ctx ∧
      computeLineNumber (encode t) x.start = .ok ctx.lineStart ∧
      ctx.annotations e = .ok anns ∧
      (e ≠ .other → anns = e.tracked.map fun r => ⟨r.start - x.start, r.stop - x.start⟩) ∧
      (∀ r ∈ anns, r.start ≤ r.stop ∧ r.stop ≤ ctx.text.length ∧
        computeLineNumber (encode t) (x.start + r.start) = .ok (snippetLine ctx.lineStart ctx.text r.start)) := by
  have he' : ∀ r ∈ e.tracked, ∃ s ∈ x.entry.spans, r = s.range (utf8Len t) := by
    rw [htt]; exact he.mem
  obtain ⟨_, _, _, ctx, first, last, anns, c1, _, c3, c4, _, _, c7, c8, c9, c10⟩ := C14_entry_text path t x hx e he'
  refine ⟨ctx, anns, c1, by rw [c4]; exact c3, c7, c9, fun r hr => ?_⟩
  obtain ⟨d1, d2⟩ := c8 r hr
  exact ⟨d1, d2, (c10 r hr r.start (Nat.le_refl _) d1).1⟩

/-- the plain decoration delivers the same entry spans, so the error context of every delivered entry — the one
`report::process` builds for errors without tracked spans — is defined and names the entry's first line -/
theorem C14_entry_text_plain {π : Type} (path : π) (t : List Char) (x : Parse.Parsed)
    (hx : x ∈ (Parse.parseLedgerRun t).1) :
    ∃ ctx anns,
      ErrorContext.new path (PCtx.mk (encode t) ⟨x.start, x.stop⟩) = .ok ctx ∧
      computeLineNumber (encode t) x.start = .ok ctx.lineStart ∧
      ctx.text.length = x.stop - x.start ∧
      ctx.annotations .other = .ok anns ∧ anns = [⟨0, ctx.text.length⟩] := by
  have hv := ((Parse.parseLedgerRun_spans t).1 x hx).2.2
  obtain ⟨ctx, first, last, anns, c1, _, c3, c4, _, c6, c7, _, _, _⟩ :=
    C14_bookkeep path ⟨encode t, ⟨x.start, x.stop⟩⟩ .other hv (by intro r hr; cases hr)
  refine ⟨ctx, anns, c1, by rw [c4]; exact c3, c6, c7, ?_⟩
  simp only [ErrorContext.annotations] at c7
  injection c7 with c7; exact c7.symm

/-- **C14_file_text.**  `C14_file` with its hypothesis discharged: when every delivered triple comes from the parser —
its context is the span of an entry `parse_ledger` delivered from the text of that file — the error context of the first
rejected entry exists, names the path delivered with it and the line of its first byte in that file's text. -/
theorem C14_file_text {π : Type} (xs : List (Delivered π Entry)) (i : Nat) (x : BkErrS)
    (hproc : Okane.process (xs.map (·.entry)) = .err (i, x))
    (hfrom : ∀ d ∈ xs, ∃ t y, y ∈ (Parse.parseLedgerRun t).1 ∧ d.pctx = ⟨encode t, ⟨y.start, y.stop⟩⟩) :
    ∃ d ctx, xs[i]? = some d ∧ reportAt xs i = .ok (some ctx) ∧
      ctx.path = d.path ∧
      computeLineNumber d.pctx.initial d.pctx.span.start = .ok ctx.lineStart ∧
      d.pctx.asStr = .ok ctx.text ∧ ctx.parsedSpan = d.pctx.span ∧
      (∃ st', Okane.process ((xs.take i).map (·.entry)) = .ok st' ∧ stepEntry st' d.entry = .err x) := by
  refine C14_file xs i x hproc fun d hd => ?_
  obtain ⟨t, y, hy, hc⟩ := hfrom d hd
  rw [hc]
  exact ((Parse.parseLedgerRun_spans t).1 y hy).2.2

/-- **C14_undeducible_text** — from the text to the annotated lines, nothing assumed about the parser or about which
spans the error carries.  Let `parse_ledger::<Tracking>` accept the text `t` with entries `es`, and let book-keeping
(`process`) reject entry `i` with `UndeduciblePostingAmount(a, b)`.  Then entry `i` is a transaction, `a < b` are
indices of two of its postings `p`, `q`, and for the error carrying their tracked spans (`Tracked::new(i,
posting.span())`) the report context of that entry exists, its `line_start` is the line of the entry's first byte, and
the two annotations are exactly the slices of posting `a` and posting `b` inside the entry text; the line shown for each
is the file's line of that posting's first byte. -/
theorem C14_undeducible_text {π : Type} (path : π) (t : List Char) (es : List ParseSpans.ParsedT)
    (hparse : ParseSpans.parseLedgerT t = .ok es) (i a b : Nat)
    (hproc : Okane.process (es.map (·.entry.erase)) = .err (i, .undeducible a b)) :
    ∃ x tt p q ctx,
      es[i]? = some x ∧ x.entry = .txn tt ∧ a < b ∧ tt.posts[a]? = some p ∧ tt.posts[b]? = some q ∧
      ErrorContext.new path (PCtx.mk (encode t) ⟨x.start, x.stop⟩) = .ok ctx ∧
      computeLineNumber (encode t) x.start = .ok ctx.lineStart ∧
      ctx.annotations (.undeducible (p.span.range (utf8Len t)) (q.span.range (utf8Len t))) =
        .ok [⟨(p.span.range (utf8Len t)).start - x.start, (p.span.range (utf8Len t)).stop - x.start⟩,
             ⟨(q.span.range (utf8Len t)).start - x.start, (q.span.range (utf8Len t)).stop - x.start⟩] ∧
      (∀ r ∈ [p.span.range (utf8Len t), q.span.range (utf8Len t)],
        x.start ≤ r.start ∧ r.start ≤ r.stop ∧ r.stop ≤ x.stop ∧
        computeLineNumber (encode t) r.start = .ok (snippetLine ctx.lineStart ctx.text (r.start - x.start))) := by
  -- the entries are the ones the run delivered
  have hes : es = (ParseSpans.parseLedgerRunT t).1 := by
    unfold ParseSpans.parseLedgerT at hparse
    cases hr : ParseSpans.parseLedgerRunT t with
    | mk es' en =>
      rw [hr] at hparse
      cases en <;> simp at hparse
      exact hparse.symm
  obtain ⟨_, hi, st', _, e, he, hstep⟩ := processFrom_err_index _ _ _ _ _ hproc
  simp only [Nat.zero_add, List.length_map, Nat.sub_zero] at hi he
  have hxi : es[i]? = some es[i] := List.getElem?_eq_getElem hi
  have hmem : es[i] ∈ (ParseSpans.parseLedgerRunT t).1 := by rw [← hes]; exact List.getElem_mem hi
  have hee : e = es[i].entry.erase := by
    simp [List.getElem?_map, hxi] at he
    exact he.symm
  obtain ⟨t0, ht0, hab, hb⟩ := C14Book.stepEntry_err_U st' e a b hstep
  obtain ⟨tt, htt, _, hlen⟩ := C14Book.delivered_txn t es[i] hmem t0 (by rw [← hee]; exact ht0)
  have ha' : a < tt.posts.length := by omega
  have hb' : b < tt.posts.length := by omega
  have hpa : tt.posts[a]? = some tt.posts[a] := List.getElem?_eq_getElem ha'
  have hpb : tt.posts[b]? = some tt.posts[b] := List.getElem?_eq_getElem hb'
  have hfrom : ParseSpans.SpansFrom (utf8Len t) tt
      (.undeducible (tt.posts[a].span.range (utf8Len t)) (tt.posts[b].span.range (utf8Len t))) :=
    .undeducible a b _ _ hpa hpb
  have he' : ∀ r ∈ (BkSpans.undeducible (tt.posts[a].span.range (utf8Len t)) (tt.posts[b].span.range (utf8Len t))).tracked,
      ∃ s ∈ es[i].entry.spans, r = s.range (utf8Len t) := by rw [htt]; exact hfrom.mem
  obtain ⟨_, hin, _, ctx, first, last, anns, c1, _, c3, c4, _, _, c7, c8, c9, c10⟩ :=
    C14_entry_text path t es[i] hmem _ he'
  have hanns := c9 (by simp)
  simp only [BkSpans.tracked, List.map_cons, List.map_nil] at hanns
  subst hanns
  refine ⟨es[i], tt, tt.posts[a], tt.posts[b], ctx, hxi, htt, hab, hpa, hpb, c1, by rw [c4]; exact c3, c7, ?_⟩
  intro r hr
  obtain ⟨w1, w2, w3⟩ := hin r (by simpa [BkSpans.tracked] using hr)
  dsimp only at w1 w2 w3
  refine ⟨w1, w2, w3, ?_⟩
  have hmemr : (⟨r.start - es[i].start, r.stop - es[i].start⟩ : Range) ∈
      [(⟨(tt.posts[a].span.range (utf8Len t)).start - es[i].start, (tt.posts[a].span.range (utf8Len t)).stop - es[i].start⟩ : Range),
       ⟨(tt.posts[b].span.range (utf8Len t)).start - es[i].start, (tt.posts[b].span.range (utf8Len t)).stop - es[i].start⟩] := by
    simp only [List.mem_cons, List.not_mem_nil, or_false] at hr ⊢
    rcases hr with rfl | rfl
    · exact .inl rfl
    · exact .inr rfl
  have := (c10 _ hmemr (r.start - es[i].start) (Nat.le_refl _) (by simp only; omega)).1
  rw [show es[i].start + (r.start - es[i].start) = r.start by omega] at this
  exact this

/-! ### non-vacuity -/

/-- two entries after a comment and blank lines, CRLF and multi-byte text; the second transaction has a posting that
cannot be parsed (`==`) -/
def badText : List Char := "; 日本語\r\n\r\n2024/01/01 x\r\n  A  1 USD\r\n  B\r\n\r\n2024/01/02 y\r\n  C  1 USD ==\r\n".toList

-- `C14_syntax_text`'s hypothesis is satisfiable: `line_start` is 6 (the blank line after the first transaction, where the
-- iterator resumed), the bad entry starts on line 7, the error (the `=` at offset 27 from the checkpoint) is on line 8
example : (Parse.parseLedger badText).isErr = true := by decide +kernel
example : (match Parse.parseLedger badText with | .err e => some (e.lineStart, e.offset, e.spanEnd) | _ => none)
    = some (6, 27, 28) := by decide +kernel

/-- a transaction with every kind of tracked item, after a comment -/
def goodText : List Char := "; é\n\n2024/01/01 x\n  A  1 USD {2 EUR} @ 3 JPY = 4 USD\n  B\n".toList

-- `C14_entry_text`'s hypotheses are satisfiable: the parser delivers the transaction with span 6..58 and eight tracked
-- spans (account, amount, cost, lot price, balance, posting; account, posting)
example : (ParseSpans.parseLedgerRunT goodText).1.map (fun x => (x.start, x.stop, x.trackedRanges (utf8Len goodText)))
    = [(0, 5, []), (6, 58, [(21, 22), (24, 29), (38, 45), (30, 37), (46, 53), (21, 54), (56, 57), (56, 58)])] := by
  decide +kernel

-- ... and the plain decoration delivers the same two entry spans (`C14_entry_text_plain`, `C14_file_text`)
example : (Parse.parseLedgerRun goodText).1.map (fun x => (x.start, x.stop)) = [(0, 5), (6, 58)] := by decide +kernel

-- `SpansFrom` (hypothesis of `C14_entry_text_txn`) is inhabited by every error kind that carries spans; here the two
-- postings of a transaction of a 20-byte file for `UndeduciblePostingAmount(0, 1)`, and the cost of posting 0
def zeroAmt : VExpr := .amt ⟨false, 0, 0, none⟩ ""
def postA : ParseSpans.Tracked ParseSpans.TPosting :=
  ⟨{ account := ⟨"A", ⟨9, 8⟩⟩,
     amount := some { amount := ⟨zeroAmt, ⟨7, 6⟩⟩, cost := some ⟨.rate zeroAmt, ⟨5, 2⟩⟩ } }, ⟨9, 1⟩⟩
def postB : ParseSpans.Tracked ParseSpans.TPosting := ⟨{ account := ⟨"B", ⟨1, 0⟩⟩ }, ⟨1, 0⟩⟩
example : ParseSpans.SpansFrom 20 { date := ⟨2024, 1, 1⟩, posts := [postA, postB] } (.undeducible ⟨11, 19⟩ ⟨19, 20⟩) :=
  .undeducible 0 1 postA postB rfl rfl
example : ParseSpans.SpansFrom 20 { date := ⟨2024, 1, 1⟩, posts := [postA, postB] } (.zeroAmountWithExchange ⟨15, 18⟩) :=
  .zeroAmountWithExchange 0 postA _ ⟨.rate zeroAmt, ⟨5, 2⟩⟩ rfl rfl (.inl rfl)
-- `C14_undeducible_text`'s hypotheses are satisfiable: the second entry has two postings without amount (with a
-- metadata line between them); the parser accepts the text and `process` rejects entry 1 with `undeducible 1 2`
def undedText : List Char := "; c\n\n2024/01/01 x\n  A  1 USD\n  B\n  ; note\n  C\n".toList
def undedWitness : Option (Nat × Nat × Nat) :=
  match ParseSpans.parseLedgerT undedText with
  | .ok es =>
    match Okane.process (es.map fun x => x.entry.erase) with
    | .err (i, .undeducible a b) => some (i, a, b)
    | _ => none
  | _ => none
example : undedWitness = some (1, 1, 2) := by decide +kernel
-- outside the hypothesis (a span that is not inside the entry span) `clip` does panic: see the negation witnesses above

end Okane.Diag
