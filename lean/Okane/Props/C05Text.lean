import Okane.Lemmas.C05ImageFinal
/-!
# C05 on TEXTS: the image property, the round trip and idempotence with no hypothesis on the parsed entries

`Props/C05.lean` proves `C05_entry` / `C05_roundtrip` for entries that satisfy the decidable predicates `wfEntry` and
`plainEntry`.  Here the other half: **everything the parser returns satisfies them** (up to `canonEntry`, which only drops
the grouping tag of numbers below 1000), for every text `t` with `TextOK t`:

* `asciiSpaceOnly t` — the only `char::is_whitespace` characters of the text are blank, tab, LF, CR
  (excludes exactly the class of the known findings F27 / F28: Unicode white space that Rust's `trim` strips but the
  parser's `space0/space1` do not skip).

It is decidable and shown necessary for the image statement by kernel-evaluated witnesses.  (Until `paren_str` was made to
close on its line there was a second hypothesis, `parensClosed t`: a payee beginning with an unclosed `(` was outside
`wfPayee`.  Now such a payee is read back as printed, `wfPayee` admits it, and the hypothesis is gone:
`C05_image_unclosed_paren`.)  Consequently, for every such text that parses, `format` produces a text that parses to
exactly the same entries (numbers: same value, same decimal places, same grouping style wherever there are thousands to
group) and that `format` leaves unchanged — for any display-width function.
-/
namespace Okane.C05
open Okane Okane.Parse Okane.Unparse Okane.C05Image

/-- **C05_image**: what the parser returns is printable — every parsed entry (normalised by `canonEntry`) satisfies the
hypotheses of `C05_entry` -/
theorem C05_image (t : List Char) (es : List Entry) (ht : TextOK t) (hp : parseEntries t = .ok es) :
    ∀ e ∈ es, wfEntry (canonEntry e) = true ∧ plainEntry (canonEntry e) = true :=
  C05_image_partial t es ht hp

/-- **C05_roundtrip_text**: for every `TextOK` text that parses, the formatted text parses to the same sequence of
entries (`canonEntry` only normalises the grouping tag of numbers that have no thousands to group) -/
theorem C05_roundtrip_text (w : List Char → Nat) (t : List Char) (es : List Entry) (ht : TextOK t)
    (hp : parseEntries t = .ok es) :
    ∃ f, format w t = .ok f ∧ parseEntries f = .ok (es.map canonEntry) :=
  let ⟨f, h1, h2, _⟩ := C05Image.C05_format_text w t es ht hp
  ⟨f, h1, h2⟩

/-- **C05_idempotent_text**: formatting already formatted text returns it unchanged -/
theorem C05_idempotent_text (w : List Char → Nat) (t f : List Char) (ht : TextOK t) (hf : format w t = .ok f) :
    format w f = .ok f :=
  C05Image.C05_idempotent_text w t f ht hf

/-- the hypothesis on the text is needed for the image statement (F28, F27, form feed after tag words, U+3000 before
`*x`) -/
theorem C05_image_hypotheses_needed :
    (∃ t, asciiSpaceOnly t = false ∧ imageOk t = false) ∧
    (∀ t ∈ [C05Image.witF28, C05Image.witF27, witFF, witStar], asciiSpaceOnly t = false ∧ C05Image.imageOk t = false) :=
  ⟨⟨witF28, by decide +kernel⟩, by decide +kernel⟩

/-- `TextOK` is exactly `asciiSpaceOnly` -/
theorem textOK_iff (t : List Char) : TextOK t ↔ asciiSpaceOnly t = true := C05Image.textOK_iff t

/-- regression (the former necessity witness of `parensClosed`): `2024/01/01 (abc⏎` parses, and its image is printable;
so are `2024/01/01 (abc⏎  A  1 USD⏎⏎account X)⏎` (the code no longer runs to the `)` of a later line) and
`2024/01/01 * (abc ; x) y⏎` (code `abc ; x`) -/
theorem C05_image_unclosed_paren :
    (asciiSpaceOnly witParen = true ∧ imageOk witParen = true ∧ (parseEntries witParen).isOk = true) ∧
    ((parseEntries witParen2).isOk = true ∧ C05Image.imageOk witParen2 = true) ∧
    ((parseEntries witParen3).isOk = true ∧ C05Image.imageOk witParen3 = true) :=
  ⟨C05Image.C05_image_unclosed_paren, image_unclosed_paren.2.1, image_unclosed_paren.2.2⟩

example : TextOK exText ∧ (parseEntries exText).isOk = true := by
  refine ⟨⟨by decide +kernel⟩, by decide +kernel⟩

end Okane.C05
