import Okane.Base.Outcome
import Okane.Base.AMap
import Okane.Base.Sexp
import Okane.Base.Num
import Okane.Base.Date
import Okane.Generated.Params
import Okane.Props.C20
