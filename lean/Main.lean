import Okane.Drv.C20

def main (args : List String) : IO UInt32 := do
  match args with
  | "c20" :: _ => Okane.Drv.C20.main; return 0
  | _ => IO.eprintln "usage: drv <command>  (cases on stdin)"; return 2
