import Okane.Drv.C01
import Okane.Drv.C02
import Okane.Drv.C03
import Okane.Drv.C04
import Okane.Drv.C05
import Okane.Drv.C06
import Okane.Drv.C07
import Okane.Drv.C08
import Okane.Drv.C09
import Okane.Drv.C10
import Okane.Drv.C11
import Okane.Drv.C12
import Okane.Drv.C13
import Okane.Drv.C14
import Okane.Drv.C15
import Okane.Drv.C16
import Okane.Drv.C17
import Okane.Drv.C18
import Okane.Drv.C19
import Okane.Drv.C20
import Okane.Drv.Process
import Okane.Drv.Dec96
import Okane.Drv.CsvText

/-- `drv <command> [args]`: cases on stdin, one per line; results on stdout, one per line.
`cNN` dispatches to the property's own driver module (`Okane/Drv/CNN.lean`), which may use `args`
to select among several streams. -/
def main (args : List String) : IO UInt32 := do
  match args with
  | "c01" :: rest => Okane.Drv.C01.main rest; return 0
  | "c02" :: rest => Okane.Drv.C02.main rest; return 0
  | "c03" :: rest => Okane.Drv.C03.main rest; return 0
  | "c04" :: rest => Okane.Drv.C04.main rest; return 0
  | "c05" :: rest => Okane.Drv.C05.main rest; return 0
  | "c06" :: rest => Okane.Drv.C06.main rest; return 0
  | "c07" :: rest => Okane.Drv.C07.main rest; return 0
  | "c08" :: rest => Okane.Drv.C08.main rest; return 0
  | "c09" :: rest => Okane.Drv.C09.main rest; return 0
  | "c10" :: rest => Okane.Drv.C10.main rest; return 0
  | "c11" :: rest => Okane.Drv.C11.main rest; return 0
  | "c12" :: rest => Okane.Drv.C12.main rest; return 0
  | "c13" :: rest => Okane.Drv.C13.main rest; return 0
  | "c14" :: rest => Okane.Drv.C14.main rest; return 0
  | "c15" :: rest => Okane.Drv.C15.main rest; return 0
  | "c16" :: rest => Okane.Drv.C16.main rest; return 0
  | "c17" :: rest => Okane.Drv.C17.main rest; return 0
  | "c18" :: rest => Okane.Drv.C18.main rest; return 0
  | "c19" :: rest => Okane.Drv.C19.main rest; return 0
  | "c20" :: rest => Okane.Drv.C20.main rest; return 0
  | "process" :: _ => Okane.Drv.Process.main; return 0
  | "dec96" :: rest => Okane.Drv.Dec96.main rest; return 0
  | "csvtext" :: rest => Okane.Drv.CsvText.main rest; return 0
  | _ => IO.eprintln "usage: drv <command> [args]  (cases on stdin)"; return 2
