"""Tiny S-expression reader for the line protocol (atoms are percent-encoded strings)."""
from fractions import Fraction

from common import dec


def parse(s):
    """returns nested python lists of atom strings"""
    stack = [[]]
    i = 0
    n = len(s)
    while i < n:
        c = s[i]
        if c == "(":
            stack.append([])
            i += 1
        elif c == ")":
            top = stack.pop()
            stack[-1].append(top)
            i += 1
        elif c in " \t\r\n":
            i += 1
        else:
            j = i
            while j < n and s[j] not in "() \t\r\n":
                j += 1
            stack[-1].append(s[i:j])
            i = j
    if len(stack) != 1 or len(stack[0]) != 1:
        raise ValueError("bad sexp: %r" % s[:80])
    return stack[0][0]


def fields(line):
    """`id k=v k=v` with sexp values -> (id, {k: v-string})"""
    parts = []
    depth = 0
    cur = []
    for ch in line:
        if ch == "(":
            depth += 1
        elif ch == ")":
            depth -= 1
        if ch == " " and depth == 0:
            if cur:
                parts.append("".join(cur))
            cur = []
        else:
            cur.append(ch)
    if cur:
        parts.append("".join(cur))
    d = {}
    for p in parts[1:]:
        if "=" in p:
            k, v = p.split("=", 1)
            d[k] = v
    return (parts[0] if parts else ""), d


def rat(n, m, s):
    v = Fraction(int(m), 10 ** int(s))
    return -v if n == "1" else v


def amount(x):
    """((c n m s) ...) -> dict commodity -> Fraction"""
    return {dec(e[0]): rat(e[1], e[2], e[3]) for e in x}


def opt(x):
    return None if len(x) == 0 else x[0]


def date(x):
    return (int(x[1]), int(x[2]), int(x[3]))
