"""C04 — reported balances equal the sum of the register, over any date range."""
import subprocess
import os
from fractions import Fraction

import refbook
import sexp
from bookstream import run_stream, judge, parse_impl, nz, fmt_amt
from common import standard_prologue, run_sharded, HX, DRV, OKANE, WORK, enc, dec
from ledgergen import Gen

CLAIM = {
    "technique": "Lean 4 theorems about the raw balance, the range-recomputed balance and the register total of the model (all ledgers, all split points) + differential correspondence on all (start,end) pairs + independent summation oracle + CLI cross-check",
    "text": ("Proof: C04_raw (after `process` of any accepted entry list the raw balance of every account is, per commodity, the sum of all "
             "posting amounts to it, with no zero entry), txn_balance (every accepted transaction moves every account by exactly the sum of the amounts it posts to it, "
             "inferred amounts included — hence the whole-history balance is the sum of the register), C04_nozero (no account holds a "
             "zero entry), C04_range (the recomputed balance over [start,end) is, per account and commodity, the sum over the postings "
             "of transactions dated in the range; no zero entries), C04_additive (reports over [s,m) and [m,e) add up to the report "
             "over [s,e), any end unbounded, empty ranges included), register_total (the register's final running total is the sum of "
             "the listed amounts), C04_agree / C04_additive_process (for every entry list accepted by `process`: whole-history balance = "
             "balance recomputed over the unbounded range = per-account sum of the register, and additivity of adjacent ranges with "
             "no side condition left). Tied to /repo by (1) the process correspondence stream and (2) a query stream: for each accepted "
             "generated ledger, Ledger::balance for all (start,end) pairs drawn from {none, day before first, every transaction date, "
             "day after last} and the register are compared with the model's balanceNoConv / register computed from the "
             "implementation's own transactions; an independent python oracle re-sums the postings (range membership, zero removal, "
             "rounding, additivity, register total); the real binary's `balance --start --end` and `register` are cross-checked. TEXT "
             "level (Lemmas/BookText2 + Props/C04Text: parser MODEL composed with `process`): for the ledger ANY text denotes "
             "(Denotes t es st: the text parses to es and process accepts them), with no side condition, C04_text_register_total "
             "(per account and commodity: final running total of `register ACCOUNT` = registerTotal, shown in the register's last "
             "row by register_last = balance report = balance recomputed over the unbounded range = sum of all posting amounts; no "
             "zero entry), C04_text_additive (ranges [s,m) and [m,e) add up to [s,e), any end unbounded), C04_text_range. NOT "
             "proved: equality of the parser model with the Rust parser (correspondence-checked by C05/C06/C14)."),
    "note": ("modelled, not verified: rust_decimal, rounding is applied by the code only on the range-recomputed path (the raw path is "
             "unrounded) — both as in the model."),
    "design_ref": "DESIGN.md section 6, C04",
}

THEOREMS = ["Okane.C04_raw", "Okane.C04_agree", "Okane.C04_additive_process", "Okane.processFrom_PostingsWF", "Okane.RawOK_processFrom", "Okane.txn_balance", "Okane.C04_nozero", "Okane.C04_range", "Okane.C04_additive", "Okane.register_total",
            "Okane.selSum_split", "Okane.rangeFold", "Okane.acctSum_modify_empty", "Okane.loop_unfilled_empty",
            # text level (Lemmas/BookText2; audited through Props/C04Text.lean)
            "Okane.BookText.C04_text_register_total", "Okane.BookText.C04_text_additive", "Okane.BookText.C04_text_range",
            "Okane.BookText.register_last", "Okane.BookText.registerTotal_getPart", "Okane.BookText.postingsOf_sum"]

OKF = ["plain", "omitted", "cost", "lot", "pair", "assign", "assert", "expr", "multi-omitted", "assign-zero", "total-cost"]


def d2s(d):
    return "-" if d is None else "%04d-%02d-%02d" % d


def shift(d, k):
    import datetime
    x = datetime.date(*d) + datetime.timedelta(days=k)
    return (x.year, x.month, x.day)


def oracle_ranges(impl, ranges_sx, reg_sx, prec):
    """independent re-summation; returns list of messages"""
    out = []
    txns = impl["txns"]
    answers = {}
    for rr in ranges_sx:
        s = None if rr[0] == "-" else tuple(int(x) for x in rr[0].split("-"))
        e = None if rr[1] == "-" else tuple(int(x) for x in rr[1].split("-"))
        if rr[2] and rr[2][0] == "queryerr":
            out.append("balance query failed for %s..%s" % (rr[0], rr[1]))
            continue
        got = {dec(x[0]): sexp.amount(x[1]) for x in rr[2]}
        want = {}
        for t in txns:
            if (s is None or s <= t["date"]) and (e is None or t["date"] < e):
                for (a, x, _c) in t["postings"]:
                    d = want.setdefault(a, {})
                    for c, v in x.items():
                        d[c] = d.get(c, Fraction(0)) + v
        exact = {a: nz(d) for a, d in want.items()}
        answers[(s, e)] = exact
        if s is None and e is None:
            rounded = exact
        else:
            rounded = {a: {c: (refbook.round_half_even(v, prec[c]) if c in prec else v) for c, v in d.items()} for a, d in exact.items()}
        if got != rounded:
            bad = [a for a in set(got) | set(rounded) if got.get(a) != rounded.get(a)]
            out.append("range %s..%s: account %s reported %s, its postings in the range sum to %s"
                       % (rr[0], rr[1], bad[0], fmt_amt(got.get(bad[0])), fmt_amt(rounded.get(bad[0]))))
        for a, d in got.items():
            for c, v in d.items():
                if v == 0 and exact.get(a, {}).get(c, Fraction(0)) == 0:
                    out.append("range %s..%s: account %s shows commodity %s whose total is zero" % (rr[0], rr[1], a, c))
    # the register restricted to one account lists exactly that account's postings, in order
    filtered = [x for x in reg_sx if x and x[0] == "filtered"]
    reg_sx = [x for x in reg_sx if not (x and x[0] == "filtered")]
    for fx in filtered:
        acct = dec(fx[1])
        got = [(dec(it[0]), sexp.amount(it[1])) for it in fx[2:]]
        want = [(a, x) for t in txns for (a, x, _c) in t["postings"] if a == acct]
        if got != want:
            out.append("register of account %s lists %d postings %s, the account has %d postings %s"
                       % (acct, len(got), [fmt_amt(x) for _, x in got][:6], len(want), [fmt_amt(x) for _, x in want][:6]))
    # register total == whole-history balance
    if reg_sx:
        last = sexp.amount(reg_sx[-1][2])
        tot = {}
        for t in txns:
            for (_a, x, _c) in t["postings"]:
                for c, v in x.items():
                    tot[c] = tot.get(c, Fraction(0)) + v
        if nz(last) != nz(tot):
            out.append("register's final running total %s != sum of all postings %s" % (fmt_amt(nz(last)), fmt_amt(nz(tot))))
    return out


def parse_inline(amt):
    """`0` | `N C` | `(N C + N C)` -> {commodity: Fraction}"""
    inner = amt.strip()
    if inner.startswith("(") and inner.endswith(")"):
        inner = inner[1:-1]
    dd = {}
    if inner != "0" and inner != "":
        for part in inner.split(" + "):
            v, _, c = part.partition(" ")
            dd[c] = dd.get(c, Fraction(0)) + Fraction(v.replace(",", ""))
    return dd


def split_amounts(rest):
    """the amount and the running total of a register row: each is `0`, `N C` or a parenthesised sum"""
    out = []
    i = 0
    while i < len(rest):
        if rest[i] == " ":
            i += 1
            continue
        if rest[i] == "(":
            j = rest.index(")", i) + 1
            out.append(rest[i:j])
            i = j
            continue
        j = rest.find(" ", i)
        if j < 0:
            out.append(rest[i:])
            break
        num = rest[i:j]
        if num == "0" and (j + 1 >= len(rest) or rest[j + 1] in "(-0123456789"):
            out.append("0")
            i = j + 1
            continue
        k = rest.find(" ", j + 1)
        # a commodity may not contain blanks; `N C` then the next item
        if k < 0:
            out.append(rest[i:])
            break
        out.append(rest[i:k])
        i = k + 1
    return out


def declared_places(text, commodity):
    import re
    m = re.search(r"^commodity %s\n(?:[ \t]+[^\n]*\n)*?[ \t]+format ([0-9,]*)(?:\.([0-9]*))? " % re.escape(commodity), text, re.M)
    if not m:
        return None
    return len(m.group(2) or "")


def rnd(v, places):
    if places is None:
        return v
    q = v * 10 ** places
    f = q.numerator // q.denominator
    r = q - f
    if r > Fraction(1, 2) or (r == Fraction(1, 2) and f % 2 == 1):
        f += 1
    return Fraction(f, 10 ** places)


def cli_cross_check(chk, cases):
    """the real binary: balance [--start --end] and register agree with the in-process answers"""
    d = os.path.join(WORK, "C04", "cli")
    os.makedirs(d, exist_ok=True)
    n = 0
    nreg, nconv = [0], [0]
    for cid, text, ranges_sx in cases:
        path = os.path.join(d, "%s.ledger" % cid)
        open(path, "w").write(text)
        for rr in ranges_sx[:3]:
            cmd = [OKANE, "balance", path]
            if rr[0] != "-":
                cmd += ["--start", rr[0]]
            if rr[1] != "-":
                cmd += ["--end", rr[1]]
            p = subprocess.run(cmd, stdout=subprocess.PIPE, stderr=subprocess.PIPE, text=True, timeout=20)
            n += 1
            if p.returncode != 0:
                chk.violation("C04: `okane balance` failed on an accepted ledger", {"cmd": cmd, "ledger": text, "stderr": p.stderr[-500:]})
                continue
            want = {dec(x[0]): sexp.amount(x[1]) for x in rr[2]}
            got = {}
            for line in p.stdout.splitlines():
                a, _, amt = line.rpartition(": ")
                inner = amt.strip()
                if inner.startswith("(") and inner.endswith(")"):
                    inner = inner[1:-1]
                dd = {}
                if inner != "0":
                    for part in inner.split(" + "):
                        v, _, c = part.partition(" ")
                        dd[c] = Fraction(v)
                got[a] = dd
            if got != want:
                chk.oracle_failures += 1
                chk.violation("C04: `okane balance` prints a different balance than Ledger::balance for the same range",
                              {"cmd": cmd, "ledger": text, "stdout": p.stdout, "in_process": {a: fmt_amt(v) for a, v in want.items()}})
        # ---- the register COMMAND (RegisterCmd::run keeps its own running total): for every account the last row's total is
        # what `okane balance` reports for that account (whole history, same file)
        pb = subprocess.run([OKANE, "balance", path], stdout=subprocess.PIPE, stderr=subprocess.PIPE, text=True, timeout=20)
        whole = {}
        for line in pb.stdout.splitlines():
            a, _, amt = line.rpartition(": ")
            whole[a] = parse_inline(amt)
        for acct in sorted(whole)[:6]:
            pr = subprocess.run([OKANE, "register", path, acct], stdout=subprocess.PIPE, stderr=subprocess.PIPE, text=True, timeout=20)
            nreg[0] += 1
            rows = [l for l in pr.stdout.splitlines() if l.startswith(acct + " ")]
            if pr.returncode != 0 or not rows:
                continue
            rest = rows[-1][len(acct) + 1:]
            parts = split_amounts(rest)
            if len(parts) != 2:
                continue
            total = {c: v for c, v in parse_inline(parts[1]).items() if v != 0}
            want = {c: v for c, v in whole[acct].items() if v != 0}
            if total != want:
                chk.oracle_failures += 1
                chk.violation("C04: the last row of `okane register FILE ACCOUNT` ends at %s, `okane balance FILE` reports %s for %s" %
                              (fmt_amt(total), fmt_amt(want), acct),
                              {"cmd": [OKANE, "register", path, acct], "ledger": text, "register": pr.stdout[-1500:], "balance": pb.stdout})
        # ---- a report "converted" into the ledger's ONLY commodity is the report itself, over any range
        comms = set(c for v in whole.values() for c in v)
        import re as _re
        if len(comms) == 1 and not _re.search(r"^[ \t]+format[ \t]", text, _re.M):
            # (ledgers that declare a precision are left to C10, whose model says where a converted report rounds)
            c0 = next(iter(comms))
            prec = None
            for rr in ranges_sx[:3]:
                cmd = [OKANE, "balance", path, "-X", c0, "--now", "2999-01-01"]
                if rr[0] != "-":
                    cmd += ["--start", rr[0]]
                if rr[1] != "-":
                    cmd += ["--end", rr[1]]
                p = subprocess.run(cmd, stdout=subprocess.PIPE, stderr=subprocess.PIPE, text=True, timeout=20)
                nconv[0] += 1
                if p.returncode != 0:
                    continue
                want = {dec(x[0]): {c: rnd(v, prec) for c, v in sexp.amount(x[1]).items()} for x in rr[2]}
                want = {a: {c: v for c, v in d0.items() if v != 0} for a, d0 in want.items()}
                got = {}
                for line in p.stdout.splitlines():
                    a, _, amt = line.rpartition(": ")
                    got[a] = {c: rnd(v, prec) for c, v in parse_inline(amt).items() if rnd(v, prec) != 0}
                want = {a: d0 for a, d0 in want.items() if d0}
                got = {a: d0 for a, d0 in got.items() if d0}
                if got != want:
                    chk.oracle_failures += 1
                    chk.violation("C04: `okane balance -X %s` over a range of a ledger whose only commodity is %s differs from the balance of that range" % (c0, c0),
                                  {"cmd": cmd, "ledger": text, "stdout": p.stdout, "range_balance": {a: fmt_amt(v) for a, v in want.items()}})
        try:
            os.remove(path)
        except OSError:
            pass
    chk.streams["cli balance runs"] = n
    chk.streams["cli register runs"] = nreg[0]
    chk.streams["cli identity-conversion runs"] = nconv[0]


def run(chk):
    chk.rule = ("(1) shared book-keeping stream; (2) query stream: accepted generated ledgers (2-8 transactions, declared precisions "
                "in ~45%) x ALL (start,end) pairs over {none, day before first, each transaction date, day after last} (exhaustive "
                "for the ledger's dates); non-trivial = ledger accepted and at least one transaction in some queried range; distinct = "
                "distinct (ledger, range list)")
    chk.assumptions = ["rust_decimal is exact on the generated values", "parser outside this check"]
    if not standard_prologue(chk, THEOREMS, imports=["Okane.Props.Book", "Okane.Props.C04Text"]):
        return
    n = 1200 if chk.tier == "quick" else 20000
    recs = run_stream(chk, n, OKF)
    chk.streams["process"] = len(recs)
    judge(chk, recs, "C04")
    # ---- query stream
    g = Gen(chk.rng)
    nq = 400 if chk.tier == "quick" else 6000
    lines = []
    texts = {}
    for i in range(nq):
        text, meta = g.ledger(ntxn=chk.rng.randint(2, 8 if chk.tier == "thorough" else 6), flavor=chk.rng.choice(OKF))
        # dates of the transactions
        dates = sorted({tuple(int(x) for x in l[:10].split("/")) for l in text.splitlines() if l[:4].isdigit()})
        if not dates:
            continue
        pts = [None, shift(dates[0], -1)] + dates + [shift(dates[-1], 1)]
        pairs = [(s, e) for s in pts for e in pts]
        if chk.tier == "quick" and len(pairs) > 40:
            pairs = chk.rng.sample(pairs, 40) + [(None, None)]
        cid = "q%d" % i
        texts[cid] = text
        lines.append("%s %s %s" % (cid, enc(text), ";".join("%s..%s" % (d2s(s), d2s(e)) for s, e in pairs)))
    impl_lines = run_sharded(HX, ["c04"], lines, shards=12)
    model_lines = run_sharded(DRV, ["c04"], impl_lines, shards=12)
    cli_cases = []
    nranges = 0
    for il, ml in zip(impl_lines, model_lines):
        cid, f = sexp.fields(il)
        text = texts.get(cid, "")
        impl = parse_impl(f["result"])
        chk.count("query:impl:" + impl["kind"])
        if impl["kind"] != "ok":
            chk.case((text, "q"), nontrivial=False)
            continue
        ranges_sx = sexp.parse(f["ranges"])
        reg_sx = sexp.parse(f["reg"])
        nranges += len(ranges_sx)
        tree = sexp.parse(f["tree"])
        ref = refbook.run(tree)
        prec = ref[-1].prec
        chk.case((text, f["ranges"][:200]), nontrivial=len(impl["txns"]) > 0)
        chk.traces += 1
        # a transaction is dated by the date WRITTEN in its header (not by its effective date): taken from the parsed tree
        written = [(int(e[1][1]), int(e[1][2]), int(e[1][3])) for e in tree if e[0] == "txn"]
        if len(written) == len(impl["txns"]):
            impl = dict(impl, txns=[dict(t, date=d) for t, d in zip(impl["txns"], written)])
        msgs = oracle_ranges(impl, ranges_sx, reg_sx, prec)
        # additivity on exact sums (no declared precision involved)
        if msgs:
            chk.oracle_failures += 1
            chk.violation("C04: " + "; ".join(msgs)[:400],
                          {"ledger": text, "failed_clauses": msgs, "observed_ranges": f["ranges"][:2000],
                           "rerun": "okane balance --start S --end E <ledger>; okane register <ledger>"})
        elif ml.split(" ")[1:2] == ["DISAGREE"]:
            chk.disagreements += 1
            chk.violation("model and implementation of Ledger::balance(date_range)/register disagree; the summation oracle holds",
                          {"stream": "c04 query", "ledger": text, "model": ml[:1500]}, no_failing_input=True, tag="corr")
        if len(cli_cases) < (12 if chk.tier == "quick" else 120):
            cli_cases.append((cid, text, ranges_sx))
    chk.streams["query ledgers"] = len(lines)
    chk.streams["queried ranges"] = nranges
    cli_cross_check(chk, cli_cases)
    if impl_lines:
        chk.sample({"query_case": lines[0][:300], "impl": impl_lines[0][-400:], "model": model_lines[0][:100]})
