"""dec96 — ties the Lean model of rust_decimal (lean/Okane/Model/Decimal96.lean) to the REAL crate /repo locks.

`run_stream(chk, n)` generates boundary-heavy cases for every Decimal operation okane uses, runs them through
`hx dec96` (the real rust_decimal) and `drv dec96` (the model) and demands bit-for-bit equal records (sign flag, mantissa,
scale, or the error class).  Independently of the model, the statements of the theorems in lean/Okane/Props/Decimal.lean are
evaluated with Python fractions on what the real crate returned (`oracle`): inside the representable range every operation is
exact, outside it the documented error bound holds.
"""
from fractions import Fraction

from common import run_sharded, HX, DRV, enc, dec

T32, T64, T96 = 2 ** 32, 2 ** 64, 2 ** 96
MAXM = T96 - 1
STRATEGIES = ["even", "away", "zero-mid", "tozero", "fromzero", "posinf", "neginf"]


# ---------------------------------------------------------------------------------------------
# values

def special_mants():
    s = {0, 1, 2, 3, 4, 5, 6, 7, 9, 10, 11, 15, 25, 49, 50, 51, 99, 100, 125, 255, 256}
    for b in (T32, T64, T96):
        for d in (-2, -1, 0, 1, 2):
            s.add(b + d)
        s.add(b // 2)
        s.add(b // 2 - 1)
        s.add(b // 10)
        s.add(b // 10 + 1)
        s.add(b // 10 - 1)
    for k in range(0, 29):
        p = 10 ** k
        for v in (p, p - 1, p + 1, 5 * p, 5 * p + 1, 5 * p - 1, 2 * p, 25 * p, T96 // p, T96 // p + 1, T96 // p - 1,
                  -(-2 ** 128 // p), -(-2 ** 128 // p) + 1, -(-(2 ** 128 + T96) // p), -(-2 ** 160 // p),
                  -(-(2 ** 129) // p), (T32 * p), (T64 * p), (T32 - 1) * p):
            s.add(v)
    return sorted(v for v in s if 0 <= v < T96)


SPECIAL = special_mants()


def rmant(rng):
    r = rng.random()
    if r < 0.30:
        return rng.choice(SPECIAL)
    if r < 0.55:
        return rng.getrandbits(rng.randint(1, 96))
    if r < 0.70:
        return rng.randrange(10 ** rng.randint(0, 28) + 1)
    if r < 0.80:            # trailing zeros
        k = rng.randint(1, 20)
        return min(MAXM, rng.getrandbits(rng.randint(1, 40)) * 10 ** k)
    if r < 0.86:            # low word zero / all ones
        v = rng.getrandbits(rng.randint(1, 64)) << 32
        return v if rng.random() < 0.5 else min(MAXM, v | 0xFFFFFFFF)
    if r < 0.93:            # near a word boundary
        return max(0, min(MAXM, rng.choice([T32, T64, T96]) + rng.randint(-40, 40) - (1 if rng.random() < 0.5 else 0)))
    return rng.randint(0, 30)


def rscale(rng):
    r = rng.random()
    if r < 0.35:
        return rng.choice([0, 0, 1, 2, 2, 3, 8, 9, 10, 18, 19, 20, 27, 28, 28])
    return rng.randint(0, 28)


def rdec(rng, nonzero=False):
    m = rmant(rng)
    if nonzero and m == 0:
        m = 1 + rng.getrandbits(8)
    return (1 if rng.random() < 0.4 else 0, m, rscale(rng))


def sd(d):
    return "%d:%d:%d" % d


def pd(s):
    n, m, sc = s.split(":")
    return (int(n), int(m), int(sc))


def val(d):
    v = Fraction(d[1], 10 ** d[2])
    return -v if d[0] else v


def clampm(m):
    return max(0, min(MAXM, m))


# ---------------------------------------------------------------------------------------------
# case generators (each returns a protocol line)

def gen_addsub(rng):
    op = rng.choice(["add", "sub"])
    r = rng.random()
    if r < 0.30:
        a, b = rdec(rng), rdec(rng)
    elif r < 0.50:
        # aligned: the sum of the mantissas is next to 2^96 (or 2^32, 2^64), equal scales
        sc = rscale(rng)
        lim = rng.choice([T96, T96, T96, T32, T64])
        x = rng.randrange(1, lim)
        y = clampm(lim - x + rng.choice([-2, -1, 0, 0, 1, 2, 5, 9, 10, 11]))
        a, b = (rng.getrandbits(1), x, sc), (rng.getrandbits(1), y, sc)
    elif r < 0.80:
        # unaligned: l * 10^rf (+/-) r lands next to 2^96 * 10^j
        sa = rng.randint(0, 27)
        sb = rng.randint(sa + 1, 28)
        rf = sb - sa
        j = rng.randint(0, 3)
        l = rmant(rng) or 1
        if rng.random() < 0.6:
            # choose l so that l*10^rf is around 2^96*10^j
            l = clampm(T96 * 10 ** j // 10 ** rf + rng.randint(-3, 3)) or 1
        tgt = T96 * 10 ** j - l * 10 ** rf if rng.random() < 0.5 else l * 10 ** rf - T96 * 10 ** j
        rr = clampm(abs(tgt) + rng.choice([-6, -5, -4, -1, 0, 0, 1, 4, 5, 6])) if rng.random() < 0.7 else rmant(rng)
        a, b = (rng.getrandbits(1), l, sa), (rng.getrandbits(1), rr, sb)
        if rng.random() < 0.5:
            a, b = b, a
    else:
        # the buffer path with the words 3..5 of l*10^rf in {0, 1, 2, all ones}: exercises the borrow loop
        rf = rng.randint(1, 28)
        k = rng.randint(1, 3)
        w3 = rng.choice([0, 0, 1, 1, 2, T32 - 1])
        w4 = rng.choice([0, 1, 1, 2, rng.getrandbits(20)])
        w5 = rng.choice([0, 0, 0, 1, rng.getrandbits(10)])
        base = w3 * T96 + w4 * 2 ** 128 + w5 * 2 ** 160
        l = -(-base // 10 ** rf) + rng.choice([0, 0, 1, 2])
        if not (0 < l < T96):
            l = -(-2 ** 128 // 10 ** max(rf, 10))
            rf = max(rf, 10)
        sa = rng.randint(0, 28 - rf)
        low = (l * 10 ** rf) % T96
        rr = clampm(low + rng.choice([-1, 0, 1, 2, 1000, T64])) if rng.random() < 0.6 else rng.choice([MAXM, rmant(rng) or 1])
        del k
        a, b = (rng.getrandbits(1), l, sa), (rng.getrandbits(1), rr or 1, sa + rf)
        if rng.random() < 0.5:
            a, b = b, a
    return "%s %s %s" % (op, sd(a), sd(b))


def gen_mul(rng):
    r = rng.random()
    if r < 0.25:
        a, b = rdec(rng), rdec(rng)
    elif r < 0.55:
        # product next to 2^96 * 10^j
        j = rng.randint(0, 12)
        x = rmant(rng) or 3
        y = clampm(T96 * 10 ** j // x + rng.choice([-2, -1, 0, 0, 1, 2]))
        sa = rscale(rng)
        sb = rng.choice([rscale(rng), max(0, min(28, j - sa)), max(0, min(28, 28 + j - sa))])
        a, b = (rng.getrandbits(1), x, sa), (rng.getrandbits(1), y, sb)
    elif r < 0.80:
        # rounding ties: (q*10^k + 5*10^(k-1)) with k digits to drop
        k = rng.randint(1, 19)
        q = rng.getrandbits(rng.randint(0, 40))
        i = rng.randint(0, k - 1)
        x = 5 * 10 ** i + (rng.choice([0, 0, 0, 1]) if i == 0 else 0)
        y = (2 * q + 1) * 10 ** (k - 1 - i) + rng.choice([0, 0, 0, 1, -1])
        tot = 28 + k
        sa = rng.randint(max(0, tot - 28), min(28, tot))
        a, b = (rng.getrandbits(1), clampm(x), sa), (rng.getrandbits(1), clampm(abs(y)), tot - sa)
    else:
        # scale sums around the limits 28 / 47 / 56
        tot = rng.choice([27, 28, 29, 30, 37, 46, 47, 48, 49, 55, 56])
        sa = rng.randint(max(0, tot - 28), min(28, tot))
        a, b = (rng.getrandbits(1), rmant(rng), sa), (rng.getrandbits(1), rmant(rng), tot - sa)
    if rng.random() < 0.5:
        a, b = b, a
    return "mul %s %s" % (sd(a), sd(b))


def gen_div(rng):
    r = rng.random()
    if r < 0.25:
        a, b = rdec(rng), rdec(rng)
    elif r < 0.45:
        # terminating quotients: divisor 2^i * 5^j
        b = (rng.getrandbits(1), clampm(2 ** rng.randint(0, 40) * 5 ** rng.randint(0, 20)) or 1, rscale(rng))
        a = rdec(rng)
    elif r < 0.60:
        a = rdec(rng)
        b = (rng.getrandbits(1), rng.choice([3, 6, 7, 9, 11, 13, 17, 27, 37, 99, 101, 3 * T32 + 1, 7 * T64 + 3, MAXM, MAXM - 1, T64 - 1]), rscale(rng))
    elif r < 0.75:
        # exact multiples and near multiples of a wide divisor (partial_divide_64 / _96 correction loops)
        bits = rng.choice([33, 40, 63, 64, 65, 80, 95, 96])
        bm = rng.getrandbits(bits) | (1 << (bits - 1))
        if rng.random() < 0.4:
            bm = (bm >> 32 << 32) | rng.choice([0, 1, 0xFFFFFFFF, 0x80000000])
        k = rng.getrandbits(rng.randint(0, max(0, 96 - bits)))
        am = clampm(bm * k + rng.choice([0, 0, 1, bm - 1, bm // 2, bm // 2 + 1, rng.getrandbits(16)]))
        a, b = (rng.getrandbits(1), am, rscale(rng)), (rng.getrandbits(1), bm, rscale(rng))
    elif r < 0.88:
        # ties at the last place: odd * 10^-28 / 2, / 2*10^k, and friends
        am = 2 * rng.getrandbits(rng.randint(0, 60)) + 1
        a = (rng.getrandbits(1), am, rng.choice([28, 28, 27, 20]))
        b = (rng.getrandbits(1), rng.choice([2, 20, 200, 4, 8, 5, 50, 2 * 10 ** 10]), rng.choice([0, 0, 1, 5]))
    else:
        # huge / tiny in both directions; quotient next to 2^96
        a = (rng.getrandbits(1), rng.choice([MAXM, MAXM - 1, MAXM // 2, rmant(rng) or 1, 1]), rng.choice([0, 0, 1, 28, rscale(rng)]))
        b = (rng.getrandbits(1), rng.choice([1, 2, 3, 5, 9, 10, MAXM, rmant(rng) or 1]), rng.choice([0, 1, 2, 27, 28, rscale(rng)]))
    if rng.random() < 0.03:
        b = (b[0], 0, b[2])
    return "div %s %s" % (sd(a), sd(b))


def gen_round(rng):
    d = rdec(rng)
    dp = rng.randint(0, 29) if rng.random() < 0.5 else max(0, d[2] - rng.randint(0, 12))
    if rng.random() < 0.6 and d[2] > dp:
        k = d[2] - dp
        q = rng.getrandbits(rng.randint(0, 60))
        m = q * 10 ** k + 5 * 10 ** (k - 1) + rng.choice([0, 0, 0, 1, -1, 10 ** (k - 1)])
        if 0 <= m < T96:
            d = (d[0], m, d[2])
    return "round %s %d %s" % (sd(d), dp, rng.choice(STRATEGIES + ["even", "even"]))


def gen_rescale(rng):
    d = rdec(rng)
    r = rng.random()
    if r < 0.5:
        n = rng.randint(0, 28)
    elif r < 0.8:
        n = max(0, d[2] - rng.randint(1, 6))
        k = d[2] - n
        if k > 0:
            q = rng.getrandbits(rng.randint(0, 60))
            m = q * 10 ** k + rng.choice([4, 5, 6, 9]) * 10 ** (k - 1) + rng.randrange(10 ** (k - 1))
            if m < T96:
                d = (d[0], m, d[2])
    else:
        n = rng.choice([28, 29, 30, 40, 130]) if d[1] == 0 or rng.random() < 0.3 else 28
    return "rescale %s %d" % (sd(d), n)


def gen_cmp(rng):
    a = rdec(rng)
    r = rng.random()
    if r < 0.4:
        b = rdec(rng)
    else:
        # same value at another scale, or off by one unit
        sc = rscale(rng)
        if sc >= a[2]:
            m = a[1] * 10 ** (sc - a[2])
        else:
            m = a[1] // 10 ** (a[2] - sc)
        m = clampm(m + rng.choice([0, 0, 0, 1, -1]))
        b = (a[0] if rng.random() < 0.8 else 1 - a[0], m, sc)
    return "cmp %s %s" % (sd(a), sd(b))


def gen_unary(rng):
    d = rdec(rng)
    op = rng.choice(["neg", "abs", "iszero", "signneg", "signpos", "scale", "mantissa", "display", "display", "setpos"])
    if op == "setpos":
        return "setpos %s %d" % (sd(d), rng.getrandbits(1))
    return "%s %s" % (op, sd(d))


def gen_fromi128(rng):
    n = rng.choice([0, 1, -1, MAXM, -MAXM, MAXM + 1, -MAXM - 1, MAXM - 1, 2 ** 127 - 1, -2 ** 127, rmant(rng), -rmant(rng)])
    return "fromi128 %d %d" % (n, rng.choice([0, 1, 27, 28, 29, 30, 255, 2 ** 32 - 1, rscale(rng)]))


def gen_fromstr(rng):
    r = rng.random()
    if r < 0.25:
        d = rdec(rng)
        t = show_plain(d)
        if rng.random() < 0.3:
            i = rng.randrange(len(t) + 1)
            t = t[:i] + rng.choice(["_", "_", ".", "-", "+", "e", " ", "0", "9"]) + t[i:]
    elif r < 0.55:
        # long fractions: rounding at 28 places / at a full mantissa; garbage after the rounding digit
        ip = str(rng.getrandbits(rng.randint(0, 70))) if rng.random() < 0.7 else rng.choice(["0", "", "79228162514264337593543950335", "7922816251426433759354395033"])
        fl = rng.randint(20, 34)
        fp = "".join(rng.choice("0123456789") for _ in range(fl))
        if rng.random() < 0.4:
            fp = fp[:27] + rng.choice(["94", "95", "99", "05", "45", "5", "4", "9_5", "9_", "_95"]) + fp[29:]
        t = ip + "." + fp + rng.choice(["", "", "", "x", "_", ".", "5", "-"])
        if rng.random() < 0.3:
            t = "-" + t
    elif r < 0.75:
        # integers around 2^96 and the 64-bit switch-over
        base = rng.choice([MAXM, MAXM + 1, MAXM * 10, (2 ** 64 - 1) // 10 - 255, (2 ** 64 - 1) // 10 - 256, 2 ** 64, 10 ** 17, 10 ** 18, rmant(rng)])
        t = str(max(0, base + rng.randint(-6, 6)))
        if rng.random() < 0.4:
            i = rng.randrange(len(t) + 1)
            t = t[:i] + "." + t[i:]
        if rng.random() < 0.3:
            t = rng.choice(["-", "+"]) + t
        if rng.random() < 0.2:
            i = rng.randrange(1, len(t) + 1)
            t = t[:i] + "_" + t[i:]
    else:
        t = "".join(rng.choice("0123456789012345._-+ e'x,") for _ in range(rng.randint(0, 24)))
        if rng.random() < 0.3:
            t = rng.choice(["", ".", "-", "+", "-.", "1.", ".5", "+.5", "-0", "_1", "1_", "1__2", "1._2", "._1", "+-1", "1e5", "1E-3", " 1", "1 ",
                            "0.0000000000000000000000000000", "0.00000000000000000000000000005", "0.00000000000000000000000000004",
                            "00000000000000000000000000000000000001", "1.0000000000000000000000000000_", "é1", "1é", "١"])
    return "fromstr %s" % enc(t)


def show_plain(d):
    """the text rust_decimal prints for d (reference transcription of Display; also judged against the crate below)"""
    digits = str(d[1]) if d[1] else ""
    digits = digits.rjust(d[2], "0")
    whole = digits[:len(digits) - d[2]] or "0"
    frac = digits[len(digits) - d[2]:]
    return ("-" if d[0] else "") + whole + ("." + frac if d[2] else "")


GENS = [(gen_addsub, 26), (gen_mul, 18), (gen_div, 22), (gen_round, 8), (gen_rescale, 6), (gen_cmp, 6), (gen_unary, 6),
        (gen_fromi128, 2), (gen_fromstr, 10)]

FIXED = [
    # the unaligned-subtraction borrow defect of the crate: 3.4e28 - 7.9e18 = 6.8e28
    "sub 0:34028236692093846346337460744:0 0:79228162514264337593543950335:10",
    "add 0:34028236692093846346337460744:0 1:79228162514264337593543950335:10",
    "sub 0:79228162514264337593543950335:10 0:34028236692093846346337460744:0",
    # zero operands keep the OTHER operand's scale; sign of zero results
    "add 0:0:3 0:10:1", "add 0:10:1 0:0:3", "sub 0:0:3 0:10:1", "add 1:0:0 1:0:0", "add 0:0:0 1:0:0", "add 1:0:0 0:0:0", "sub 0:0:0 1:0:2",
    "add 1:1:0 0:1:0", "sub 0:10:1 0:1:0", "sub 0:42949672960:1 0:4294967296:0", "sub 0:4294967296:0 0:42949672960:1",
    "add 0:79228162514264337593543950335:0 0:1:0", "add 0:79228162514264337593543950335:1 0:5:1", "add 0:79228162514264337593543950335:1 0:15:1",
    "add 0:79228162514264337593543950335:28 0:79228162514264337593543950335:28", "sub 0:79228162514264337593543950335:0 1:79228162514264337593543950335:28",
    "mul 0:10:1 0:100:2", "mul 1:1:20 0:1:20", "mul 1:0:5 0:7:5", "mul 0:79228162514264337593543950335:0 0:79228162514264337593543950335:0",
    "mul 0:79228162514264337593543950335:28 0:79228162514264337593543950335:28", "mul 0:5:15 0:1:14", "mul 0:15:15 0:1:14", "mul 0:25:15 0:1:14",
    "div 0:1:0 0:3:0", "div 0:2:0 0:3:0", "div 0:1:0 0:1024:0", "div 0:1:0 0:0:0", "div 0:0:5 0:7:2", "div 1:0:5 0:7:2", "div 0:1:28 0:79228162514264337593543950335:0",
    "div 0:79228162514264337593543950335:0 0:1:28", "div 0:79228162514264337593543950335:0 0:1:1", "div 0:1:0 0:1:28", "div 0:1:28 0:2:0", "div 0:3:28 0:2:0",
    "div 0:79228162514264337593543950335:0 0:79228162514264337593543950335:28", "div 0:1:0 0:256:0", "div 0:1:0 0:4294967296:0", "div 0:10000000000:0 0:1:10",
    "round 1:5:1 0 even", "round 1:0:5 2 even", "round 0:25:1 0 even", "round 0:35:1 0 even", "round 1:4:1 0 even", "round 0:79228162514264337593543950335:28 0 even",
    "rescale 1:4:2 1", "rescale 0:1:5 33", "rescale 0:0:5 130", "rescale 0:79228162514264337593543950335:0 28", "rescale 0:5:1 0", "rescale 0:5:2 0", "rescale 0:45:2 0",
    "cmp 0:10:1 0:1:0", "cmp 1:0:0 0:0:5", "cmp 0:1:28 0:79228162514264337593543950335:0", "cmp 1:1:28 1:79228162514264337593543950335:0",
    "fromstr 1.50", "fromstr -0", "fromstr -0.00", "display 1:0:2", "display 0:5:3", "display 0:0:0", "display 0:79228162514264337593543950335:28",
    "fromi128 -5 3", "fromi128 79228162514264337593543950336 0", "fromi128 0 29",
]


def gen_cases(rng, n):
    total = sum(w for _, w in GENS)
    lines = list(FIXED)
    for g, w in GENS:
        for _ in range(max(1, n * w // total)):
            lines.append(g(rng))
    return lines


# ---------------------------------------------------------------------------------------------
# the theorems' statements, evaluated on what the REAL crate returned

def fits(fr, scale):
    """fr is exactly m / 10^scale with m < 2^96"""
    x = fr * 10 ** scale
    return x.denominator == 1 and abs(x.numerator) < T96


def oracle(line, rec):
    """returns None or a message: a theorem of Props/Decimal.lean does not hold of the real crate's result"""
    ws = line.split(" ")
    op = ws[0]
    out = rec.split(" ")
    if op in ("add", "sub", "mul", "div"):
        a, b = pd(ws[1]), pd(ws[2])
        if (out[0] == "none") != out[1].startswith("panic:"):
            return "checked form and operator form disagree about failure"
        if len(out) != 2:
            return "compound assignment differs from the operator"
        if out[0] != "none" and out[0] != out[1]:
            return "checked form and operator form return different values"
        res = None if out[0] == "none" else pd(out[0])
        if res is not None and not (res[1] < T96 and res[2] <= 28):
            return "result outside the representable range"
        if res is not None and res[1] == 0 and res[0] == 1 and not (op in ("add", "sub") and (a[1] == 0 or b[1] == 0)):
            return "a computed zero carries the sign flag"
        if op in ("add", "sub"):
            exact = val(a) + val(b) if op == "add" else val(a) - val(b)
            smax = max(a[2], b[2])
            if fits(exact, smax):
                if res is None:
                    return "representable sum reported as overflow"
                if val(res) != exact:
                    return "representable sum is not exact"
                if a[1] != 0 and b[1] != 0 and res[2] != smax:
                    return "representable sum of non-zero operands does not have scale max(sa, sb)"
        elif op == "mul":
            exact = val(a) * val(b)
            stot = a[2] + b[2]
            if a[1] == 0 or b[1] == 0:
                if res != (0, 0, 0):
                    return "product with a zero operand is not +0 at scale 0"
            elif stot <= 28 and fits(exact, stot):
                if res is None or val(res) != exact or res[2] != stot:
                    return "representable product is not exact with scale sa + sb"
            elif res is not None:
                if abs(val(res) - exact) > Fraction(1, 2 * 10 ** res[2]):
                    return "rounded product is off by more than half a unit of its last place"
        elif op == "div":
            if b[1] == 0:
                if res is not None or "zero" not in out[1]:
                    return "division by zero is not reported"
            else:
                exact = val(a) / val(b)
                if res is not None:
                    if abs(val(res) - exact) > Fraction(1, 2 * 10 ** res[2]):
                        return "quotient is off by more than half a unit of its last place"
                    if any(fits(exact, s) for s in range(0, 29)) and val(res) != exact:
                        return "representable quotient is not exact"
                elif any(fits(exact, s) for s in range(0, 29)):
                    return "representable quotient reported as overflow"
    elif op == "round" and not rec.startswith("panic"):
        a, dp, st = pd(ws[1]), int(ws[2]), ws[3]
        res = pd(rec)
        if a[2] <= dp:
            return None if res == a else "rounding to at least the present scale changed the value"
        if res[2] != dp:
            return "rounded value does not have scale dp"
        err = val(res) - val(a)
        unit = Fraction(1, 10 ** dp)
        if st in ("even", "away", "zero-mid"):
            if abs(err) > unit / 2:
                return "rounded value is off by more than half a unit"
            if abs(err) == unit / 2:
                if st == "even" and res[1] % 2 != 0:
                    return "tie not rounded to even"
                if st == "away" and abs(val(res)) < abs(val(a)):
                    return "tie not rounded away from zero"
                if st == "zero-mid" and abs(val(res)) > abs(val(a)):
                    return "tie not rounded toward zero"
        elif abs(err) >= unit:
            return "directed rounding is off by a unit or more"
    elif op == "cmp" and not rec.startswith("panic"):
        a, b = pd(ws[1]), pd(ws[2])
        want = "lt" if val(a) < val(b) else ("gt" if val(a) > val(b) else "eq")
        if out[0] != want or out[1] != ("1" if want == "eq" else "0"):
            return "comparison is not the comparison of the values"
    elif op == "display":
        a = pd(ws[1])
        if dec(rec) != show_plain(a):
            return "printed text is not sign, digits, point, `scale` digits"
    elif op == "rescale" and not rec.startswith("panic"):
        a, n = pd(ws[1]), int(ws[2])
        res = pd(rec)
        if n <= 28 and n >= a[2] and fits(val(a), n) and (res[2] != n or val(res) != val(a)):
            return "rescale up inside the range is not exact at the requested scale"
        if n < a[2] and (res[2] != n or abs(val(res) - val(a)) > Fraction(1, 2 * 10 ** n)):
            return "rescale down is off by more than half a unit"
    return None


def run_stream(chk, n):
    """n generated cases (+ the fixed ones) through the real crate and the model; returns the number of cases"""
    lines = gen_cases(chk.rng, n)
    impl = run_sharded(HX, ["dec96"], lines, shards=4)
    model = run_sharded(DRV, ["dec96"], lines, shards=4)
    chk.streams["dec96: rust_decimal operations, real crate vs Lean model"] = len(lines)
    if not (len(impl) == len(model) == len(lines)):
        chk.violation("dec96 stream: tools returned %d/%d records for %d cases" % (len(impl), len(model), len(lines)),
                      {"stream": "dec96"}, no_failing_input=True, tag="corr")
        return 0
    # round trip Display -> FromStr on the real crate (a property of the implementation)
    disp = [(l, r) for l, r in zip(lines, impl) if l.startswith("display ")]
    back = run_sharded(HX, ["dec96"], ["fromstr %s" % r for _, r in disp], shards=1)
    for (l, r), b in zip(disp, back):
        d = pd(l.split(" ")[1])
        want = "ok %s" % sd((0 if d[1] == 0 else d[0], d[1], d[2]))
        if b != want:
            chk.oracle_failures += 1
            chk.violation("rust_decimal: from_str(to_string(%s)) = %s" % (l.split(" ")[1], b),
                          {"stream": "dec96 round trip", "case": l, "printed": r, "read": b, "rerun": "echo '%s' | %s dec96" % (l, HX)})
    for line, a, b in zip(lines, impl, model):
        op = line.split(" ")[0]
        chk.case(("dec96", line), nontrivial=op not in ("iszero", "signneg", "signpos", "scale"))
        chk.traces += 1
        chk.count("dec96:" + op)
        cls = "none" if a.startswith("none") else ("panic" if "panic" in a else ("err" if a.startswith("err") else "value"))
        chk.count("dec96 impl:" + cls)
        replay = {"stream": "dec96", "case": line, "observed": a, "model": b, "rerun": "echo '%s' | %s dec96" % (line, HX)}
        if a == "bad-case" or (a.startswith("panic:") and op not in ("fromstr",)):
            # no operation okane uses may panic on well-formed decimals except the operator forms (recorded in the second field)
            if not (op == "rescale" and int(line.split(" ")[2]) > 28):
                chk.oracle_failures += 1
                chk.violation("rust_decimal %s: unexpected panic / unreadable case: %s" % (line, a[:120]), replay)
                continue
        try:
            msg = oracle(line, a)
        except Exception as e:  # noqa: BLE001  (oracle bug: loud)
            msg = "oracle crashed: %r" % (e,)
        if msg:
            chk.oracle_failures += 1
            chk.violation("rust_decimal %s: %s (got %s)" % (line, msg, a[:120]), replay)
            continue
        if a != b:
            chk.disagreements += 1
            chk.violation("Lean model of rust_decimal and the real crate disagree on `%s`: crate %s, model %s" % (line, a[:100], b[:100]),
                          dict(replay, stream="dec96 model"), no_failing_input=True, tag="corr")
    for i in (3, len(FIXED) + 5, len(lines) - 7):
        if 0 <= i < len(lines):
            chk.sample({"dec96": lines[i], "impl": impl[i][:200], "model": model[i][:200]})
    return len(lines)
