"""csv-text: the CSV record reader inside the model (Model/CsvText.lean = csv-core's state machine as configured by
cli/src/import/csv.rs, `read_line` skipping, UTF-8 validation per record).

Two entry points, both called from gen/c16.py:
* `check_main(chk, meta, impl_fields, drv_lines, model_lines)` — every case of C16's csv-main / csv-malformed streams once more with
  the model splitting the FILE TEXT itself (`drv csvtext`): (a) the model's header + records against the cells the real crate
  yielded, (b) the model-from-text import result against the model-from-cells result (which the main stream compares with the
  real import);
* `run_stream(chk, n)` — stream `csv-text`: hostile texts for the reader over a small alphabet, real importer on the BYTES
  (`hx c16 text`) against `drv csvtext`: cells, `Position::line` of every record, import result, the `record length too short`
  message.

`ref_split` is a reference splitter for the RFC-4180 well-formed subset, written independently of the model and of the crate: on
such a file a wrong split by the real reader is a concrete violation of C16 / C15 ("one transaction per record")."""
import itertools
import re

from common import run_sharded, enc, dec_bytes, HX, DRV, BuildError
from impcommon import Conv, split_fields, parse_import, canon_txn, txns_close, rules_sx, sx_parse, yq

BOM = b"\xef\xbb\xbf"
ALPHABET = [b"a", b"1", b",", b";", b"\t", b'"', b"\r", b"\n", b" ", "é".encode("utf-8"), b"\xff"]
SMALL = [b"a", b",", b'"', b"\r", b"\n"]
EXOTIC_DELIMS = ['"', "\n", "\r", "é", "a", " ", "1", "\r\n", "ÿ", "\ufeff", ",;"]
DELIMS = [",", ";", "\t", "|", ""]          # the five delimiters; "" = not configured (the builder's comma)


# ------------------------------------------------------------------------------------------------ reference splitter

def ref_split(data, delim):
    """records of an RFC-4180 file (fields separated by `delim`, lines ended by LF or CRLF, the last line end optional; a
    field is either free of delimiter / quote / CR / LF or enclosed in quotes with every inner quote doubled) -> list of
    lists of bytes, or None when the text is outside that subset (not UTF-8, BOM, lone CR, empty line, stray quote)"""
    if len(delim) != 1 or delim in (b'"', b"\r", b"\n") or delim[0] >= 0x80:
        return None
    try:
        data.decode("utf-8")
    except UnicodeDecodeError:
        return None
    if data.startswith(BOM) or data == b"":
        return None
    d = re.escape(delim)
    field = re.compile(b'"((?:[^"]|"")*)"|([^"\r\n' + d + b']*)')
    out = []
    i, n = 0, len(data)
    while i < n:
        rec = []
        while True:
            m = field.match(data, i)
            if m.group(1) is not None:
                rec.append(m.group(1).replace(b'""', b'"'))
            else:
                rec.append(m.group(2))
            i = m.end()
            if data[i:i + 1] == delim:
                i += 1
                continue
            break
        if i == n:
            pass
        elif data[i:i + 2] == b"\r\n":
            i += 2
        elif data[i:i + 1] == b"\n":
            i += 1
        else:
            return None          # text after a closing quote, a quote inside a plain field, a lone CR
        if rec == [b""]:
            return None          # an empty line: not a record of the subset
        out.append(rec)
    return out


def split_head(data, skip):
    """the text after `skip` physical lines (`read_line` N times)"""
    for _ in range(max(skip, 0)):
        j = data.find(b"\n")
        data = b"" if j < 0 else data[j + 1:]
    return data


def cells_of(sexp):
    """`(ok (h..) (r..) .. [utf8err])` -> (list of records as lists of bytes, stopped at an undecodable record) | None"""
    try:
        t = sx_parse(sexp)
    except Exception:  # noqa
        return None
    if not isinstance(t, list) or not t or t[0] != "ok":
        return None
    recs, bad = [], False
    for r in t[1:]:
        if r == "utf8err":
            bad = True
            break
        recs.append([dec_bytes(c) for c in r])
    return recs, bad


def imports_agree(iimp, mimp, inexact):
    try:
        ist, itx = parse_import(iimp)
    except Exception as e:  # noqa
        ist, itx = "unparsed", str(e)
    try:
        mst, mtx = parse_import(mimp)
    except Exception as e:  # noqa
        mst, mtx = "unparsed-model", str(e)
    if ist != mst:
        return False
    if ist == "ok":
        if inexact:
            return txns_close(itx, mtx)
        return [canon_txn(t) for t in itx] == [canon_txn(t) for t in mtx]
    return str(itx).split(" ")[0] == str(mtx).split(" ")[0]


def oracle_split(data, delim_text, skip, impl_cells):
    """the reference splitter against what the real reader yielded -> message or None"""
    d = (delim_text.encode("utf-8")[:1] if delim_text else b",")
    rest = split_head(data, skip)
    try:
        data[:len(data) - len(rest)].decode("utf-8")
    except UnicodeDecodeError:
        return None                 # a skipped line that is not text: `read_line` fails, nothing is read
    want = ref_split(rest, d)
    if want is None:
        return None
    got = cells_of(impl_cells)
    if got is None:
        return "a well-formed CSV file (%d records) is not read at all: %s" % (len(want), impl_cells[:80])
    recs, bad = got
    if bad or recs != want:
        k = next((i for i, (a, b) in enumerate(zip(recs, want)) if a != b), min(len(recs), len(want)))
        return ("a well-formed CSV file of %d records (header included) is read as %d records; first difference at record %d: "
                "read %r, written %r" % (len(want), len(recs), k, recs[k] if k < len(recs) else None, want[k] if k < len(want) else None))
    return None


# ------------------------------------------------------------------------------------------------ the main streams, from the text

def check_main(chk, meta, impl_fields, drv_lines, model_lines):
    lines = []
    for (c, yaml, text, cfg_sx, fund, fund_sx), dline in zip(meta, drv_lines):
        lines.append("%s src=%s delim=%s skip=%d" % (dline, enc(text), enc(c.delim), c.skip_head))
    out = run_sharded(DRV, ["csvtext"], lines)
    chk.streams["csv-main:from-text"] = len(lines)
    for (c, yaml, text, cfg_sx, fund, fund_sx), f, mline, tline, dline in zip(meta, impl_fields, model_lines, out, lines):
        _, mf = split_fields(mline)
        _, tf = split_fields(tline)
        chk.traces += 1
        data = text.encode("utf-8")
        replay = {"stream": "c16 csv from the file text", "config_yaml": yaml, "csv": text, "impl_cells": f.get("cells"),
                  "model_cells": tf.get("cells", tline), "model_from_cells": mf.get("import", mline),
                  "model_from_text": tf.get("import", tline), "drv_case": dline,
                  "rerun": "printf '%%s\\n' '%s cfg=%s src=%s fund=~' | %s c16" % (c.id, enc(yaml), enc(text), HX)}
        # the statement: a well-formed file is read record by record (reference splitter, independent of the model)
        msg = oracle_split(data, c.delim, c.skip_head, f.get("cells", "(err)"))
        if msg:
            chk.oracle_failures += 1
            chk.violation("CSV reader breaks C16 (one transaction per record): " + msg, replay)
            continue
        ic, mc = cells_of(f.get("cells", "(err)")), cells_of(tf.get("cells", "(err)"))
        if ic is None and f.get("import", "").startswith("(cfgerr"):
            continue
        chk.count("from-text:" + ("cells-ok" if ic is not None else "cells-none"))
        if ic != mc:
            chk.disagreements += 1
            chk.violation("model reader (CsvText.readRecords) and the csv crate split the file differently", replay,
                          no_failing_input=True, tag="corr")
            continue
        if any(mf.get(k) != tf.get(k) for k in ("import", "inexact", "proc")):
            chk.disagreements += 1
            chk.violation("the importer model from the file text and from the crate's cells disagree", replay,
                          no_failing_input=True, tag="corr")


def check_split(chk, items, stream):
    """For the CSV streams of other properties (C15 / C17): `items` = [(bytes of the file, format.delimiter text, skip.head,
    cells S-expression the real crate yielded - `(ok (h..) (r..)..)` as `hx c16` prints it -, replay dict)].  Runs the reader model
    alone (`drv csvtext split`) and the reference splitter; reports like the streams here."""
    lines = ["s%d src=%s delim=%s skip=%d" % (i, enc(data), enc(delim), skip) for i, (data, delim, skip, _, _) in enumerate(items)]
    out = run_sharded(DRV, ["csvtext", "split"], lines)
    chk.streams[stream] = len(items)
    for (data, delim, skip, impl_cells, replay), mline, dline in zip(items, out, lines):
        _, mf = split_fields(mline)
        chk.traces += 1
        rp = dict(replay, stream=stream, impl_cells=impl_cells, model_cells=mf.get("cells", mline), drv_case=dline)
        msg = oracle_split(data, delim, skip, impl_cells)
        if msg:
            chk.oracle_failures += 1
            chk.violation("CSV reader breaks the one-transaction-per-record clause: " + msg, rp)
            continue
        if cells_of(impl_cells) != cells_of(mf.get("cells", "(err)")):
            chk.disagreements += 1
            chk.violation("model reader (CsvText.readRecords) and the csv crate split the file differently", rp,
                          no_failing_input=True, tag="corr")


# ------------------------------------------------------------------------------------------------ stream csv-text

def make_cfg(variant, delim, skip):
    """-> (yaml, cfg sexp)"""
    y = ["path: statement\n", "encoding: UTF-8\n", "account: Assets:Bank\n", "account_type: asset\n", "commodity: USD\n",
         "format:\n  date: \"%Y-%m-%d\"\n"]
    if delim != "":
        y.append("  delimiter: %s\n" % yq(delim))
    if skip:
        y.append("  skip:\n    head: %d\n" % skip)
    if variant == 0:
        pos = [("date", ("index", 1)), ("payee", ("index", 2)), ("amount", ("index", 3))]
    elif variant == 1:
        pos = [("date", ("index", 1)), ("payee", ("index", 1)), ("amount", ("index", 2))]
    else:
        pos = [("date", ("label", "a")), ("payee", ("label", "1")), ("amount", ("index", 2))]
    y.append("  fields:\n")
    fsx = []
    for k, p in pos:
        if p[0] == "index":
            y.append("    %s: %d\n" % (k, p[1]))
            fsx.append("(%s (index %d))" % (k, p[1]))
        else:
            y.append("    %s: %s\n" % (k, yq(p[1])))
            fsx.append("(%s (label %s))" % (k, enc(p[1])))
    cfg_sx = "(cfg %s asset () %s %s o2n (fields %s) %s)" % (enc("Assets:Bank"), enc("USD"), Conv().sx(), " ".join(fsx), rules_sx([]))
    return "".join(y), cfg_sx


SPECIALS = [
    b"", b"\n", b"\r", b"\r\n", b"\n\n\n", b"a", b"a\n", b"a,1,1\n", b"a,1,1", b"a,1,1\r\n", b"a,1,1\r", b"a,1,1\n\n\nb,1,1\n",
    b'"a', b'"a,1\n1,1', b'a,"1', b'a"b"', b'"a"b', b'"a""b"', b'""', b'""\n', b'"",""\n', b'a""b', b'"a"",1', b'""""', b'"""',
    b'"a"\r\n"b"', b'"a\r\nb",1,1\r\n', b'"a\nb",1,1\n2024-01-02,x,1\n', b"a\rb\rc", b"a\r\rb", b"a\n\rb", b"a\r\n\nb",
    b",,\n", b",\n", b";;\n", b",,,,,,\n,\n", b"a,1,1\n2024-01-02\n", b"a,1,1\n2024-01-02,x\n", b"a,1,1\n2024-01-02,x,5,y,z\n",
    b"a,1,1\n\n\n2024-01-02\n", b"a,1,1\r\n2024-01-02,x,5\r\n2024-01-03\r\n", b"a,1,1\r2024-01-02,x,5\r2024-01-03\r",
    b'a,1,1\n2024-01-02,"x\ny\nz",5\n2024-01-03\n', b"a,1,1\n,x,5\n2024-01-03\n", b"a,1,1\n,\n\n2024-01-03,x\n",
    BOM, BOM + b"a,1,1\n", BOM + b'"a",1,1\n', BOM + BOM + b"a\n", b"\n" + BOM + b"a,1\n", BOM[:2] + b"a\n", b"a" + BOM + b"\n",
    BOM + b"\n", BOM + b"\r\na", b"\xff", b"a,\xff\n", b"a,1,1\n\xff\n", b"a,1,1\n2024-01-02,\xff,1\n", b"a,1,1\n2024-01-0x,\xff,1\n\xff",
    b"a,1,1\n2024-01-02,x,1\n\xff\n2024-01-0x,x,1\n", b"a,1,1\n2024-01-0x,x,1\n\xff\n", "é,é\n".encode("utf-8"),
    b"\xc3,\xa9\n", b"a,1,1\n\xc3\n", b"\xc3\n\xa9", b'"\xc3"\xa9', b"\xed\xa0\x80", b"\xc0\x80", b"\xf4\x90\x80\x80", b"\xf0\x9f\x98\x80,1",
    b"a;1;1\n2024-01-02;x;5\n", b"a\t1\t1\n2024-01-02\tx\t5\n", b"a|1|1\n2024-01-02|x|5\n", b'a,1,1\n2024-01-02,"x,y",5\n',
    b'a,1,1\n2024-01-02,"x"",""y",5\n', b"#a,1,1\n#,#\n", b"a,1,1\n#2024-01-02,x,5\n2024-01-03,#,5\n", b'a,1,1\n2024-01-02,"x\\"",5\n', b"a,1,1\n2024-01-02,'x,y',5\n", b'a,1,1\n"2024-01-02",x,"5"\n', b'a,1,1\n 2024-01-02,x,5\n', b'a,1,1\n"2024-01-02" ,x,5\n',
]


def gen_texts(chk, n):
    rng = chk.rng
    quick = chk.tier == "quick"
    texts = list(SPECIALS)
    for k in range(1, (4 if quick else 5) + 1):
        for tup in itertools.product(ALPHABET, repeat=k):
            texts.append(b"".join(tup))
    for k in range(5, (6 if quick else 8) + 1):
        for tup in itertools.product(SMALL, repeat=k):
            texts.append(b"".join(tup))
    toks = ALPHABET + [b"2024-01-05", b"3.50", b"-1", b"\r\n", b'""', b'"a"', b"a,1,1\n", b"2024-01-06,x,1\n", BOM, b",", b"\n", b"\n", b'"', b"#", b"#x\n", b"\\", b"'"]
    for _ in range(n):
        m = rng.randint(1, 40)
        t = b"".join(rng.choice(toks) for _ in range(m))
        if rng.random() < 0.3:
            t = b"a,1,1\n" + t
        if rng.random() < 0.1:
            t = BOM + t
        texts.append(t)
    # statements with dated records whose middle cell is hostile: the import gets past the date and yields transactions
    for _ in range(n):
        d = rng.choice([b",", b";", b"\t", b"|"])
        nl = rng.choice([b"\n", b"\n", b"\r\n", b"\r"])
        lines = [d.join([b"a", b"1", b"1"])]
        for k in range(rng.randint(1, 4)):
            mid = b"".join(rng.choice(ALPHABET[:-1] + [d, b'"', b'""']) for _ in range(rng.randint(0, 6)))
            r = rng.random()
            if r < 0.3:
                mid = b'"' + mid.replace(b'"', b'""') + b'"'
            elif r < 0.4:
                mid = b'"' + mid
            date = rng.choice([b"2024-01-0%d" % (k + 1), b'"2024-01-0%d"' % (k + 1), b"", b"2024-01-0%d" % (k + 1)])
            cells = [date, mid, rng.choice([b"3.50", b"-1", b'"1,000.00"', b"1"])]
            if rng.random() < 0.1:
                cells = cells[:rng.randint(1, 2)]
            if rng.random() < 0.1:
                cells.append(b"extra")
            lines.append(d.join(cells))
            if rng.random() < 0.1:
                lines.append(b"")
        body = nl.join(lines) + (nl if rng.random() < 0.8 else b"")
        if rng.random() < 0.1:
            body = BOM + body
        texts.append(("st", d.decode(), body))
    # well-formed files (the reference splitter's subset), so that the oracle has work
    words = [b"a", b"1", b"", b"x y", b"2024-01-07", b"5.00", "é".encode("utf-8"), b'say "hi"', b"a,b", b"a;b", b"l1\nl2", b"l1\r\nl2", b"\t", b" "]
    for _ in range(n // 2):
        d = rng.choice([b",", b";", b"\t", b"|"])
        nl = rng.choice([b"\n", b"\n", b"\r\n"])
        rows = []
        for _ in range(rng.randint(1, 5)):
            row = [rng.choice(words) for _ in range(rng.randint(1, 5))]
            if row == [b""]:
                row = [b"", b""]
            rows.append(row)
        out = []
        for row in rows:
            cells = []
            for w in row:
                if any(ch in w for ch in (d, b'"', b"\r", b"\n")) or rng.random() < 0.2:
                    cells.append(b'"' + w.replace(b'"', b'""') + b'"')
                else:
                    cells.append(w)
            out.append(d.join(cells))
        texts.append(("wf", d.decode(), nl.join(out) + (nl if rng.random() < 0.8 else b"")))
    return texts


def run_stream(chk, n):
    rng = chk.rng
    texts = gen_texts(chk, n)
    cases = []
    preambles = [b"", b"\n", b"   \n", b"x\n", b'not "csv, at all\n', b"\r\n", b"a,1,1\n", "é\n".encode("utf-8"), b"\xff\n", b"\r"]
    seen = set()
    for i, t in enumerate(texts):
        variant = rng.choice([0, 0, 0, 1, 2])
        if isinstance(t, tuple):
            tag, delim, body = t
            skip = rng.choice([0, 0, 1, 2])
            if tag == "st" and rng.random() < 0.7:
                variant = 0
        else:
            body = t
            delim = DELIMS[i % 5] if i % 3 else rng.choice(DELIMS)
            if rng.random() < 0.04:
                delim = rng.choice(EXOTIC_DELIMS)   # the reader takes the FIRST BYTE of whatever text is configured
            skip = rng.choice([0, 0, 0, 1, 2, 3])
        pre = b"".join(rng.choice(preambles[:-2] if rng.random() < 0.95 else preambles) for _ in range(skip))
        if skip and rng.random() < 0.05:
            pre = pre[:-1]               # the last skipped line has no line end: it swallows the header line
        key = (pre + body, delim, skip, variant)
        if key in seen:
            continue
        seen.add(key)
        cases.append((pre + body, delim, skip, variant))
    cfgs = {}
    hx_lines, drv_pre = [], []
    for i, (data, delim, skip, variant) in enumerate(cases):
        if (variant, delim, skip) not in cfgs:
            cfgs[(variant, delim, skip)] = make_cfg(variant, delim, skip)
        yaml, cfg_sx = cfgs[(variant, delim, skip)]
        hx_lines.append("q%d cfg=%s src=%s" % (i, enc(yaml), enc(data)))
        drv_pre.append((cfg_sx, data, delim, skip))
    impl = run_sharded(HX, ["c16", "text"], hx_lines)
    if impl and " lines=" not in impl[0]:
        raise BuildError("hx has no `c16 text` mode: the harness binary was not built from this tree's harness/src/c16.rs")
    drv_lines = []
    impl_f = []
    for i, ((cfg_sx, data, delim, skip), out) in enumerate(zip(drv_pre, impl)):
        _, f = split_fields(out)
        impl_f.append(f)
        drv_lines.append("q%d cfg=%s dates=%s caps=() fund=() src=%s delim=%s skip=%d" % (
            i, cfg_sx, f.get("dates", "()"), enc(data), enc(delim), skip))
    model = run_sharded(DRV, ["csvtext"], drv_lines)
    chk.streams["csv-text"] = len(cases)
    short_re = re.compile(r"csv record length too short at line (\d+): want (\d+), got (\d+)")
    for i, ((data, delim, skip, variant), f, mline) in enumerate(zip(cases, impl_f, model)):
        _, mf = split_fields(mline)
        yaml = cfgs[(variant, delim, skip)][0]
        chk.case(("csv-text", data, delim, skip, variant), nontrivial=len(data) > 0)
        chk.traces += 1
        replay = {"stream": "c16 csv-text", "config_yaml": yaml, "bytes": repr(data), "delimiter": delim, "skip_head": skip,
                  "impl": f.get("import"), "impl_cells": f.get("cells"), "impl_lines": f.get("lines"),
                  "impl_errmsg": dec_bytes(f.get("errmsg", "~")).decode("utf-8", "replace"),
                  "model": mf.get("import", mline), "model_cells": mf.get("cells"), "model_lines": mf.get("lines"),
                  "model_short": mf.get("short"), "drv_case": drv_lines[i],
                  "rerun": "printf '%%s\\n' '%s' | %s c16 text" % (hx_lines[i], HX)}
        ic = f.get("cells", "(err)")
        chk.count("text:" + f.get("import", "?").split(" ")[0].strip("()") +
                  (":" + f.get("import", "?").split(" ")[1].strip("()") if f.get("import", "").startswith("(err") else ""))
        if f.get("import", "").startswith("(ok (txn"):
            chk.count("text:transactions>0")
        if ic.endswith("utf8err)"):
            chk.count("text:record-not-utf8")
        if ic == "(ioerr)":
            chk.count("text:skipped-line-not-utf8")
        # ---- the statement on the real code: a well-formed file is read record by record
        msg = oracle_split(data, delim, skip, ic)
        if msg:
            chk.oracle_failures += 1
            chk.violation("CSV reader breaks C16 (one transaction per record): " + msg, replay)
            continue
        if ref_split(split_head(data, skip), (delim.encode()[:1] if delim else b",")) is not None:
            chk.count("text:well-formed(reference splitter)")
        # ---- model vs implementation: split, positions, import result, the short-record message
        why = None
        if ic != mf.get("cells"):
            a, b = cells_of(ic), cells_of(mf.get("cells", "(err)"))
            if a is None or a != b:
                why = "model reader (CsvText.readRecords) and the csv crate split the bytes differently"
        if why is None and f.get("lines") != mf.get("lines"):
            why = "model and csv crate disagree on the line a record's Position names"
        if why is None and not imports_agree(f.get("import", "(missing)"), mf.get("import", "(missing)"), mf.get("inexact") == "1"):
            why = "the importer model from the file bytes and csv::import disagree"
        if why is None:
            m = short_re.search(replay["impl_errmsg"])
            if m:
                chk.count("text:short-record-message")
                if mf.get("short") != "(%s %s %s)" % m.groups():
                    why = "the `record length too short` message names line/want/got %s, the model %s" % (m.groups(), mf.get("short"))
        if why:
            chk.disagreements += 1
            chk.violation(why, replay, no_failing_input=True, tag="corr")
    for j in (0, len(cases) // 2, len(cases) - 1):
        chk.sample({"csv-text": repr(cases[j][0]), "delimiter": cases[j][1], "skip": cases[j][2], "impl": impl[j][:300]})
