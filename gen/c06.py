"""C06 — every input yields output or a diagnostic: no crash, no hang."""
import itertools
import json
import os
import re
import subprocess
import time
from concurrent.futures import ThreadPoolExecutor
from fractions import Fraction

from common import (standard_prologue, enc, dec, HX, DRV, OKANE, WORK, VERIF, BuildError)

CLAIM = {
    "technique": ("Lean 4 theorems that the model's parser, formatter, loader, book-keeping and error-reporting functions never reach "
                  "a panic site or run out of fuel + differential/oracle streams that run the real parser, formatter, loader and report commands in-process "
                  "(catch_unwind + watchdog) and as child processes of the real binary (10 s timeout, exit status / signal recorded)"),
    "text": ("PARTIAL proof. Proved for all inputs (Lean, no sorry): `process` (book-keeping of any entry list, from any "
             "accumulated state) returns a state or an error and never a panic/fuel-out — both panic sites of the model (the "
             "`unreachable!` of posting_price_event, the `postings[u]` index of the omitted posting) are shown unreachable; the "
             "char-boundary search of ParseError::new ends within |input|+1 steps (the loop behind fixed finding F1a) and "
             "ParseError::new is total for checkpoint <= failure position <= end of file; compute_line_number's assert cannot fire "
             "for in-range positions; `clip` underflows exactly when the child span ends before the entry starts, never for spans "
             "inside the entry; building and annotating a book-keeping report is total for valid entry spans; C06_prefix (every "
             "prefix of every text) is a corollary of totality. C06_load: over the loader model, any load with fuel |readable files|+1 ends in ok or a LoadError, "
             "never fuel-out or panic, so include cycles end in RecursiveInclude (restates C11_terminates_load). "
             "C06_parse (C06_parse_holds / C06_parse_total): for EVERY text the ledger parser model run with fuel |t|+1 ends in ok or "
             "in a ParseError, never in a panic or fuel-out: every rule of the grammar model is shown `Safe` (no panic, no fuel-out, the "
             "remaining input and every failure position are suffixes of the input), every element/separator of every winnow "
             "repeat / repeat_till / separated loop of okane's grammar and the entry parser iterated by ParsedIter consume >= 1 "
             "character when they succeed (C06_loop_elements_consume), so no ParserError::assert site is reachable and every fuel "
             "bound of the model (combinator loops and lot's loop length+1, expression parser 5|inp|+10 where 5|inp|+1 is needed, entry "
             "iterator |t|+1) suffices; the checkpoint and failure position of every reported error are byte positions "
             "startPos <= errPos <= |text|, so the byte-level ParseError::new (offset_from assertion, compute_line_number assert, "
             "char-boundary search with fuel) succeeds and yields the same line_start and error_span as the parser model; the entry "
             "spans delivered are non-empty valid UTF-8 slices of the text, ordered and non-overlapping (C06_parse_spans), so the "
             "report context of every delivered entry can be built (C06_parsed_entry_context). "
             "C06_format (C06_format_holds): format = parse + print every entry returns text or a ParseError for every text and every "
             "display-width function (the printer model is a total function of the tree). These are theorems about the hand-written "
             "parser/printer MODEL (winnow's combinator semantics are re-implemented in the model from reading winnow 0.7.6); that the "
             "model is what /repo computes rests on the correspondence streams, as does everything below. NOT proved: "
             "wall-clock promptness, real stack depth and "
             "panics inside third-party crates are observed by the harness (timeouts, catch_unwind, child exit status) but carried "
             "by no theorem. Streams on every run: every prefix (cut at every character) of the corpus ledgers and of generated "
             "ledgers, random strings over the ledger alphabet and arbitrary Unicode, mutated ledgers, all include graphs on <= 3 "
             "files incl. self-include and 2-/3-cycles on the in-memory and the real file system, grammatical ledgers fed to "
             "format/accounts/balance/register/primitive flatten/eval, numeric edge cases inside the representable range; the "
             "oracle is the property itself: Ok or Err in-process, exit status 0 or 1 for the binary, no panic, no abort, no signal, "
             "within 10 s. Known finding F9 (stack overflow on ~2000+ nested parentheses, debug build) is replayed and reported as "
             "KNOWN-FINDING; generators keep nesting below that depth."),
    "note": ("rust_decimal panics on arithmetic overflow (results beyond 96 bits / 28 places) are outside the property's range "
             "clause; the numeric stream stays inside the range and a separate out-of-range sub-stream only records what happens."),
    "design_ref": "DESIGN.md section 6, C06; section 3.1 (outcomes, fuel); section 7 (F1, F2, F4, F7, F8, F9)",
}

THEOREMS = [
    "Okane.C06.C06_process", "Okane.C06.C06_process_outcome", "Okane.C06.C06_step",
    "Okane.C06.C06_zero_amount_exchange_rejected", "Okane.C06.C06_boundary_search", "Okane.C06.C06_parse_error_new",
    "Okane.C06.C06_line_number", "Okane.C06.C06_clip_iff", "Okane.C06.C06_clip", "Okane.C06.C06_error_context",
    "Okane.C06.C06_prefix", "Okane.C06.C06_load", "Okane.C06.C06_load_fake",
    "Okane.C06.C06_parse_holds", "Okane.C06.C06_parse_safe", "Okane.C06.C06_parse_total",
    "Okane.C06.C06_format_holds", "Okane.C06.C06_format_total", "Okane.C06.C06_parse_prefix", "Okane.C06.C06_format_prefix",
    "Okane.C06.C06_loop_elements_consume", "Okane.C06.C06_loops", "Okane.C06.C06_expr_fuel",
    "Okane.C06.C06_parse_spans", "Okane.C06.C06_parsed_entry_context",
]

TIMEOUT_MS = 10000
JOBS = 16
MAX_NEST = 24          # generators' parenthesis nesting stays far below the F9 depth

# ------------------------------------------------------------------------------------------------
# ledger generator (also used by gen/c14.py)

ACCOUNTS = ["Assets:Bank", "Assets:Cash", "Expenses:Food", "Expenses:Travel:Train", "Income:Salary", "Equity:Opening",
            "Liabilities:Card", "Expenses:Very Long Account:With Spaces In It:And Levels", "資産:銀行", "Dépenses:Café", "A", "B:c"]
COMMS = ["USD", "EUR", "CHF", "JPY", "ACME", "円", "€"]
PAYEES = ["Grocery", "Salary June", "SBB CFF FFS", "買い物 🛒", "Café ☕ du coin", "x", "Müller & Söhne", "a (b) c", ""]
COMMENT_PREFIX = [";", "#", "%", "|", "*"]


def fmt_num(rng, v, commas=True):
    """prints a Fraction with <= 2 decimals the way a ledger would write it."""
    neg = v < 0
    v = abs(v)
    cents = int(v * 100)
    assert Fraction(cents, 100) == v, v
    ip, fp = divmod(cents, 100)
    s = str(ip)
    if commas and ip >= 1000 and rng.random() < 0.5:
        s = "{:,}".format(ip)
    if fp or rng.random() < 0.4:
        s += ".%02d" % fp
    return ("-" if neg else "") + s


class Book:
    """tracks account balances the way okane does (enough to emit true balance assertions)."""

    def __init__(self):
        self.bal = {}

    def add(self, acct, comm, v):
        d = self.bal.setdefault(acct, {})
        d[comm] = d.get(comm, Fraction(0)) + v

    def get(self, acct, comm):
        return self.bal.get(acct, {}).get(comm, Fraction(0))


def rand_amount(rng):
    k = rng.random()
    if k < 0.5:
        return Fraction(rng.randint(1, 500))
    if k < 0.9:
        return Fraction(rng.randint(1, 99999), 100)
    return Fraction(rng.randint(100000, 99999999), 100)


def pad(rng):
    return rng.choice(["  ", "   ", "\t", "  \t ", " " * rng.randint(2, 30)])


def gen_meta_line(rng):
    return "    " + rng.choice(["; note", "; Payee: someone", "; :tag1:tag2:", "; key:: (1 + 2)", ";", "; 日本語メモ", ";; double"]) + "\n"


def gen_txn(rng, book, date, accounts, comms):
    """one balanced transaction; returns text (LF line ends, ends with newline)."""
    y, m, d = date
    sep = rng.choice(["/", "-"])
    ds = "%04d%s%02d%s%02d" % (y, sep, m, sep, d) if rng.random() < 0.8 else "%d%s%d%s%d" % (y, sep, m, sep, d)
    head = ds
    if rng.random() < 0.15:
        head += "=" + ds
    if rng.random() < 0.4:
        head += " " + rng.choice(["*", "!"])
    if rng.random() < 0.2:
        head += " (" + rng.choice(["123", "#42", "code x"]) + ")"
    payee = rng.choice(PAYEES)
    if payee:
        head += " " + payee
    if rng.random() < 0.15:
        head += " ; inline"
    lines = [head.rstrip() + "\n"]
    if rng.random() < 0.2:
        lines.append(gen_meta_line(rng))
    kind = rng.random()
    c = rng.choice(comms)
    accts = rng.sample(accounts, min(len(accounts), rng.randint(2, 4)))
    posts = []  # (account, text after account or None, [(comm, value)] or None for omitted)
    if kind < 0.45:
        # same-commodity postings, last omitted or explicit
        vals = [rand_amount(rng) * rng.choice([1, -1]) for _ in accts[:-1]]
        total = sum(vals)
        for a, v in zip(accts[:-1], vals):
            book.add(a, c, v)
            t = fmt_num(rng, v) + " " + c
            if rng.random() < 0.15:
                t = "(%s %s + 0 %s)" % (fmt_num(rng, v, False), c, c)
            if rng.random() < 0.25:
                t += rng.choice([" = ", " =", "  =  "]) + fmt_num(rng, book.get(a, c)) + " " + c
            posts.append((a, t))
        a = accts[-1]
        book.add(a, c, -total)
        if rng.random() < 0.5:
            posts.append((a, None))
        else:
            posts.append((a, fmt_num(rng, -total) + " " + c))
    elif kind < 0.65:
        # cost / total cost / lot
        c2 = rng.choice([x for x in comms if x != c])
        n = Fraction(rng.randint(1, 50))
        p = Fraction(rng.randint(1, 2000), 100)
        a1, a2 = accts[0], accts[1]
        book.add(a1, c, n)
        book.add(a2, c2, -(n * p))
        style = rng.random()
        if style < 0.4:
            t = "%s %s @ %s %s" % (fmt_num(rng, n), c, fmt_num(rng, p), c2)
        elif style < 0.7:
            t = "%s %s @@ %s %s" % (fmt_num(rng, n), c, fmt_num(rng, n * p), c2)
        elif style < 0.85:
            t = "%s %s {%s %s}" % (fmt_num(rng, n), c, fmt_num(rng, p), c2)
        else:
            t = "%s %s {{%s %s}} [%04d/%02d/%02d] (lot note)" % (fmt_num(rng, n), c, fmt_num(rng, n * p), c2, y, m, d)
        posts.append((a1, t))
        if rng.random() < 0.5:
            posts.append((a2, fmt_num(rng, -(n * p)) + " " + c2))
        else:
            posts.append((a2, None))
    elif kind < 0.8:
        # balance assignment: `A  = v` with an omitted counter posting
        a1, a2 = accts[0], accts[1]
        new = rand_amount(rng)
        prev = book.get(a1, c)
        book.bal.setdefault(a1, {})[c] = new
        book.add(a2, c, -(new - prev))
        posts.append((a1, "= " + fmt_num(rng, new) + " " + c))
        posts.append((a2, None))
    else:
        # expression amounts
        a1, a2 = accts[0], accts[1]
        x, yv = Fraction(rng.randint(1, 90)), Fraction(rng.randint(1, 9))
        forms = [("(%s %s * %s)" % (x, c, yv), x * yv), ("(%s * %s %s)" % (yv, x, c), x * yv),
                 ("(%s %s + %s %s)" % (x, c, yv, c), x + yv), ("(%s %s - %s %s)" % (x, c, yv, c), x - yv),
                 ("(-(%s %s))" % (x, c), -x), ("((%s + %s) * 2 %s / 4)" % (x, yv, c), (x + yv) / 2),
                 ("(%s %s/2)" % (x * 2, c), x)]
        t, v = rng.choice(forms)
        if (v * 100).denominator != 1:
            t, v = forms[0]
        book.add(a1, c, v)
        book.add(a2, c, -v)
        posts.append((a1, t))
        posts.append((a2, None))
    for a, t in posts:
        ind = rng.choice(["    ", "  ", "\t", " "])
        mark = rng.choice(["", "", "", "* ", "! "])
        line = ind + mark + a
        if t is not None:
            line += pad(rng) + t
        if rng.random() < 0.1:
            line += "  ; c"
        lines.append(line + "\n")
        if rng.random() < 0.1:
            lines.append(gen_meta_line(rng))
    return "".join(lines)


def gen_entries(rng, n, with_decls=True):
    """list of (kind, text) of valid entries (LF, each ends with a newline) that okane accepts in this order."""
    book = Book()
    accounts = rng.sample(ACCOUNTS, rng.randint(3, 6))
    comms = rng.sample(COMMS, rng.randint(2, 4))
    out = []
    day = 1
    aliases = {}
    for i in range(n):
        k = rng.random()
        if k < 0.6 or not with_decls:
            day += rng.randint(0, 2)
            use = [aliases.get(a, a) if rng.random() < 0.5 else a for a in accounts]
            # an alias resolves to its canonical account: the book tracks canonical names
            canon = {v: k2 for k2, v in aliases.items()}
            txt = gen_txn(rng, _AliasBook(book, canon), (2024, 1 + (day // 28) % 12, 1 + day % 28), use, comms)
            out.append(("txn", txt))
        elif k < 0.72:
            lines = [rng.choice(COMMENT_PREFIX) + rng.choice([" comment", "", " 日本語 ✓", " ; nested", "\ttab"]) + "\n"
                     for _ in range(rng.randint(1, 3))]
            out.append(("comment", "".join(lines)))
        elif k < 0.82:
            a = rng.choice(accounts)
            lines = ["account " + a + "\n"]
            if rng.random() < 0.5:
                lines.append("    note some note ✓\n")
            if rng.random() < 0.5 and a not in aliases:
                al = "alias%d" % i
                aliases[a] = al
                lines.append("    alias " + al + "\n")
            if rng.random() < 0.3:
                lines.append("    ; comment\n")
            out.append(("account", "".join(lines)))
        elif k < 0.9:
            c = rng.choice(comms)
            lines = ["commodity " + c + "\n"]
            if rng.random() < 0.5:
                lines.append("    note a commodity\n")
            if rng.random() < 0.5:
                lines.append("    format " + rng.choice(["1,000.00", "1000.00", "1,000.000"]) + " " + c + "\n")
            if rng.random() < 0.3:
                lines.append("    # comment\n")
            out.append(("commodity", "".join(lines)))
        elif k < 0.95:
            out.append(("apply", "apply tag " + rng.choice(["trip", "who: me", "k:: (1)"]) + "\n"))
        else:
            out.append(("end", "end apply tag\n"))
    return out


class _AliasBook:
    def __init__(self, book, canon):
        self.book, self.canon = book, canon
        self.bal = _AliasBal(book, canon)

    def add(self, a, c, v):
        self.book.add(self.canon.get(a, a), c, v)

    def get(self, a, c):
        return self.book.get(self.canon.get(a, a), c)


class _AliasBal:
    def __init__(self, book, canon):
        self.book, self.canon = book, canon

    def setdefault(self, a, d):
        return self.book.bal.setdefault(self.canon.get(a, a), d)


def join_entries(rng, entries, crlf=False):
    parts = []
    for kind, text in entries:
        parts.append(text)
        # comments must be separated from a following comment; blank separators of several shapes
        parts.append(rng.choice(["\n", "\n", "\n\n", "  \n", "\t\n\n", ""]) if kind not in ("comment",) else rng.choice(["\n", "\n\n", " \n"]))
    s = "".join(parts)
    if crlf:
        s = s.replace("\n", "\r\n")
    return s


def gen_ledger(rng, n=None, crlf=None):
    n = n or rng.randint(2, 7)
    crlf = (rng.random() < 0.2) if crlf is None else crlf
    return join_entries(rng, gen_entries(rng, n), crlf)


# ------------------------------------------------------------------------------------------------
# malformed text

TOKENS = ["0", "1", "9", "12", "1,000", "2024/01/01", "2024-1-1", "2024/01/20240115093012", "99999999999999999999", " ", "  ", "\t", "\n", "\n", "\n  ", "\r\n", "\r", ";", ":", "::", "(", ")",
          "((", "@", "@@", "{", "}", "{{", "}}", "[", "]", "=", "*", "!", ",", ".", "-", "+", "/", "account ", "commodity ", "include ",
          "apply tag ", "end apply tag", "alias ", "note ", "format ", "USD", "EUR", "A:B", "Assets:Bank", "é", "日本", "🛒", "​",
          "﻿", "́", "‮", "#", "%", "|", "\"", "'", "\\", "$", "^", "&", "<", ">", "?", "~", "`", "_", "a", "Z"]


def rand_unicode_char(rng):
    while True:
        k = rng.random()
        if k < 0.3:
            cp = rng.randint(0x20, 0x7e)
        elif k < 0.4:
            cp = rng.randint(0, 0x1f)
        elif k < 0.6:
            cp = rng.randint(0x80, 0x7ff)
        elif k < 0.85:
            cp = rng.randint(0x800, 0xffff)
        else:
            cp = rng.randint(0x10000, 0x10ffff)
        if 0xd800 <= cp <= 0xdfff:
            continue
        return chr(cp)


def gen_random_text(rng):
    k = rng.random()
    n = rng.randint(1, 60)
    if k < 0.55:
        return "".join(rng.choice(TOKENS) for _ in range(n))
    if k < 0.8:
        return "".join(rand_unicode_char(rng) for _ in range(n))
    return "".join(rng.choice(TOKENS) if rng.random() < 0.7 else rand_unicode_char(rng) for _ in range(n))


def mutate(rng, text):
    """interleaves valid and invalid syntax: token/char insertions, deletions, line shuffles on a valid ledger."""
    cs = list(text)
    for _ in range(rng.randint(1, 4)):
        k = rng.random()
        if not cs:
            break
        i = rng.randrange(len(cs) + 1)
        if k < 0.3:
            cs[i:i] = list(rng.choice(TOKENS))
        elif k < 0.5:
            j = min(len(cs), i + rng.randint(1, 5))
            del cs[i:j]
        elif k < 0.65:
            cs[i:i] = [rand_unicode_char(rng)]
        elif k < 0.8:
            lines = "".join(cs).split("\n")
            a, b = rng.randrange(len(lines)), rng.randrange(len(lines))
            lines[a], lines[b] = lines[b], lines[a]
            cs = list("\n".join(lines))
        elif k < 0.9:
            lines = "".join(cs).split("\n")
            a = rng.randrange(len(lines))
            lines[a] = lines[a].lstrip() if rng.random() < 0.5 else "  " + lines[a]
            cs = list("\n".join(lines))
        else:
            if i < len(cs):
                cs[i] = rng.choice(TOKENS)[:1] or " "
    return "".join(cs)


def nested(depth, inner="1 USD"):
    return "(" * depth + inner + ")" * depth


# ------------------------------------------------------------------------------------------------
# include graphs

def include_graph_cases(rng, tier):
    """(name, files{path: text}, root, expect) — expect: 'cycle' | 'ok' | None (unknown)."""
    cases = []

    def graph_case(n, edges, tag):
        files = {}
        for i in range(n):
            body = []
            for j in sorted(edges.get(i, [])):
                body.append("include f%d.ledger\n" % j)
            body.append("2024/01/%02d file %d\n    A  %d USD\n    B\n" % (i + 1, i, i + 1))
            files["f%d.ledger" % i] = "".join(body)
        # a cycle reachable from the root (file 0)?
        cyc = False

        def dfs(v, stack):
            nonlocal cyc
            if v in stack:
                cyc = True
                return
            for w in sorted(edges.get(v, [])):
                if not cyc:
                    dfs(w, stack + [v])
        dfs(0, [])
        cases.append((tag, files, "f0.ledger", "cycle" if cyc else "ok"))

    graphs = []
    for n in (1, 2, 3):
        pairs = [(i, j) for i in range(n) for j in range(n)]
        for mask in range(1 << len(pairs)):
            edges = {}
            for b, (i, j) in enumerate(pairs):
                if mask >> b & 1:
                    edges.setdefault(i, []).append(j)
            graphs.append((n, edges, "g%d-%d" % (n, mask)))
    if tier == "quick":
        small = [g for g in graphs if g[0] < 3]
        big = [g for g in graphs if g[0] == 3]
        graphs = small + rng.sample(big, 40)
    for n, edges, tag in graphs:
        graph_case(n, edges, tag)
    # special shapes
    sp = [
        ("self-glob", {"f0.ledger": "include *.ledger\n"}, "f0.ledger", "cycle"),
        ("self-dot", {"f0.ledger": "include ./f0.ledger\n"}, "f0.ledger", "cycle"),
        ("self-dotdot", {"d/f0.ledger": "include ../d/f0.ledger\n"}, "d/f0.ledger", "cycle"),
        ("glob-two", {"f0.ledger": "include sub/*.ledger\n", "sub/a.ledger": "include ../f0.ledger\n", "sub/b.ledger": "; b\n"}, "f0.ledger", "cycle"),
        ("diamond", {"f0.ledger": "include a.ledger\ninclude b.ledger\n", "a.ledger": "include c.ledger\n", "b.ledger": "include c.ledger\n",
                     "c.ledger": "2024/01/01 x\n  A  1 USD\n  B\n"}, "f0.ledger", "ok"),
        ("missing", {"f0.ledger": "include nothing.ledger\n"}, "f0.ledger", None),
        ("missing-glob", {"f0.ledger": "include no*.ledger\n"}, "f0.ledger", None),
        ("bad-glob", {"f0.ledger": "include [.ledger\n"}, "f0.ledger", None),
        ("bad-glob2", {"f0.ledger": "include a**b/***.ledger\n"}, "f0.ledger", None),
        ("include-dir", {"f0.ledger": "include sub\n", "sub/a.ledger": "; a\n"}, "f0.ledger", None),
        ("include-empty", {"f0.ledger": "include \n"}, "f0.ledger", None),
        ("include-abs", {"f0.ledger": "include /nonexistent/okane/verif/x.ledger\n"}, "f0.ledger", None),
        ("include-unicode", {"f0.ledger": "include 子/*.ledger\n", "子/é.ledger": "include ../f0.ledger\n"}, "f0.ledger", "cycle"),
        ("deep-chain", dict([("f%d.ledger" % i, "include f%d.ledger\n" % (i + 1)) for i in range(60)] + [("f60.ledger", "; end\n")]), "f0.ledger", "ok"),
        ("deep-cycle", dict([("f%d.ledger" % i, "include f%d.ledger\n" % ((i + 1) % 60)) for i in range(60)]), "f0.ledger", "cycle"),
        ("syntax-error-in-child", {"f0.ledger": "include a.ledger\n", "a.ledger": "2024/01/01 x\n  A  1 USD ==\n"}, "f0.ledger", None),
        ("non-utf8-child", {"f0.ledger": "include a.ledger\n", "a.ledger": None}, "f0.ledger", None),
        ("root-missing", {"x.ledger": "; x\n"}, "f0.ledger", None),
    ]
    cases.extend(sp)
    return cases


# ------------------------------------------------------------------------------------------------
# numeric edge cases

MAX96 = 79228162514264337593543950335


def numeric_cases(rng):
    """(name, ledger text, in_range) — in_range: every intermediate result fits 96 bits / 28 places."""
    out = []

    def txn(*posts):
        return "2024/01/01 n\n" + "".join("    %s\n" % p for p in posts)

    lits = ["0", "0.0", "-0", "0.0000000000000000000000000000", "1", "-1", str(MAX96), "-" + str(MAX96),
            "7922816251426433759354395033.5", "0.0000000000000000000000000001", "-0.0000000000000000000000000001",
            "7.9228162514264337593543950335", "79,228,162,514,264,337,593,543,950,335", "1,000,000.000000000000000000000",
            "4294967295", "4294967296", "18446744073709551615", "18446744073709551616", "0.5", ".5", "5.", "00012", "1,234", "12,345,678.90"]
    # literals that no decimal can hold (more than 28 places, 30 and more integral digits): rejected with a diagnostic
    lits += ["0.00000000000000000000000000001", "1.23456789012345678901234567890123", "0." + "0" * 40 + "1",
             "1" + "0" * 29, "9" * 30, "-" + "9" * 31 + ".5", "123456789012345678901234567890.12345678901234567890",
             "79228162514264337593543950336", "7.92281625142643375935439503351"]
    for i, l in enumerate(lits):
        out.append(("lit%d" % i, txn("A  %s USD" % l, "B"), True))
        out.append(("lit%d-bal" % i, txn("A  = %s USD" % l, "B"), True))
        out.append(("lit%d-cost" % i, txn("A  1 ACME @ %s USD" % l, "B"), True))
        out.append(("lit%d-fmt" % i, "commodity USD\n    format %s USD\n" % l + txn("A  1.005 USD", "B"), True))
    # sums / products that land exactly on or just below the limits
    half = MAX96 // 2
    out.append(("sum-max", txn("A  %d USD" % half, "A  %d USD" % (MAX96 - half), "B"), True))
    out.append(("prod-max", txn("A  (%d * 3 USD)" % (MAX96 // 3), "B"), True))
    out.append(("div-third", txn("A  (1 USD / 3)", "B"), True))
    out.append(("div-seventh", txn("A  (%d USD / 7)" % MAX96, "B"), True))
    out.append(("div-tiny", txn("A  (1 USD / 0.0000000000000000000000000001)", "B"), True))
    out.append(("div-zero", txn("A  (1 USD / 0)", "B"), True))
    out.append(("div-zero2", txn("A  (1 USD / (1 - 1))", "B"), True))
    out.append(("div-zero-amt", txn("A  (1 / 0 USD)", "B"), True))
    out.append(("zero-zero", txn("A  (0 USD / 0 USD)", "B"), True))
    out.append(("rate-zero", txn("A  0 USD @@ 5 EUR", "B  -5 EUR"), True))
    out.append(("rate-zero2", txn("A  10 USD @ 0 EUR", "B"), True))
    out.append(("pair-zero", txn("A  10 USD", "B  0 EUR"), True))
    out.append(("pair-same-sign", txn("A  10 USD", "B  5 EUR"), True))
    # every sign pattern of a two-commodity residual with a zero entry (the pair branch divides one by the other)
    for a, b in (("-10", "0"), ("0", "-10"), ("0", "10"), ("-10", "-0"), ("0.00", "-0.5"), ("-0", "0")):
        out.append(("pair-zero%s/%s" % (a, b), txn("A  %s USD" % a, "B  %s EUR" % b), True))
    out.append(("pair-cancel", txn("Cash  -10 USD", "Food  5.00 EUR", "Wallet  -5.00 EUR"), True))
    out.append(("pair-cancel2", txn("Cash  10 USD", "Food  -5.00 EUR", "Wallet  5.00 EUR"), True))
    out.append(("pair-round-zero", "commodity EUR\n    format 1.00 EUR\n" + txn("A  -10 USD", "B  0.004 EUR"), True))
    out.append(("pair-round-zero2", "commodity USD\n    format 1.00 USD\n" + txn("A  -0.004 USD", "B  -3 EUR"), True))
    out.append(("pair-tiny", txn("A  1 USD", "B  -0.0000000000000000000000000001 EUR"), True))
    out.append(("pair-third", txn("A  3 USD", "B  -1 EUR", "C  1 USD @ 0.3333333333333333333333333333 EUR", "D"), True))
    out.append(("round-half", "commodity USD\n    format 1.00 USD\n" + txn("A  0.005 USD", "B  -0.015 USD", "C  0.01 USD"), True))
    out.append(("neg-zero-assert", txn("A  -0 USD = -0 USD", "B"), True))
    out.append(("assert-zero-multi", txn("A  1 USD", "A  1 EUR", "A  -1 USD = 0", "B"), True))
    out.append(("nest", txn("A  %s" % nested(MAX_NEST), "B"), True))
    out.append(("nest-neg", txn("A  (%s1 USD%s)" % ("-(" * MAX_NEST, ")" * MAX_NEST), "B"), True))
    out.append(("long-sum", txn("A  (%s)" % " + ".join(["1 USD"] * 400), "B"), True))
    out.append(("long-prod", txn("A  (1 USD * %s)" % " * ".join(["1"] * 400), "B"), True))
    # date fields that do not fit a machine integer (transaction date, effective date, lot date)
    for nm, d in (("day", "2024/01/20240115093012"), ("year", "99999999999999999999/01/01"), ("month", "2024/99999999999/01"),
                  ("u32", "2024/01/4294967296"), ("i64", "2024-9223372036854775808-01"), ("zeros", "02024/001/0000000000001")):
        out.append(("date-overflow-" + nm, "%s Shop\n    A  1 USD\n    B\n" % d, True))
        out.append(("date-overflow-eff-" + nm, "2024/01/01=%s Shop\n    A  1 USD\n    B\n" % d, True))
        out.append(("date-overflow-lot-" + nm, txn("A  1 ACME {1 USD} [%s]" % d, "B"), True))
    out.append(("many-postings", "2024/01/01 many\n" + "".join("    A%d  1 USD\n" % i for i in range(500)) + "    B\n", True))
    out.append(("many-commodities", "2024/01/01 many\n" + "".join("    A  1 C%s\n" % "".join(chr(97 + (i // 26 ** k) % 26) for k in range(3)) for i in range(300)) + "    B\n", True))
    out.append(("long-account", txn("A%s  1 USD" % (":x" * 3000), "B"), True))
    out.append(("long-line", "; " + "é" * 20000 + "\n", True))
    # results that leave the representable range: recorded, not judged (outside the property's range clause)
    out.append(("over-sum", txn("A  %d USD" % MAX96, "A  %d USD" % MAX96, "B"), False))
    out.append(("over-prod", txn("A  (%d * 10 USD)" % MAX96, "B"), False))
    out.append(("over-rate", txn("A  %d ACME @ %d USD" % (MAX96, MAX96), "B"), False))
    out.append(("over-implied", txn("A  %d AAA" % MAX96, "B  -0.0000000000000000000000000001 BBB"), False))
    out.append(("over-div", txn("A  (%d USD / 0.1)" % MAX96, "B"), False))
    # an assigned amount whose difference to the balance does not fit: outside the range, but whatever happens is a diagnostic
    # or rust_decimal's own overflow panic - never another crash
    out.append(("over-assign", txn("A  -1 ZWL", "B") + "\n2024/01/02 reval\n    A  = %d ZWL\n    B\n" % MAX96, True))
    out.append(("over-assign2", txn("A  1 ZWL", "B") + "\n2024/01/02 reval\n    A  = -%d ZWL\n    B\n" % MAX96, True))
    return out


_OVERFLOW_MSG = re.compile(r"(Multiplication|Addition|Subtraction|Division)(%20| )overflowed")
_LONG_NUM = re.compile(r"(?:[0-9][,.]?){12,}")


def decimal_overflow(case_line, observed):
    """True iff the observation is rust_decimal's arithmetic-overflow panic AND the input carries a 12+ digit literal."""
    if not _OVERFLOW_MSG.search(observed):
        return False
    try:
        text = " ".join(dec(w.split("=", 1)[-1]) for w in case_line.split(" "))
    except Exception:
        text = case_line
    return bool(_LONG_NUM.search(text))


# ------------------------------------------------------------------------------------------------
# running the harness resiliently (a crash of hx itself is an observation, not a machinery failure)

def _run_one(binary, args, lines, timeout):
    """returns list of output lines, one per input line; a missing record becomes 'CRASH ...'."""
    out = []
    todo = list(lines)
    while todo:
        p = subprocess.run([binary] + list(args), input="".join(l + "\n" for l in todo), stdout=subprocess.PIPE,
                           stderr=subprocess.PIPE, text=True, timeout=timeout)
        got = p.stdout.splitlines()
        if p.returncode == 0 and len(got) == len(todo):
            out.extend(got)
            break
        # the process died: records up to the crashing case are valid
        got = got[:len(todo)]
        out.extend(got)
        k = len(got)
        if k >= len(todo):
            break
        ident = todo[k].split(" ", 1)[0]
        out.append("%s CRASH rc=%s stderr=%s" % (ident, p.returncode, enc(p.stderr[-400:])))
        todo = todo[k + 1:]
    return out


def run_resilient(binary, args, lines, shards=JOBS, timeout=1800):
    if not lines:
        return []
    if len(lines) < 32:
        return _run_one(binary, args, lines, timeout)
    k = (len(lines) + shards - 1) // shards
    chunks = [lines[i:i + k] for i in range(0, len(lines), k)]
    with ThreadPoolExecutor(max_workers=shards) as ex:
        outs = list(ex.map(lambda c: _run_one(binary, args, c, timeout), chunks))
    res = []
    for o in outs:
        res.extend(o)
    return res


def fields(rec):
    d = {}
    for w in rec.split(" ")[1:]:
        if "=" in w:
            k, v = w.split("=", 1)
            d[k] = v
    return d


def files_words(files, root, fake_prefix=None):
    ws = ["root=" + enc((fake_prefix or "") + root)]
    for p, c in files.items():
        if c is None:
            ws.append(enc((fake_prefix or "") + p) + "=%FF%FE%00%C3")
        else:
            ws.append(enc((fake_prefix or "") + p) + "=" + enc(c))
    return " ".join(ws)


def cmdspec(*argv):
    return ",".join(enc(a) for a in argv)


CLI_CMDS = {
    "format": ("format", "@"),
    "pformat": ("primitive", "format", "@"),
    "balance": ("balance", "@"),
    "balance-range": ("balance", "--start", "2024-01-02", "--end", "2024-06-01", "@"),
    "balance-x": ("balance", "-X", "USD", "--now", "2024-12-31", "@"),
    "balance-hist": ("balance", "-X", "USD", "--historical", "@"),
    "register": ("register", "@"),
    "register-acct": ("register", "@", "Assets:Bank"),
    "accounts": ("accounts", "@"),
    "flatten": ("primitive", "flatten", "@"),
    "eval": ("primitive", "eval", "--date", "2024-06-01", "-f", "@", "1 USD + 2 USD"),
    "eval-x": ("primitive", "eval", "--date", "2024-06-01", "-X", "USD", "-f", "@", "(1", "EUR", "*", "3)"),
}


class Runner:
    """collects cases for the three execution modes and judges them with the property oracle."""

    def __init__(self, chk):
        self.chk = chk
        self.inproc = []   # (id, stream, line, info)
        self.cli = []
        self.cmd = []
        self.n = 0

    def new_id(self, stream):
        self.n += 1
        return "%s%d" % (stream[:2], self.n)

    def add_inproc(self, stream, files_w, info):
        i = self.new_id(stream)
        self.inproc.append((i, stream, "%s %s" % (i, files_w), info))

    def add_cli(self, stream, cmdname, files_w, info, also_cmd=False, argv=None):
        i = self.new_id(stream)
        spec = cmdspec(*(argv or CLI_CMDS[cmdname]))
        self.cli.append((i, stream, "%s %s %s" % (i, spec, files_w), dict(info, cmd=cmdname)))
        if also_cmd:
            j = self.new_id(stream)
            self.cmd.append((j, stream, "%s %s %s" % (j, spec, files_w), dict(info, cmd=cmdname)))

    # --- execution
    def run(self):
        chk = self.chk
        t0 = time.time()
        workdir = os.path.join(WORK, "c06")
        os.makedirs(workdir, exist_ok=True)
        recs_in = run_resilient(HX, ["c06", "inproc", str(TIMEOUT_MS)], [c[2] for c in self.inproc])
        chk.log["inproc_s"] = round(time.time() - t0, 1)
        t0 = time.time()
        # the cli mode shards internally (threads spawning children)
        recs_cli = []
        lines = [c[2] for c in self.cli]
        for a in range(0, len(lines), 20000):
            recs_cli.extend(_run_one(HX, ["c06", "cli", OKANE, os.path.join(workdir, "cli"), str(TIMEOUT_MS), str(JOBS)],
                                     lines[a:a + 20000], 3600))
        chk.log["cli_s"] = round(time.time() - t0, 1)
        t0 = time.time()
        recs_cmd = []
        lines = [c[2] for c in self.cmd]
        if lines:
            k = (len(lines) + JOBS - 1) // JOBS
            chunks = [lines[i:i + k] for i in range(0, len(lines), k)]
            with ThreadPoolExecutor(max_workers=JOBS) as ex:
                outs = list(ex.map(lambda ic: _run_one(HX, ["c06", "cmd", os.path.join(workdir, "cmd%d" % ic[0]), str(TIMEOUT_MS)], ic[1], 3600),
                                   enumerate(chunks)))
            for o in outs:
                recs_cmd.extend(o)
        chk.log["cmd_s"] = round(time.time() - t0, 1)
        t0 = time.time()
        # model: outcome class of `process` on the delivered tree
        with_tree = [r for r in recs_in if " tree=" in r]
        model = {}
        if with_tree:
            from common import run_sharded
            for r in run_sharded(DRV, ["c06", "class"], with_tree, shards=JOBS):
                ws = r.split(" ")
                model[ws[0]] = ws[1] if len(ws) > 1 else "?"
        chk.log["model_s"] = round(time.time() - t0, 1)
        self.judge_inproc(recs_in, model)
        self.judge_cli(self.cli, recs_cli, "binary")
        self.judge_cli(self.cmd, recs_cmd, "cmd-inproc")

    # --- oracle
    def judge_inproc(self, recs, model):
        chk = self.chk
        for (i, stream, line, info), rec in zip(self.inproc, recs):
            chk.case((stream, line.split(" ", 1)[1]), nontrivial=info.get("nontrivial", True))
            chk.traces += 1
            chk.streams[stream + "/inproc"] = chk.streams.get(stream + "/inproc", 0) + 1
            f = fields(rec)
            if " CRASH " in rec or not rec.startswith(i + " "):
                chk.oracle_failures += 1
                chk.violation("the harness process running okane in-process died (abort / stack overflow / signal) on this input: " + rec[:200],
                              dict(info, stream=stream, mode="in-process", case=line, observed=rec,
                                   rerun="echo '%s' | %s c06 inproc" % (line, HX), expected="Ok or Err from every entry point"))
                continue
            bad = [k for k in ("parse", "format", "load", "accounts", "process")
                   if not (f.get(k, "").startswith("ok:") or f.get(k, "").startswith("err:"))]
            ms = int(f.get("ms", "0") or 0)
            for k in ("parse", "format", "load", "accounts", "process"):
                chk.count("inproc:%s=%s" % (k, f.get(k, "?").split(":")[0] + (":" + f.get(k, "").split(":")[1].split("/")[0]
                                                                                  if f.get(k, "").startswith("err:") else "")))
            if bad and not info.get("out_of_range"):
                chk.oracle_failures += 1
                chk.violation("okane %s in-process: %s" % ("/".join(bad), ", ".join("%s=%s" % (k, dec(f.get(k, "?"))[:160]) for k in bad)),
                              dict(info, stream=stream, mode="in-process", case=line, observed=rec,
                                   rerun="echo '%s' | %s c06 inproc" % (line, HX),
                                   expected="Ok or Err (no panic, no timeout) from parse, format, load, accounts, process"))
                continue
            if bad:
                chk.count("out-of-range:" + "/".join(bad))
                continue
            if ms > TIMEOUT_MS:
                chk.oracle_failures += 1
                chk.violation("in-process run took %d ms" % ms, dict(info, stream=stream, case=line, observed=rec))
                continue
            # consistency of the entry points on the root file (a diagnostic from one must be a diagnostic from all)
            p_ok = f["parse"].startswith("ok:")
            l_parse_err = f["load"].startswith("err:Parse")
            if p_ok != f["format"].startswith("ok:") or (info.get("single") and ((p_ok and l_parse_err) or (not p_ok and f["load"].startswith("ok:")))):
                chk.disagreements += 1
                chk.violation("entry points disagree on whether the text parses: " + rec[:200],
                              dict(info, stream=stream, case=line, observed=rec), no_failing_input=True, tag="corr")
                continue
            # model class
            m = model.get(i)
            if m and m.startswith("model="):
                m = m[6:]
                impl = f["process"]
                if m.startswith("panic") or m == "fuelOut":
                    chk.disagreements += 1
                    chk.violation("the model's process reaches %s although C06_process is proved" % m,
                                  dict(info, stream=stream, case=line, observed=rec, model=m), no_failing_input=True, tag="corr")
                elif m in ("undecodable",):
                    chk.count("model:undecodable")
                elif info.get("exact_numbers", True):
                    impl_class = "ok" if impl.startswith("ok:") else "err:" + impl.split("/")[-1]
                    model_class = "ok" if m == "ok" else "err:" + m.split(":")[-1]
                    if impl_class != model_class and not impl.startswith("err:Load"):
                        if "NumberOverflow" in impl or info.get("inexact") or "(bin div" in rec:
                            chk.count("model:out-of-range")
                            chk.inexact_cases.append({"case": decode_case_files(line, 1), "impl": impl, "model": m})
                        else:
                            chk.disagreements += 1
                            chk.violation("model and implementation disagree on the outcome class of process: impl %s, model %s" % (impl, m),
                                          dict(info, stream=stream, case=line, observed=rec, model=m), no_failing_input=True, tag="corr")
                    else:
                        chk.count("model:agree")

    def judge_cli(self, cases, recs, mode):
        chk = self.chk
        for (i, stream, line, info), rec in zip(cases, recs):
            chk.case((mode, stream, line.split(" ", 1)[1]), nontrivial=info.get("nontrivial", True))
            chk.traces += 1
            key = "%s/%s" % (stream, mode)
            chk.streams[key] = chk.streams.get(key, 0) + 1
            f = fields(rec)
            st = f.get("status", "CRASH" if " CRASH " in rec else "?")
            stderr = dec(f.get("err", "~")) if "err" in f else ""
            short = st
            if st.startswith("ok:"):
                short = "ok"
            elif st.startswith("err:") or st.startswith("panic:"):
                short = st.split("/")[0][:40]
            chk.count("%s:%s=%s" % (mode, info.get("cmd"), short))
            if mode == "binary":
                ok = st in ("exit:0", "exit:1")
                if st == "exit:1" and not stderr.strip():
                    ok = False   # an error exit must come with a message
                if "panicked at" in stderr or "overflowed its stack" in stderr:
                    ok = False
            else:
                ok = st.startswith("ok:") or st.startswith("err:")
            if ok and info.get("expect") == "cycle":
                # include cycles must end in the RecursiveInclude diagnostic
                if mode == "binary":
                    ok2 = st == "exit:1" and "included recursively" in stderr
                else:
                    ok2 = st.startswith("err:")
                if not ok2:
                    chk.oracle_failures += 1
                    chk.violation("include cycle not reported as an error (%s): %s" % (mode, rec[:160]),
                                  dict(info, stream=stream, mode=mode, case=line, observed=rec, expected="exit 1, `included recursively`"))
                    continue
            if ok and info.get("expect") == "ok" and not (st == "exit:0" or st.startswith("ok:")):
                chk.oracle_failures += 1
                chk.violation("acyclic include graph rejected (%s): %s" % (mode, rec[:300]),
                              dict(info, stream=stream, mode=mode, case=line, observed=rec, expected="exit 0"))
                continue
            if (ok and info.get("expect_valid") and info.get("cmd") not in ("balance-x", "balance-hist", "eval", "eval-x")
                    and not (st == "exit:0" or st.startswith("ok:"))):
                # a grammatical, balanced ledger must be accepted: generator or okane wrong — no crash though
                chk.count("generated-ledger-rejected")
                chk.rejected.append((line, rec))
            if ok:
                continue
            if info.get("out_of_range"):
                chk.count("out-of-range:%s:%s" % (mode, st))
                continue
            if decimal_overflow(line, st + " " + stderr):
                # rust_decimal's own overflow panic on an input carrying a literal of 12+ digits (random / mutated text):
                # the numbers left the representable range, which the property excludes; recorded, not judged
                chk.count("out-of-range(detected):%s" % mode)
                continue
            chk.oracle_failures += 1
            chk.violation("okane %s (%s): %s %s" % (info.get("cmd"), mode, st, stderr.strip().splitlines()[0][:160] if stderr.strip() else ""),
                          dict(info, stream=stream, mode=mode, case=line, observed=rec,
                               files=decode_case_files(line),
                               rerun=("echo '%s' | %s c06 cli %s /verif/work/c06/replay %d 1" % (line, HX, OKANE, TIMEOUT_MS)) if mode == "binary"
                               else "echo '%s' | %s c06 cmd /verif/work/c06/replay" % (line, HX),
                               expected="exit status 0 or 1 (with a message), no panic, no signal, within %d ms" % TIMEOUT_MS))


def decode_case_files(line, start=2):
    out = {}
    for w in line.split(" ")[start:]:
        if "=" in w:
            k, v = w.split("=", 1)
            out[dec(k) if k != "root" else "root"] = dec(v)
        else:
            out["main.ledger"] = dec(w)
    return out


def prefixes(text, step=1):
    """every prefix cut at a character boundary (Python strings are sequences of characters)."""
    return [text[:k] for k in range(0, len(text) + 1, step)]


# ------------------------------------------------------------------------------------------------

def replay_f9(chk):
    """known finding F9: deep parenthesis nesting overflows the stack of the (debug) binary."""
    f9 = [k for k in chk.known if k.get("id") == "F9"]
    depth = (f9[0].get("witness", {}).get("depth") if f9 else None) or 3000
    lines = []
    probes = [depth, 250, 500, 1000, 2000]
    for d in probes:
        text = "2024/01/01 x\n    A  %s\n    B\n" % nested(d)
        for c in ("format", "balance"):
            lines.append("f9-%d-%s %s %s" % (d, c, cmdspec(*CLI_CMDS[c]), enc(text)))
    recs = _run_one(HX, ["c06", "cli", OKANE, os.path.join(WORK, "c06", "f9"), str(TIMEOUT_MS), str(JOBS)], lines, 600)
    res = {}
    for l, r in zip(lines, recs):
        f = fields(r)
        res[l.split(" ")[0]] = (f.get("status", "?"), dec(f.get("err", "~")))
    failing = sorted(set(int(k.split("-")[1]) for k, (st, err) in res.items() if st not in ("exit:0", "exit:1")))
    chk.distribution["f9:depths_probed"] = probes
    chk.distribution["f9:depths_failing"] = failing
    st, err = res.get("f9-%d-format" % depth, ("?", ""))
    st2, err2 = res.get("f9-%d-balance" % depth, ("?", ""))
    if st.startswith("signal") or st2.startswith("signal") or "overflowed its stack" in err + err2:
        if f9:
            chk.known_finding("F9", "%d nested parentheses in an amount: okane format -> %s, okane balance -> %s (%s); smallest failing probed depth %s"
                              % (depth, st, st2, (err + err2).strip().splitlines()[-1][:80] if (err + err2).strip() else "", failing[0] if failing else "-"))
        else:
            chk.oracle_failures += 1
            chk.violation("stack overflow on %d nested parentheses and no known finding F9 recorded" % depth,
                          {"depth": depth, "observed": [st, st2], "rerun": "python3 -c \"print('2024/01/01 x\\n    A  '+'('*%d+'1 USD'+')'*%d+'\\n    B')\" > /tmp/d.ledger; okane format /tmp/d.ledger" % (depth, depth)})
    else:
        chk.count("f9:witness-no-longer-fails")
    return failing


def snapshot_binaries(chk):
    """other checks may rebuild hx / okane while this one runs: work on private copies taken right after our own build."""
    import shutil
    global HX, OKANE
    import common
    d = os.path.join(WORK, chk.pid.lower(), "bin")
    os.makedirs(d, exist_ok=True)
    with common.Lock(".cargo.lock"):
        for name in ("hx", "okane"):
            src = os.path.join(common.TARGET, "debug", name)
            dst = os.path.join(d, name)
            tmp = dst + ".tmp%d" % os.getpid()
            shutil.copy2(src, tmp)
            os.replace(tmp, dst)
    HX = os.path.join(d, "hx")
    OKANE = os.path.join(d, "okane")
    return HX, OKANE


def run(chk):
    chk.rule = ("streams: (1) every prefix, cut at every character, of the 10 corpus ledgers (all syntax constructs, CRLF, multi-byte text, no "
                "trailing newline) and of generated grammatical ledgers; (2) random strings over ledger tokens and arbitrary Unicode, and "
                "valid ledgers with random token/char insertions, deletions, line swaps; (3) include graphs: all graphs on 1-2 files, sampled "
                "(quick) / all 512 (thorough) graphs on 3 files, glob/self/.. /diamond/60-file chains and cycles, missing and non-UTF-8 "
                "targets, on the FakeFileSystem and on real files; (4) generated grammatical ledgers through 12 command lines; (5) numeric "
                "edge literals and results at the limits of the 96-bit/28-place range; (6) price-db files (every prefix of a valid one, edge "
                "rates, random and mutated text) through balance/eval --price-db, and valid / malformed expressions given to primitive eval. Each case runs in-process (parse with both decorations, "
                "format, load, accounts, process + balance/register queries) and/or as a child process of the real binary. A case is "
                "distinct by (stream, mode, command, input); non-trivial unless it is the empty text.")
    chk.assumptions = [
        "C06 is PARTIAL at the proof level: parser / printer totality (C06_parse, C06_format) is stated but not proved; it rests on the "
        "prefix / random / mutation streams",
        "wall-clock promptness, real stack depth and panics inside third-party crates are observed by the harness (10 s timeout, "
        "catch_unwind, child exit status), no theorem covers them",
        "the model's numbers are exact rationals: rust_decimal results beyond 96 bits / 28 places (where rust_decimal panics) are outside "
        "the property's range clause and outside the model",
    ]
    chk.rejected = []
    chk.inexact_cases = []
    if not standard_prologue(chk, THEOREMS):
        return
    snapshot_binaries(chk)
    rng = chk.rng
    quick = chk.tier == "quick"
    R = Runner(chk)

    # known finding first: also tells whether the generators' nesting bound is safe
    failing = replay_f9(chk)
    if failing and failing[0] <= MAX_NEST * 4:
        chk.violation("stack overflow already at nesting depth %d" % failing[0], {"depths_failing": failing})

    # --- (1) prefixes
    corpus_dir = os.path.join(VERIF, "corpus", "C06")
    texts = []
    for fn in sorted(os.listdir(corpus_dir)):
        if fn.endswith(".ledger"):
            texts.append(("corpus:" + fn, open(os.path.join(corpus_dir, fn), newline="").read()))
    n_gen = 40 if quick else 1500
    for k in range(n_gen):
        texts.append(("gen:%d" % k, gen_ledger(rng, rng.randint(1, 4) if quick else rng.randint(1, 6))))
    n_cli_full = len([t for t in texts if t[0].startswith("corpus")]) + (10 if quick else 150)
    for ti, (name, text) in enumerate(texts):
        ps = prefixes(text)
        for k, p in enumerate(ps):
            info = {"source": name, "cut": k, "single": True, "nontrivial": k > 0}
            R.add_inproc("prefix", enc(p), info)
            if ti < n_cli_full:
                R.add_cli("prefix", "format", enc(p), info)
                R.add_cli("prefix", "balance", enc(p), info)
                third = ["register", "accounts", "flatten", "eval", "balance-range", "balance-x"][k % 6]
                R.add_cli("prefix", third, enc(p), info)
        chk.count("prefix:texts")
        chk.count("prefix:chars", len(text))

    # --- (2) random and mutated text
    n_rand = 2000 if quick else 100000
    for k in range(n_rand):
        t = gen_random_text(rng)
        info = {"single": True, "nontrivial": bool(t)}
        R.add_inproc("random", enc(t), info)
        if k % (1 if quick else 10) == 0:
            R.add_cli("random", rng.choice(["format", "balance", "register", "accounts", "flatten"]), enc(t), info)
    n_mut = 1500 if quick else 40000
    base = [t for _, t in texts[:60]]
    for k in range(n_mut):
        t = mutate(rng, rng.choice(base))
        info = {"single": True}
        R.add_inproc("mutated", enc(t), info)
        if k % (2 if quick else 10) == 0:
            R.add_cli("mutated", rng.choice(["format", "balance", "register", "accounts", "eval"]), enc(t), info)

    # --- (3) include graphs, fake and real file system
    for name, files, root, expect in include_graph_cases(rng, chk.tier):
        info = {"graph": name, "expect": expect}
        if all(v is not None for v in files.values()) or True:
            R.add_inproc("include", files_words(files, root, fake_prefix="/r/"), dict(info, fake=True))
        for c in ("balance", "accounts", "flatten", "format"):
            inf = dict(info)
            if c == "format":
                inf["expect"] = None     # format does not follow includes
            R.add_cli("include", c, files_words(files, root), inf, also_cmd=(c != "format"))
    # symlink shapes are set up by the python side (real file system only)
    sym_violations = symlink_cases(chk)

    # --- (4) grammatical ledgers through every command
    n_gram = 150 if quick else 3000
    for k in range(n_gram):
        t = gen_ledger(rng, rng.randint(2, 9))
        info = {"single": True, "expect_valid": True}
        R.add_inproc("grammatical", enc(t), dict(info, inexact=False))
        for c in CLI_CMDS:
            R.add_cli("grammatical", c, enc(t), info, also_cmd=(k % 5 == 0))

    # --- (4b) the book-keeping generator of C01-C04 (all flavors, the rejected ones included): no expectation but "no crash"
    from ledgergen import Gen
    bg = Gen(rng)
    for k in range(400 if quick else 8000):
        t, _meta = bg.ledger()
        R.add_inproc("bookgen", enc(t), {"single": True, "inexact": True})
        if k % (8 if quick else 40) == 0:
            R.add_cli("bookgen", rng.choice(["balance", "register"]), enc(t), {"single": True})

    # --- (5) numeric edge cases
    for name, text, in_range in numeric_cases(rng):
        info = {"numeric": name, "single": True, "out_of_range": not in_range, "inexact": True}
        R.add_inproc("numeric", enc(text), info)
        for c in ("format", "balance", "register", "balance-range", "eval"):
            R.add_cli("numeric", c, enc(text), info, also_cmd=True)

    # --- (6) price database files (balance --price-db) and expressions given on the command line (primitive eval)
    small = "2024/01/01 x\n    A  10 EUR\n    B\n\n2024/02/01 y\n    A  1 ACME @ 3 USD\n    B\n"
    pdb_valid = "P 2024/01/01 EUR 1.1 USD\nP 2024/03/01 EUR 1.2 USD\n\nP 2024-02-01 ACME 2,000.5 EUR\nP 2024/01/01 USD 0.9 EUR\n"
    pdbs = prefixes(pdb_valid) + ["P 2024/01/01 AAA 0 BBB\n", "P 2024/01/01 EUR 0 USD\n", "P 2024/01/01 EUR 1 EUR\n", "P 2024/01/01 EUR -1 USD\n",
                                  "P 2024/01/01 EUR 1.1 USD", "P 2024/01/01 EUR (1 USD)\n", "P 2024/13/01 EUR 1 USD\n", "P 2024/01/99999999999 EUR 1 USD\n",
                                  "P 99999999999999999999/01/01 EUR 1 USD\n", "P 2024/4294967296/01 EUR 1 USD\n", "\r\n\r\nP 2024/01/01 EUR 1.1 USD\r\n",
                                  "P 2024/01/01 EUR %d USD\n" % MAX96, "P 2024/01/01 EUR 0.0000000000000000000000000001 USD\n", "; comment\n",
                                  "P 2024/01/01 日本 1 円\n", "P  2024/01/01  EUR  1.1  USD\n", "P 2024/01/01 EUR 1.1 USD\n" * 300]
    pdbs += [gen_random_text(rng) for _ in range(150 if quick else 3000)]
    pdbs += [mutate(rng, pdb_valid) for _ in range(150 if quick else 3000)]
    # 10 EUR x MAX96 USD/EUR leaves the representable range (rust_decimal panics "Multiplication overflowed"):
    # outside the property's range clause, recorded and not judged
    pdb_over = {"P 2024/01/01 EUR %d USD\n" % MAX96}
    for t in pdbs:
        fw = "root=main.ledger main.ledger=%s prices.db=%s" % (enc(small), enc(t))
        for nm, argv in (("pdb-balance-x", ("balance", "--price-db", "@/prices.db", "-X", "USD", "--now", "2024-12-31", "@")),
                         ("pdb-balance-hist", ("balance", "--price-db", "@/prices.db", "-X", "EUR", "--historical", "@")),
                         ("pdb-eval-x", ("primitive", "eval", "--price-db", "@/prices.db", "--date", "2024-06-01", "-X", "USD", "-f", "@", "1 ACME"))):
            R.add_cli("pricedb", nm, fw, {"nontrivial": bool(t), "out_of_range": t in pdb_over}, also_cmd=True, argv=argv)
    exprs = ["1 USD + 2 USD", "(1 EUR * 3)", "1 +", ")", "((", "1 USD / 0", "1 / 0", "10 EUR", "ACME", "1 ACME", "-", "--1", "1,23", "",
             nested(MAX_NEST), "1 USD " * 50, "1 日本", "(1 USD + 2 EUR) * 2", "1 USD * 1 USD", "0 / 0", str(MAX96) + " USD", "1 USD;"]
    exprs += ["".join(rng.choice(["1", "2.5", " ", "(", ")", "+", "-", "*", "/", "USD", "EUR", "ACME", ",", "."]) for _ in range(rng.randint(1, 12)))
              for _ in range(200 if quick else 5000)]
    for e in exprs:
        for x in (None, "USD"):
            argv = ("primitive", "eval", "--date", "2024-06-01") + (("-X", x) if x else ()) + ("-f", "@", "--", e)
            R.add_cli("eval-expr", "eval-expr", enc(small), {"expr": e, "nontrivial": bool(e.strip())}, also_cmd=True, argv=argv)

    R.run()
    for c in chk.inexact_cases[:2]:
        chk.sample(dict(c, note="model (exact rationals) and rust_decimal differ on this input; not judged"))
    for line, rec in chk.rejected[:3]:
        chk.sample({"generated_ledger_rejected": decode_case_files(line), "observed": dec(fields(rec).get("err", "~"))[:400]})
    if chk.rejected and len(chk.rejected) > 0:
        # a grammatical ledger of the generator that okane rejects: not a crash; visible in the evidence
        chk.distribution["generated-ledger-rejected-examples"] = len(chk.rejected)
    for c in (R.inproc[:1] + R.inproc[len(R.inproc) // 2:len(R.inproc) // 2 + 1]):
        chk.sample({"stream": c[1], "mode": "in-process", "case": c[2][:300]})
    for c in (R.cli[len(R.cli) // 3:len(R.cli) // 3 + 1] + R.cli[-1:]):
        chk.sample({"stream": c[1], "mode": "binary", "cmd": c[3].get("cmd"), "case": c[2][:300]})


def symlink_cases(chk):
    """real-file-system shapes that the case protocol cannot express: symlinks (file loop, directory loop, link to self)."""
    base = os.path.join(WORK, "c06", "sym")
    subprocess.run(["rm", "-rf", base])
    os.makedirs(base, exist_ok=True)
    shapes = []
    # 1: include of a symlink that points back to the including file
    d = os.path.join(base, "s1")
    os.makedirs(d)
    open(os.path.join(d, "main.ledger"), "w").write("include link.ledger\n")
    os.symlink("main.ledger", os.path.join(d, "link.ledger"))
    shapes.append(("symlink-to-self", d, "cycle"))
    # 2: dangling symlink loop a -> b -> a
    d = os.path.join(base, "s2")
    os.makedirs(d)
    open(os.path.join(d, "main.ledger"), "w").write("include a.ledger\n")
    os.symlink("b.ledger", os.path.join(d, "a.ledger"))
    os.symlink("a.ledger", os.path.join(d, "b.ledger"))
    shapes.append(("symlink-loop", d, None))
    # 3: directory symlink cycle with a recursive glob
    d = os.path.join(base, "s3")
    os.makedirs(os.path.join(d, "sub"))
    open(os.path.join(d, "main.ledger"), "w").write("include **/*.ledger\n")
    open(os.path.join(d, "sub", "x.ledger"), "w").write("2024/01/01 x\n  A  1 USD\n  B\n")
    os.symlink("..", os.path.join(d, "sub", "up"))
    shapes.append(("dir-symlink-cycle-glob", d, None))
    # 4: the root itself is a directory / unreadable
    d = os.path.join(base, "s4")
    os.makedirs(os.path.join(d, "main.ledger"))
    shapes.append(("root-is-directory", d, None))
    n = 0
    for name, d, expect in shapes:
        for c in ("balance", "accounts", "flatten", "format"):
            argv = [a if a != "@" else os.path.join(d, "main.ledger") for a in CLI_CMDS[c]]
            t0 = time.time()
            try:
                p = subprocess.run([OKANE] + argv, stdout=subprocess.PIPE, stderr=subprocess.PIPE, timeout=TIMEOUT_MS / 1000.0)
                st, err = p.returncode, p.stderr.decode("utf-8", "replace")
            except subprocess.TimeoutExpired:
                st, err = "timeout", ""
            chk.case(("symlink", name, c))
            chk.traces += 1
            chk.streams["include/symlink"] = chk.streams.get("include/symlink", 0) + 1
            chk.count("binary:%s=%s" % (c, "exit:%s" % st))
            ok = st in (0, 1) and "panicked at" not in err and (st == 0 or err.strip())
            if ok and expect == "cycle" and c != "format" and not (st == 1 and "included recursively" in err):
                ok = False
            if not ok:
                n += 1
                chk.oracle_failures += 1
                chk.violation("okane %s on symlink shape %s: status %s %s" % (c, name, st, err.strip()[:200]),
                              {"shape": name, "dir": d, "cmd": argv, "status": st, "stderr": err[:2000], "wall_s": time.time() - t0,
                               "rerun": " ".join([OKANE] + argv)})
    return n
