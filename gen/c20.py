"""C20 — the golden-file helper compares faithfully and only writes when told to."""
import itertools

from common import standard_prologue, run_hx, run_drv, enc, dec

CLAIM = {
    "technique": "Lean 4 theorems about a model of Golden::new/assert (world = file x env var x whether the path can be written) + exhaustive cross-product correspondence against the real okane_golden crate",
    "text": ("Proof: the golden helper is modelled as pure functions over a world (file content - text, not UTF-8, or a directory -, "
             "whether the path can be written, UPDATE_GOLDEN value at new-time and at assert-time); theorems C20_compare / C20_readonly / "
             "C20_missing / C20_update / C20_env state the property for all contents, all `got` strings and all environment values; "
             "C20_update_pass_only_if_written (with UPDATE_GOLDEN set the helper never reports success unless the file then holds exactly "
             "`got`), C20_update_unwritable (a write that cannot happen makes the assertion fail and changes nothing) and C20_directory "
             "cover the worlds in which std::fs::write fails. The model is tied to golden/src/lib.rs "
             "by running the real crate in a scratch directory on the full cross product of file states x got strings x "
             "environment states and diffing verdict, file bytes and mtime against the model; the property's statement is "
             "also evaluated directly on the real code's behaviour."),
    "note": "std::fs / std::env behaviour and UTF-8 decoding are modelled, not verified; whether fs::write can succeed is a parameter of the world (missing parent directory and directory paths are exercised on the real file system, permission bits are not: the checks run as root).",
    "design_ref": "DESIGN.md section 6, C20",
}

THEOREMS = ["Okane.Golden.C20_env", "Okane.Golden.C20_compare", "Okane.Golden.C20_readonly",
            "Okane.Golden.C20_missing", "Okane.Golden.C20_update", "Okane.Golden.C20_update_missing",
            "Okane.Golden.C20_update_pass_only_if_written", "Okane.Golden.C20_update_unwritable", "Okane.Golden.C20_directory",
            "Okane.Golden.crlfToLf_no_crlf_id"]

FILES = [None, b"", b"abc\n", b"abc\r\ndef\r\n", b"a\r\nb\nc\r", b"abc", "日本語\nñ\n".encode(), b"\r\n\r\n", b"\r\r\n", b"\xff\xfe\x00\xc3",
         # mixed line ends: LF first, CRLF later (and the other way round)
         b"a\nb\r\n", b"\nab\r\n", b"a\nb\r\nc\nd\r\n",
         # a byte-order mark is a character of the golden like any other (first or inside)
         "\ufeffabc\n".encode(), "\ufeffabc\r\ndef\r\n".encode(), "ab\ufeffc\n".encode()]
GOTS = ["", "abc\n", "abc\ndef\n", "abc\r\ndef\r\n", "a\nb\nc\r", "abc", "日本語\nñ\n", "\n\n", "abc\n\n", "abd\n", "\r\n", " abc\n", "a\nb\n", "a\nb\r\n", "\nab\n", "a\nb\nc\nd\n",
        "\ufeffabc\n", "\ufeffabc\ndef\n", "ab\ufeffc\n"]
ENVS = ["u", "s:~", "s:1", "s:0", "i", "s:" + enc("yes please")]


NODIR = "d"        # the golden path lies below a directory that does not exist: absent, and std::fs::write cannot create it
ISDIR = "D"        # the golden path names a directory


def file_tok(f):
    if f is None:
        return "-"
    if f in (NODIR, ISDIR):
        return f
    try:
        f.decode("utf-8")
    except UnicodeDecodeError:
        return "b"
    return "t:" + enc(f)


def is_update(env):
    return env.startswith("s:") and env != "s:~"


def oracle(f, env1, env2, got, rec):
    """The property's statement, evaluated on what the real code did. Returns None or a message."""
    kv = dict(x.split("=", 1) for x in rec.split(" ") if "=" in x)
    if kv.get("new") == "panic":
        return "Golden::new panicked"
    text = None
    if f == ISDIR:
        # a directory can neither be read nor replaced: Golden::new must fail and nothing may change
        ok = kv.get("new") not in ("ok", None) and kv.get("wrote") == "0" and kv.get("file") == "D"
        return None if ok else "a golden path that names a directory must be an error that changes nothing: " + rec
    if f == NODIR:
        if not is_update(env1):
            ok = kv.get("new") == "notFound" and kv.get("wrote") == "0"
            return None if ok else "missing file (missing directory) without UPDATE_GOLDEN must be a NotFound error and write nothing: " + rec
        if kv.get("new") != "ok":
            return "Golden::new failed on a missing golden although UPDATE_GOLDEN is set: " + rec
        if is_update(env2):
            # the file cannot be made to contain `got`: reporting success would be a lie
            if kv.get("assert") == "pass" and kv.get("file") != "t:" + enc(got):
                return "UPDATE_GOLDEN set, assert succeeded, but the file does not contain `got` afterwards (the write failed): " + rec
            return None
        if kv.get("wrote") != "0" or kv.get("file") != "-":
            return "file created although UPDATE_GOLDEN is not set: " + rec
        want = "pass" if got == "" else "panic"
        return None if kv.get("assert") == want else "assert verdict %s against the empty content, expected %s" % (kv.get("assert"), want)
    if f is not None:
        try:
            text = f.decode("utf-8")
        except UnicodeDecodeError:
            text = None
    if kv.get("new") != "ok":
        # a missing golden file is an error unless UPDATE_GOLDEN is set; an unreadable one is always an error
        if f is None and not is_update(env1):
            ok = kv.get("new") == "notFound" and kv.get("wrote") == "0"
            return None if ok else "missing file without UPDATE_GOLDEN must be a NotFound error and write nothing: " + rec
        if f is not None and text is None:
            return None if kv.get("wrote") == "0" else "wrote while failing on unreadable file"
        return "Golden::new failed on a readable / creatable golden: " + rec
    if f is None and not is_update(env1):
        return "missing golden file accepted without UPDATE_GOLDEN: " + rec
    if is_update(env2):
        if kv.get("assert") != "pass":
            return "UPDATE_GOLDEN set but assert failed"
        if kv.get("file") != "t:" + enc(got):
            return "UPDATE_GOLDEN set but file afterwards is not exactly `got`: " + rec
        return None
    # not updating: never writes; passes iff got == content with CRLF -> LF
    if kv.get("wrote") != "0":
        return "file created/modified although UPDATE_GOLDEN is not set (non-empty): " + rec
    if kv.get("file") != file_tok(f):
        return "file content changed although UPDATE_GOLDEN is not set: " + rec
    content = (text or "").replace("\r\n", "\n")
    want = "pass" if got == content else "panic"
    if kv.get("assert") != want:
        return "assert verdict %s but got %s content-with-LF: expected %s" % (kv.get("assert"), "==" if got == content else "!=", want)
    return None


def run(chk):
    chk.rule = ("full cross product of golden-file states x `got` strings x UPDATE_GOLDEN states at Golden::new and at "
                "assert time (+ random strings over {a, b, CR, LF, CRLF, e-acute, blank}: 600 quick, 5000 thorough); a case is non-trivial when the file exists or "
                "UPDATE_GOLDEN is set; distinct = distinct (file, env, env, got) tuples")
    chk.assumptions = ["whether std::fs::write can succeed is a parameter of the modelled world (exercised: parent directory missing, path is a "
                       "directory; permission bits are not, the checks run as root); UTF-8 decoding and the environment are the OS/std library's"]
    if not standard_prologue(chk, THEOREMS):
        return
    cases = []
    for i, (f, e1, e2, g) in enumerate(itertools.product(FILES + [NODIR, ISDIR], ENVS, ENVS, GOTS)):
        if e1 != e2 and chk.tier == "quick" and (i % 4):
            continue
        cases.append((f, e1, e2, g))
    if True:
        alphabet = ["a", "b", "\r", "\n", "\r\n", "é", " ", "\ufeff"]
        for _ in range(5000 if chk.tier == "thorough" else 600):
            s = "".join(chk.rng.choice(alphabet) for _ in range(chk.rng.randint(0, 8)))
            t = s if chk.rng.random() < 0.5 else s.replace("\r\n", "\n")
            if chk.rng.random() < 0.2:
                t = "".join(chk.rng.choice(alphabet) for _ in range(chk.rng.randint(0, 8)))
            cases.append((s.encode(), chk.rng.choice(ENVS), chk.rng.choice(ENVS), t))
    lines = ["%s %s %s %s" % (file_tok(f), e1, e2, enc(g)) for f, e1, e2, g in cases]
    impl = run_hx(["c20"], lines)
    model = run_drv(["c20"], lines)
    chk.streams["golden"] = len(lines)
    for (f, e1, e2, g), line, a, b in zip(cases, lines, impl, model):
        chk.case(line, nontrivial=(f is not None or is_update(e1) or is_update(e2)))
        chk.traces += 1
        chk.count("file=" + ("absent" if f is None else "absent-unwritable" if f == NODIR else "directory" if f == ISDIR else
                             "binary" if file_tok(f) == "b" else "text"))
        chk.count("update_at_assert=%s" % is_update(e2))
        chk.count("impl:" + " ".join(a.split(" ")[:2]))
        msg = oracle(f, e1, e2, g, a)
        if msg:
            chk.oracle_failures += 1
            chk.violation("golden helper breaks C20: " + msg,
                          {"case": line, "file_bytes": None if f is None else f if isinstance(f, str) else list(f), "env_at_new": e1, "env_at_assert": e2,
                           "got": g, "observed": a, "model": b,
                           "rerun": "echo '%s' | /verif/work/target/debug/hx c20" % line})
        elif a != b:
            chk.disagreements += 1
            chk.violation("model and implementation of the golden helper disagree (property oracle holds on this input)",
                          {"stream": "c20 golden", "case": line, "impl": a, "model": b}, no_failing_input=True, tag="corr")
    chk.sample({"case": lines[7], "impl": impl[7], "model": model[7]})
    chk.sample({"case": lines[len(lines) // 2], "impl": impl[len(lines) // 2], "model": model[len(lines) // 2]})
