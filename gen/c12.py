"""C12 — aliases are transparent; alias conflicts are rejected."""
import itertools
import json
import re
import os

from common import standard_prologue, run_sharded, enc, dec, HX, DRV, VERIF
import lg1112
from c11 import parse_fields, split_top

CLAIM = {
    "technique": ("Lean 4 theorems about the model of InternStore / ProcessAccumulator::process (congruence of every evaluation "
                  "step under respelling of names, monotonicity of the stores) + metamorphic differential check on the real "
                  "report::process / Ledger::balance / Ledger::postings and the real okane binary"),
    "text": ("Proof: C12_resolve (an alias resolves to its canonical; `ensure` creates no record), C12_step (processing a "
             "transaction whose account/commodity names are respelt, at any subset of occurrences - posting accounts, amounts, "
             "costs, lot prices, balance assertions -, through names the context resolves to the same canonical gives the very "
             "same result), C12_transparent / C12_transparent_declared / C12_transparent_decl (hence for whole ledgers: after "
             "`account k`/`commodity k` declarations with `alias a` sub-directives, writing the aliases at any subset of the later "
             "occurrences leaves `process` unchanged - same transactions, balances, price events, or the same error at the same "
             "entry), C12_canonical_accounts (every account name in the resulting balance and transactions is a canonical record, "
             "never an alias key), C12_conflict / C12_conflict_process / C12_conflict_commodity(_alias) (alias of a canonical "
             "name, canonical name that is an alias, alias of a second canonical (F21, fixed): error, process fails at exactly "
             "that entry), C12_use_makes_canonical / C12_use_before_declare (a name used before its alias declaration has become "
             "canonical, so the declaration is rejected). Correspondence every run: generated accepted ledgers with account and "
             "commodity declarations (several aliases each, re-declarations, formats) in all orders relative to first use; the "
             "same ledger with canonical spelling everywhere vs. aliases at random (thorough: all) subsets of the eligible "
             "occurrences; transactions, balance and register of the real code compared between the two and against the model; "
             "reported names checked canonical; a rejected stream (ten conflict shapes at random positions) must fail at the "
             "declaring entry with InvalidAccount/InvalidCommodity; `okane balance` / `okane register` run on both. TEXT level "
             "(Lemmas/BookText4,6 + Props/C12Text: parser MODEL composed with `process`, no parser hypothesis): C12_text_transparent "
             "(two texts whose parsed entries are a common part holding the alias declarations followed by entries that differ only "
             "by aliases written for canonical names, at any subset of the occurrences, denote the same ledger: same process "
             "result, accepted together), C12_text_transparent_at (one posting line, one token; substitution substAccountAt defined "
             "on the parsed tree, substEntries_at), and the replacement AS TEXT in the layout `format` writes: "
             "formatEntries_replace_account (for a display-width function giving both names the same width, e.g. a constant one, "
             "the two formatted texts are literally L ++ alias ++ R and L ++ canonical ++ R) and C12_text_token (these two texts "
             "parse to the two trees - C05 round trip - and denote the same ledger); for EVERY text t with ASCII white space only that "
             "parses (C05's image theorem): process_canon (book-keeping does not see the number normalisation of `format`), "
             "format_denotes_same (format w t parses and denotes the same ledger as t) and C12_text_format_token (format w t = "
             "L ++ alias ++ R; the text L ++ canonical ++ R parses, gives the same process result as t and is accepted iff t is). "
             "C12_text_conflict / _store / _canonical / "
             "_used / _commodity: a text that declares a conflicting alias (alias of two accounts, alias of a declared canonical "
             "name, alias of a name an earlier transaction used, commodity name that is an alias) is rejected at that "
             "declaration: process = err (k, InvalidAccount / InvalidCommodity), text not accepted. NOT proved: the textual token "
             "replacement in an arbitrary hand-written layout WITHOUT re-formatting (needs a locality theorem for the whole parser; for two given "
             "hand-written texts the parser hypotheses of C12_text_transparent_at are closed, kernel-evaluable facts, see "
             "Props/C12Text.lean); equality of the parser model with the Rust parser (correspondence-checked by C05/C06/C14)."),
    "note": ("`okane register <file> <account>` with an alias as the command-line argument selects nothing (the filter compares "
             "canonical names): outside C12's statement (which is about names written in the ledger), not checked. C12_canonical "
             "is proved for accounts; for commodities it is checked on every run (driver: every reported commodity is a "
             "canonical record of the model's final context) but not yet proved through the amount arithmetic."),
    "design_ref": "DESIGN.md section 6, C12",
}

NS = "Okane."
THEOREMS = [NS + t for t in [
    "C12_resolve", "C12_resolve_canonical", "C12_resolve_same", "C12_step", "C12_transparent", "C12_transparent_declared",
    "C12_transparent_decl", "C12_conflict", "C12_conflict_process", "C12_conflict_commodity", "C12_conflict_commodity_alias",
    "C12_use_makes_canonical", "C12_use_before_declare", "C12_canonical_accounts", "stepEntry_le", "declared_after"]] + [
    # text level (Lemmas/BookText4; audited through Props/C12Text.lean)
    "Okane.BookText." + t for t in [
        "C12_text_transparent", "C12_text_transparent_at", "substEntries_at", "formatEntries_replace_account",
        "wf_substAccountAt", "C12_text_token", "C12_text_conflict_store", "C12_text_conflict", "C12_text_conflict_canonical",
        "C12_text_conflict_used", "C12_text_conflict_commodity", "text_reject_at",
        "process_canon", "format_denotes_same", "C12_text_format_token"]] + [
    "Okane.C12Text.parse_textAlias", "Okane.C12Text.parse_textCanonB", "Okane.C12Text.parse_textConflict"]
EXTRA_IMPORTS = ["Okane.Props.C12Text"]

ALL_ALIASES = sorted({a for v in lg1112.ACCOUNT_ALIASES.values() for a in v} | {a for v in lg1112.COMMODITY_ALIASES.values() for a in v})


def all_names(entries):
    out = []
    for e in entries:
        out.extend(e.names())
    return out


def canonical_text(entries):
    names = all_names(entries)
    saved = [n.written for n in names]
    for n in names:
        n.written = n.canonical
    text = lg1112.render(entries)
    for n, w in zip(names, saved):
        n.written = w
    return text


def make_pair(rng, p_decl=0.35, n=None):
    # most pairs should really use an alias somewhere: retry a few times (a share of alias-free ledgers is kept)
    for attempt in range(6):
        g = lg1112.Gen(rng, n_entries=n, use_aliases=True, p_decl=p_decl)
        entries = g.generate()
        if any(nm.written != nm.canonical for nm in all_names(entries)) or rng.random() < 0.08:
            break
    return g, entries, canonical_text(entries), lg1112.render(entries)


def fresh_alias(g, kind, canonical, k):
    table = lg1112.ACCOUNT_ALIASES if kind == "a" else lg1112.COMMODITY_ALIASES
    for a in table[canonical]:
        if a not in g.decl[kind]:
            return a
    return ("Tmp:Alias %d" % k) if kind == "a" else ("TMP%s" % "abcdefghij"[k % 10])


REJECT_KINDS = ["alias-is-declared-canonical", "alias-used-before", "canonical-is-alias", "alias-of-two", "alias-is-self",
                "c-alias-is-declared-canonical", "c-alias-used-before", "c-canonical-is-alias", "c-alias-of-two", "c-alias-is-self"]


def make_reject(rng, kind, k):
    """an accepted prefix followed by a declaration the property says must be rejected; returns (text, idx, kind, inner)."""
    g = lg1112.Gen(rng, n_entries=rng.randint(0, 5), use_aliases=True)
    g.n = max(g.n, 0)
    entries = g.generate() if g.n > 0 else []
    E = lg1112.Entry
    com = kind.startswith("c-")
    kd = "c" if com else "a"
    pool = lg1112.COMMODITIES if com else lg1112.ACCOUNTS
    word = "commodity" if com else "account"
    x, y = rng.sample(pool, 2)
    a = fresh_alias(g, kd, x, k)
    extra = []
    base = kind[2:] if com else kind
    txn_using = lambda nm: E("comment", body="placeholder")

    def txn_with_account(nm):
        return "2024/12/28 use\n    %s    1 USD\n    Equity:Opening\n" % nm

    def txn_with_commodity(nm):
        return "2024/12/28 use\n    Assets:Cash    1 %s\n    Equity:Opening\n" % nm

    texts = [e.text() for e in entries]

    def decl(name, bad_alias=None):
        """the declaration that must be rejected: the conflicting alias line (if any) may stand first, in the middle or
        last among other, harmless sub-directives — the whole declaration is rejected wherever the conflict is"""
        fresh = ["Zz:Fresh %d %d" % (k, j) if not com else "ZZ%s%s" % ("abcdefghij"[k % 10], "klmnop"[j]) for j in range(3)]
        lines = []
        if rng.random() < 0.5:
            lines.append("    alias %s" % fresh[0])
        if rng.random() < 0.3:
            lines.append("    note n")
        if bad_alias is not None:
            lines.append("    alias %s" % bad_alias)
        if rng.random() < 0.6:
            lines.append("    alias %s" % fresh[1])
        if rng.random() < 0.3:
            lines.append("    ; c")
        if rng.random() < 0.3:
            lines.append("    alias %s" % fresh[2])
        return "%s %s\n%s" % (word, name, "".join(l + "\n" for l in lines))

    if base == "alias-is-declared-canonical":
        texts.append("%s %s\n" % (word, y))
        texts.append(decl(x, y))
        inner = "AlreadyCanonical"
    elif base == "alias-used-before":
        texts.append(txn_with_commodity(a) if com else txn_with_account(a))
        texts.append(decl(x, a))
        inner = "AlreadyCanonical"
    elif base == "canonical-is-alias":
        texts.append("%s %s\n    alias %s\n" % (word, x, a))
        texts.append(decl(a))
        inner = "AlreadyAlias"
    elif base == "alias-of-two":
        texts.append("%s %s\n    alias %s\n" % (word, x, a))
        texts.append(decl(y, a))
        inner = "AliasConflict"
    else:  # alias-is-self
        texts.append(decl(x, x))
        inner = "AlreadyCanonical"
    idx = len(texts) - 1
    if rng.random() < 0.5:
        texts.append("2024/12/30 after\n    Assets:Cash    2 USD\n    Equity:Opening\n")
    return "\n".join(texts), idx, ("InvalidCommodity" if com else "InvalidAccount"), inner


def tokens(s):
    return set(s.replace("(", " ").replace(")", " ").split())


def oracle_pair(f):
    """C12's statement on what the real code returned for (original, substituted)."""
    bad = []
    ro, rs = f["ro"], f["rs"]
    if not ro.startswith("(ok "):
        return ["generator: the ledger with canonical names is not accepted: " + ro[:200]]
    if not rs.startswith("(ok "):
        bad.append("the ledger is accepted with canonical names but rejected with aliases: " + rs[:200])
    elif ro != rs:
        bad.append("transactions / balances differ between canonical and alias spelling")
    if f["go"] != f["gs"]:
        bad.append("register differs between canonical and alias spelling")
    leaked = sorted(a for a in ALL_ALIASES if enc(a) in tokens(rs) | tokens(f["gs"]))
    if leaked:
        bad.append("alias names appear in the reports: %s" % leaked)
    pd = f.get("pdb")
    if pd:
        fl = pd.split(" ")[0].split(",")
        if "-2" not in fl[:2] and (fl[0] != fl[1] or fl[2] != "1"):
            bad.append("`okane balance -X` with a price db written through declared commodity aliases differs from the same price db "
                       "written with canonical names (exit codes %s, %s)" % (fl[0], fl[1]))
    b = f.get("bin", "-")
    if b != "-":
        flags = b.split(" ")[0].split(",")
        if "-2" in flags[:4]:
            pass    # the harness could not start the binary (8 attempts; a busy machine): nothing observed, nothing judged here
        elif flags[:4] != ["0", "0", "0", "0"]:
            bad.append("okane balance/register exit codes %s" % flags[:4])
        elif flags[4:6] != ["1", "1"]:
            bad.append("okane balance / register output differs between canonical and alias spelling (%s)" % flags[4:6])
        out = dec(b.split(" ")[1]) if " " in b else ""
        seen = sorted(a for a in ALL_ALIASES if any(a == w or w.startswith(a + ":") for l in out.splitlines() for w in [l.split(": ")[0]] + l.split(" ")))
        if seen:
            bad.append("alias names appear in the binary's output: %s" % seen)
    return bad


def oracle_reject(c, f):
    ro = f["ro"]
    bad = []
    xs = split_top(ro) if ro.startswith("(") else [ro]
    if xs[0] != "err":
        return ["a conflicting declaration was accepted: " + ro[:200]]
    if xs[1] != str(c["idx"]) or xs[2] != c["kind"]:
        bad.append("expected %s at entry %d, got `%s`" % (c["kind"], c["idx"], " ".join(xs[1:4])))
    elif len(xs) > 3 and xs[3] != c["inner"]:
        bad.append("expected %s(%s), got %s" % (c["kind"], c["inner"], xs[3]))
    b = f.get("bin", "-")
    if b != "-" and b.split(" ")[0].split(",")[0] == "0":
        bad.append("okane balance exits 0 on the rejected ledger")
    return bad


def run(chk):
    chk.rule = ("pair stream: a generated accepted ledger (declarations `account`/`commodity` with 0-3 aliases each, re-declarations, "
                "formats, at random positions so that canonical use / declaration / alias use occur in all orders; transactions with "
                "costs, lot prices, running-balance assertions, assignments) printed once with canonical names and once with aliases "
                "at a random subset of the eligible occurrences (thorough: additionally ALL subsets for ledgers with <= 6 eligible "
                "occurrences); reject stream: ten shapes of conflicting declaration after a random accepted prefix. Non-trivial: "
                ">= 1 occurrence actually written through an alias (pairs) / every reject case; distinct = distinct texts")
    chk.assumptions = ["report-layer arithmetic is exact (generated amounts have <= 2 decimals; rust_decimal is exact there)"]
    if not standard_prologue(chk, THEOREMS, imports=EXTRA_IMPORTS):
        return
    cases = []
    # corpus: fixed findings must be rejected now
    cdir = os.path.join(VERIF, "corpus", "C12")
    if os.path.isdir(cdir):
        for fn in sorted(os.listdir(cdir)):
            if fn.endswith(".json"):
                c = json.load(open(os.path.join(cdir, fn)))
                cases.append({"id": "corpus-" + fn[:-5], "stream": "corpus", "type": "reject", "text": c["ledger"], "idx": c["expect"]["idx"],
                              "kind": c["expect"]["kind"], "inner": c["expect"]["inner"], "what": c["what"], "bin": True})
    n_pairs = 1500 if chk.tier == "quick" else 60000
    n_rej = 300 if chk.tier == "quick" else 5000
    bin_every = 25 if chk.tier == "quick" else 100
    for i in range(n_pairs):
        g, entries, o, s = make_pair(chk.rng)
        names = all_names(entries)
        cases.append({"id": "p%d" % i, "stream": "pair", "type": "pair", "o": o, "s": s, "bin": i % bin_every == 0,
                      "subst": sum(1 for n in names if n.written != n.canonical), "eligible": sum(1 for n in names if n.options),
                      "where": sorted({n.kind for n in names if n.written != n.canonical})})
    if chk.tier == "thorough":
        done = 0
        tries = 0
        while done < 150 and tries < 5000:
            tries += 1
            g, entries, o, s = make_pair(chk.rng, n=chk.rng.randint(3, 6))
            names = [n for n in all_names(entries) if n.options]
            if not (1 <= len(names) <= 6):
                continue
            done += 1
            for mask in itertools.product([0, 1], repeat=len(names)):
                for n, m in zip(names, mask):
                    n.written = (n.options[(done + len(n.options)) % len(n.options)] if m else n.canonical)
                cases.append({"id": "a%d-%s" % (done, "".join(map(str, mask))), "stream": "all-subsets", "type": "pair", "o": o,
                              "s": lg1112.render(entries), "bin": False, "subst": sum(mask), "eligible": len(names), "where": []})
    for i in range(n_rej):
        kind = REJECT_KINDS[i % len(REJECT_KINDS)]
        text, idx, k, inner = make_reject(chk.rng, kind, i)
        cases.append({"id": "r%d" % i, "stream": "reject", "type": "reject", "text": text, "idx": idx, "kind": k, "inner": inner,
                      "what": kind, "bin": i % bin_every == 0})
    lines = []
    for c in cases:
        if c["type"] == "pair":
            extra = ""
            if c["bin"]:
                # a price db for a converted report, once with canonical commodity names and once through the aliases the ledger declares
                decl = [(a, k) for k, al in lg1112.COMMODITY_ALIASES.items() for a in al
                        if re.search(r"^[ \t]+alias[ \t]+%s[ \t\u3000\u00a0]*$" % re.escape(a), c["o"], re.M)]
                if decl:
                    target = "CHF"
                    rows = [(k, a, 2 + i) for i, (a, k) in enumerate(decl)]
                    pa = "".join("P 2023/12/31 %s %d %s\n" % (k, r, target) for k, a, r in rows)
                    pb = "".join("P 2023/12/31 %s %d %s\n" % (a, r, target) for k, a, r in rows)
                    extra = " pdb=%s,%s,%s" % (enc(target), enc(pa), enc(pb))
                    c["pdb"] = (pa, pb)
            lines.append("%s o=%s s=%s%s%s" % (c["id"], enc(c["o"]), enc(c["s"]), " bin=1" if c["bin"] else "", extra))
        else:
            lines.append("%s o=%s%s" % (c["id"], enc(c["text"]), " bin=1" if c["bin"] else ""))
    impl = run_sharded(HX, ["c12", "pair"], lines, shards=8)
    model = run_sharded(DRV, ["c12", "pair"], impl, shards=8)
    if len(impl) != len(lines) or len(model) != len(lines):
        chk.violation("protocol error: %d cases, %d implementation records, %d model records" % (len(lines), len(impl), len(model)),
                      {"broken": "c12 line protocol"}, no_failing_input=True, tag="err")
        return
    for c, line, a, b in zip(cases, lines, impl, model):
        chk.streams[c["stream"]] = chk.streams.get(c["stream"], 0) + 1
        f = parse_fields(a)
        chk.traces += 1
        rerun = "echo '%s' | %s c12 pair" % (line, HX)
        verdicts = dict(x.split("=", 1) for x in b.split(" ")[1:] if "=" in x)
        if c["type"] == "pair":
            chk.case((c["o"], c["s"]), nontrivial=c["subst"] > 0)
            chk.count("substituted=%s" % (c["subst"] if c["subst"] < 8 else "8+"))
            for w in c["where"]:
                chk.count("alias-at:" + ("account" if w == "a" else "commodity"))
            if "ro" not in f or "rs" not in f:
                chk.violation("harness could not run the case: " + a[:200], {"case": line}, no_failing_input=True, tag="err")
                continue
            chk.count("result:" + f["ro"].split(" ")[0].strip("("))
            bad = oracle_pair(f)
            if bad and bad[0].startswith("generator:"):
                chk.count("generator-rejects")
                chk.violation(bad[0], {"ledger": c["o"], "impl": f["ro"][:2000]}, no_failing_input=True, tag="gen")
                continue
            if bad:
                chk.oracle_failures += 1
                chk.violation("C12 fails on the real code: " + "; ".join(bad[:3]),
                              {"ledger_canonical": c["o"], "ledger_with_aliases": c["s"], "expected": "same transactions, balance, register; canonical names only",
                               "observed_canonical": f["ro"][:3000], "observed_aliases": f["rs"][:3000], "register_canonical": f["go"][:2000],
                               "register_aliases": f["gs"][:2000], "bin": f.get("bin", "-")[:2000], "model": b, "rerun": rerun})
                continue
            wrong = [k for k in ("mo", "ms") if not verdicts.get(k, "").startswith("agree")]
            wrong += [k for k in ("same", "rel", "canon") if verdicts.get(k) != "yes"]
        else:
            chk.case(c["text"], nontrivial=True)
            chk.count("reject:" + c["what"] if c["stream"] == "reject" else "corpus")
            if "ro" not in f:
                chk.violation("harness could not run the case: " + a[:200], {"case": line}, no_failing_input=True, tag="err")
                continue
            bad = oracle_reject(c, f)
            if bad:
                chk.oracle_failures += 1
                chk.violation("C12 fails on the real code (%s): %s" % (c["what"], "; ".join(bad[:3])),
                              {"ledger": c["text"], "expected": "rejected at entry %d with %s(%s)" % (c["idx"], c["kind"], c["inner"]),
                               "observed": f["ro"][:2000], "bin": f.get("bin", "-")[:500], "model": b, "rerun": rerun})
                continue
            wrong = [k for k in ("mo",) if not verdicts.get(k, "").startswith("agree")]
        if wrong:
            chk.disagreements += 1
            chk.violation("model and implementation disagree on %s (the property oracle holds on this input)" % ",".join(wrong),
                          {"stream": "c12 " + c["stream"], "case": line, "impl": a[:4000], "model": b[:3000], "rerun": rerun},
                          no_failing_input=True, tag="corr")
    for c, a, b in list(zip(cases, impl, model))[:1] + [x for x in zip(cases, impl, model) if x[0]["type"] == "pair" and x[0]["subst"] >= 3][:2] + \
            [x for x in zip(cases, impl, model) if x[0]["stream"] == "reject"][:2]:
        chk.sample({"case_id": c["id"], "stream": c["stream"], "ledger": (c.get("s") or c.get("text"))[:600],
                    "impl": parse_fields(a).get("rs", parse_fields(a).get("ro", ""))[:300], "model": b[:200]})
