"""C05 — documented syntax is read; formatting preserves meaning and is idempotent."""
import os
import re

from common import standard_prologue, run_sharded, HX, DRV, enc, dec, VERIF

CLAIM = {
    "technique": ("Lean 4 theorems about an executable model of the winnow-based ledger parser (combinators with winnow's "
                  "backtrack/cut/reset semantics) and of the Display printer: parse(print x ++ rest) = ok x rest for every "
                  "construct, by structural induction + differential correspondence of trees, spans, error offsets and formatted "
                  "text against the real parse_ledger / okane format on grammar-directed and malformed text, with the property's "
                  "own oracles evaluated on the real code"),
    "text": ("PARTIAL. Proof (Lean, all trees, any display-width function): C05_entry - every entry of every kind that satisfies "
             "the decidable predicates wfEntry and plainEntry is read back from its printed form: transactions (header with date, "
             "effective date, clear mark, code, payee, inline metadata; postings with clear mark, account, value expressions of any "
             "nesting with each number's sign, digits, decimal places and grouping, lot price / date / note in all eight "
             "combinations, `@` and `@@` costs, balance assertions, tag / key-value / comment metadata lines), `account` and "
             "`commodity` declarations with comment / note / alias / format sub-directives, `include`, `apply tag`, `end apply "
             "tag`, top-level comments; C05_format_parse / C05_roundtrip / C05_idempotent (C05_format_fixed): the entry loop of "
             "parse_ledger composed with FormatOptions::format gives parse(format t) = parse t and format(format t) = format t "
             "for every text whose parsed entries are wfEntry and plainEntry; and C05_image / C05_roundtrip_text / "
             "C05_idempotent_text: EVERY entry the parser returns satisfies those predicates (up to canonEntry, which only drops the "
             "grouping tag of a number below 1000), hence for EVERY text that parses, with no hypothesis on the parsed entries, the "
             "formatted text parses to exactly the same entries and is a fixed point of format - under ONE decidable hypothesis on "
             "the TEXT, shown necessary by kernel-evaluated witnesses (C05_image_hypotheses_needed): asciiSpaceOnly (no white "
             "space other than blank, tab, LF, CR - exactly the class of known findings F27 / F28). The former second hypothesis "
             "parensClosed is gone with the repair of paren_str (F36: a transaction code must be closed on its line): a payee that "
             "begins with an unclosed `(` is read back as printed, wfPayee admits it (payee without code: if it begins with `(` it "
             "holds no `)`), wfCode excludes `)`, CR and LF, both conditions shown necessary (paren_conditions_needed), and the former "
             "necessity witness is a regression example (C05_image_unclosed_paren). The stop set of paren_str is tied to the Rust "
             "source (parenStrStop_tie). The two printer models (Okane.Unparse used here, Okane.Print used by C19) are "
             "proved equal for years <= 9999 and one-column clear marks (printEntry_agree), so the text C19's layout theorems "
             "describe is the text whose read-back is proved here (C05_C19_format). The value-expression round trip is "
             "ExprParse.parse_print_follow (precedence and left associativity, see C08); numbers use the literal theorems of C07. "
             "C05_decl_merge: adjacent comment / note sub-directives re-read merged and the printed text is still a fixed point of "
             "format. The character classes of the parser model are proved equal to the sets spelled out in the Rust source now "
             "(ParamsTie, regenerated from /repo on every run). Full statements kept visible and refuted from kernel-evaluated "
             "witnesses: C05_entry_full with wfEntry alone is false (`(-1)`: a negative literal in operand position re-reads as "
             "a negation; the parser never builds such a tree; C05_entry_full_false), not_C05_image_full / "
             "not_C05_roundtrip_full / not_C05_idempotent_full (known findings F27 / F28: Unicode white space the parser does not "
             "treat as blank), not_C05_eof_full (account + one blank at end of file, outside the grammar). ACCEPTANCE of the "
             "documented grammar: doc/syntax.md is transcribed production by production (Spec/DocGrammar.lean, eleven charitable "
             "readings R1-R11 and one extension E1 listed there) and DocAccept_ledger / DocAccept_ledger_eof prove that every text "
             "the grammar derives - also with its last line ended by end of file - is accepted by the parser model, under three "
             "decidable side conditions on single lexemes (numbers within the decimal range; a posting account without `;` and not "
             "just `*`/`!`; no form feed in an `apply tag` key), each shown necessary by a derivable text the parser rejects "
             "(not_DocAccept_full, numOk_needed, accountSemicolon_needed, accountMark_needed, applyTagOk_needed; confirmed on the "
             "binary: known findings F34, F35; a fourth condition was the defect F36, fixed in /repo - noteOk_not_needed is the "
             "regression theorem). The correspondence stream additionally feeds grammar-derived texts to the real parser (oracle: accepted). The model parser agrees with the real one on trees, entry spans, "
             "error offsets/line_start and formatted output on every generated text."),
    "note": ("winnow 0.7.6 combinators, chrono date acceptance, Rust str::trim*/lines and unicode-width are modelled, not verified; "
             "value expressions and numeric literals are the models of C07/C08 (Okane.ExprSyntax, Okane.Literal). doc/syntax.md is "
             "read with the repairs of evident informalities listed in the evidence's assumptions. Known findings F27, F28 are "
             "replayed on every run; F23-F25 were found by this check and are fixed in /repo."),
    "design_ref": "DESIGN.md section 6 C05, Appendix C, section 10",
}

THEOREMS = ["Okane.ParamsTie.nonCommodityChars_tie", "Okane.ParamsTie.isCommodityChar_tie", "Okane.ParamsTie.commentPrefix_tie",
            "Okane.ParamsTie.accountStop_tie", "Okane.ParamsTie.accountEndChars_tie", "Okane.ParamsTie.lotNoteStopChars_tie",
            "Okane.ParamsTie.lineOrSemiStopChars_tie", "Okane.ParamsTie.numberToken_tie", "Okane.ParamsTie.parenStrStop_tie",
            "Okane.C05.C05_format_parse", "Okane.C05.C05_roundtrip_partial", "Okane.C05.C05_idempotent_partial",
            "Okane.C05.C05_entry_partial", "Okane.C05.C05_metadata_partial", "Okane.C05.C05_roundtrip_directives", "Okane.C05.C05_account",
            "Okane.C05.not_C05_image_full", "Okane.C05.not_C05_roundtrip_full", "Okane.C05.not_C05_idempotent_full",
            "Okane.C05.not_C05_eof_full",
            "Okane.Unparse.parseEntries_format", "Okane.Unparse.parsedIter_nl", "Okane.Unparse.multilineText_rt",
            "Okane.Unparse.repeat0Loop_list", "Okane.Unparse.include_rt", "Okane.Unparse.applyTag_rt",
            "Okane.Unparse.endApplyTag_rt", "Okane.Unparse.topComment_rt", "Okane.Unparse.metadataTags_rt",
            "Okane.Unparse.metadataKv_rt", "Okane.Unparse.metaLine_rt", "Okane.Unparse.restOfLine_rt",
            "Okane.Unparse.accountLoop", "Okane.Unparse.postingAccount_rt",
            "Okane.C05.C05_entry", "Okane.C05.C05_entry_nonTxn", "Okane.C05.C05_roundtrip", "Okane.C05.C05_format_fixed",
            "Okane.C05.C05_roundtrip_nonTxn", "Okane.C05.C05_decl_merge", "Okane.C05.C05_entry_full_false",
            "Okane.Unparse.entryRT_account", "Okane.Unparse.entryRT_commodity", "Okane.Unparse.amount_rt",
            "Okane.Unparse.posting_rt_plain", "Okane.Unparse.transaction_rt_plain", "Okane.Unparse.entryRT_txn_plain",
            "Okane.Unparse.lot_rt", "Okane.Unparse.cost_rt", "Okane.Unparse.blockMetadata_rt", "Okane.Unparse.date_rt",
            "Okane.ExprParse.parse_print_follow",
            "Okane.C05.C05_image", "Okane.C05.C05_roundtrip_text", "Okane.C05.C05_idempotent_text",
            "Okane.C05.C05_image_hypotheses_needed", "Okane.C05.C05_image_unclosed_paren", "Okane.Unparse.paren_conditions_needed",
            "Okane.C05Image.printEntry_canon", "Okane.C05Image.not_image_unconditional",
            "Okane.PrintersAgree.printEntry_agree", "Okane.PrintersAgree.formatEntries_agree_std",
            "Okane.PrintersAgree.C05_for_Print", "Okane.PrintersAgree.C05_C19_format",
            "Okane.DocAccept.DocAccept_ledger", "Okane.DocAccept.DocAccept_ledger_eof", "Okane.DocAccept.not_DocAccept_full",
            "Okane.DocAccept.numOk_needed", "Okane.DocAccept.accountSemicolon_needed", "Okane.DocAccept.accountMark_needed",
            "Okane.DocAccept.applyTagOk_needed", "Okane.DocAccept.noteOk_not_needed", "Okane.DocAccept.literal_R7_rejected",
            "Okane.DocAccept.valueExpr_accept", "Okane.DocAccept.posting_accept", "Okane.DocAccept.transaction_accept",
            "Okane.DocAccept.lineMetadata_accept", "Okane.DocAccept.commaDecimal_wf"]
EXTRA_IMPORTS = ["Okane.Props.C05Text", "Okane.Lemmas.PrintersAgreeC05", "Okane.Lemmas.DocAcceptExamples"]

# ------------------------------------------------------------------------------------------------
# alphabets

ASCII_WORD = "abcdefghijklmnopqrstuvwxyzABCDEFGHIJKLMNOPQRSTUVWXYZ"
UNI_WORDS = ["日本", "語", "食費", "現金", "Bücher", "café", "Ελλάς", "Жя", "한글", "naïve", "€uro", "ｱｲ", "🙂", "—", "½"]
ACCOUNT_ROOTS = ["Assets", "Expenses", "Liabilities", "Income", "Equity", "資産", "Aktiva"]
COMMODITIES = ["USD", "EUR", "JPY", "CHF", "$", "円", "€", "£", "AAPL", "株", "%", "h", "Ｆ", "\"X\"", "_a#",
               # digits and blanks OUTSIDE ASCII are ordinary commodity characters (the documented exclusion list is ASCII)
               "Ｆ１", "m\u0662"]
PREFIXES = ";#%|*"


class Gen:
    def __init__(self, rng, flags=()):
        self.r = rng
        self.flags = set(flags)
        self.features = set()
        self.nl_mode = rng.choice(["lf", "lf", "lf", "crlf", "mixed"])

    # --- primitives
    def feat(self, f):
        self.features.add(f)

    def chance(self, p):
        return self.r.random() < p

    def sp0(self):
        r = self.r.random()
        if r < 0.6:
            return ""
        return self.sp1()

    def sp1(self):
        r = self.r.random()
        if r < 0.6:
            return " "
        if r < 0.75:
            return "\t"
        return "".join(self.r.choice(" \t") for _ in range(self.r.randint(1, 4)))

    def nl(self):
        if self.nl_mode == "lf":
            return "\n"
        if self.nl_mode == "crlf":
            self.feat("crlf")
            return "\r\n"
        if self.chance(0.5):
            self.feat("crlf")
            return "\r\n"
        return "\n"

    def word(self, uni=0.25):
        if self.chance(uni):
            self.feat("unicode")
            return self.r.choice(UNI_WORDS)
        n = self.r.randint(1, 8)
        return "".join(self.r.choice(ASCII_WORD) for _ in range(n))

    def free_text(self, exclude="", maxwords=4):
        """no-new-line* text (may be empty), without the characters in `exclude`"""
        ws = []
        for _ in range(self.r.randint(0, maxwords)):
            w = self.word()
            if self.chance(0.2):
                w += self.r.choice(["!", "?", ",", ".", "'s", "#1", "&co", "(x)", "[y]", "@z", "=", "-", "*", "/", "%"])
            if self.chance(0.08):
                w = self.r.choice(["\u3000", "\u00a0"]) + w
            ws.append(w)
        s = ""
        for i, w in enumerate(ws):
            if i:
                s += self.r.choice([" ", " ", "  ", "\t", " "])
            s += w
        for ch in exclude:
            s = s.replace(ch, "")
        return s

    # --- numbers, expressions
    def number(self, allow_neg=True):
        r = self.r
        if self.chance(0.06):
            # wide literals: 17-28 significant digits (rust_decimal holds 96 bits, i.e. every 28-digit number), and the
            # machine-integer boundaries, with the decimal point anywhere and sometimes grouped
            self.feat("num-wide")
            if self.chance(0.35):
                body = r.choice(["9223372036854775807", "9223372036854775808", "18446744073709551615", "18446744073709551616",
                                 "79228162514264337593543950335", "170141183460469231731687303715"[:28]])
            else:
                body = r.choice("123456789") + "".join(r.choice("0123456789") for _ in range(r.randint(16, 27)))
            nfrac = r.choice([0, 0, 1, 2, 8, 18, len(body) - 1])
            nfrac = min(nfrac, len(body) - 1)
            ip, fp = (body[:len(body) - nfrac], body[len(body) - nfrac:]) if nfrac else (body, "")
            if self.chance(0.3) and len(ip) > 3:
                h = len(ip) % 3 or 3
                ip = ip[:h] + "".join("," + ip[i:i + 3] for i in range(h, len(ip), 3))
            digits = ip + ("." + fp if fp else "")
            if allow_neg and self.chance(0.25):
                digits = "-" + digits
            return digits
        k = r.random()
        if k < 0.55:
            digits = "".join(r.choice("0123456789") for _ in range(r.randint(1, 4)))
        elif k < 0.75:
            self.feat("num-plain-big")
            digits = r.choice("123456789") + "".join(r.choice("0123456789") for _ in range(r.randint(3, 11)))
        else:
            self.feat("num-comma")
            digits = "".join(r.choice("0123456789") for _ in range(r.randint(1, 3)))
            for _ in range(r.randint(1, 3)):
                digits += "," + "".join(r.choice("0123456789") for _ in range(3))
        if self.chance(0.45):
            frac = "".join(r.choice("0123456789") for _ in range(r.randint(0, 6)))
            digits += "." + frac
            if not frac:
                self.feat("num-trailing-dot")
        if allow_neg and self.chance(0.25):
            digits = "-" + digits
            self.feat("num-neg")
        return digits

    def commodity(self):
        c = self.r.choice(COMMODITIES)
        if ord(c[0]) > 127:
            self.feat("unicode-commodity")
        return c

    def amount_expr(self, allow_neg=True):
        s = self.number(allow_neg)
        if self.chance(0.8):
            s += self.sp0() if self.chance(0.3) else " "
            s += self.commodity()
        else:
            self.feat("amount-no-commodity")
        return s

    def value_expr(self, depth=0, allow_neg=True):
        if depth < 3 and self.chance(0.2 if depth == 0 else 0.3):
            self.feat("paren-expr")
            return "(" + self.sp0() + self.add_expr(depth + 1) + self.sp0() + ")"
        return self.amount_expr(allow_neg)

    def add_expr(self, depth):
        s = self.mul_expr(depth)
        for _ in range(self.r.choice([0, 0, 1, 1, 2])):
            op = self.r.choice("+-")
            self.feat("binop" + op)
            s += self.sp0() + op + self.sp0() + self.mul_expr(depth)
        return s

    def mul_expr(self, depth):
        s = self.unary_expr(depth)
        for _ in range(self.r.choice([0, 0, 0, 1, 2])):
            op = self.r.choice("*/")
            self.feat("binop" + op)
            s += self.sp0() + op + self.sp0() + self.unary_expr(depth)
        return s

    def unary_expr(self, depth):
        if self.chance(0.2):
            self.feat("unary-minus")
            # `"-"? value-expr`; the value expression itself is unsigned here (the grammar has no signed literal)
            return "-" + self.value_expr(depth, allow_neg=False)
        return self.value_expr(depth, allow_neg=False)

    # --- dates
    def date(self):
        r = self.r
        y = r.choice([2024, 2023, 1999, 2000, 1970, r.randint(1000, 9999)])
        m = r.randint(1, 12)
        dmax = [31, 29 if (y % 4 == 0 and (y % 100 != 0 or y % 400 == 0)) else 28, 31, 30, 31, 30, 31, 31, 30, 31, 30, 31][m - 1]
        d = r.choice([1, dmax, r.randint(1, dmax)])
        sep = r.choice("//-")
        if sep == "-":
            self.feat("date-hyphen")
        else:
            self.feat("date-slash")
        if self.chance(0.15):
            self.feat("date-short")
            return "%d%s%d%s%d" % (y, sep, m, sep, d)
        return "%04d%s%02d%s%02d" % (y, sep, m, sep, d)

    # --- metadata
    def tag(self):
        t = self.word()
        if self.chance(0.2):
            t += self.r.choice(["-1", "_x", ".y", "/z", "#", "(a)", ";b"])
        return t.replace(":", "")

    def metadata_body(self):
        """the text after the `;` of a metadata item"""
        k = self.r.random()
        if k < 0.3:
            self.feat("meta-tags")
            tail = self.sp0()
            if "F27" in self.flags and self.chance(0.1):
                self.feat("meta-tags-unicode-space")
                tail += self.r.choice(["\u00a0", "\u3000", "\x0c"])
            return self.sp0() + ":" + "".join(self.tag() + ":" for _ in range(self.r.randint(1, 3))) + tail
        if k < 0.55:
            self.feat("meta-kv")
            return self.sp0() + self.tag() + self.sp0() + ":" + self.sp0() + self.kv_text()
        if k < 0.65:
            self.feat("meta-kv-expr")
            return self.sp0() + self.tag() + self.sp0() + "::" + self.sp0() + self.free_text()
        self.feat("meta-comment")
        return self.comment_text()

    def kv_text(self):
        s = self.free_text()
        if self.chance(0.15):
            s += ":" + self.word()
        # a value that starts with ':' would make the separator read as '::'
        return s.lstrip(":")

    def comment_text(self):
        """a metadata comment that is neither tag-words nor key-value by the grammar, and not of class F25"""
        s = self.sp0() + self.free_text()
        if self.chance(0.15):
            s += " " + self.word() + ": " + self.word()       # a colon later in the line is still a comment
        body = s.lstrip(" \t")
        # first token followed by sp* ':' would be a key-value; a leading ':' could be tag-words (or F25)
        m = re.match(r"[^ \t\r\n:]+[ \t]*:", body)
        if m or body.startswith(":"):
            return self.sp0() + "note" + self.r.choice(["", " x", " a b"])
        if "F25" in self.flags and self.chance(0.1):
            self.feat("meta-comment-tags-then-text")
            return self.sp0() + ":" + self.tag() + ":" + self.r.choice([" x", "y", " :z", ": w:"])
        return s

    def metadata(self):
        return ";" + self.metadata_body()

    def meta_lines(self, n):
        return "".join(self.sp1() + self.metadata() + self.nl() for _ in range(n))

    # --- transaction
    def account(self, clear):
        parts = [self.r.choice(ACCOUNT_ROOTS)]
        for _ in range(self.r.randint(0, 3)):
            w = self.word()
            if self.chance(0.1):
                w += self.r.choice(["&Co", "'s", "-1", "(x)", "[y]", "=", "@", "*", "!", "100", "1,5"])
            parts.append(w)
        s = ":".join(parts)
        if self.chance(0.2):
            self.feat("account-with-blank")
            s += " " + self.word()
        if self.chance(0.05):
            self.feat("account-long")
            s += ":" + "".join(self.r.choice(ASCII_WORD) for _ in range(self.r.randint(30, 60)))
        if any(ord(c) > 127 for c in s):
            self.feat("unicode-account")
        return s

    def lot(self):
        items = []
        if self.chance(0.6):
            self.feat("lot-price")
            if self.chance(0.5):
                self.feat("lot-price-total")
                items.append(("p", "{{" + self.sp0() + self.amount_expr() + self.sp0() + "}}"))
            else:
                items.append(("p", "{" + self.sp0() + self.amount_expr() + self.sp0() + "}"))
        if self.chance(0.5):
            self.feat("lot-date")
            items.append(("d", "[" + self.sp0() + self.date() + self.sp0() + "]"))
        if self.chance(0.5):
            self.feat("lot-note")
            note = self.free_text(exclude="()@\t")
            if not note and "F24" not in self.flags:
                note = "n"
            if not note:
                self.feat("lot-note-empty")
            items.append(("n", "(" + note + ")"))
        self.r.shuffle(items)
        if len(items) >= 2:
            self.feat("lot-order-" + "".join(k for k, _ in items))
        return "".join(t + self.sp0() for _, t in items)

    def posting(self, last_in_file_no_nl=False):
        clear = self.r.choice(["", "", "", "*", "!"])
        s = self.sp1()
        if clear:
            self.feat("posting-clear")
            s += clear + self.sp0()
        s += self.account(clear)
        kind = self.r.random()
        if kind < 0.12:
            self.feat("posting-no-amount")
            if self.chance(0.3):
                s += self.r.choice(["  ", "\t"]) + self.sp0()
        else:
            s += self.r.choice(["  ", "\t", "  ", "   "]) + self.sp0()
            if kind < 0.27:
                self.feat("posting-balance-only")
            else:
                s += self.value_expr() + self.sp0()
                if self.chance(0.3):
                    lot = self.lot()
                    if lot:
                        s += (" " if self.chance(0.7) else "") + lot
                if self.chance(0.3):
                    at = self.r.choice(["@", "@@"])
                    self.feat("cost" + at)
                    s += (" " if self.chance(0.7) else "") + at + self.sp0() + self.value_expr() + self.sp0()
            if kind < 0.27 or self.chance(0.25):
                self.feat("balance")
                s += "=" + self.sp0() + self.value_expr() + self.sp0()
        if self.chance(0.25):
            self.feat("posting-inline-meta")
            if not s.endswith((" ", "\t")):
                s += self.r.choice([" ", "  ", "\t"])
            s += self.metadata()
        return s, self.r.choice([0, 0, 0, 1, 2])

    def transaction(self):
        s = self.date()
        if self.chance(0.2):
            self.feat("effective-date")
            s += "=" + self.date()
        k = self.r.random()
        has_note = k >= 0.1
        if not has_note:
            self.feat("header-date-only")
        else:
            s += self.sp1()
            if self.chance(0.35):
                self.feat("txn-clear")
                s += self.r.choice("*!") + self.sp0()
            if self.chance(0.3):
                self.feat("txn-code")
                s += "(" + self.sp0() + self.free_text(exclude="()", maxwords=2) + self.sp0() + ")" + self.sp0()
                payee = self.free_text(exclude=";")
            else:
                payee = self.free_text(exclude=";").lstrip(" \t\u3000\u00a0")
                while payee[:1] in ("*", "!", "("):
                    payee = payee[1:]
                if self.chance(0.06):
                    # a `(` that is not closed on the payee's part of the line: since paren_str must close on its line
                    # (F36) this text is the payee (or, with a `)` in an inline metadata further on, a code)
                    self.feat("payee-open-paren")
                    payee = "(" + payee.replace(")", "")
            if not payee:
                self.feat("payee-empty")
            if any(ord(c) > 127 for c in payee):
                self.feat("unicode-payee")
            s += payee
            if self.chance(0.3):
                s += self.sp1()
        if self.chance(0.2):
            self.feat("header-inline-meta")
            if not has_note and ("F23" not in self.flags or self.chance(0.5)):
                s += self.sp1()
            elif not has_note:
                self.feat("header-meta-after-date")
            s += self.metadata()
        s += self.nl()
        n_meta = self.r.choice([0, 0, 0, 1, 2])
        if n_meta:
            self.feat("header-meta-lines")
        s += self.meta_lines(n_meta)
        for _ in range(self.r.choice([0, 1, 2, 2, 3, 4])):
            p, nm = self.posting()
            s += p + self.nl() + self.meta_lines(nm)
            if nm:
                self.feat("posting-meta-lines")
        return s

    # --- other directives
    def top_comment(self):
        self.feat("top-comment")
        s = ""
        for _ in range(self.r.randint(1, 3)):
            p = self.r.choice(PREFIXES)
            self.feat("prefix" + p)
            if self.chance(0.15):
                p += self.r.choice(PREFIXES)
            s += p + (self.sp0() + self.free_text(maxwords=5) + self.sp0()) + self.nl()
        return s

    def detail_comment(self):
        p = self.r.choice(PREFIXES)
        self.feat("detail-comment")
        return self.sp1() + p + self.sp0() + self.free_text() + self.nl()

    def account_decl(self):
        self.feat("account-decl")
        s = "account" + self.sp1() + self.account("") + self.sp0() + self.nl()
        for _ in range(self.r.choice([0, 0, 1, 2, 3, 4])):
            k = self.r.random()
            if k < 0.35:
                s += self.detail_comment()
            elif k < 0.7:
                self.feat("detail-note")
                s += self.sp1() + "note" + self.sp1() + self.free_text() + self.nl()
            else:
                self.feat("detail-alias")
                s += self.sp1() + "alias" + self.sp1() + self.account("") + self.nl()
        return s

    def commodity_decl(self):
        self.feat("commodity-decl")
        s = "commodity" + self.sp1() + self.commodity() + self.sp0() + self.nl()
        for _ in range(self.r.choice([0, 0, 1, 2, 3, 4])):
            k = self.r.random()
            if k < 0.25:
                s += self.detail_comment()
            elif k < 0.5:
                self.feat("detail-note")
                s += self.sp1() + "note" + self.sp1() + self.free_text() + self.nl()
            elif k < 0.75:
                self.feat("detail-alias")
                s += self.sp1() + "alias" + self.sp1() + self.commodity() + self.nl()
            else:
                self.feat("detail-format")
                s += self.sp1() + "format" + self.sp1() + self.amount_expr(allow_neg=False) + self.nl()
        return s

    def apply_tag(self):
        self.feat("apply-tag")
        s = "apply" + self.sp1() + "tag" + self.sp1() + self.tag()
        if self.chance(0.5):
            self.feat("apply-tag-value")
            s += self.sp0() + ":" + self.sp0() + self.kv_text()
        else:
            s += self.sp0()
        return s + self.nl()

    def end_apply_tag(self):
        self.feat("end-apply-tag")
        return "end" + self.sp1() + "apply" + self.sp1() + "tag" + self.sp0() + self.nl()

    def include(self):
        self.feat("include")
        path = self.r.choice(["a.ledger", "sub/*.ledger", "../x y.ledger", "日本/帳.ledger", "C:\\ledger\\a.dat"])
        return "include" + self.sp1() + path + (self.sp0() if self.chance(0.3) else "") + self.nl()

    def vertical(self, atleast=0):
        s = ""
        for _ in range(self.r.choice([0, 1, 1, 2, 3]) + atleast):
            if self.chance(0.3):
                self.feat("space-only-line")
                s += self.sp1()
            s += self.nl()
        return s

    def ledger(self):
        s = self.vertical() if self.chance(0.3) else ""
        n = self.r.choice([1, 1, 2, 3, 4, 5])
        prev = None
        for _ in range(n):
            k = self.r.random()
            if k < 0.55:
                d, kind = self.transaction(), "txn"
            elif k < 0.68:
                d, kind = self.top_comment(), "comment"
            elif k < 0.78:
                d, kind = self.account_decl(), "account"
            elif k < 0.88:
                d, kind = self.commodity_decl(), "commodity"
            elif k < 0.93:
                d, kind = self.apply_tag(), "apply"
            elif k < 0.96:
                d, kind = self.end_apply_tag(), "end"
            else:
                d, kind = self.include(), "include"
            s += d
            s += self.vertical()
            prev = kind
        # end of file: the last line may be ended by EOF instead of a new-line
        if self.chance(0.3):
            stripped = s.rstrip("\r\n")
            if stripped and not stripped.endswith("\r"):
                self.feat("eof-no-newline")
                s = stripped
                if self.chance(0.2):
                    self.feat("eof-after-blanks")
                    s += self.nl() + self.sp1()
        return s


# ------------------------------------------------------------------------------------------------
# special classes

FIXED_WITNESSES = [
    # (finding id, text)  — status "fixed": must be accepted and round-trip
    ("F1b", "2024/01/01 foo"),
    ("F1b", "2024/01/01 foo\n    Assets:A  10 USD\n    Assets:B"),
    ("F1b", "2024/01/01 foo\n    Assets:A  10 USD ; note"),
    ("F10", "account Foo\n    ; c1\n"),
    ("F10", "commodity USD\n    ;c1\n    ;  c2\n"),
    ("F11", "2024/01/01 x\n    Liabilities:CreditCard:VeryLongAccountNameThatGoesOnAndOnAndOn:limit  = 0\n"),
    ("F17", "2024/01/01 x\n    A  1 USD\n    \n2024/01/02 y\n"),
    ("F17", "  \n\t\n2024/01/01 x\n \n; c\n\t"),
    ("F18", "2024/01/01 x\n    A  (5-3)\n    B  (5- 3 USD)\n    C  (5 -3)\n"),
    # F36 (paren_str must close on its line): an unclosed `(` after the date is the payee
    ("F36", "2024/01/01 (\naccount X)\n note c  d\n"),
    ("F36", "2024/01/01 (abc\n  A  1 USD\n\naccount X)\n"),
    ("F36", "2024/01/01 * (abc ; x) y\n"),
    ("F36", "2024/01/01 ! (abc ; x\n  A  1 USD (n\n)\n"),
    ("F36", "2024/01/01 (abc"),
]

CANDIDATES = {
    # documented-grammar texts the current parser rejects (reported to the lead; see work/notes-c05-defects.md)
    "F23": ["2024/01/01;foo\n", "2024/01/01=2024/01/02;:a:\n    A  1 USD\n"],
    "F24": ["2024/01/01 x\n  A  10 USD ()\n", "2024/01/01 x\n  A  10 USD {1 EUR} () [2024/01/01]\n"],
    "F25": ["2024/01/01 x\n  A  10 USD\n  ; :a:b: trailing\n", "2024/01/01 x\n  A  10 USD ; :a:b: trailing\n"],
    # round trip changes the tree: tag words followed by non-blank white space are a comment that prints as tag words
    "F27": ["2024/01/01 x ; :a:b:\u00a0\n", "2024/01/01 x\n  A  1 USD\n  ; :a:b:\u3000\n", "2024/01/01 x\n  A  1 USD ;:t:\x0c\n"],
}

# documented-grammar texts the parser rejects (found by the acceptance proof, Lemmas/DocAcceptFindings.lean)
CANDIDATES["F34"] = ["2024/01/01\n *\n", "2024/01/01\n !\n", "2024/01/01\n A;  1 (\n)\n"]
CANDIDATES["F35"] = ["apply tag \x0c\n"]
CANDIDATES["F37"] = ["2024/01/01 x\n \u3000!Expenses:A  1 USD\n    B\n", "2024/01/01 x\n\t\u00a0*A:b  = 0\n"]
CANDIDATES["F36"] = ["2024/01/01 (\naccount X)\n note c  d\n"]

# round trip changes the tree (F28): an account made only of Unicode white space is trimmed to the empty string
CANDIDATES["F28"] = ["2024/01/01 x\n \u3000\n    B  1 USD\n", "2024/01/01 x\n \u00a0  1 USD\n"]

_COMMENT_ATOM = re.compile(r"\(comment ([^ ()]+)\)")
_TAGWORDS = re.compile(r"^(:[^ \t\n\x0c\r:]+)+:$")


# white space in Rust's sense (char::is_whitespace) that the parser's space0/space1 do NOT skip: everything except blank and
# tab (LF / CR end lines).  The recorded defects F27 / F28 are exactly about such characters (Lean: `asciiSpaceOnly`).
_WS_OTHER = "\x0b\x0c\x85\xa0\u1680\u2000\u2001\u2002\u2003\u2004\u2005\u2006\u2007\u2008\u2009\u200a\u2028\u2029\u202f\u205f\u3000"
_WS_OTHER_RE = "[" + _WS_OTHER + "]"
# F28: a posting line whose ACCOUNT (from the indentation to the first of: two blanks, tab, `;`, end of line) consists
# only of white space, with at least one character the parser does not treat as a blank
_F28_A = "(?:" + _WS_OTHER_RE + "| (?! ))"
_F28_LINE = re.compile(r"(?m)^[ \t]+" + _F28_A + "*" + _WS_OTHER_RE + _F28_A + r"*(?:  |\t|;| ?\r?$)")


# F37: an account that starts with such white space directly followed by a clear-state character
_F37_POST = re.compile(r"\(post %2[1A]")
_F37_LINE = re.compile(r"(?m)^[ \t]+" + _F28_A + "*" + _WS_OTHER_RE + _F28_A + r"*[*!]")


def defect_class(rec, text=None):
    """decidable class predicates of the recorded round-trip defects: the symptom in the parsed tree AND its recorded
    cause in the text (a white-space character other than blank/tab right where the finding says), so that a different
    defect with the same symptom is still reported"""
    if "(post ~ " in rec and (text is None or _F28_LINE.search(text)):
        return "F28"
    if _F37_POST.search(rec) and (text is None or _F37_LINE.search(text)):
        return "F37"
    for m in _COMMENT_ATOM.finditer(rec):
        c = dec(m.group(1))
        if _TAGWORDS.match(c):
            if text is None or re.search(re.escape(c) + r"[ \t]*" + _WS_OTHER_RE, text):
                return "F27"
    return None


MALFORM_ALPHABET = " \t\r\n;:()[]{}@=*!-+/,.0159aZé日#%|\u3000"


def malform(rng, t):
    if not t:
        return ";"
    k = rng.random()
    if k < 0.3:
        return t[:rng.randint(0, len(t))]
    cs = list(t)
    for _ in range(rng.choice([1, 1, 2, 3])):
        i = rng.randint(0, len(cs))
        op = rng.random()
        if op < 0.35 and cs:
            del cs[min(i, len(cs) - 1)]
        elif op < 0.7:
            cs.insert(i, rng.choice(MALFORM_ALPHABET))
        elif cs:
            cs[min(i, len(cs) - 1)] = rng.choice(MALFORM_ALPHABET)
    if k > 0.9 and len(cs) > 2:
        lines = "".join(cs).split("\n")
        rng.shuffle(lines)
        return "\n".join(lines)
    return "".join(cs)


# ------------------------------------------------------------------------------------------------
# records

DEC_RE = re.compile(r"\(dec (\d) (\d+) (\d+) ([npc])\)")


def _canon_dec(m):
    neg, mant, scale, f = m.group(1), int(m.group(2)), int(m.group(3)), m.group(4)
    # grouping style is part of the meaning only where there are thousands to group
    if mant // (10 ** scale) < 1000:
        f = "n"
    return "(dec %s %d %d %s)" % (neg, mant, scale, f)


def split_record(rec):
    """-> (list of (span, sexp), tail)"""
    if "# " not in rec:
        return [], rec
    body, tail = rec.rsplit("# ", 1)
    body = body.strip()
    items = []
    if body:
        for part in body.split(" | "):
            span, sexp = part.split(" ", 1)
            items.append((span, sexp))
    return items, tail.strip()


def meaning(rec):
    items, tail = split_record(rec)
    return [DEC_RE.sub(_canon_dec, sx) for _, sx in items], tail


def fmt_out(rec):
    if rec.startswith("ok "):
        return dec(rec[3:])
    return None


def hx(args, lines):
    return run_sharded(HX, ["c05"] + args, lines, shards=8)


def drv(args, lines):
    return run_sharded(DRV, ["c05"] + args, lines, shards=8)


def roundtrip_ok(texts):
    """oracles (b), (c) on the real code for a batch of texts: parse(format t) == parse t and format(format t) == format t
    (True also when the text does not parse)"""
    lines = [enc(t) for t in texts]
    p1 = hx(["parse"], lines)
    f1 = [fmt_out(r) for r in hx(["fmt"], lines)]
    idx = [i for i, t in enumerate(f1) if t is not None]
    l2 = [enc(f1[i]) for i in idx]
    p2 = dict(zip(idx, hx(["parse"], l2)))
    f2 = dict(zip(idx, hx(["fmt"], l2)))
    out = []
    for i in range(len(texts)):
        _items, tail = split_record(p1[i])
        if tail != "done":
            out.append(True)
            continue
        if f1[i] is None:
            out.append(False)
            continue
        m1, _ = meaning(p1[i])
        m2, t2 = meaning(p2[i])
        out.append(t2 == "done" and m1 == m2 and fmt_out(f2[i]) == f1[i])
    return out


_WS_OTHER_ANY = None


def neutralise_ws(t):
    """the text with every white-space character the parser does not treat as a blank replaced by a letter"""
    global _WS_OTHER_ANY
    if _WS_OTHER_ANY is None:
        _WS_OTHER_ANY = re.compile(_WS_OTHER_RE)
    return _WS_OTHER_ANY.sub("x", t)


def run(chk):
    chk.rule = ("texts derived production by production from doc/syntax.md (every directive, posting shape, lot order, "
                "cost, balance, metadata form, comment prefix, date separator; random horizontal whitespace, blank and "
                "whitespace-only lines, LF/CRLF/mixed, Unicode names, last line with or without new-line) plus ~25% "
                "malformed variants (truncation at a random character, random insert/delete/replace, shuffled lines); "
                "thorough tier: every prefix of a sample; a case is non-trivial when it contains at least one entry; "
                "distinct = distinct texts")
    chk.assumptions = [
        "winnow 0.7.6 combinator semantics, chrono's %Y/%m/%d acceptance, Rust's char::is_whitespace and str::lines are "
        "re-implemented in the model and validated only by the correspondence stream",
        "unicode-width (width_cjk) is a parameter of the printer model; the driver's table covers the generators' alphabet",
        "doc/syntax.md is read with these repairs of evident informalities: continuation metadata lines are indented and end "
        "with a new-line; a metadata comment is `;` followed by any text that is not tag-words or key-value; accounts contain "
        "no `;`; accounts and payees do not start with a clear mark; negative literals are allowed where the parser's number "
        "token allows them; `commodity-format` (referenced but not defined) is `sp+ \"format\" sp+ amount-expr new-line`",
    ]
    if not standard_prologue(chk, THEOREMS, imports=EXTRA_IMPORTS):
        return
    rng = chk.rng
    n_gram = 3000 if chk.tier == "quick" else 60000
    cases = []   # (kind, text, features)
    # 1. corpus and witnesses of fixed findings first
    cdir = os.path.join(VERIF, "corpus", "C05")
    if os.path.isdir(cdir):
        for fn in sorted(os.listdir(cdir)):
            t = open(os.path.join(cdir, fn), encoding="utf-8", newline="").read()
            cases.append(("corpus", t, {"corpus:" + fn}))
    known_ids = {f["id"]: f for f in chk.known}
    all_findings = {}
    try:
        import json
        for f in json.load(open(os.path.join(VERIF, "known_findings.json")))["findings"]:
            all_findings[f["id"]] = f
    except Exception:
        pass
    for fid, t in FIXED_WITNESSES:
        cases.append(("grammar", t, {"witness:" + fid}))
    unrecorded = []
    for fid, texts in CANDIDATES.items():
        st = all_findings.get(fid, {}).get("status")
        if st == "fixed":
            for t in texts:
                cases.append(("grammar", t, {"witness:" + fid}))
        elif st == "known":
            for t in texts:
                cases.append(("known:" + fid, t, {"known:" + fid}))
        else:
            unrecorded.append(fid)
            for t in texts:
                cases.append(("candidate:" + fid, t, {"candidate:" + fid}))
    # 2. grammar-directed texts
    flags = [fid for fid in CANDIDATES if all_findings.get(fid, {}).get("status") == "fixed"]
    for _ in range(n_gram):
        g = Gen(rng, flags)
        cases.append(("grammar", g.ledger(), g.features))
    # 2b. long files (5-25 KB: beyond any read buffer of the command-line glue) with multi-byte names throughout
    for _ in range(12 if chk.tier == "quick" else 150):
        parts = []
        size = 0
        want = rng.choice([4200, 8300, 12400, 16500, 25000])
        pad = "; " + "".join(rng.choice("資産銀行みずほ食費é€円日本語✓") for _ in range(rng.randint(1, 40))) + "\n\n"
        parts.append(pad)
        feats = {"long-file"}
        while size < want:
            g = Gen(rng, flags)
            t = g.ledger()
            if not t.endswith("\n"):
                t += "\n"
            parts.append(t)
            parts.append("; 備考 %s\n\n" % "".join(rng.choice("あいうえお口座残高") for _ in range(rng.randint(0, 9))))
            size += len((parts[-2] + parts[-1]).encode("utf-8"))
            feats |= g.features
        cases.append(("grammar", "".join(parts), feats))
    # 3. malformed
    n_mal = len(cases) // 3
    base = [c for c in cases if c[0] == "grammar"]
    for _ in range(n_mal):
        k, t, f = rng.choice(base)
        cases.append(("malformed", malform(rng, t), set()))
    # 4. every prefix (EOF handling at every character)
    n_pref = 12 if chk.tier == "quick" else 400
    for k, t, f in rng.sample(base, min(n_pref, len(base))):
        if len(t) <= 400:
            for i in range(len(t)):
                cases.append(("prefix", t[:i], set()))
    # de-duplicate, keep order
    seen = set()
    uniq = []
    for c in cases:
        key = (c[0].split(":")[0] in ("known", "candidate"), c[1])
        if key in seen:
            continue
        seen.add(key)
        uniq.append(c)
    cases = uniq
    texts = [c[1] for c in cases]
    lines = [enc(t) for t in texts]

    # --- pass 1: parse (impl, model), format (impl, model), image (model)
    iparse = hx(["parse"], lines)
    mparse = drv(["parse"], lines)
    ifmt = hx(["fmt"], lines)
    mfmt = drv(["fmt"], lines)
    mwf = drv(["wf"], lines)
    # --- pass 2 on the formatted texts: parse again, format again
    f1 = [fmt_out(r) for r in ifmt]
    idx2 = [i for i, t in enumerate(f1) if t is not None]
    lines2 = [enc(f1[i]) for i in idx2]
    iparse2 = dict(zip(idx2, hx(["parse"], lines2)))
    ifmt2 = dict(zip(idx2, hx(["fmt"], lines2)))
    # --- EOF oracle: a text that does not end in a line feed means the same as with one appended
    idx3 = [i for i, t in enumerate(texts) if t and not t.endswith("\n") and not t.endswith("\r")]
    iparse3 = dict(zip(idx3, hx(["parse"], [enc(texts[i] + "\n") for i in idx3])))

    chk.streams = {"parse (impl vs model, spans and error offsets)": len(lines), "format (impl vs model)": len(lines),
                   "image: parsed tree is WFEntry (model)": len(lines), "format twice / re-parse (oracle on impl)": len(idx2),
                   "eof: t vs t+LF (oracle on impl)": len(idx3)}
    for fid in sorted(set(unrecorded)):
        chk.count("unrecorded_candidate:" + fid)
    seen_known = set()
    deferred = []

    for i, (kind, t, feats) in enumerate(cases):
        items, tail = split_record(iparse[i])
        chk.case(t, nontrivial=bool(items))
        chk.traces += 1
        chk.count("kind:" + kind.split(":")[0])
        chk.count("impl:" + tail.split(" ")[0])
        for f in feats:
            chk.count("feature:" + f)
        rerun = "printf '%%s\\n' '%s' | /verif/work/target/debug/hx c05 parse" % lines[i]
        accepted = tail == "done"
        base = {"text": t, "case": lines[i], "kind": kind, "rerun": rerun}
        special = kind.startswith("known:") or kind.startswith("candidate:")
        fails = []    # (summary, replay extras)
        # ---- oracle (a): every text of the documented grammar is accepted
        if kind in ("grammar", "corpus") or special:
            if not accepted:
                fails.append(("documented-grammar text rejected by parse_ledger (%s)" % tail,
                              dict(expected="accepted", observed=iparse[i], features=sorted(feats))))
        if tail.startswith("panic"):
            fails.append(("parse_ledger panicked", dict(observed=iparse[i])))
        # ---- oracles (b), (c): only for texts that parse
        if accepted:
            if ifmt[i].startswith("cmddiff"):
                fails.append(("`okane format FILE` (cmd::FormatCmd::run on a file holding the text) does not print what the formatter gives for the text",
                              dict(observed=ifmt[i][:4000])))
            elif f1[i] is None:
                fails.append(("text parses but okane format fails on it (%s)" % ifmt[i], dict(observed=ifmt[i])))
            else:
                m1, _ = meaning(iparse[i])
                m2, tail2 = meaning(iparse2[i])
                if tail2 != "done" or m1 != m2:
                    first = next((j for j, (a, b) in enumerate(zip(m1, m2)) if a != b), min(len(m1), len(m2)))
                    fails.append(("formatting changes the meaning: parse(format t) != parse t (entry %d)" % first,
                                  dict(formatted=f1[i], parse_of_text=iparse[i], parse_of_formatted=iparse2[i],
                                       expected="same entries", features=sorted(feats))))
                f2 = fmt_out(ifmt2[i])
                if f2 != f1[i]:
                    fails.append(("format is not idempotent: format(format t) != format t",
                                  dict(formatted_once=f1[i], formatted_twice=f2, features=sorted(feats))))
        elif ifmt[i].startswith("ok") or ifmt[i].startswith("panic"):
            fails.append(("okane format on a text that does not parse: %s" % ifmt[i][:40], dict(observed=ifmt[i])))
        # ---- oracle (d): end of file ends the last line
        if i in iparse3 and kind in ("grammar", "corpus"):
            a, ta = meaning(iparse[i])
            b, tb = meaning(iparse3[i])
            if (ta == "done") != (tb == "done") or (ta == "done" and a != b):
                fails.append(("a final line ended by end of file is read differently from one ended by a new-line",
                              dict(parse_without_newline=iparse[i], parse_with_newline=iparse3[i])))
        bad = bool(fails)
        if special:
            fid = kind.split(":")[1]
            if not fails:
                chk.count("recorded-defect-no-longer-reproduces:" + fid)
            elif kind.startswith("known:"):
                if fid not in seen_known:
                    seen_known.add(fid)
                    chk.known_finding(fid, "%s: %r" % (fails[0][0], t))
            else:
                chk.count("unrecorded-candidate-reproduces:" + fid)
        elif fails:
            fid = defect_class(iparse[i], t)
            st = all_findings.get(fid, {}).get("status") if fid else None
            if fid and st == "known":
                chk.count("known-class:" + fid)
                if fid not in seen_known:
                    seen_known.add(fid)
                    chk.known_finding(fid, "%s: %r" % (fails[0][0], t))
            elif fid and st is None:
                chk.count("unrecorded-candidate-reproduces:" + fid)
            elif accepted and neutralise_ws(t) != t and all(f[0].startswith(("formatting changes", "format is not idempotent")) for f in fails):
                # a round-trip failure on a text that holds white space the parser does not treat as blank: the cause is
                # tested below (the same text with those characters replaced by letters must round-trip)
                deferred.append((t, fails, base))
            else:
                for summary, extra in fails:
                    chk.oracle_failures += 1
                    chk.violation(summary, dict(base, **extra))
        if bad and not special and defect_class(iparse[i], t) is None:
            continue
        # ---- correspondence: model vs implementation
        if iparse[i] != mparse[i]:
            chk.disagreements += 1
            chk.violation("parser model and parse_ledger disagree (tree, span or error offset); the property's oracles hold on this input",
                          dict(base, stream="c05 parse", impl=iparse[i], model=mparse[i]), no_failing_input=True, tag="corr")
        elif ifmt[i] != mfmt[i]:
            chk.disagreements += 1
            chk.violation("printer model and okane format disagree; the property's oracles hold on this input",
                          dict(base, stream="c05 fmt", impl=ifmt[i], model=mfmt[i]), no_failing_input=True, tag="corr")
        elif accepted and mwf[i] != "wf" and kind in ("grammar", "corpus") and neutralise_ws(t) == t:
            # (theorem C05_image: for texts whose only white space is blank, tab, LF, CR)
            chk.disagreements += 1
            chk.violation("image property fails on the model: a parsed tree does not satisfy wfEntry (%s)" % mwf[i],
                          dict(base, stream="c05 wf", model=mwf[i], parse=iparse[i]), no_failing_input=True, tag="corr")
        if accepted:
            chk.count("wf:" + mwf[i].split(" ")[0])
    # ---- deferred round-trip failures on texts with white space the parser does not treat as blank (the class of the
    # known findings F27 / F28 / F37, = outside the hypothesis asciiSpaceOnly of theorem C05_roundtrip_text): the failure is
    # attributed to that class only if the SAME text with those characters replaced by letters round-trips on the real
    # code; otherwise it is a different violation and is reported
    if deferred:
        oks = roundtrip_ok([neutralise_ws(t) for t, _f, _b in deferred])
        for (t, fails, base), ok in zip(deferred, oks):
            if ok:
                chk.count("known-family:unicode-white-space (F27/F28/F37), cause confirmed by substitution")
                if "unicode-ws-family" not in seen_known:
                    seen_known.add("unicode-ws-family")
                    fam = [f for f in ("F28", "F27", "F37") if all_findings.get(f, {}).get("status") == "known"]
                    if fam:
                        chk.known_finding(fam[0], "another member of the Unicode-white-space family (%s; round trip restored when the "
                                          "characters are replaced by letters): %s: %r" % ("/".join(fam), fails[0][0], t[:200]))
                    else:
                        for summary, extra in fails:
                            chk.oracle_failures += 1
                            chk.violation(summary, dict(base, **extra))
            else:
                for summary, extra in fails:
                    chk.oracle_failures += 1
                    chk.violation(summary, dict(base, **extra, note="persists with every non-blank white-space character replaced by a letter"))
    if unrecorded:
        chk.sample({"unrecorded_candidates": sorted(set(unrecorded)),
                    "note": "documented-grammar texts rejected by the current tree, reported to the lead "
                            "(work/notes-c05-defects.md); kept out of the main stream until recorded in known_findings.json"})
    for j in (len(FIXED_WITNESSES) + 20, len(FIXED_WITNESSES) + 21):
        if j < len(cases):
            chk.sample({"text": cases[j][1], "impl_parse": iparse[j], "model_parse": mparse[j], "impl_format": ifmt[j]})
