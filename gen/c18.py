"""C18 — Camt053 import conserves the statement."""
import re
from fractions import Fraction

from common import standard_prologue, run_sharded, enc, HX, DRV
from impcommon import (D, Rule, sx, opt, yq, split_fields, parse_import, canon_txn, parse_proc_impl, parse_proc_model,
                       bal_nonzero, fund_text, date_sx, rules_sx, rules_yaml, caps_table)

CLAIM = {
    "technique": "Lean 4 theorems about an executable model of iso_camt053::import FROM THE BYTES OF THE FILE — a model of quick-xml "
                 "0.37.4's reader and serde Deserializer (Model/Xml.lean), of the serde schema xmlnode.rs (Model/ImportCamtXml.lean) "
                 "and of the importer behind it (Model/ImportCamt.lean) — composed with the book-keeping model + differential "
                 "correspondence: the model reads the same XML text as the real quick-xml path, on generated consistent Camt053 "
                 "statements, on hostile / boundary XML, and on the model's own canonical rendering; output fed to the real report::process",
    "text": ("Proof: the Camt053 importer is modelled in Lean from the XML text on: tokens as quick-xml's Reader emits them, the "
             "deserializer's text handling (trimming before unescaping, comments and PIs not cutting text, CDATA literal), lazy "
             "attribute parsing, serde-derived struct visitors over the element stream (keys by local name, Vec = run of elements with "
             "the same qualified name, no overlapped lists, duplicate / missing / unknown fields, $text / $value structs, the untagged "
             "RelatedParty visitor, Decimal::from_str / from_scientific, chrono's NaiveDate / DateTime FromStr), then opening-balance "
             "transaction, one transaction per entry or per detail, credit/debit sign, value / booking date, charges, amount details, "
             "closing balance, row order. Theorems: C18_shape_* and C18_accepts (shape of the output and acceptance by the book-keeping "
             "model with the closing balance reached, for every decoded statement) and their restatements on texts C18_shape_xml_* / "
             "C18_accepts_xml (for every text that decodes to the statement); totality of reader and decoder (structural recursion, "
             "no fuel) and C18_xml_no_crash; unescape(escape s) = s; the reader inverts the printer on canonical trees; "
             "decode(render d) = ok d (C18_xml_roundtrip) for every Representable d — at least one statement, each with a balance, "
             "currencies of ASCII letters/digits, domain codes of the schema, numbers of at most 18 digits with scale <= 17 and no negative "
             "zero (decRT_small: rust_decimal's 64-bit phase), valid dates with a year 0..9999 (dateRT_repr), arbitrary text everywhere "
             "else — and C18_xml_roundtrip_partial for any d whose numbers / dates round-trip by evaluation; NOT proved: the number round "
             "trip for 19..29-digit values (C18_xml_roundtrip_stmt, kept visible as a Prop); "
             "decoder laws: unknown elements are ignored wherever no list run is being read, at any depth, and break a run otherwise; "
             "order of distinct fields irrelevant; missing required element / repeated scalar / interleaved list are errors. The model is "
             "tied to the real code by importing the same XML text with both: generated statements (incl. shuffled field order), 478 "
             "hand-written boundary documents, generated documents under changes that cannot matter (full C18 oracle on the real "
             "output) or must break decoding (real code must answer XML), and the model's canonical rendering (the real decoder reads "
             "render d as d); shape, acceptance by the real report::process and the closing balance are checked on the real output by a "
             "Python oracle that does not use the model. Original amounts (third session): C18_original_amount_kept - a detail whose AmtDtls/TxAmt is in ANOTHER currency than the booked "
             "amount is imported with that original amount as its transferred (counter) amount, signed like the detail, WHATEVER the two numbers "
             "are (equal included): xmlnode::Amount compares number and currency; C18_original_amount_rate - the statement's CcyXchg rate is "
             "what the posting of the rate's target currency carries (`@ rate source`); withAmountDetails_same (an original amount equal in "
             "number and currency changes nothing) and _rate_same_currency (a rate between a currency and itself fails the import). The "
             "generated statements carry such details (either quoting direction, no rate, rate 1) and the real command `okane import` "
             "(cmd::ImportCmd::run on files) is compared with the library path on every main-stream case."),
    "note": "Trusted base after this change: the regex engine (matches computed with Python re), YAML decoding of the configuration, and "
            "UTF-8 input (the model's input is a String). XML decoding is IN the model, except where the model explicitly declines "
            "(decoded=unsupported, counted by the check, never on generated documents): a tag containing `:nil`, `xmlns:xml` or a reserved "
            "namespace URI (xsi:nil and NsReader's binding checks depend on the reader's look-ahead), elements named like serde keys "
            "(`@…`, `$…`), DOCTYPE inside the root (quick-xml panics there: reported), an element inside a code element (`Cd`, "
            "`CdtDbtInd`, `SubFmlyCd`), from_scientific products beyond 96 bits with a scale left, DtTm years beyond ±262000. "
            "The statement's own currency is single; details may carry a foreign original amount with or without CcyXchg.",
    "design_ref": "DESIGN.md section 6, C18",
}

THEOREMS = ["Okane.Import.C18_shape_opening", "Okane.Import.C18_shape_entry", "Okane.Import.C18_shape_detail",
            "Okane.Import.C18_shape_count", "Okane.Import.C18_shape_closing", "Okane.Import.C18_accepts",
            "Okane.Import.C18_xml_total", "Okane.Import.C18_xml_no_crash", "Okane.Import.C18_xml_unescape_escape",
            "Okane.Import.C18_xml_reader_roundtrip", "Okane.Import.C18_xml_roundtrip_partial", "Okane.Import.C18_xml_roundtrip",
            "Okane.Import.CamtXml.decRT_small", "Okane.Import.CamtXml.dateRT_repr", "Okane.Import.CamtXml.renderable_of_representable",
            "Okane.Import.C18_xml_render_import",
            "Okane.Import.C18_xml_import_of_decode", "Okane.Import.C18_shape_xml_entry", "Okane.Import.C18_shape_xml_closing",
            "Okane.Import.C18_shape_xml_opening", "Okane.Import.C18_accepts_xml", "Okane.Import.C18_xml_unknown_ignored",
            "Okane.Import.C18_xml_order", "Okane.Import.C18_xml_missing_required", "Okane.Import.C18_xml_duplicate",
            "Okane.Import.C18_xml_interleaved", "Okane.Import.exXml_decodes", "Okane.Import.exStatement_renderable",
            "Okane.Import.CamtXml.walk_append", "Okane.Import.CamtXml.walk_unknown_ignored", "Okane.Import.CamtXml.walk_unknown_after_list",
            "Okane.Import.CamtXml.walk_unknown_breaks_list", "Okane.Import.CamtXml.walk_swap", "Okane.Import.CamtXml.walk_congr",
            "Okane.Import.CamtXml.entry_fields_commute", "Okane.Import.CamtXml.decEntry_unknown_ignored",
            "Okane.Import.CamtXml.decodeCamt_render", "Okane.Xml.readRoot_print", "Okane.Xml.unescape_escape", "Okane.Xml.escape_clean",
            "Okane.Import.C18_original_amount_kept", "Okane.Import.C18_original_amount_rate", "Okane.Import.withAmountDetails_foreign",
            "Okane.Import.withAmountDetails_same", "Okane.Import.withAmountDetails_rate_same_currency"]

ACCOUNT = "Assets:Okane Bank"
FAMILIES = ["ICDT", "RCDT", "RDDT"]
SUBFAMILIES = ["AUTT", "DAJT", "PMDD", "SALA", "STDO", "OTHR"]
NAMES = ["Grocer Migros", "Herr Haus Okane", "ACME Payroll", "山田商店", "Landlord & Co", "OKANE VERSICHERUNGEN"]
TXINFOS = ["Card purchase Coffee Bar ref 1", "Payment order 77", "Card purchase Book <Store> ref 2", "Standing order rent", "Credit",
           # text wrapped over two lines: `.` in a rewrite pattern does not cross the line break, so the capture rule
           # `Card purchase (?P<payee>.*) ref \d+` must NOT match these (and nothing of the second line may reach the payee)
           "Card purchase Bakery\n    Sun:Terrace  4 seats ref 12", "Card purchase Kiosk ref 3\nsecond line", "Payment\norder 78"]
ENTRYINFOS = ["Credit", "Debit", "Account fee", "Batch payment", "fee reversal"]


def amt_text(rng, d):
    t = d.text()
    if t.startswith("0.") and rng.random() < 0.2:
        return t[1:]            # `.02`
    return t


def xml_escape(s):
    return s.replace("&", "&amp;").replace("<", "&lt;").replace(">", "&gt;")


def mk_charges(rng, kind, ccy):
    """kind: none | zero | included | notincluded  -> list of charge dicts"""
    out = []
    if kind in ("zero",) or (kind != "none" and rng.random() < 0.3):
        out.append({"amount": D.of(rng.choice(["0", "0.00"])), "cd": rng.choice("CD"), "included": rng.choice([None, True, False])})
    if kind == "included":
        for _ in range(rng.choice([1, 1, 2])):
            out.append({"amount": D.of(rng.choice(["2", "1.50", "0.35", "3.5"])), "cd": "D" if rng.random() < 0.85 else "C", "included": True})
    elif kind == "notincluded":
        out.append({"amount": D.of(rng.choice(["2", "1.50", "0.35", "14"])), "cd": "D" if rng.random() < 0.85 else "C",
                    "included": rng.choice([None, False])})
    rng.shuffle(out)
    return out


def charge_sum(chs):
    """signed sum of the non-zero charge postings (+ for a DBIT charge)"""
    s = Fraction(0)
    for ch in chs:
        v = ch["amount"].frac()
        s += v if ch["cd"] == "D" else -v
    return s


FOREIGN_SHARE = [0.2]      # share of the details without charges whose original amount is in another currency


def make_detail(rng, ccy, cd, cents, entry_charges, allow_charges):
    d = {"ref": "REF/%d" % rng.randint(1, 99999) if rng.random() < 0.8 else None,
         "amount": D.cents(cents), "cd": cd, "txamt": None, "charges": [], "info": {}}
    scale = rng.choice([2, 2, 1, 0])
    if cents % (10 ** (2 - scale)) == 0:
        d["amount"] = D(False, cents // (10 ** (2 - scale)), scale)
    kind = "none"
    if allow_charges:
        kind = rng.choice(["none", "none", "none", "zero", "included", "notincluded"])
    nz = [ch for ch in entry_charges if ch["amount"].mant != 0]
    if nz:
        # entry-level charges reach every detail: keep the per-transaction class consistent
        kind = "none" if all(ch["included"] is not True for ch in nz) else rng.choice(["none", "included"])
    d["charges"] = mk_charges(rng, kind, ccy)
    allch = [ch for ch in entry_charges + d["charges"] if ch["amount"].mant != 0]
    a = d["amount"].frac() if cd == "C" else -d["amount"].frac()
    if any(ch["included"] is True for ch in allch):
        t = abs(a + charge_sum(allch))
        d["txamt"] = {"amount": _dec(t), "same": False}
    elif rng.random() < 0.5:
        d["txamt"] = {"amount": D(False, d["amount"].mant * 10, d["amount"].scale + 1) if rng.random() < 0.3 else d["amount"], "same": True}
    if not allch and rng.random() < FOREIGN_SHARE[0]:
        # the original amount of the payment is in ANOTHER currency (a card payment abroad, an incoming foreign transfer): the
        # statement stays single-currency, the detail carries <TxAmt Ccy=foreign> and (usually) the <CcyXchg> that links the two.
        # Consistent: booked = foreign x rate when the rate quotes the foreign currency in the account's (SrcCcy = account currency),
        # foreign = booked x rate when it is quoted the other way round.  Rates are of the form 2^a 5^b so that every figure is exact;
        # rate 1 (a pegged currency, a EUR/EUR-like pair of tickers) makes the two NUMBERS equal while the currencies differ.
        fccy = rng.choice([c for c in ("EUR", "CHF", "USD", "JPY", "GBP") if c != ccy])
        rate = Fraction(rng.choice(["1", "1", "0.5", "2", "1.25", "0.8", "0.25", "4", "1.6", "0.625", "1.024"]))
        how = rng.choice(["src-account", "src-account", "src-foreign", "none"])
        booked = d["amount"].frac()
        foreign = booked / rate if how == "src-account" else booked * rate
        if how == "none":
            foreign = booked * rng.choice([Fraction(1), Fraction(11, 10), Fraction(9, 10), Fraction(150)])
        fa = _dec(foreign)
        if rng.random() < 0.3:
            fa = D(False, fa.mant * 10, fa.scale + 1)
        rd = _dec(rate)
        if rng.random() < 0.3:
            rd = D(False, rd.mant * 1000, rd.scale + 3)
        d["txamt"] = {"amount": fa, "same": False, "ccy": fccy,
                      "xchg": None if how == "none" else ((ccy, fccy) if how == "src-account" else (fccy, ccy)) + (rd,)}
    info = {}
    if rng.random() < 0.6:
        info["creditor_name" if cd == "D" else "debtor_name"] = rng.choice(NAMES)
    if rng.random() < 0.3:
        info["ultimate_debtor_name"] = rng.choice(NAMES)
    if rng.random() < 0.3:
        info["ultimate_creditor_name"] = rng.choice(NAMES)      # usually different from the ultimate debtor
    if rng.random() < 0.25 and ("debtor_name" not in info and "creditor_name" not in info):
        info["debtor_name" if cd == "D" else "creditor_name"] = rng.choice(NAMES)    # the other side, too
    if rng.random() < 0.3:
        info["creditor_account_id"] = "CH%d" % rng.randint(10 ** 10, 10 ** 11)
    if rng.random() < 0.25:
        info["debtor_account_id"] = "DE%d" % rng.randint(10 ** 10, 10 ** 11)
    if rng.random() < 0.3:
        info["remittance_unstructured_info"] = "invoice %d" % rng.randint(1, 999)
    if rng.random() < 0.7:
        info["additional_transaction_info"] = rng.choice(TXINFOS)
    d["info"] = info
    return d


def _dec(f):
    s = 0
    while (f * 10 ** s).denominator != 1:
        s += 1
    m = int(f * 10 ** s)
    return D(m < 0, abs(m), s)


def next_date(rng, d):
    y, m, dd = d
    dd += rng.choice([0, 0, 1, 1, 2, 9])
    while dd > 28:
        dd -= 28
        m += 1
        if m > 12:
            m, y = 1, y + 1
    return (y, m, dd)


def make_statement(rng, ccy, opening_cents, nentries, start_date, with_opening=True, with_closing=True):
    st = {"ccy": ccy, "opening": opening_cents if with_opening else None, "entries": [],
          "extra_bals": [(rng.choice(["CLAV", "ITBD", "PRCD", "FWAV"]), rng.randint(-5000, 900000))
                         for _ in range(rng.choice([0, 0, 1, 2]))]}
    bal = opening_cents
    d = start_date
    for _ in range(nentries):
        d = next_date(rng, d)
        cd = rng.choice("CD")
        batch = rng.choice([0, 0, 1, 1, 1, 2, 3, 5])
        e = {"cd": cd, "booking": d, "value": None, "dt_kind": rng.choice(["Dt", "Dt", "DtTm"]),
             "domain": ("PMNT", rng.choice(FAMILIES), rng.choice(SUBFAMILIES)) if rng.random() < 0.8 else None,
             "charges": [], "details": [], "info": rng.choice(ENTRYINFOS)}
        vk = rng.choice(["same", "same", "absent", "earlier", "later"])
        if vk == "same":
            e["value"] = d
        elif vk == "earlier":
            e["value"] = (d[0], d[1], max(1, d[2] - rng.choice([1, 2])))
        elif vk == "later":
            e["value"] = (d[0], d[1], min(28, d[2] + rng.choice([1, 3])))
        if batch == 0:
            cents = rng.choice([rng.randint(2000, 500000), 0 if rng.random() < 0.1 else 5000])
            e["amount"] = D.cents(cents)
            # no details: no amount details either, so only a not-included charge keeps the transaction balanced
            e["charges"] = mk_charges(rng, rng.choice(["none", "none", "zero", "notincluded"] if cents else ["none", "zero"]), ccy)
        else:
            parts = [rng.randint(2000, 200000) for _ in range(batch)]
            # a batch may hold a detail of the opposite direction (a refund inside a debit batch): the signed details still
            # sum to the entry, and each detail is booked with its OWN direction
            opp = rng.randint(100, 1999) if batch >= 2 and rng.random() < 0.3 else 0
            cents = sum(parts) - opp
            e["amount"] = D.cents(cents)
            if batch == 1:
                e["charges"] = mk_charges(rng, rng.choice(["none", "none", "zero", "included", "notincluded"]), ccy)
            for p in parts:
                e["details"].append(make_detail(rng, ccy, cd, p, e["charges"], allow_charges=True))
            if opp:
                e["details"].insert(rng.randint(0, len(e["details"])),
                                    make_detail(rng, ccy, "D" if cd == "C" else "C", opp, e["charges"], allow_charges=False))
        bal += cents if cd == "C" else -cents
        st["entries"].append(e)
    st["closing"] = bal if with_closing else None
    st["closing_cents"] = bal
    return st


def render_date(rng, tag, d, kind):
    if kind == "Dt":
        return "<%s><Dt>%04d-%02d-%02d</Dt></%s>" % (tag, d[0], d[1], d[2], tag)
    return "<%s><DtTm>%04d-%02d-%02dT%02d:30:00+02:00</DtTm></%s>" % (tag, d[0], d[1], d[2], rng.randint(0, 23), tag)


def render_charges(rng, chs, ccy, sh="".join):
    if not chs and rng.random() < 0.8:
        return ""
    blocks = []
    if rng.random() < 0.5:
        # the total is informational (also when it is all the block holds, as in Wise's statements): charges are booked per <Rcrd>
        blocks.append('<TtlChrgsAndTaxAmt Ccy="%s">%s</TtlChrgsAndTaxAmt>' % (ccy, rng.choice(["1", "2.16", "0", "0.00"])))
    run = []
    for ch in chs:
        pieces = ['<Amt Ccy="%s">%s</Amt>' % (ccy, amt_text(rng, ch["amount"])), "<CdtDbtInd>%s</CdtDbtInd>" % ("CRDT" if ch["cd"] == "C" else "DBIT")]
        if ch["included"] is not None:
            pieces.append("<ChrgInclInd>%s</ChrgInclInd>" % ("true" if ch["included"] else "false"))
        pieces.append("<Tp><Prtry><Id>SHAR</Id></Prtry></Tp>")
        run.append("<Rcrd>" + sh(pieces) + "</Rcrd>")
    blocks.append("".join(run))
    return "<Chrgs>" + sh(blocks) + "</Chrgs>"


def render_party(tag, name, nested):
    inner = "<Nm>%s</Nm><PstlAdr><AdrLine>Street 1</AdrLine></PstlAdr>" % xml_escape(name)
    if nested:
        return "<%s><Pty>%s</Pty></%s>" % (tag, inner, tag)
    return "<%s>%s</%s>" % (tag, inner, tag)


def render_xml(rng, stmts, shuffle=False):
    """`shuffle`: the children of every struct-like element come in a random order (the items of a list stay together):
    serde-derived visitors do not care about the order of distinct fields"""
    def sh(blocks):
        blocks = [b for b in blocks if b]
        if shuffle:
            rng.shuffle(blocks)
        return "".join(blocks)

    def cd_el(cd):
        return "<CdtDbtInd>%s</CdtDbtInd>" % ("CRDT" if cd == "C" else "DBIT")

    o = ['<?xml version="1.0" encoding="UTF-8"?>\n<Document xmlns="urn:iso:std:iso:20022:tech:xsd:camt.053.001.04">\n<BkToCstmrStmt>\n',
         "<GrpHdr><MsgId>1</MsgId><CreDtTm>2024-01-01T00:00:00</CreDtTm></GrpHdr>\n"]
    for st in stmts:
        ccy = st["ccy"]
        bals = []
        if st["opening"] is not None:
            bals.append(("OPBD", st["opening"]))
        if st["closing"] is not None:
            bals.append(("CLBD", st["closing"]))
        if rng.random() < 0.2:
            bals.reverse()
        for xb in st["extra_bals"]:
            bals.insert(rng.randint(0, len(bals)), xb)
        st["bal_order"] = list(bals)          # the order of the <Bal> elements in the file (the decoder keeps it)
        bal_run = []
        for code, cents in bals:
            bal_run.append("<Bal>" + sh(["<Tp><CdOrPrtry><Cd>%s</Cd></CdOrPrtry></Tp>" % code,
                                         '<Amt Ccy="%s">%s</Amt>' % (ccy, amt_text(rng, D.cents(abs(cents)))),
                                         cd_el("C" if cents >= 0 else "D"), "<Dt><Dt>2024-01-01</Dt></Dt>"]) + "</Bal>\n")
        ntry_run = []
        for e in st["entries"]:
            pieces = ['<Amt Ccy="%s">%s</Amt>' % (ccy, amt_text(rng, e["amount"])), cd_el(e["cd"]),
                      # the reversal indicator says WHY the entry exists (a returned payment); the direction of the booking is
                      # CdtDbtInd alone, whatever the indicator says
                      rng.choice(["<RvslInd>false</RvslInd>", "<RvslInd>false</RvslInd>", "<RvslInd>true</RvslInd>", ""]), "<Sts>BOOK</Sts>", render_date(rng, "BookgDt", e["booking"], e["dt_kind"])]
            if e["value"] is not None:
                pieces.append(render_date(rng, "ValDt", e["value"], e["dt_kind"]))
            if e["domain"]:
                pieces.append("<BkTxCd>" + sh(["<Domn>" + sh(["<Cd>%s</Cd>" % e["domain"][0],
                                                              "<Fmly>" + sh(["<Cd>%s</Cd>" % e["domain"][1], "<SubFmlyCd>%s</SubFmlyCd>" % e["domain"][2]]) + "</Fmly>"]) + "</Domn>"]) + "</BkTxCd>")
            else:
                pieces.append("<BkTxCd><Prtry>" + sh(["<Cd>XYZ</Cd>", "<Issr>Bank</Issr>"]) + "</Prtry></BkTxCd>")
            pieces.append(render_charges(rng, e["charges"], ccy, sh))
            if e["details"] or rng.random() < 0.5:
                blocks = []
                if e["details"] or rng.random() < 0.5:
                    blocks.append('<Btch><NbOfTxs>%d</NbOfTxs><TtlAmt Ccy="%s">%s</TtlAmt><CdtDbtInd>%s</CdtDbtInd></Btch>' %
                                  (max(1, len(e["details"])), ccy, e["amount"].text(), "CRDT" if e["cd"] == "C" else "DBIT"))
                run = []
                for d in e["details"]:
                    tp = ["<Refs>" + sh([("<AcctSvcrRef>%s</AcctSvcrRef>" % xml_escape(d["ref"])) if d["ref"] is not None else "",
                                         "<EndToEndId>NOTPROVIDED</EndToEndId>"]) + "</Refs>",
                          '<Amt Ccy="%s">%s</Amt>' % (ccy, amt_text(rng, d["amount"])), cd_el(d["cd"])]
                    if d["txamt"] is not None:
                        tccy = d["txamt"].get("ccy", ccy)
                        xc = d["txamt"].get("xchg")
                        xel = "" if xc is None else ("<CcyXchg>" + sh(["<SrcCcy>%s</SrcCcy>" % xc[0], "<TrgtCcy>%s</TrgtCcy>" % xc[1],
                                                                      "<XchgRate>%s</XchgRate>" % xc[2].text()]) + "</CcyXchg>")
                        tp.append("<AmtDtls>" + sh(['<InstdAmt><Amt Ccy="%s">%s</Amt></InstdAmt>' % (tccy, d["txamt"]["amount"].text()),
                                                    "<TxAmt>" + sh(['<Amt Ccy="%s">%s</Amt>' % (tccy, d["txamt"]["amount"].text()), xel]) + "</TxAmt>"]) + "</AmtDtls>")
                    tp.append(render_charges(rng, d["charges"], ccy, sh))
                    inf = d["info"]
                    rp = []
                    for key, tag in (("debtor_name", "Dbtr"), ("creditor_name", "Cdtr"), ("ultimate_debtor_name", "UltmtDbtr"),
                                     ("ultimate_creditor_name", "UltmtCdtr")):
                        if key in inf:
                            rp.append(render_party(tag, inf[key], rng.random() < 0.3))
                    if "debtor_account_id" in inf:
                        rp.append("<DbtrAcct><Id><IBAN>%s</IBAN></Id></DbtrAcct>" % inf["debtor_account_id"])
                    if "creditor_account_id" in inf:
                        if rng.random() < 0.5:
                            rp.append("<CdtrAcct><Id><IBAN>%s</IBAN></Id></CdtrAcct>" % inf["creditor_account_id"])
                        else:
                            rp.append("<CdtrAcct><Id><Othr><Id>%s</Id></Othr></Id></CdtrAcct>" % inf["creditor_account_id"])
                    if rp:
                        tp.append("<RltdPties>%s</RltdPties>" % sh(rp))
                    if "remittance_unstructured_info" in inf:
                        tp.append("<RmtInf><Ustrd>%s</Ustrd></RmtInf>" % xml_escape(inf["remittance_unstructured_info"]))
                    if "additional_transaction_info" in inf:
                        tp.append("<AddtlTxInf>%s</AddtlTxInf>" % xml_escape(inf["additional_transaction_info"]))
                    run.append("<TxDtls>" + sh(tp) + "</TxDtls>")
                blocks.append("".join(run))
                pieces.append("<NtryDtls>" + sh(blocks) + "</NtryDtls>")
            pieces.append("<AddtlNtryInf>%s</AddtlNtryInf>" % xml_escape(e["info"]))
            ntry_run.append("<Ntry>" + sh(pieces) + "</Ntry>\n")
        o.append("<Stmt>" + sh(["<Id>S</Id>", "<Acct><Id><IBAN>CH00</IBAN></Id><Ccy>%s</Ccy></Acct>\n" % ccy, "".join(bal_run),
                                "<TxsSummry><TtlNtries><NbOfNtries>%d</NbOfNtries></TtlNtries></TxsSummry>\n" % len(st["entries"]),
                                "".join(ntry_run)]) + "</Stmt>\n")
    o.append("</BkToCstmrStmt>\n</Document>\n")
    return "".join(o)


def amt_sx(d, ccy):
    return "(%s %s)" % (d.sx3(), enc(ccy))


def chgs_sx(chs, ccy):
    return "(chgs%s)" % "".join(" (%s %s %d)" % (amt_sx(ch["amount"], ccy), ch["cd"], 1 if ch["included"] else 0) for ch in chs)


def stmts_sx(stmts):
    out = []
    for st in stmts:
        ccy = st["ccy"]
        # the <Bal> elements in the order render_xml wrote them (the decoder keeps the file order)
        bals = ["(bal %s %s %s)" % (code, amt_sx(D.cents(abs(cents)), ccy), "C" if cents >= 0 else "D")
                for code, cents in st["bal_order"]]
        ents = []
        for e in st["entries"]:
            dtls = []
            for d in e["details"]:
                if d["txamt"] is None:
                    ta = "()"
                else:
                    xc = d["txamt"].get("xchg")
                    ta = "((%s %s))" % (amt_sx(d["txamt"]["amount"], d["txamt"].get("ccy", ccy)),
                                        "()" if xc is None else "((%s %s %s))" % (enc(xc[0]), enc(xc[1]), xc[2].sx3()))
                info = "(info%s)" % "".join(" (%s %s)" % (k, enc(v)) for k, v in d["info"].items())
                dtls.append("(dtl %s %s %s %s %s %s)" % (sx(opt(d["ref"], enc)), amt_sx(d["amount"], ccy), d["cd"], ta,
                                                        chgs_sx(d["charges"], ccy), info))
            dom = "()" if e["domain"] is None else "((%s %s %s))" % e["domain"]
            ents.append("(ntry %s %s %s %s %s %s (dtls%s) %s)" % (
                amt_sx(e["amount"], ccy), e["cd"], date_sx(e["booking"]),
                "()" if e["value"] is None else "(" + date_sx(e["value"]) + ")", dom, chgs_sx(e["charges"], ccy),
                "".join(" " + x for x in dtls), enc(e["info"])))
        out.append("(stmt (bals%s) (entries%s))" % ("".join(" " + b for b in bals), "".join(" " + x for x in ents)))
    return "(" + " ".join(out) + ")"


# ------------------------------------------------------------------------------------------------
# the decoder stream: XML variations whose effect is known without the model

STRUCT_TAGS = ["Ntry", "Stmt", "TxDtls", "NtryDtls", "Bal", "Rcrd", "Chrgs", "RltdPties", "BkTxCd", "Domn", "Fmly", "Refs",
               "BkToCstmrStmt", "Btch", "AmtDtls", "InstdAmt", "TxAmt", "Prtry", "RmtInf", "Tp", "CdOrPrtry", "Othr", "CdtrAcct", "DbtrAcct"]
UNKNOWN_ELEMENTS = ["<Xtra/>", "<Xtra></Xtra>", "<Xtra>text &amp; more</Xtra>", "<Xtra a='1' b=\"2\"><Y><Z>deep</Z></Y><Y/></Xtra>",
                    "<x:Xtra xmlns:x=\"urn:x\"><x:Ntry>not an entry</x:Ntry></x:Xtra>", "<Xtra><![CDATA[<Ntry>]]></Xtra>",
                    "<Xtra><Amt>no currency, not a number</Amt></Xtra>", "<Xtra><Xtra><Xtra/></Xtra></Xtra>"]
FILLERS = ["\n", "\n    ", "  \t ", "<!-- comment -->", "<!-- <Ntry> -- > -->", "<?pi target?>", "\n<!---->\n", "<?xml version=\"1.0\"?>", " <!-- a --> <!-- b --> "]
TEXT_TAGS = ["AddtlNtryInf", "AddtlTxInf", "Nm", "Ustrd", "AcctSvcrRef"]


def xml_unescape(t):
    return t.replace("&lt;", "<").replace("&gt;", ">").replace("&amp;", "&")


def _sub_nth(rng, pattern, xml, repl, flags=0):
    """applies `repl` (a function of the match) to one random match; None when there is none"""
    ms = list(re.finditer(pattern, xml, flags))
    if not ms:
        return None
    m = rng.choice(ms)
    return xml[:m.start()] + repl(m) + xml[m.end():]


def preserve_fill(rng, xml):
    """white space, comments, processing instructions between two tags: never reach the deserializer"""
    for _ in range(rng.randint(1, 12)):
        xml = _sub_nth(rng, r"><", xml, lambda m: ">" + rng.choice(FILLERS) + "<") or xml
    return xml


def preserve_unknown(rng, xml):
    """an element no schema position knows, as first or last child of a struct-like element"""
    for _ in range(rng.randint(1, 5)):
        tag = rng.choice(STRUCT_TAGS)
        u = rng.choice(UNKNOWN_ELEMENTS)
        if rng.random() < 0.5:
            xml = _sub_nth(rng, r"<%s>" % tag, xml, lambda m: m.group(0) + u) or xml
        else:
            xml = _sub_nth(rng, r"</%s>" % tag, xml, lambda m: u + m.group(0)) or xml
    return xml


def preserve_prefix(rng, xml):
    """every element under one namespace prefix: serde sees local names"""
    pre = rng.choice(["ns", "camt", "a.b", "_"])
    start = re.search(r"<[A-Za-z_]", xml).start()
    parts = re.split(r"(<!\[CDATA\[.*?\]\]>|<!--.*?-->|<\?.*?\?>)", xml[start:], flags=re.S)      # markup only
    body = "".join(p if k % 2 else re.sub(r"<(/?)([A-Za-z])", lambda m: "<%s%s:%s" % (m.group(1), pre, m.group(2)), p) for k, p in enumerate(parts))
    return xml[:start] + re.sub(r"^<(\S+) ", lambda m: '<%s xmlns:%s="urn:iso:std:iso:20022:tech:xsd:camt.053.001.04" ' % (m.group(1), pre), body, count=1)


def preserve_text(rng, xml):
    """the same character data written another way: CDATA, character references, padding white space, split by a comment"""
    for _ in range(rng.randint(1, 6)):
        tag = rng.choice(TEXT_TAGS)

        def rewrite(m):
            raw = m.group(1)
            if raw != raw.strip() or "&#" in raw:
                return m.group(0)           # rewritten before
            plain = xml_unescape(raw)
            k = rng.choice(["cdata", "ref", "pad", "split", "cdata-mix"])
            if k == "cdata" and "]]>" not in plain:
                body = "<![CDATA[%s]]>" % plain
            elif k == "ref":
                body = "".join("&#%d;" % ord(c) if rng.random() < 0.3 else ("&#x%X;" % ord(c) if rng.random() < 0.2 else xml_escape(c)) for c in plain)
            elif k == "pad":
                body = rng.choice([" ", "\n  ", "\t"]) + raw + rng.choice([" ", "\n", ""])
            elif k == "split" and len(plain) >= 2:
                cut = rng.randint(1, len(plain) - 1)
                body = xml_escape(plain[:cut]) + rng.choice(["<!-- x -->", "<?p?>"]) + xml_escape(plain[cut:])
            elif k == "cdata-mix" and len(plain) >= 2 and "]]>" not in plain:
                cut = rng.randint(1, len(plain) - 1)
                body = xml_escape(plain[:cut]) + "<![CDATA[%s]]>" % plain[cut:]
            else:
                body = raw
            return "<%s>%s</%s>" % (tag, body, tag)
        xml = _sub_nth(rng, r"<%s>([^<]*)</%s>" % (tag, tag), xml, rewrite) or xml
    return xml


def preserve_attrs(rng, xml):
    """quotes, spacing and extra attributes; attributes of leaves are not even parsed"""
    xml = re.sub(r'Ccy="([A-Z]+)"', lambda m: rng.choice(['Ccy="%s"', "Ccy='%s'", 'Ccy = "%s"', 'Ccy\n=\n"%s" ', 'x:Ccy="%s"', 'other="&lt;" Ccy="%s"',
                                                           'Ccy="%s" xmlns:q="urn:q" q:z=\'"\'']) % m.group(1), xml)
    for _ in range(rng.randint(0, 4)):
        tag = rng.choice(STRUCT_TAGS)
        xml = _sub_nth(rng, r"<%s>" % tag, xml, lambda m: "<%s %s>" % (tag, rng.choice(['id="1"', "a='x' b = \"y\"", 'note="a &gt; b"']))) or xml
    for _ in range(rng.randint(0, 3)):
        tag = rng.choice(TEXT_TAGS + ["Dt", "IBAN", "NbOfTxs", "ChrgInclInd"])
        xml = _sub_nth(rng, r"<%s>" % tag, xml, lambda m: "<%s %s>" % (tag, rng.choice(["unquoted=1", "novalue", 'dup="1" dup="2"', "=", 'a="1"']))) or xml
    return xml


def preserve_numbers(rng, xml):
    """other spellings of the same Decimal (same value, same scale)"""
    def rw(m):
        t = m.group(2)
        k = rng.choice(["plus", "pad", "us", "lead0", "same", "same"])
        if k == "plus":
            t = "+" + t
        elif k == "pad":
            t = rng.choice([" ", "\n"]) + t + rng.choice([" ", "\t", ""])
        elif k == "us" and len(t) > 1 and t[0].isdigit():
            t = t[0] + "_" + t[1:]
        elif k == "lead0" and t[0].isdigit():
            t = "00" + t
        return m.group(1) + t + "</"
    return re.sub(r"(<(?:Amt|TtlChrgsAndTaxAmt)[^>]*>)([0-9.]+)</", rw, xml)


def preserve_envelope(rng, xml):
    """what is around the root element is not looked at; nor is the root element's name"""
    body = xml[re.search(r"<[A-Za-z_]", xml).start():]
    k = rng.choice(["bom", "doctype", "tail", "tail-root", "rootname", "comment-head"])
    if k == "bom":
        return "﻿" + xml
    if k == "doctype":
        return '<?xml version="1.0"?>\n<!DOCTYPE Document [ <!ENTITY e "v"> ]>\n' + body
    if k == "tail":
        return xml + rng.choice(["trailing text", "<unclosed", "</Document>", "&bad;", "<!-- never closed", "<![CDATA["])
    if k == "tail-root":
        return xml + body
    if k == "rootname":
        return re.sub(r"(</?(?:[\w.]+:)?)Document\b", lambda m: m.group(1) + "Whatever", xml)
    return "<!-- head --><?p?>\n \n" + body


PRESERVING = [("fill", preserve_fill), ("unknown", preserve_unknown), ("prefix", preserve_prefix), ("text", preserve_text),
              ("attrs", preserve_attrs), ("numbers", preserve_numbers), ("envelope", preserve_envelope)]


def _remove_first_child(rng, xml, parent, child):
    """removes one `child` element that is a direct child of a random `parent` element"""
    def rm(m):
        inner = m.group(1)
        # the first occurrence at nesting depth 0 of the parent's content
        depth = 0
        for t in re.finditer(r"<(/?)([A-Za-z]+)([^>]*?)(/?)>", inner):
            if t.group(1):
                depth -= 1
            else:
                if depth == 0 and t.group(2) == child:
                    if t.group(4):
                        return "<%s>%s</%s>" % (parent, inner[:t.start()] + inner[t.end():], parent)
                    end = _matching_end(inner, t.end(), child)
                    return "<%s>%s</%s>" % (parent, inner[:t.start()] + inner[end:], parent)
                if not t.group(4):
                    depth += 1
        return None
    ms = [m for m in re.finditer(r"<%s>(.*?)</%s>" % (parent, parent), xml, re.S)]
    rng.shuffle(ms)
    for m in ms:
        r = rm(m)
        if r is not None:
            return xml[:m.start()] + r + xml[m.end():]
    return None


def _matching_end(text, pos, tag):
    depth = 1
    for t in re.finditer(r"<(/?)%s(?:\s[^>]*)?(/?)>" % tag, text[pos:]):
        if t.group(1):
            depth -= 1
            if depth == 0:
                return pos + t.end()
        elif not t.group(2):
            depth += 1
    return len(text)


REQUIRED = [("Ntry", "Amt"), ("Ntry", "CdtDbtInd"), ("Ntry", "BookgDt"), ("Ntry", "BkTxCd"), ("Ntry", "AddtlNtryInf"),
            ("TxDtls", "Refs"), ("TxDtls", "Amt"), ("TxDtls", "CdtDbtInd"), ("Bal", "Tp"), ("Bal", "Amt"), ("Bal", "CdtDbtInd"),
            ("Rcrd", "Amt"), ("Rcrd", "CdtDbtInd"), ("Tp", "CdOrPrtry"), ("CdOrPrtry", "Cd"), ("Domn", "Cd"), ("Domn", "Fmly"),
            ("Fmly", "Cd"), ("Fmly", "SubFmlyCd"), ("Btch", "NbOfTxs"), ("AmtDtls", "InstdAmt"), ("AmtDtls", "TxAmt"),
            ("InstdAmt", "Amt"), ("TxAmt", "Amt"), ("Prtry", "Cd"), ("CdtrAcct", "Id"), ("DbtrAcct", "Id"), ("Othr", "Id"),
            ("Document", "BkToCstmrStmt")]
SCALARS = [("Ntry", "Amt"), ("Ntry", "CdtDbtInd"), ("Ntry", "BookgDt"), ("Ntry", "ValDt"), ("Ntry", "BkTxCd"), ("Ntry", "AddtlNtryInf"),
           ("Ntry", "Chrgs"), ("Ntry", "NtryDtls"), ("TxDtls", "Refs"), ("TxDtls", "Amt"), ("TxDtls", "CdtDbtInd"), ("TxDtls", "AddtlTxInf"),
           ("TxDtls", "RltdPties"), ("TxDtls", "RmtInf"), ("Bal", "Tp"), ("Bal", "Amt"), ("Rcrd", "ChrgInclInd"), ("NtryDtls", "Btch"),
           ("Refs", "AcctSvcrRef"), ("RltdPties", "Cdtr"), ("RltdPties", "Dbtr"), ("Fmly", "Cd"), ("Chrgs", "TtlChrgsAndTaxAmt")]


def breaking(rng, xml):
    """one change after which decoding must fail (`None`: the change does not apply to this document) -> (kind, xml)"""
    k = rng.choice(["missing", "missing", "missing", "dup", "dup", "interleave", "truncate", "text-in-list", "bad-entity", "mismatch",
                    "attr", "no-ccy", "amount-child", "indicator", "one-prefixed", "code", "no-bal", "date", "number"])
    if k == "missing":
        parent, child = rng.choice(REQUIRED)
        if parent == "Document":
            return k + ":BkToCstmrStmt", re.sub(r"<BkToCstmrStmt>.*</BkToCstmrStmt>", "", xml, flags=re.S)
        r = _remove_first_child(rng, xml, parent, child)
        return (k + ":%s/%s" % (parent, child), r) if r else (k, None)
    if k == "dup":
        parent, child = rng.choice(SCALARS)

        def dup(m):
            inner = m.group(1)
            depth = 0
            for t in re.finditer(r"<(/?)([A-Za-z]+)([^>]*?)(/?)>", inner):
                if t.group(1):
                    depth -= 1
                else:
                    if depth == 0 and t.group(2) == child and not t.group(4):
                        end = _matching_end(inner, t.end(), child)
                        el = inner[t.start():end]
                        where = rng.choice([0, len(inner), end])      # first, last, right behind the original
                        return "<%s>%s</%s>" % (parent, inner[:where] + el + inner[where:], parent)
                    if not t.group(4):
                        depth += 1
            return None
        ms = list(re.finditer(r"<%s>(.*?)</%s>" % (parent, parent), xml, re.S))
        rng.shuffle(ms)
        for m in ms:
            r = dup(m)
            if r is not None:
                return k + ":%s/%s" % (parent, child), xml[:m.start()] + r + xml[m.end():]
        return k, None
    if k == "interleave":
        tag = rng.choice(["Ntry", "Bal", "TxDtls", "Rcrd", "Stmt"])
        r = _sub_nth(rng, r"</%s>(\s*)<%s>" % (tag, tag), xml, lambda m: "</%s>%s<%s>" % (tag, rng.choice(["<Xtra/>", "<Sep>x</Sep>", "<Id>S</Id>"]), tag))
        return k + ":" + tag, r
    if k == "truncate":
        end = xml.rindex("</Document>") + len("</Document>") - 1
        return k, xml[:rng.randint(xml.index("<Document") + 1, end)]
    if k == "text-in-list":
        tag = rng.choice(["Ntry", "Bal", "TxDtls", "Rcrd"])
        r = _sub_nth(rng, r"</%s>(\s*)<" % tag, xml, lambda m: "</%s> stray text <" % tag)
        return k + ":" + tag, r
    if k == "bad-entity":
        tag = rng.choice(TEXT_TAGS + ["Cd", "IBAN"])
        r = _sub_nth(rng, r"(?<=trAcct><Id>)<IBAN>" if tag == "IBAN" else r"<%s>" % tag, xml, lambda m: m.group(0) + rng.choice(["&nbsp;", "&", "&#0;", "&#xD800;", "&amp", "&#x110000;", "&;"]))
        return k + ":" + tag, r
    if k == "mismatch":
        tag = rng.choice(STRUCT_TAGS + TEXT_TAGS)
        r = _sub_nth(rng, r"</%s>" % tag, xml, lambda m: rng.choice(["</%sx>" % tag, "</%s>" % tag.lower(), "</ %s>" % tag, "</x:%s>" % tag]))
        return k + ":" + tag, r
    if k == "attr":
        # struct-like elements that the generator never puts inside an element the schema does not know
        tag = rng.choice([t for t in STRUCT_TAGS if t not in ("Tp", "Prtry")] + ["BookgDt", "ValDt", "SubFmlyCd", "Cdtr", "Dbtr"])
        r = _sub_nth(rng, r"<%s>" % tag, xml, lambda m: "<%s %s>" % (tag, rng.choice(["unquoted=1", "novalue", 'dup="1" dup="2"', "=", 'a="1" b', "a='1\""])))
        return k + ":" + tag, r
    if k == "no-ccy":
        r = _sub_nth(rng, r'<(Amt|TtlChrgsAndTaxAmt) Ccy="[A-Z]+">', xml, lambda m: rng.choice(["<%s>", '<%s ccy="CHF">', '<%s Ccy="CHF" x:Ccy="CHF">', '<%s Ccy="&bad;">']) % m.group(1))
        return k, r
    if k == "amount-child":
        r = _sub_nth(rng, r'(<Amt Ccy="[A-Z]+">)([0-9.]+)</Amt>', xml, lambda m: m.group(1) + rng.choice(
            ["<Val>%s</Val>" % m.group(2), m.group(2) + "<Unit/>", "<Unit/>" + m.group(2), "", "<![CDATA[]]>", m.group(2) + " CHF", m.group(2).replace(".", ","),
             "1 " + m.group(2), "0x" + m.group(2), m.group(2) + "e", "--" + m.group(2), m.group(2) + ".1.2"]) + "</Amt>")
        return k, r
    if k == "indicator":
        r = _sub_nth(rng, r"(?<!</TtlAmt>)<CdtDbtInd>(CRDT|DBIT)</CdtDbtInd>", xml, lambda m: "<CdtDbtInd>%s</CdtDbtInd>" % rng.choice(["crdt", "CREDIT", "", "C", "CRDT DBIT", "CRDT&#32;", "DBIT<!-- -->X"]))
        return k, r
    if k == "one-prefixed":
        tag = rng.choice(["Ntry", "Bal", "TxDtls"])
        ms = list(re.finditer(r"<%s>" % tag, xml))
        if len(ms) < 2:
            return k, None
        # the items of a list must carry the same qualified name: the run of <Ntry> ends at <p:Ntry>, which is then a second `Ntry` key
        m = rng.choice(ms[1:])
        if xml[:m.start()].rstrip().endswith("</%s>" % tag):
            end = _matching_end(xml, m.end(), tag)
            return k + ":" + tag, xml[:m.start()] + "<p:%s>" % tag + xml[m.end():end - len("</%s>" % tag)] + "</p:%s>" % tag + xml[end:]
        return k, None
    if k == "code":
        r = _sub_nth(rng, r"<(Cd|SubFmlyCd)>(PMNT|ICDT|RCDT|RDDT|AUTT|DAJT|PMDD|SALA|STDO|OTHR)</", xml, lambda m: "<%s>%s</" % (m.group(1), rng.choice(["XXXX", "", m.group(2).lower(), m.group(2) + "S"])))
        return k, r
    if k == "no-bal":
        return k, re.sub(r"<Bal>.*?</Bal>\s*", "", xml, flags=re.S) if "<Bal>" in xml else None
    if k == "date":
        r = _sub_nth(rng, r"(?<=Dt>)<Dt>([0-9-]+)</Dt>(?=</(?:BookgDt|ValDt)>)", xml, lambda m: "<Dt>%s</Dt>" % rng.choice(["", "2024-02-30", "2024-13-01", "02.01.2024", "2024/01/02", "20240102", m.group(1) + "T00:00:00", m.group(1) + "Z", "yesterday"]))
        if r is None:
            r = _sub_nth(rng, r"<DtTm>([^<]+)</DtTm>", xml, lambda m: "<DtTm>%s</DtTm>" % rng.choice(["", m.group(1)[:19], m.group(1)[:10], m.group(1).replace("T", "_"), m.group(1)[:19] + "+25:00", m.group(1)[:11] + "24:00:00Z"]))
        return k, r
    if k == "number":
        r = _sub_nth(rng, r"<NbOfTxs>(\d+)</NbOfTxs>", xml, lambda m: "<NbOfTxs>%s</NbOfTxs>" % rng.choice(["", "-1", "1.0", "one", "18446744073709551616", "1 2"]))
        if r is None or rng.random() < 0.5:
            r2 = _sub_nth(rng, r"<ChrgInclInd>(true|false)</ChrgInclInd>", xml, lambda m: "<ChrgInclInd>%s</ChrgInclInd>" % rng.choice(["TRUE", "yes", "", "2", "t"]))
            r = r2 or r
        return k, r
    return k, None


def boundary_corpus():
    """hand-written boundary documents for the decoder (model against implementation; `expect`: 'ok' / 'err' where the
    reading of quick-xml / serde says so independently of the model, None where only the comparison speaks)"""
    bal = '<Bal><Tp><CdOrPrtry><Cd>OPBD</Cd></CdOrPrtry></Tp><Amt Ccy="CHF">1</Amt><CdtDbtInd>CRDT</CdtDbtInd></Bal>'

    def wrap(body, b=bal):
        return "<Document><BkToCstmrStmt><Stmt>" + b + body + "</Stmt></BkToCstmrStmt></Document>"

    def ntry(inner="", amt='<Amt Ccy="CHF">5</Amt>', cd="<CdtDbtInd>CRDT</CdtDbtInd>", bd="<BookgDt><Dt>2024-01-02</Dt></BookgDt>",
             bk="<BkTxCd/>", info="<AddtlNtryInf>i</AddtlNtryInf>"):
        return "<Ntry>" + amt + cd + bd + bk + inner + info + "</Ntry>"

    def tx(inner="", refs="<Refs><AcctSvcrRef>R1</AcctSvcrRef></Refs>", amt='<Amt Ccy="CHF">5</Amt>', cd="<CdtDbtInd>CRDT</CdtDbtInd>"):
        return "<TxDtls>" + refs + amt + cd + inner + "</TxDtls>"

    def nd(body, btch=""):
        return ntry(inner="<NtryDtls>" + btch + body + "</NtryDtls>")

    def rp(body):
        return wrap(nd(tx(inner="<RltdPties>" + body + "</RltdPties>")))
    E = ntry()
    out = []

    def add(label, xml, expect=None):
        out.append((label, xml, expect))
    # --- the envelope
    add("base", wrap(E), "ok")
    add("root name is not looked at", wrap(E).replace("Document", "Foo"), "ok")
    add("two roots: the second is never read", wrap(E) + wrap(E), "ok")
    add("ill-formed text behind the root", wrap(E) + "<<<&&", "ok")
    add("text before the root", "junk" + wrap(E), "err")
    add("prolog", ' \n<?xml version="1.0"?><!-- c --><?pi x?>\n' + wrap(E), "ok")
    add("BOM", "﻿" + wrap(E), "ok")
    add("DOCTYPE before the root", "<!DOCTYPE foo [<!ENTITY x 'y'>]>" + wrap(E), "ok")
    add("DOCTYPE without name", "<!DOCTYPE >" + wrap(E), "err")
    add("CDATA before the root", "<![CDATA[x]]>" + wrap(E), "err")
    add("empty document", "", "err")
    add("white space only", "  \n", "err")
    add("comment only", "<!-- x -->", "err")
    add("truncated", wrap(E)[:-12], "err")
    add("truncated inside the last tag", wrap(E)[:-3], "err")
    add("root self-closed", "<Document/>", "err")
    add("no BkToCstmrStmt", "<Document></Document>", "err")
    add("no Stmt", "<Document><BkToCstmrStmt></BkToCstmrStmt></Document>", "err")
    add("no Bal (Vec without default)", wrap(E, b=""), "err")
    add("Stmt without entries", wrap(""), "ok")
    add("empty Stmt", "<Document><BkToCstmrStmt><Stmt/></BkToCstmrStmt></Document>", "err")
    add("two BkToCstmrStmt", "<Document><BkToCstmrStmt><Stmt>%s</Stmt></BkToCstmrStmt><BkToCstmrStmt><Stmt>%s</Stmt></BkToCstmrStmt></Document>" % (bal, bal), "err")
    add("root attribute ill-formed", wrap(E).replace("<Document>", "<Document a=b>"), "err")
    add("text children of the root", "<Document>junk<BkToCstmrStmt><Stmt>%s</Stmt></BkToCstmrStmt>junk</Document>" % bal, "ok")
    add("xmlns and xsi:schemaLocation", wrap(E).replace("<Document>", '<Document xmlns="urn:iso:std:iso:20022:tech:xsd:camt.053.001.04" xmlns:xsi="http://www.w3.org/2001/XMLSchema-instance" xsi:schemaLocation="a b">'), "ok")
    # --- lists
    add("unknown element between two Ntry", wrap(E + "<X/>" + E), "err")
    add("unknown elements around the Ntry run", wrap("<X/>" + E + E + "<X/>"), "ok")
    add("text between two Ntry", wrap(E + "junk" + E), "err")
    add("text behind the last Ntry", wrap(E + E + "junk"), "err")
    add("text behind the last Bal", wrap("junk" + E + E), "err")
    add("text before the first Bal", "<Document><BkToCstmrStmt><Stmt>junk" + bal + E + "</Stmt></BkToCstmrStmt></Document>", "ok")
    add("comment between two Ntry", wrap(E + "<!-- c -->" + E), "ok")
    add("white space between two Ntry", wrap(E + "\n  " + E), "ok")
    add("second Ntry prefixed", wrap(E + E.replace("<Ntry>", "<x:Ntry>").replace("</Ntry>", "</x:Ntry>")), "err")
    add("all Ntry prefixed", wrap((E + E).replace("<Ntry>", "<x:Ntry>").replace("</Ntry>", "</x:Ntry>")), "ok")
    add("Bal behind Ntry", "<Document><BkToCstmrStmt><Stmt>" + E + bal + "</Stmt></BkToCstmrStmt></Document>", "ok")
    add("Bal, Ntry, Bal", wrap(E + bal), "err")
    add("empty Ntry", wrap("<Ntry/>"), "err")
    add("Stmt, GrpHdr, Stmt", "<Document><BkToCstmrStmt><Stmt>%s</Stmt><GrpHdr/><Stmt>%s</Stmt></BkToCstmrStmt></Document>" % (bal, bal), "err")
    # --- scalars of an entry
    add("Amt twice", wrap(ntry(inner='<Amt Ccy="CHF">6</Amt>')), "err")
    add("AddtlNtryInf missing", wrap(ntry(info="")), "err")
    add("AddtlNtryInf empty", wrap(ntry(info="<AddtlNtryInf/>")), "ok")
    add("BkTxCd missing", wrap(ntry(bk="")), "err")
    add("BkTxCd with text", wrap(ntry(bk="<BkTxCd>text</BkTxCd>")), "ok")
    add("ValDt twice", wrap(ntry(inner="<ValDt><Dt>2024-01-05</Dt></ValDt><ValDt><Dt>2024-01-05</Dt></ValDt>")), "err")
    add("ValDt empty", wrap(ntry(inner="<ValDt/>")), "err")
    add("Ntry inside Ntry is unknown there", wrap(ntry(inner="<Ntry>junk</Ntry>")), "ok")
    # --- attributes
    for label, a, exp in [("missing Ccy", "<Amt>5</Amt>", "err"), ("single quotes", "<Amt Ccy='CHF'>5</Amt>", "ok"), ("prefixed attribute", '<Amt x:Ccy="CHF">5</Amt>', "ok"),
                          ("Ccy and x:Ccy", '<Amt Ccy="CHF" x:Ccy="EUR">5</Amt>', "err"), ("Ccy twice", '<Amt Ccy="CHF" Ccy="EUR">5</Amt>', "err"),
                          ("unquoted", "<Amt Ccy=CHF>5</Amt>", "err"), ("entity in Ccy", '<Amt Ccy="C&amp;F">5</Amt>', "ok"), ("bad entity in Ccy", '<Amt Ccy="&bad;">5</Amt>', "err"),
                          ("bad entity in an ignored attribute", '<Amt Ccy="CHF" z="&bad;">5</Amt>', "ok"), ("lower-case ccy", '<Amt ccy="CHF">5</Amt>', "err"),
                          ("xmlnsCcy", '<Amt xmlnsx:Ccy="CHF">5</Amt>', "ok"), ("xmlns:Ccy is a namespace binding", '<Amt xmlns:Ccy="CHF">5</Amt>', "err"),
                          ("spaces", '<Amt   Ccy  =  "CHF"  >5</Amt>', "ok"), ("no space between attributes", '<Amt a="1"Ccy="CHF">5</Amt>', "ok"),
                          ("key starting with =", '<Amt ="1" Ccy="CHF">5</Amt>', "err"), ("empty Ccy", '<Amt Ccy="">5</Amt>', "ok"), ("gt in value", '<Amt a=">" Ccy="CHF">5</Amt>', "ok"),
                          ("element child", '<Amt Ccy="CHF"><x/>5</Amt>', "err"), ("text then element", '<Amt Ccy="CHF">5<x/></Amt>', "err"),
                          ("split by a comment", '<Amt Ccy="CHF">5<!-- c -->6</Amt>', "ok"), ("no text", '<Amt Ccy="CHF"/>', "err")]:
        add("Amt: " + label, wrap(ntry(amt=a)), exp)
    add("ill-formed attribute on a leaf is never parsed", wrap(ntry(info="<AddtlNtryInf a=b>i</AddtlNtryInf>")), "ok")
    add("ill-formed attribute on a skipped element", wrap(ntry(inner="<Foo a=b>i</Foo>")), "ok")
    add("ill-formed attribute on Ntry", wrap(E.replace("<Ntry>", "<Ntry a=b>")), "err")
    # --- numbers
    for t in ["1e3", "+5", "5.", ".5", " 5 ", "1,000.00", "1_000", "_1", "-5", "-0", "-0.00", "--5", "+-5", "5e", "e5", "1E2", "1.50e1", "1.5e3", "1e-3", "1e-28", "1e-29",
              "1.5e-28", "1e28", "1e29", "0e5", "0.00e5", "-0e5", "8e28", "79228162514264337593543950335", "79228162514264337593543950336",
              "0.0000000000000000000000000001", "0.00000000000000000000000000005", "0.00000000000000000000000000004", "1.23456789012345678901234567895",
              "123456789012345678901234567.895", "79228162514264337593543950335.5", "7922816251426433759354395033.55", "1.5.5", "5..", "", "   ", "0x10", "１２",
              "1e+3", "1e-+3", "1e 3", "1e3.0", "1e99999999999", "12e-2", "-1.5e3", "1.5E-3", "1__2", "1_", "1_.5", "1._5", "1.5_", "1.2345678901234567890123456789_1",
              "1.2345678901234567890123456789_9", "1.23456789012345678901234567891_9", "18446744073709551615", "1844674407370955161", "1844674407370955160.123",
              "99999999999999999999999999999", "0.99999999999999999999999999995", "1e1", "10e1", "1.0e0", "1.10e1", "1.10e2", "1.10e3", "100e-2", "5&#x20;", "&#x35;",
              "5<!-- -->", "<![CDATA[5]]>", "<![CDATA[ 5]]>", " <![CDATA[5]]> ", "5\n", "7.9e28", "1.0e28"]:
        add("amount %r" % t, wrap(ntry(amt='<Amt Ccy="CHF">%s</Amt>' % t)))
    # --- dates
    for t in ["2024-01-02", "2024-1-2", " 2024 - 01 - 02 ", "20240102", "2024-13-01", "2024-02-30", "2024-02-29", "2023-02-29", "0000-01-01", "-0001-01-01", "+2024-01-02",
              "+12024-01-02", "12024-01-02", "024-01-02", "24-01-02", "2024-01-02x", "2024/01/02", "2024-01-02T00:00:00", "", "2024-001-02", "2024-01-002", "2024-01-2 ",
              "2024 -01-02", "2024- 01-02", "2024-01 -02", "2024-01- 02", "　2024-01-02", "2024-00-01", "2024-01-00", "2024-01-32", "+262142-12-31", "+262143-01-01",
              "-262143-01-01", "-262144-01-01", "+99999999999-01-01", "2024-01-02<!-- c -->", "2024<!-- c -->-01-02"]:
        add("Dt %r" % t, wrap(ntry(bd="<BookgDt><Dt>%s</Dt></BookgDt>" % t)))
    for t in ["2024-01-02T10:30:00+02:00", "2024-01-02T10:30:00", "2024-01-02T10:30:00Z", "2024-01-02T10:30:00z", "2024-01-02 10:30:00+02:00", "2024-01-02t10:30:00+0200",
              "2024-01-02T10:30:00 +02:00", "2024-01-02T10:30:00+02", "2024-01-02T10:30:00+02:", "2024-01-02T10:30:00+2:00", "2024-01-02T10:30:00.5+02:00",
              "2024-01-02T10:30:00.+02:00", "2024-01-02T10:30:00.1234567890123+02:00", "2024-01-02T24:00:00Z", "2024-01-02T23:59:60Z", "2024-01-02T23:59:61Z",
              "2024-01-02T23:60:00Z", "2024-01-02T1:2:3Z", "2024-01-02T 1 : 2 : 3 Z", "2024-01-02T10:30Z", "2024-01-02T10:30:00UTC", "2024-01-02T10:30:00 utc",
              "2024-01-02T10:30:00-23:59", "2024-01-02T10:30:00+24:00", "2024-01-02T10:30:00+99:00", "2024-01-02T10:30:00+02:60", "2024-01-02T10:30:00−02:00",
              "2024-01-02T10:30:00+02 00", "2024-01-02T10:30:00+02::00", "2024-01-02T10:30:00Z ", "2024-01-02T10:30:00Zx", "2024-01-02", "2024-01-02T", "2024-01-02TT10:30:00Z",
              "2024-02-30T10:30:00Z", "2024-01-02T23:30:00-11:00", "2024-12-31T23:30:00+14:00", "2024-01-02T10:30:00+02:0", "2024-01-02T10:30:00 UTCx",
              "2024-01-02T10:30:00.5 Z", "2024-01-02T10:30:00,5Z", " 2024-01-02T10:30:00Z"]:
        add("DtTm %r" % t, wrap(ntry(bd="<BookgDt><DtTm>%s</DtTm></BookgDt>" % t)))
    for label, b, exp in [("text", "<BookgDt>2024-01-02</BookgDt>", "err"), ("empty", "<BookgDt/>", "err"), ("Dt twice", "<BookgDt><Dt>2024-01-02</Dt><Dt>2024-01-02</Dt></BookgDt>", "err"),
                          ("Dt then unknown", "<BookgDt><Dt>2024-01-02</Dt><X/></BookgDt>", "err"), ("unknown then Dt", "<BookgDt><X/><Dt>2024-01-02</Dt></BookgDt>", "err"),
                          ("text then Dt", "<BookgDt>x<Dt>2024-01-02</Dt></BookgDt>", "err"), ("element inside Dt", "<BookgDt><Dt><x/>2024-01-02</Dt></BookgDt>", "err"),
                          ("ill-formed attribute on Dt", "<BookgDt><Dt a=b>2024-01-02</Dt></BookgDt>", "ok"), ("ill-formed attribute on BookgDt", "<BookgDt a=b><Dt>2024-01-02</Dt></BookgDt>", "err"),
                          ("prefixed DtTm", "<BookgDt><x:DtTm>2024-01-02T10:00:00Z</x:DtTm></BookgDt>", "ok"), ("white space", "<BookgDt>\n <Dt>\n 2024-01-02 \n</Dt>\n </BookgDt>", "ok")]:
        add("BookgDt: " + label, wrap(ntry(bd=b)), exp)
    # --- indicator and character data
    for t, exp in [("CRDT", "ok"), ("DBIT", "ok"), (" CRDT ", "ok"), ("crdt", "err"), ("", "err"), ("CR<!-- -->DT", "ok"), ("<![CDATA[CRDT]]>", "ok"), ("&#67;RDT", "ok"), ("CRDT&#32;", "err"), ("XXXX", "err"),
                   ("CRDT<x/>", None), ("<x/>CRDT", None)]:
        add("CdtDbtInd %r" % t, wrap(ntry(cd="<CdtDbtInd>%s</CdtDbtInd>" % t)), exp)
    for t in ["plain", " padded ", "a &amp; b &lt;c&gt; &quot;q&quot; &apos;s&apos;", "&#x41;&#66;", "&#0;", "&#xD800;", "&#x110000;", "&#xFFFFFFFFF;", "&#;", "&#x;", "&#+65;", "&#-65;", "&#X41;", "&foo;",
              "a & b", "a &amp b;", "a ; b", "&amp;amp;", "<![CDATA[<raw> & ]]>", "a<![CDATA[b]]>c", " <![CDATA[ b ]]> ", "a<!-- c -->b", "a <!-- c --> b", " <!-- c --> ", "<?pi?>x<?pi y?>",
              "a<b/>", "<b/>a", "<b>x</b>", "x]]>y", "a>b", "line1\nline2", "\tt\t", "&#32;sp&#32;", "&#10;", "<![CDATA[]]>", "<![CDATA[]]> ", "é山", "<!---->x", "<!--->y-->x",
              "<!-- a -- b -->x", "a<!DOCTYPE x>b"]:
        add("text %r" % t, wrap(ntry(info="<AddtlNtryInf>%s</AddtlNtryInf>" % t)))
    for label, i, exp in [("gt inside attribute values", "<AddtlNtryInf a=\">\" b='<'>x</AddtlNtryInf>", "ok"), ("white space in the end tag", "<AddtlNtryInf>x</AddtlNtryInf  \n>", "ok"),
                          ("white space before the end tag name", "<AddtlNtryInf>x</ AddtlNtryInf>", "err"), ("white space in the start tag", "<AddtlNtryInf  >x</AddtlNtryInf>", "ok"),
                          ("white space before the names", "< AddtlNtryInf>x</ AddtlNtryInf>", "err"), ("end tag in another case", "<AddtlNtryInf>x</AddtlNtryinf>", "err"),
                          ("slash in an attribute of an empty element", '<AddtlNtryInf a="/"/>', "ok"), ("slash space", "<AddtlNtryInf / >x</AddtlNtryInf>", "ok"),
                          ("prefixed", "<n:AddtlNtryInf>x</n:AddtlNtryInf>", "ok"), ("two prefixes", "<n:m:AddtlNtryInf>x</n:m:AddtlNtryInf>", "err"),
                          ("colon last", "<AddtlNtryInf:>x</AddtlNtryInf:>", "err"), ("colon first", "<:AddtlNtryInf>x</:AddtlNtryInf>", "ok")]:
        add("AddtlNtryInf: " + label, wrap(ntry(info=i)), exp)
    # --- skipped elements and markup the reader checks on the way
    for label, i, exp in [("bad entity first in a skipped element", "<Foo>&bad;</Foo>", "err"), ("bad entity later in a skipped element", "<Foo><a/>&bad;</Foo>", "ok"),
                          ("bad entity deeper in a skipped element", "<Foo><a>&bad;</a></Foo>", "ok"), ("white space, then bad entity", "<Foo> &bad;</Foo>", "err"),
                          ("CDATA, then bad entity", "<Foo><![CDATA[x]]>&bad;</Foo>", "err"), ("same name nested", "<Foo><Foo><Foo/></Foo>x</Foo>", "ok"),
                          ("mismatch inside", "<Foo><a></b></Foo>", "err"), ("unclosed inside", "<Foo><a></Foo>", "err"), ("bad CDATA start", "<Foo><![CDAT[x]]></Foo>", "err"),
                          ("bad comment start", "<Foo><!- x --></Foo>", "err"), ("bang", "<Foo><!x></Foo>", "err"), ("PI not closed", "<Foo><?x></Foo>", "err"), ("<?>", "<Foo><?></Foo>", "err"),
                          ("<??>", "<Foo><??></Foo>", "ok"), ("elements with the empty name", "<>x</>", "ok"), ("<!-->", "<!-->-->", "ok"), ("<!--->", "<!--->-->", "ok"), ("<!---->", "<!---->", "ok"),
                          ("quote in text", '<Foo>"</Foo>', "ok"), ("gt in a quoted attribute", '<Foo a="x>y">z</Foo>', "ok"), ("quote never closed", '<Foo a="x>z</Foo>', "err"),
                          ("quoted gt in an end tag", '<Foo>z</Foo ">">', "err"), ("mixed content, then text", "<Foo><a/>x</Foo> junk ", "ok"),
                          ("mixed content, white space, comment", "<Foo><a>t</a> </Foo> <!-- c --> ", "ok")]:
        add("inside Ntry: " + label, wrap(ntry(inner=i)), exp)
    add("DOCTYPE between elements", wrap("<!DOCTYPE x>" + E))
    add("xsi:nil", wrap(ntry(inner='<ValDt xsi:nil="true"/>')).replace("<Document>", '<Document xmlns:xsi="http://www.w3.org/2001/XMLSchema-instance">'))
    add("xmlns:xml bound to something else", wrap(E).replace("<Document>", '<Document xmlns:xml="foo">'))
    add("element named $value", wrap(ntry(amt='<Amt Ccy="CHF"><$value>5</$value></Amt>')))
    add("element named @Ccy", wrap(ntry(amt="<Amt><@Ccy>CHF</@Ccy>5</Amt>")))
    add("element in a code, then untrimmed text", wrap(ntry(cd="<CdtDbtInd><Foo><a/>x</Foo> CRDT</CdtDbtInd>")))
    # --- details
    add("TxDtls", wrap(nd(tx())), "ok")
    add("two TxDtls", wrap(nd(tx() + tx())), "ok")
    add("TxDtls interleaved", wrap(nd(tx() + "<X/>" + tx())), "err")
    add("text between TxDtls", wrap(nd(tx() + "j" + tx())), "err")
    for label, r, exp in [("missing", "", "err"), ("empty", "<Refs/>", "ok"), ("other reference only", "<Refs><EndToEndId>x</EndToEndId></Refs>", "ok"),
                          ("AcctSvcrRef twice", "<Refs><AcctSvcrRef>a</AcctSvcrRef><AcctSvcrRef>b</AcctSvcrRef></Refs>", "err"), ("empty AcctSvcrRef", "<Refs><AcctSvcrRef/></Refs>", "ok"),
                          ("twice", "<Refs/><Refs/>", "err")]:
        add("Refs: " + label, wrap(nd(tx(refs=r))), exp)
    add("TxDtls without Amt", wrap(nd(tx(amt=""))), "err")
    add("TxDtls without CdtDbtInd", wrap(nd(tx(cd=""))), "err")
    for t, exp in [("1", "ok"), ("+1", "ok"), ("-1", "err"), ("", "err"), (" 1 ", "ok"), ("1.0", "err"), ("18446744073709551615", "ok"), ("18446744073709551616", "err"), ("x", "err"), ("0x1", "err"), ("１", "err")]:
        add("NbOfTxs %r" % t, wrap(nd(tx(), btch="<Btch><NbOfTxs>%s</NbOfTxs></Btch>" % t)), exp)
    add("Btch empty", wrap(nd(tx(), btch="<Btch/>")), "err")
    add("Btch twice", wrap(nd(tx(), btch="<Btch><NbOfTxs>1</NbOfTxs></Btch><Btch><NbOfTxs>1</NbOfTxs></Btch>")), "err")
    add("Btch behind TxDtls", wrap(nd(tx() + "<Btch><NbOfTxs>1</NbOfTxs></Btch>")), "ok")
    add("NtryDtls empty", wrap(ntry(inner="<NtryDtls/>")), "ok")
    add("NtryDtls twice", wrap(ntry(inner="<NtryDtls/><NtryDtls/>")), "err")
    add("AmtDtls", wrap(nd(tx(inner='<AmtDtls><InstdAmt><Amt Ccy="CHF">7</Amt></InstdAmt><TxAmt><Amt Ccy="CHF">7</Amt></TxAmt></AmtDtls>'))), "ok")
    add("AmtDtls without InstdAmt", wrap(nd(tx(inner='<AmtDtls><TxAmt><Amt Ccy="CHF">7</Amt></TxAmt></AmtDtls>'))), "err")
    add("AmtDtls without TxAmt", wrap(nd(tx(inner='<AmtDtls><InstdAmt><Amt Ccy="CHF">7</Amt></InstdAmt></AmtDtls>'))), "err")
    add("AmtDtls with the detail's amount in another scale", wrap(nd(tx(inner='<AmtDtls><InstdAmt><Amt Ccy="CHF">5.0</Amt></InstdAmt><TxAmt><Amt Ccy="CHF">5.00</Amt></TxAmt></AmtDtls>'))), "ok")
    x1 = "<CcyXchg><SrcCcy>EUR</SrcCcy><TrgtCcy>CHF</TrgtCcy><XchgRate>%s</XchgRate></CcyXchg>"
    for t in ["0.95", " 0.95 ", "", "1e0", "<x/>", "0.95<x/>", "x", "0"]:
        add("XchgRate %r" % t, wrap(nd(tx(inner='<AmtDtls><InstdAmt><Amt Ccy="EUR">7</Amt></InstdAmt><TxAmt><Amt Ccy="EUR">7</Amt>' + x1 % t + "</TxAmt></AmtDtls>"))))
    add("CcyXchg without SrcCcy", wrap(nd(tx(inner='<AmtDtls><InstdAmt><Amt Ccy="EUR">7</Amt></InstdAmt><TxAmt><Amt Ccy="EUR">7</Amt><CcyXchg><TrgtCcy>CHF</TrgtCcy><XchgRate>1</XchgRate></CcyXchg></TxAmt></AmtDtls>'))), "err")
    # --- charges
    rc = '<Rcrd><Amt Ccy="CHF">%s</Amt><CdtDbtInd>DBIT</CdtDbtInd>%s</Rcrd>'
    add("Chrgs empty", wrap(ntry(inner="<Chrgs></Chrgs>")), "ok")
    add("Chrgs total only", wrap(ntry(inner='<Chrgs><TtlChrgsAndTaxAmt Ccy="CHF">1</TtlChrgsAndTaxAmt></Chrgs>')), "ok")
    add("Chrgs total without currency", wrap(ntry(inner="<Chrgs><TtlChrgsAndTaxAmt>1</TtlChrgsAndTaxAmt></Chrgs>")), "err")
    add("Chrgs total twice", wrap(ntry(inner='<Chrgs><TtlChrgsAndTaxAmt Ccy="CHF">1</TtlChrgsAndTaxAmt><TtlChrgsAndTaxAmt Ccy="CHF">1</TtlChrgsAndTaxAmt></Chrgs>')), "err")
    for t, exp in [("", "ok"), ("<ChrgInclInd>true</ChrgInclInd>", "ok"), ("<ChrgInclInd>false</ChrgInclInd>", "ok"), ("<ChrgInclInd>1</ChrgInclInd>", "ok"), ("<ChrgInclInd>0</ChrgInclInd>", "ok"),
                   ("<ChrgInclInd>TRUE</ChrgInclInd>", "err"), ("<ChrgInclInd> true </ChrgInclInd>", "ok"), ("<ChrgInclInd/>", "err"), ("<ChrgInclInd>yes</ChrgInclInd>", "err"),
                   ("<ChrgInclInd>true</ChrgInclInd><ChrgInclInd>true</ChrgInclInd>", "err"), ("<ChrgInclInd><x/></ChrgInclInd>", "err")]:
        add("ChrgInclInd %r" % t, wrap(ntry(inner="<Chrgs>" + rc % ("0.50", t) + "</Chrgs>")), exp)
    add("two Rcrd", wrap(ntry(inner="<Chrgs>" + rc % ("0.50", "") + rc % ("0.25", "") + "</Chrgs>")), "ok")
    add("Rcrd interleaved", wrap(ntry(inner="<Chrgs>" + rc % ("0.50", "") + "<X/>" + rc % ("0.25", "") + "</Chrgs>")), "err")
    add("Rcrd without Amt", wrap(ntry(inner="<Chrgs><Rcrd><CdtDbtInd>DBIT</CdtDbtInd></Rcrd></Chrgs>")), "err")
    add("Chrgs twice", wrap(ntry(inner="<Chrgs/><Chrgs/>")), "err")
    # --- bank transaction code
    dom = "<Domn><Cd>%s</Cd><Fmly><Cd>%s</Cd><SubFmlyCd>%s</SubFmlyCd></Fmly></Domn>"
    for a, b, c, exp in [("PMNT", "ICDT", "AUTT", "ok"), ("PMNT", "RCDT", "SALA", "ok"), ("PMNT", "RDDT", "OTHR", "ok"), ("XXXX", "ICDT", "AUTT", "err"), ("PMNT", "XXXX", "AUTT", "err"),
                         ("PMNT", "ICDT", "XXXX", "err"), (" PMNT ", " ICDT\n", "\tAUTT", "ok"), ("", "ICDT", "AUTT", "err")]:
        add("Domn %s/%s/%s" % (a, b, c), wrap(ntry(bk="<BkTxCd>" + dom % (a, b, c) + "</BkTxCd>")), exp)
    for label, b, exp in [("Domn without Cd", "<Domn><Fmly><Cd>ICDT</Cd><SubFmlyCd>AUTT</SubFmlyCd></Fmly></Domn>", "err"), ("Domn without Fmly", "<Domn><Cd>PMNT</Cd></Domn>", "err"),
                          ("Fmly without SubFmlyCd", "<Domn><Cd>PMNT</Cd><Fmly><Cd>ICDT</Cd></Fmly></Domn>", "err"), ("Domn twice", (dom % ("PMNT", "ICDT", "AUTT")) * 2, "err"),
                          ("Domn empty", "<Domn/>", "err"), ("Prtry only", "<Prtry><Cd>X</Cd><Issr>B</Issr></Prtry>", "ok"), ("Prtry without Cd", "<Prtry><Issr>B</Issr></Prtry>", "err"),
                          ("Prtry with empty Cd", "<Prtry><Cd/></Prtry>", "ok"), ("element in Prtry/Cd", "<Prtry><Cd><x/></Cd></Prtry>", "err"),
                          ("Issr twice", "<Prtry><Cd>X</Cd><Issr>B</Issr><Issr>B</Issr></Prtry>", "err"), ("Prtry and Domn", "<Prtry><Cd>X</Cd></Prtry>" + dom % ("PMNT", "ICDT", "AUTT"), "ok")]:
        add("BkTxCd: " + label, wrap(ntry(bk="<BkTxCd>" + b + "</BkTxCd>")), exp)
    add("BkTxCd twice", wrap(ntry(bk="<BkTxCd/><BkTxCd/>")), "err")
    # --- balances
    balf = '<Bal><Tp><CdOrPrtry><Cd>%s</Cd></CdOrPrtry></Tp><Amt Ccy="CHF">%s</Amt><CdtDbtInd>%s</CdtDbtInd></Bal>'
    for code, exp in [("OPBD", "ok"), ("CLBD", "ok"), ("CLAV", "ok"), ("", "err"), (" OPBD ", "ok"), ("opbd", "ok"), ("OPBD&#32;", "ok")]:
        add("balance code %r" % code, wrap(E, b=balf % (code, "10", "CRDT")), exp)
    add("OPBD and CLBD", wrap(E, b=balf % ("OPBD", "10", "CRDT") + balf % ("CLBD", "15", "DBIT")), "ok")
    add("two OPBD: the first counts", wrap(E, b=balf % ("OPBD", "10", "CRDT") + balf % ("OPBD", "11", "CRDT")), "ok")
    add("CLBD without entries", wrap("", b=balf % ("CLBD", "10", "CRDT")), "ok")
    for label, b, exp in [("no Tp", '<Bal><Amt Ccy="CHF">1</Amt><CdtDbtInd>CRDT</CdtDbtInd></Bal>', "err"), ("empty Tp", '<Bal><Tp/><Amt Ccy="CHF">1</Amt><CdtDbtInd>CRDT</CdtDbtInd></Bal>', "err"),
                          ("Prtry instead of Cd", '<Bal><Tp><CdOrPrtry><Prtry>x</Prtry></CdOrPrtry></Tp><Amt Ccy="CHF">1</Amt><CdtDbtInd>CRDT</CdtDbtInd></Bal>', "err"),
                          ("Cd twice", '<Bal><Tp><CdOrPrtry><Cd>OPBD</Cd><Cd>OPBD</Cd></CdOrPrtry></Tp><Amt Ccy="CHF">1</Amt><CdtDbtInd>CRDT</CdtDbtInd></Bal>', "err"),
                          ("with Dt", '<Bal><Tp><CdOrPrtry><Cd>OPBD</Cd></CdOrPrtry></Tp><Amt Ccy="CHF">1</Amt><CdtDbtInd>CRDT</CdtDbtInd><Dt><Dt>2024-01-01</Dt></Dt></Bal>', "ok")]:
        add("Bal: " + label, wrap(E, b=b), exp)
    add("Bal, X, Bal", wrap(E, b=balf % ("OPBD", "10", "CRDT") + "<X/>" + balf % ("CLBD", "15", "CRDT")), "err")
    add("second Bal prefixed", wrap(E, b=balf % ("OPBD", "10", "CRDT") + (balf % ("CLBD", "15", "CRDT")).replace("<Bal>", "<n:Bal>").replace("</Bal>", "</n:Bal>")), "err")
    S1 = "<Stmt>" + balf % ("OPBD", "10", "CRDT") + balf % ("CLBD", "15", "CRDT") + E + "</Stmt>"
    add("two Stmt", "<Document><BkToCstmrStmt>" + S1 + S1 + "</BkToCstmrStmt></Document>", "ok")
    add("pretty printed", "<Document>\n  <BkToCstmrStmt>\n    <GrpHdr>\n      <MsgId>1</MsgId>\n      <CreDtTm>x</CreDtTm>\n    </GrpHdr>\n    " + S1.replace("><", ">\n      <") + "\n  </BkToCstmrStmt>\n</Document>\n", "ok")
    # --- parties and accounts
    for label, b, exp in [("inline", "<Cdtr><Nm>Alice</Nm></Cdtr>", "ok"), ("nested", "<Cdtr><Pty><Nm>Alice</Nm></Pty></Cdtr>", "ok"), ("nested, prefixed", "<Cdtr><x:Pty><Nm>Alice</Nm></x:Pty></Cdtr>", "ok"),
                          ("nested with address", "<Cdtr><Pty><Nm>Alice</Nm><PstlAdr><AdrLine>x</AdrLine></PstlAdr></Pty></Cdtr>", "ok"),
                          ("address twice", "<Cdtr><Pty><Nm>Alice</Nm><PstlAdr/><PstlAdr/></Pty></Cdtr>", "err"), ("address starting with a bad entity", "<Cdtr><Pty><Nm>Alice</Nm><PstlAdr>&bad;</PstlAdr></Pty></Cdtr>", "err"),
                          ("empty", "<Cdtr/>", "err"), ("white space only", "<Cdtr> </Cdtr>", "err"), ("attribute, then Pty: inline", '<Cdtr a="1"><Pty><Nm>Alice</Nm></Pty></Cdtr>', "err"),
                          ("attribute, then Nm", '<Cdtr a="1"><Nm>Alice</Nm></Cdtr>', "ok"), ("attribute only", '<Cdtr a="1"/>', "err"), ("ill-formed attribute", "<Cdtr a><Nm>Alice</Nm></Cdtr>", "err"),
                          ("text, then Pty: inline", "<Cdtr>t<Pty><Nm>Alice</Nm></Pty></Cdtr>", "err"), ("text, then Nm", "<Cdtr>t<Nm>Alice</Nm></Cdtr>", "ok"),
                          ("unknown, then Pty: inline", "<Cdtr><X/><Pty><Nm>Alice</Nm></Pty></Cdtr>", "err"), ("Pty, then Nm", "<Cdtr><Pty><Nm>Alice</Nm></Pty><Nm>Bob</Nm></Cdtr>", "ok"),
                          ("Pty twice", "<Cdtr><Pty><Nm>Alice</Nm></Pty><Pty><Nm>Alice</Nm></Pty></Cdtr>", "err"), ("empty Pty", "<Cdtr><Pty/></Cdtr>", "err"),
                          ("Nm twice", "<Cdtr><Nm>Alice</Nm><Nm>Bob</Nm></Cdtr>", "err"), ("empty Nm", "<Cdtr><Nm/></Cdtr>", "ok"), ("comment, then Pty", "<Cdtr><!-- c --><Pty><Nm>Alice</Nm></Pty></Cdtr>", "ok"),
                          ("Cdtr twice", "<Cdtr><Nm>A</Nm></Cdtr><Cdtr><Nm>B</Nm></Cdtr>", "err"),
                          ("all six", "<Dbtr><Nm>D</Nm></Dbtr><Cdtr><Nm>C</Nm></Cdtr><UltmtDbtr><Pty><Nm>UD</Nm></Pty></UltmtDbtr><UltmtCdtr><Nm>UC</Nm></UltmtCdtr><DbtrAcct><Id><IBAN>DE1</IBAN></Id></DbtrAcct><CdtrAcct><Id><Othr><Id>77</Id></Othr></Id></CdtrAcct>", "ok"),
                          ("IBAN", "<CdtrAcct><Id><IBAN>CH1</IBAN></Id></CdtrAcct>", "ok"), ("IBAN with white space", "<CdtrAcct>\n<Id>\n<IBAN> CH1 </IBAN>\n</Id>\n</CdtrAcct>", "ok"),
                          ("empty Id", "<CdtrAcct><Id/></CdtrAcct>", "err"), ("text in Id", "<CdtrAcct><Id>CH1</Id></CdtrAcct>", "err"), ("two IBAN", "<CdtrAcct><Id><IBAN>CH1</IBAN><IBAN>CH2</IBAN></Id></CdtrAcct>", "err"),
                          ("unknown kind of id", "<CdtrAcct><Id><BBAN>CH1</BBAN></Id></CdtrAcct>", "err"), ("Othr without Id", "<CdtrAcct><Id><Othr><SchmeNm>x</SchmeNm></Othr></Id></CdtrAcct>", "err"),
                          ("Othr with more", "<CdtrAcct><Id><Othr><Id>7</Id><SchmeNm><Cd>x</Cd></SchmeNm></Othr></Id></CdtrAcct>", "ok"), ("account without Id", "<CdtrAcct><Tp>x</Tp></CdtrAcct>", "err"),
                          ("account with more", "<CdtrAcct><Id><IBAN>CH1</IBAN></Id><Ccy>CHF</Ccy></CdtrAcct>", "ok"), ("Id twice", "<CdtrAcct><Id><IBAN>CH1</IBAN></Id><Id><IBAN>CH1</IBAN></Id></CdtrAcct>", "err"),
                          ("element in IBAN", "<CdtrAcct><Id><IBAN><x/></IBAN></Id></CdtrAcct>", "err"), ("ill-formed attribute on Id", "<CdtrAcct><Id a><IBAN>CH1</IBAN></Id></CdtrAcct>", "err"),
                          ("comments in Id", "<CdtrAcct><Id><!-- c --><IBAN>CH1</IBAN><!-- d --></Id></CdtrAcct>", "ok"), ("nothing", "", "ok")]:
        add("RltdPties: " + label, rp(b), exp)
    add("RltdPties twice", wrap(nd(tx(inner="<RltdPties/><RltdPties/>"))), "err")
    add("RmtInf", wrap(nd(tx(inner="<RmtInf><Ustrd>inv 1</Ustrd></RmtInf>"))), "ok")
    add("RmtInf with two Ustrd", wrap(nd(tx(inner="<RmtInf><Ustrd>inv 1</Ustrd><Ustrd>inv 2</Ustrd></RmtInf>"))), "err")
    add("RmtInf structured", wrap(nd(tx(inner="<RmtInf><Strd><x/></Strd></RmtInf>"))), "ok")
    add("AddtlTxInf twice", wrap(nd(tx(inner="<AddtlTxInf/><AddtlTxInf/>"))), "err")
    return out


def make_rules(rng):
    rules = []
    if rng.random() < 0.6:
        rules.append(Rule([[("additional_transaction_info", "Card purchase (?P<payee>.*) ref \\d+")]]))
    if rng.random() < 0.6:
        rules.append(Rule([[("creditor_name", "(?P<payee>.*)")]]))
    if rng.random() < 0.5:
        rules.append(Rule([[("domain_code", "PMNT"), ("domain_family", "RCDT"), ("domain_sub_family", "SALA")]],
                          account="Income:Salary", payee="Employer"))
    if rng.random() < 0.6:
        rules.append(Rule([[("payee", "grocer")], [("payee", "山田")]], is_or=True, account="Expenses:Grocery"))
    if rng.random() < 0.4:
        rules.append(Rule([[("additional_entry_info", "fee")]], account="Expenses:Fees", pending=True))
    if rng.random() < 0.3:
        rules.append(Rule([[("debtor_name", "ACME")]], account="Income:Salary", pending=rng.random() < 0.5))
    # one rule per party / reference field, each looking for a name: every matcher must read ITS field
    for f, acct in (("ultimate_creditor_name", "Expenses:UltCdtr"), ("ultimate_debtor_name", "Liabilities:UltDbtr"),
                    ("creditor_name", "Expenses:Cdtr"), ("debtor_name", "Income:Dbtr"), ("creditor_account_id", "Assets:ByCdtrAcct"),
                    ("debtor_account_id", "Assets:ByDbtrAcct")):
        if rng.random() < 0.25:
            pat = rng.choice(NAMES)[:4] if "account" not in f else rng.choice(["CH", "DE", "7"])
            rules.append(Rule([[(f, re.escape(pat))]], account=acct))
    return rules


TEXT_FIELDS = {"creditor_name", "creditor_account_id", "ultimate_creditor_name", "debtor_name", "debtor_account_id",
               "ultimate_debtor_name", "remittance_unstructured_info", "additional_entry_info", "additional_transaction_info", "payee"}


def expected_shapes(stmts, order):
    """[(kind, date, effective, signed amount Fraction, neg flag, balance or None, code)] for the whole document, in output order"""
    out = []
    for st in stmts:
        first_of_stmt = len(out)
        if st["opening"] is not None and st["entries"]:
            f = st["entries"][0]
            out.append({"kind": "opening", "date": f["value"] or f["booking"], "eff": None, "amount": Fraction(0), "neg": False,
                        "balance": Fraction(st["opening"], 100), "code": None})
        ents = st["entries"] if order == "o2n" else list(reversed(st["entries"]))
        for e in ents:
            date = e["value"] or e["booking"]
            eff = e["booking"] if e["booking"] != date else None
            units = e["details"] if e["details"] else [None]
            for d in units:
                src = d if d is not None else e
                v = src["amount"].frac()
                out.append({"kind": "detail" if d is not None else "entry", "date": date, "eff": eff,
                            "amount": v if src["cd"] == "C" else -v, "neg": src["cd"] == "D", "balance": None,
                            "code": d["ref"] if d is not None else None, "nch": len([c for c in e["charges"] + (d["charges"] if d else []) if c["amount"].mant != 0]),
                            "foreign": d["txamt"] if d is not None and d["txamt"] is not None and "ccy" in d["txamt"] else None})
        if st["closing"] is not None and out:
            out[-1]["balance"] = Fraction(st["closing"], 100)
        _ = first_of_stmt
    return out


def has_foreign(stmts):
    return any(d.get("txamt") is not None and "ccy" in d["txamt"] for st in stmts for e in st["entries"] for d in e["details"])


def acct_of(stmts):
    """the account the statement is imported into (the generator notes it on the first statement; default ACCOUNT)"""
    return stmts[0].get("acct", ACCOUNT) if stmts else ACCOUNT


def oracle(stmts, order, ist, txns, proc, closing_cents, ccy):
    if ist != "ok":
        return ["import of a consistent statement failed: %s %s" % (ist, txns)]
    exp = expected_shapes(stmts, order)
    if len(txns) != len(exp):
        return ["%d transactions, the statement has %d opening/entry/detail records" % (len(txns), len(exp))]
    msgs = []
    for i, (x, t) in enumerate(zip(exp, txns)):
        where = "transaction %d (%s)" % (i, x["kind"])
        if t["date"] != x["date"]:
            msgs.append("%s: dated %s, value date is %s" % (where, t["date"], x["date"]))
        if t["effective"] != x["eff"]:
            msgs.append("%s: effective date %s, booking date gives %s" % (where, t["effective"], x["eff"]))
        posts = t["posts"]
        src = posts[0] if not x["neg"] else posts[-1]
        if src["account"] != acct_of(stmts):
            msgs.append("%s: account posting not %s" % (where, "first" if not x["neg"] else "last"))
            continue
        if src["amount"]["value"] != x["amount"] or src["amount"]["commodity"] != ccy:
            msgs.append("%s: account posting %s, statement says %s (credit +, debit -)" % (where, src["amount"]["value"], x["amount"]))
        want_bal = x["balance"]
        got_bal = None if src["balance"] is None else src["balance"]["value"]
        if got_bal != want_bal:
            msgs.append("%s: asserted balance %s, expected %s" % (where, got_bal, want_bal))
        if x["kind"] == "opening":
            if t["payee"] != "Initial Balance" or posts[-1]["account"] != "Equity:Adjustments":
                msgs.append("%s: not the opening-balance transaction" % where)
        else:
            if t["code"] != x["code"]:
                msgs.append("%s: code %s, reference is %s" % (where, t["code"], x["code"]))
            if len(posts) != 2 + x["nch"]:
                msgs.append("%s: %d postings for %d non-zero charges" % (where, len(posts), x["nch"]))
        # conservation inside the transaction: every posting valued at its cost (`@ rate`), totals per commodity
        res = {}
        for p in posts:
            a = p["amount"]
            if p["cost"] is not None and p["cost"][0] == "rate":
                c, v = p["cost"][1]["commodity"], a["value"] * p["cost"][1]["value"]
            elif p["cost"] is not None:
                c, v = p["cost"][1]["commodity"], abs(p["cost"][1]["value"]) * (1 if a["value"] >= 0 else -1)
            else:
                c, v = a["commodity"], a["value"]
            res[c] = res.get(c, Fraction(0)) + v
        nz = sorted(v for v in res.values() if v != 0)
        fg = x.get("foreign")
        if fg is None:
            if nz:
                msgs.append("%s: postings do not sum to zero" % where)
        else:
            # a detail whose original amount is in another currency: the counter posting shows that amount, sign opposite to the
            # account posting, and the statement's rate links the two (on the posting whose commodity is the rate's TrgtCcy)
            other = posts[-1] if not x["neg"] else posts[0]
            want = fg["amount"].frac() * (-1 if x["amount"] > 0 else 1)
            if other["amount"]["commodity"] != fg["ccy"] or other["amount"]["value"] != want:
                msgs.append("[original-amount] %s: counter posting %s %s, the statement's transaction amount is %s %s" %
                            (where, other["amount"]["value"], other["amount"]["commodity"], want, fg["ccy"]))
            xc = fg["xchg"]
            if xc is None:
                if src["cost"] is not None or other["cost"] is not None:
                    msgs.append("[original-amount] %s: a rate is printed, the statement has none" % where)
                if not (len(nz) == 2 and nz[0] < 0 < nz[1]):
                    msgs.append("%s: not an exchange of two amounts of opposite sign" % where)
            else:
                carrier, bare = (other, src) if xc[1] == fg["ccy"] else (src, other)
                cst = carrier["cost"]
                if cst is None or cst[0] != "rate" or cst[1]["value"] != xc[2].frac() or cst[1]["commodity"] != xc[0]:
                    msgs.append("[original-amount] %s: the %s posting does not carry the statement's rate @ %s %s (it has %s)" %
                                (where, xc[1], xc[2].text(), xc[0], cst))
                if bare["cost"] is not None:
                    msgs.append("[original-amount] %s: the %s posting carries a rate the statement does not give" % (where, xc[0]))
                if nz:
                    msgs.append("%s: postings valued at the statement's rate do not sum to zero" % where)
    if msgs:
        return msgs
    if proc[0] != "ok":
        msgs.append("consistent statement: the real book-keeping rejects the imported ledger: %s" % (proc,))
    else:
        got = proc[1].get(acct_of(stmts), {}).get(ccy, Fraction(0))
        if got != Fraction(closing_cents, 100):
            msgs.append("account ends at %s, closing balance is %s" % (got, Fraction(closing_cents, 100)))
    return msgs


SIMPLE_YAML = "path: statement\nencoding: UTF-8\naccount: %s\naccount_type: asset\noperator: Op\ncommodity: CHF\nrewrite: []\n" % yq(ACCOUNT)
SIMPLE_CFG = "(cfg %s (%s) o2n (rules))" % (enc(ACCOUNT), enc("Op"))


def _outcome(field):
    """import=<...> -> ('ok', [canonical txns]) | ('err', kind) | ('panic', text) | (other, text)"""
    try:
        st, tx = parse_import(field if field is not None else "(missing)")
    except Exception as e:      # noqa
        return ("unparsed", str(e))
    if st == "ok":
        return ("ok", [canon_txn(t) for t in tx])
    return (st, tx)


def run_xml_decode(chk, meta):
    """stream `xml-decode`: hostile and boundary XML for the decoder.
    1. the hand-written boundary corpus: model against implementation, plus the annotated expectation (ok / decode error);
    2. generated statements under a change that cannot matter (fill, unknown elements at list-safe places, a namespace
       prefix, other spellings of text / attributes / numbers, another field order, another envelope): the full C18 oracle
       must hold on the implementation's output and the model must still decode the generator's structure;
    3. generated statements under a change that must make decoding fail (a required element removed, a scalar repeated, a
       list interleaved, truncation, ...): the implementation must answer `XML`.
    The model may decline (`decoded=unsupported:…`): counted, never a disagreement, and never on part 2 or 3."""
    rng = chk.rng
    hx_lines, drv_lines, info = [], [], []
    for label, xml, expect in boundary_corpus():
        cid = "b%d" % len(info)
        hx_lines.append("%s cfg=%s src=%s fund=~" % (cid, enc(SIMPLE_YAML), enc(xml)))
        drv_lines.append("%s cfg=%s src=%s caps=() fund=()" % (cid, SIMPLE_CFG, enc(xml)))
        info.append({"part": "boundary", "label": label, "xml": xml, "expect": expect, "yaml": SIMPLE_YAML, "fund": ""})
    nmut = 1500 if chk.tier == "thorough" else 260
    usable = [m for m in meta if sum(len(st["entries"]) for st in m[0]) > 0]
    for j in range(nmut):
        stmts, order, yaml, xml, fund, closing, ccy, cfg_sx, caps, fund_sx = usable[rng.randrange(len(usable))]
        if len(xml) > 60000:
            continue
        cid = "m%d" % len(info)
        if j % 2 == 0:
            kinds = rng.sample(PRESERVING, rng.choice([1, 1, 2, 3]))
            kinds.sort(key=lambda kf: {"envelope": 1, "prefix": 2}.get(kf[0], 0))      # the tag-based changes first
            x2 = xml
            for _, f in kinds:
                x2 = f(rng, x2)
            kind = "+".join(k for k, _ in kinds)
            rec = {"part": "preserving", "label": kind, "xml": x2, "expect": "same", "yaml": yaml, "fund": fund,
                   "stmts": stmts, "order": order, "closing": closing, "ccy": ccy}
            drv_lines.append("%s cfg=%s src=%s caps=%s fund=%s stmts=%s" % (cid, cfg_sx, enc(x2), caps, fund_sx, stmts_sx(stmts)))
        else:
            kind, x2 = breaking(rng, xml)
            if x2 is None or x2 == xml:
                continue
            if rng.random() < 0.3:      # a harmless change on top
                x2 = preserve_fill(rng, x2) if "truncate" not in kind else x2
            rec = {"part": "breaking", "label": kind, "xml": x2, "expect": "err", "yaml": yaml, "fund": fund}
            drv_lines.append("%s cfg=%s src=%s caps=%s fund=%s" % (cid, cfg_sx, enc(x2), caps, fund_sx))
        hx_lines.append("%s cfg=%s src=%s fund=%s" % (cid, enc(yaml), enc(x2), enc(fund)))
        info.append(rec)
    impl = run_sharded(HX, ["c18"], hx_lines)
    model = run_sharded(DRV, ["c18"], drv_lines)
    chk.streams["xml-decode"] = len(info)
    declined = 0
    for rec, iline, mline, dline in zip(info, impl, model, drv_lines):
        chk.case(("xml-decode", rec["xml"]), nontrivial=True)
        chk.traces += 1
        _, f = split_fields(iline)
        _, mf = split_fields(mline)
        io = _outcome(f.get("import"))
        mo = _outcome(mf.get("import", mline))
        part = rec["part"]
        chk.count("xml-decode:%s" % part)
        chk.count("xml-decode:impl=%s" % (io[0] if io[0] != "err" else "err-" + str(io[1])))
        if part == "breaking":
            chk.count("xml-decode:breaking:%s" % rec["label"].split(":")[0])
        elif part == "preserving":
            for kname in rec["label"].split("+"):
                chk.count("xml-decode:preserving:%s" % kname)
        replay = {"config_yaml": rec["yaml"], "xml": rec["xml"], "fund": rec["fund"], "what": "%s: %s" % (part, rec["label"]),
                  "impl": f.get("import"), "model": mf.get("import", mline), "model_decoded": mf.get("decoded"),
                  "rerun": "hx c18 on `<id> cfg=<enc config_yaml> src=<enc xml> fund=<enc fund>` (see harness/src/c18.rs)"}
        # ---- the expectation that does not use the model
        msgs = []
        if rec["expect"] == "err":
            if io != ("err", "XML"):
                msgs.append("a document that cannot be decoded (%s) is answered %s" % (rec["label"], str(io)[:200]))
        elif rec["expect"] == "ok":         # decoding succeeds (the importer behind it may still refuse, e.g. two charges)
            if not (io[0] == "ok" or (io[0] == "err" and io[1] != "XML")):
                msgs.append("a document the decoder accepts by its rules (%s) is answered %s" % (rec["label"], str(io)[:200]))
        elif rec["expect"] == "same":
            ist, itx = parse_import(f.get("import", "(missing)")) if io[0] == "ok" else (io[0], io[1])
            msgs = oracle(rec["stmts"], rec["order"], ist, itx, parse_proc_impl(f.get("proc", "-")), rec["closing"], rec["ccy"])
        if msgs:
            chk.oracle_failures += 1
            chk.violation("Camt053 decoding (%s): %s" % (part, msgs[0]), dict(replay, oracle=msgs[:10]))
            continue
        # ---- model against implementation
        if str(mf.get("decoded", "")).startswith("unsupported"):
            declined += 1
            chk.count("xml-decode:model-declines:" + str(mf.get("decoded"))[:60])
            if part != "boundary":
                chk.disagreements += 1
                chk.violation("the model declines a generated document (%s)" % rec["label"], dict(replay, drv_case=dline),
                              no_failing_input=True, tag="corr")
            continue
        agree = io == mo
        if agree and rec["expect"] == "same":
            # the decoded structure is compared with the generator's only where the variation cannot respell a figure the structure
            # records digit for digit: with an original amount in another currency the `text` variations respell the exchange rate
            # (seen with seed 8: same import, same books, `xcheck=differs`) - model and implementation are still compared in full
            agree = mf.get("xcheck") == "same" or has_foreign(rec.get("stmts") or []) or "text" in str(rec.get("label"))
            if agree and rec["fund"]:
                ip, mp = parse_proc_impl(f.get("proc", "-")), parse_proc_model(mf.get("proc", "-"))
                agree = ip[0] == mp[0] == "ok" and bal_nonzero(ip[1]) == bal_nonzero(mp[1])
        if not agree:
            chk.disagreements += 1
            chk.violation("model (reading the XML text) and implementation disagree on %s document `%s`" % (part, rec["label"]),
                          dict(replay, stream="c18 xml-decode", drv_case=dline, xcheck=mf.get("xcheck")), no_failing_input=True, tag="corr")
    chk.count("xml-decode:model-declines", declined)


def run_render(chk, meta, impl_orig):
    """stream `render`: the canonical rendering of the round-trip theorem (`CamtXml.render`, printed by `drv c18 render` from
    the statement structure) is imported by the REAL code; the result must be the transactions the real code made of the
    generator's own XML for the same statements (the real decoder reads `render d` as `d`), and the model must decode it
    back to the generator's structure (`xcheck=same`, the theorem `decodeCamt_render` on this input)."""
    meta = meta[:2500]          # the thorough tier renders a part of its statements
    rlines = ["r%d stmts=%s" % (k, stmts_sx(m[0])) for k, m in enumerate(meta)]
    rendered = run_sharded(DRV, ["c18", "render"], rlines)
    hx_lines, drv_lines, keep = [], [], []
    for k, (m, rl) in enumerate(zip(meta, rendered)):
        _, rf = split_fields(rl)
        stmts, order, yaml, xml, fund, closing, ccy, cfg_sx, caps, fund_sx = m
        chk.count("render:renderable=%s" % rf.get("renderable"))
        if rf.get("renderable") != "1":
            chk.disagreements += 1
            chk.violation("a generated statement is not `Renderable` (the round-trip theorem does not apply)",
                          {"stmts": stmts_sx(stmts), "drv": rl[:300]}, no_failing_input=True, tag="corr")
            continue
        from common import dec_bytes
        x2 = dec_bytes(rf["xml"]).decode("utf-8")
        hx_lines.append("r%d cfg=%s src=%s fund=%s" % (k, enc(yaml), enc(x2), enc(fund)))
        drv_lines.append("r%d cfg=%s src=%s caps=%s fund=%s stmts=%s" % (k, cfg_sx, enc(x2), caps, fund_sx, stmts_sx(stmts)))
        keep.append((k, x2))
    impl = run_sharded(HX, ["c18"], hx_lines)
    model = run_sharded(DRV, ["c18"], drv_lines)
    chk.streams["render"] = len(keep)
    for (k, x2), iline, mline in zip(keep, impl, model):
        chk.case(("render", x2), nontrivial=True)
        chk.traces += 1
        _, f = split_fields(iline)
        _, fo = split_fields(impl_orig[k])
        _, mf = split_fields(mline)
        a, b, c = _outcome(f.get("import")), _outcome(fo.get("import")), _outcome(mf.get("import", mline))
        if not (a == b and a[0] == "ok" and f.get("proc") == fo.get("proc")):
            chk.oracle_failures += 1
            chk.violation("the real importer reads the canonical rendering of a statement differently from the generator's XML of the same statement",
                          {"config_yaml": meta[k][2], "xml": x2, "xml_generator": meta[k][3], "fund": meta[k][4],
                           "impl_rendered": f.get("import"), "impl_generator": fo.get("import")})
            continue
        if not (c == a and mf.get("xcheck") == "same"):
            chk.disagreements += 1
            chk.violation("model and implementation disagree on the canonical rendering (or the model does not decode it back: xcheck=%s)" % mf.get("xcheck"),
                          {"config_yaml": meta[k][2], "xml": x2, "fund": meta[k][4], "impl": f.get("import"), "model": mf.get("import", mline)},
                          no_failing_input=True, tag="corr")


def run(chk):
    chk.rule = ("stream camt-consistent: generated consistent single-currency Camt053 statements rendered as XML in the dialect of "
                "cli/tests/testdata/import/*.xml: entries without details, batches of 1-5 details, credit/debit, value date "
                "absent / equal / before / after the booking date, Dt and DtTm, charges (zero, included with amount details, "
                "not included, credit charges) on entries and details, balances of either sign, one or two statements per "
                "document, both row orders, every fourth document with the children of every element shuffled, rewrite rules over "
                "party names / info texts / domain codes; the MODEL READS THE SAME XML TEXT and its decoded statement is compared with "
                "the generator's structure; non-trivial = at least one entry. Stream xml-decode: 478 hand-written boundary documents "
                "(envelope, lists, attributes, numbers, dates, character data, skipped elements, every struct of the schema) plus "
                "generated statements under a change that cannot matter (fill, unknown elements, namespace prefix, other spellings of "
                "text / attributes / numbers, envelope) or that must break decoding (required element removed, scalar repeated, list "
                "interleaved, truncation, bad entity, mismatched tag, attribute errors, ...). Stream render: the model's canonical "
                "rendering of every generated statement, imported by the real code. Distinct = distinct XML texts")
    chk.assumptions = [
        "the regex engine and YAML decoding are outside the model (matches computed with Python re; configuration handed over decoded)",
        "the model declines (decoded=unsupported) xsi:nil / reserved namespace bindings / serde-key element names / DOCTYPE inside the "
        "root / elements inside code elements / from_scientific rescaling: only hand-written boundary documents are declined, counted "
        "under xml-decode:model-declines",
        "the statement's own currency is single; a fifth of the charge-free details carry their original amount in another "
        "currency (TxAmt Ccy=foreign with CcyXchg in either quoting direction, or without CcyXchg), rate 1 included",
    ]
    if not standard_prologue(chk, THEOREMS):
        return
    rng = chk.rng
    # ---------------- corpus first: witnesses of fixed findings must pass
    import json as _json
    import os as _os
    cdir = _os.path.join(_os.path.dirname(_os.path.dirname(_os.path.abspath(__file__))), "corpus", "C18")
    ncorp = 0
    for fn in sorted(_os.listdir(cdir)) if _os.path.isdir(cdir) else []:
        for case in _json.load(open(_os.path.join(cdir, fn)))["cases"]:
            out = run_sharded(HX, ["c18"], ["corp cfg=%s src=%s fund=%s" % (enc(case["config_yaml"]), enc(case["xml"]), enc(case["fund"]))], 1)
            _, f = split_fields(out[0])
            ncorp += 1
            chk.case(("corpus", fn, case["name"]))
            try:
                ist, itx = parse_import(f.get("import", "(missing)"))
            except Exception as e:      # noqa
                ist, itx = "unparsed", str(e)
            p = parse_proc_impl(f.get("proc", "-"))
            ok = ist == "ok" and len(itx) == case["expect_txns"] and p[0] == "ok" and \
                p[1].get(ACCOUNT, {}).get("CHF", Fraction(0)) == Fraction(case["expect_final"])
            if not ok:
                chk.oracle_failures += 1
                chk.violation("corpus case %s/%s (witness of a fixed finding) fails again: import=%s proc=%s" %
                              (fn, case["name"], f.get("import", "")[:200], f.get("proc", "")[:200]),
                              {"config_yaml": case["config_yaml"], "xml": case["xml"], "fund": case["fund"],
                               "observed_import": f.get("import"), "observed_proc": f.get("proc")})
    chk.streams["corpus"] = ncorp
    n, maxe = (10000, 40) if chk.tier == "thorough" else (320, 10)
    hx_lines, drv_lines, meta = [], [], []
    for i in range(n):
        ccy = rng.choice(["CHF", "EUR", "USD"])
        order = rng.choice(["o2n", "n2o"])
        opening = rng.choice([0, 10000, 123456, -25000, 99])
        ne = rng.randint(1, maxe) if rng.random() < 0.9 else rng.randint(1, 3)
        if i % 50 == 0:
            ne = maxe
        if i % 40 == 7:
            ne = 0          # a period without movements
        stmts = [make_statement(rng, ccy, opening, ne, (2024, rng.randint(1, 12), rng.randint(1, 20)))]
        if rng.random() < 0.12 and stmts[0]["entries"]:
            st2 = make_statement(rng, ccy, stmts[0]["closing_cents"], rng.choice([0, 0, 1, 3]), stmts[0]["entries"][-1]["booking"])
            stmts.append(st2)
        closing = stmts[-1]["closing_cents"]
        # the account the statement belongs to: short, or so long that name + number come to the column where the printer's minimum
        # gap decides whether the line reads back (47 = 48 - 1)
        acct = ACCOUNT if rng.random() < 0.6 else ("Assets:Banks:Okane Kantonalbank:Checking" + "ABCDEF"[:rng.randint(0, 6)])[:rng.randint(38, 46)]
        stmts[0]["acct"] = acct
        if order == "n2o":
            for st in stmts:
                st["entries"].reverse()      # the file lists the newest entry first
        rules = make_rules(rng)
        operator = "Okane Bank (fee)"
        prec = rng.random() < 0.6
        yaml = ("path: statement\nencoding: UTF-8\naccount: %s\naccount_type: asset\noperator: %s\ncommodity: %s\n" %
                (yq(acct), yq(operator), ccy))
        fmt = []
        if order == "n2o":
            fmt.append("  row_order: new_to_old\n")
        if prec:
            fmt.append("  commodity:\n    %s:\n      precision: 2\n" % ccy)
        if fmt:
            yaml += "format:\n" + "".join(fmt)
        yaml += rules_yaml(rules)
        shuffled = i % 4 == 3
        xml = render_xml(rng, stmts, shuffle=shuffled)
        b0 = D.cents(opening)
        fund = fund_text(acct, (2000, 1, 1), b0.text(), ccy)
        fund_sx = "(%s %s %s)" % (date_sx((2000, 1, 1)), b0.sx3(), enc(ccy))
        cid = "s%d" % i
        hx_lines.append("%s cfg=%s src=%s fund=%s cmd=1" % (cid, enc(yaml), enc(xml), enc(fund)))
        hay = []
        for st in stmts:
            for e in st["entries"]:
                hay.append(e["info"])
                for d in e["details"]:
                    hay.extend(d["info"].values())
        caps = caps_table(rules, hay, TEXT_FIELDS)
        cfg_sx = "(cfg %s (%s) %s %s)" % (enc(acct), enc(operator), order, rules_sx(rules))
        # the model reads the XML text itself; `stmts=` (what the generator rendered) is only used for the cross-check
        drv_lines.append("%s cfg=%s src=%s caps=%s fund=%s stmts=%s" % (cid, cfg_sx, enc(xml), caps, fund_sx, stmts_sx(stmts)))
        meta.append((stmts, order, yaml, xml, fund, closing, ccy, cfg_sx, caps, fund_sx))
    impl = run_sharded(HX, ["c18"], hx_lines)
    model = run_sharded(DRV, ["c18"], drv_lines)
    chk.streams["camt-consistent"] = n
    for (stmts, order, yaml, xml, fund, closing, ccy, _c, _k, _f), iline, mline, dline in zip(meta, impl, model, drv_lines):
        nent = sum(len(st["entries"]) for st in stmts)
        chk.case(xml, nontrivial=nent > 0)
        chk.traces += 1
        cid, f = split_fields(iline)
        _, mf = split_fields(mline)
        replay = {"config_yaml": yaml, "xml": xml, "fund": fund, "impl": f.get("import"), "impl_proc": f.get("proc"),
                  "model": mf.get("import", mline), "model_proc": mf.get("proc"),
                  "rerun": "hx c18 on `<id> cfg=<enc config_yaml> src=<enc xml> fund=<enc fund>` (see harness/src/c18.rs)"}
        try:
            ist, itx = parse_import(f.get("import", "(missing)"))
        except Exception as e:      # noqa
            ist, itx = "unparsed", str(e)
        iproc = parse_proc_impl(f.get("proc", "-"))
        chk.count("import:" + ist)
        # the real COMMAND (cmd::ImportCmd::run on files: the glue of cli/src/cmd.rs); the book-keeping verdict below is then about
        # the text the command printed
        cmdv = f.get("cmd", "-")
        chk.count("command:" + cmdv.split(":")[0])
        if cmdv.startswith("diff"):
            from impcommon import dec as _dec_text
            try:
                ctext = _dec_text(cmdv[5:])
            except Exception:      # noqa
                ctext = cmdv[5:]
            # does okane's own book-keeping still accept what the COMMAND printed, and end at the closing balance?
            cp = run_sharded(HX, ["c18", "books"], ["b fund=%s text=%s" % (enc(fund), enc(ctext))], 1)
            _, cf = split_fields(cp[0])
            cproc = parse_proc_impl(cf.get("proc", "-"))
            bad = cproc[0] != "ok" or cproc[1].get(acct_of(stmts), {}).get(ccy, Fraction(0)) != Fraction(closing, 100)
            if bad and ist == "ok":
                chk.oracle_failures += 1
                chk.violation("Camt053 import breaks C18: the ledger printed by `okane import` for a consistent statement is rejected by okane's "
                              "book-keeping or does not end at the closing balance (%s)" % (cf.get("proc", "")[:160],),
                              dict(replay, command_output=ctext, library_printed=f.get("printed"), command_proc=cf.get("proc")))
            else:
                chk.disagreements += 1
                chk.violation("`okane import` (ImportCmd::run on the files) does not print what import::import + to_double_entry give for the same statement",
                              dict(replay, stream="c18 import command", command_output=ctext, library_printed=f.get("printed")),
                              no_failing_input=True, tag="corr")
            continue
        chk.count("proc:" + iproc[0] + (":" + iproc[2] if iproc[0] == "err" else ""))
        chk.count("order=" + order)
        chk.count("statements=%d" % len(stmts))
        chk.count("entries<=%d" % (5 * ((nent + 4) // 5)))
        for st in stmts:
            for e in st["entries"]:
                chk.count("entry:details=%d" % len(e["details"]))
                for d in e["details"]:
                    if d["txamt"] is not None and "ccy" in d["txamt"]:
                        xc = d["txamt"]["xchg"]
                        chk.count("detail:foreign:" + ("no-rate" if xc is None else ("rate-in-account-ccy" if xc[0] == ccy else "rate-in-foreign-ccy")) +
                                  (":same-number" if d["txamt"]["amount"].frac() == d["amount"].frac() else ""))
                chk.count("entry:value-date=" + ("absent" if e["value"] is None else "same" if e["value"] == e["booking"] else "differs"))
                for ch in e["charges"] + [c for d in e["details"] for c in d["charges"]]:
                    chk.count("charge:" + ("zero" if ch["amount"].mant == 0 else "included" if ch["included"] else "not-included"))
        msgs = oracle(stmts, order, ist, itx, iproc, closing, ccy)
        if msgs and all(m.startswith("[original-amount]") for m in msgs):
            # how a detail's ORIGINAL amount in another currency and its rate are shown is not ruled on by the property's text
            # (dates, signs, balances, acceptance all hold): reported as a broken correspondence, not as a failing input
            chk.disagreements += 1
            chk.violation("Camt053 import no longer shows a detail's original amount / rate as the statement gives them: " + msgs[0],
                          dict(replay, stream="c18 camt original-amount", oracle=msgs[:10], drv_case=dline),
                          no_failing_input=True, tag="corr")
            continue
        if msgs:
            chk.oracle_failures += 1
            chk.violation("Camt053 import breaks C18: " + msgs[0], dict(replay, oracle=msgs[:10]))
            continue
        try:
            mst, mtx = parse_import(mf.get("import", "(missing)"))
        except Exception as e:      # noqa
            mst, mtx = "unparsed", str(e)
        agree = mst == ist and ist == "ok" and [canon_txn(t) for t in itx] == [canon_txn(t) for t in mtx]
        mproc = parse_proc_model(mf.get("proc", "-"))
        if agree:
            agree = iproc[0] == mproc[0] == "ok" and bal_nonzero(iproc[1]) == bal_nonzero(mproc[1])
        if not agree:
            chk.disagreements += 1
            chk.violation("model (reading the XML text) and implementation of the Camt053 importer disagree (property oracle holds on this input)",
                          dict(replay, stream="c18 camt", drv_case=dline), no_failing_input=True, tag="corr")
            continue
        # the statement structure the model decoded from the text is the one the generator rendered
        chk.count("xcheck:" + mf.get("xcheck", "missing"))
        if mf.get("xcheck") != "same":
            chk.disagreements += 1
            chk.violation("the model's XML decoder does not yield the statement structure the generator rendered (xcheck=%s decoded=%s)" %
                          (mf.get("xcheck"), mf.get("decoded")), dict(replay, stream="c18 camt xcheck", drv_case=dline),
                          no_failing_input=True, tag="corr")
    run_xml_decode(chk, meta)
    run_render(chk, meta, impl)
    for i in (0, n // 2):
        stmts, order, yaml, xml, fund, closing, ccy = meta[i][:7]
        _, f = split_fields(impl[i])
        chk.sample({"config_yaml": yaml, "xml": xml[:3000], "impl_import": f.get("import", "")[:800], "impl_proc": f.get("proc", "")[:300]})
