"""C18 — Camt053 import conserves the statement."""
import re
from fractions import Fraction

from common import standard_prologue, run_sharded, enc, HX, DRV
from impcommon import (D, Rule, sx, opt, yq, split_fields, parse_import, canon_txn, parse_proc_impl, parse_proc_model,
                       bal_nonzero, fund_text, date_sx, rules_sx, rules_yaml, caps_table)

CLAIM = {
    "technique": "Lean 4 theorems about an executable model of iso_camt053::import (after XML decoding) composed with the "
                 "book-keeping model + differential correspondence of generated consistent Camt053 statements through the "
                 "real quick-xml path and the real report::process",
    "text": ("Proof: the Camt053 importer after decoding (opening-balance transaction, one transaction per entry or per "
             "detail of a batched entry, credit/debit sign, value date with booking date as effective date, charges included "
             "/ not included, amount details, closing balance on the last transaction, row order) is modelled in Lean on top "
             "of the Txn/to_double_entry model. Theorems: C18_shape_* (shape of the output for every statement) and "
             "C18_accepts: for every ConsistentStatement (opening + credits - debits = closing, details sum to the entry, "
             "amount details account for included charges; stated on the importer's output as balanced single-currency "
             "transactions with a consistent running balance) the model's book-keeping accepts fund :: import and the "
             "account ends at the closing balance. The model is tied to cli/src/import/iso_camt053.rs by rendering generated "
             "statements as Camt053 XML, importing them with the real code and diffing the transaction trees; shape, "
             "acceptance by the real report::process and the closing balance are checked on the real output by a Python "
             "oracle that does not use the model."),
    "note": "XML decoding (quick-xml/serde, xmlnode.rs) and the regex engine are outside the model: the model starts from the "
            "statement structure the generator rendered as XML; single-currency statements only.",
    "design_ref": "DESIGN.md section 6, C18",
}

THEOREMS = ["Okane.Import.C18_shape_opening", "Okane.Import.C18_shape_entry", "Okane.Import.C18_shape_detail",
            "Okane.Import.C18_shape_count", "Okane.Import.C18_shape_closing", "Okane.Import.C18_accepts"]

ACCOUNT = "Assets:Okane Bank"
FAMILIES = ["ICDT", "RCDT", "RDDT"]
SUBFAMILIES = ["AUTT", "DAJT", "PMDD", "SALA", "STDO", "OTHR"]
NAMES = ["Grocer Migros", "Herr Haus Okane", "ACME Payroll", "山田商店", "Landlord & Co", "OKANE VERSICHERUNGEN"]
TXINFOS = ["Card purchase Coffee Bar ref 1", "Payment order 77", "Card purchase Book <Store> ref 2", "Standing order rent", "Credit",
           # text wrapped over two lines: `.` in a rewrite pattern does not cross the line break, so the capture rule
           # `Card purchase (?P<payee>.*) ref \d+` must NOT match these (and nothing of the second line may reach the payee)
           "Card purchase Bakery\n    Sun:Terrace  4 seats ref 12", "Card purchase Kiosk ref 3\nsecond line", "Payment\norder 78"]
ENTRYINFOS = ["Credit", "Debit", "Account fee", "Batch payment", "fee reversal"]


def amt_text(rng, d):
    t = d.text()
    if t.startswith("0.") and rng.random() < 0.2:
        return t[1:]            # `.02`
    return t


def xml_escape(s):
    return s.replace("&", "&amp;").replace("<", "&lt;").replace(">", "&gt;")


def mk_charges(rng, kind, ccy):
    """kind: none | zero | included | notincluded  -> list of charge dicts"""
    out = []
    if kind in ("zero",) or (kind != "none" and rng.random() < 0.3):
        out.append({"amount": D.of(rng.choice(["0", "0.00"])), "cd": rng.choice("CD"), "included": rng.choice([None, True, False])})
    if kind == "included":
        for _ in range(rng.choice([1, 1, 2])):
            out.append({"amount": D.of(rng.choice(["2", "1.50", "0.35", "3.5"])), "cd": "D" if rng.random() < 0.85 else "C", "included": True})
    elif kind == "notincluded":
        out.append({"amount": D.of(rng.choice(["2", "1.50", "0.35", "14"])), "cd": "D" if rng.random() < 0.85 else "C",
                    "included": rng.choice([None, False])})
    rng.shuffle(out)
    return out


def charge_sum(chs):
    """signed sum of the non-zero charge postings (+ for a DBIT charge)"""
    s = Fraction(0)
    for ch in chs:
        v = ch["amount"].frac()
        s += v if ch["cd"] == "D" else -v
    return s


def make_detail(rng, ccy, cd, cents, entry_charges, allow_charges):
    d = {"ref": "REF/%d" % rng.randint(1, 99999) if rng.random() < 0.8 else None,
         "amount": D.cents(cents), "cd": cd, "txamt": None, "charges": [], "info": {}}
    scale = rng.choice([2, 2, 1, 0])
    if cents % (10 ** (2 - scale)) == 0:
        d["amount"] = D(False, cents // (10 ** (2 - scale)), scale)
    kind = "none"
    if allow_charges:
        kind = rng.choice(["none", "none", "none", "zero", "included", "notincluded"])
    nz = [ch for ch in entry_charges if ch["amount"].mant != 0]
    if nz:
        # entry-level charges reach every detail: keep the per-transaction class consistent
        kind = "none" if all(ch["included"] is not True for ch in nz) else rng.choice(["none", "included"])
    d["charges"] = mk_charges(rng, kind, ccy)
    allch = [ch for ch in entry_charges + d["charges"] if ch["amount"].mant != 0]
    a = d["amount"].frac() if cd == "C" else -d["amount"].frac()
    if any(ch["included"] is True for ch in allch):
        t = abs(a + charge_sum(allch))
        d["txamt"] = {"amount": _dec(t), "same": False}
    elif rng.random() < 0.5:
        d["txamt"] = {"amount": D(False, d["amount"].mant * 10, d["amount"].scale + 1) if rng.random() < 0.3 else d["amount"], "same": True}
    info = {}
    if rng.random() < 0.6:
        info["creditor_name" if cd == "D" else "debtor_name"] = rng.choice(NAMES)
    if rng.random() < 0.3:
        info["ultimate_debtor_name"] = rng.choice(NAMES)
    if rng.random() < 0.3:
        info["ultimate_creditor_name"] = rng.choice(NAMES)      # usually different from the ultimate debtor
    if rng.random() < 0.25 and ("debtor_name" not in info and "creditor_name" not in info):
        info["debtor_name" if cd == "D" else "creditor_name"] = rng.choice(NAMES)    # the other side, too
    if rng.random() < 0.3:
        info["creditor_account_id"] = "CH%d" % rng.randint(10 ** 10, 10 ** 11)
    if rng.random() < 0.25:
        info["debtor_account_id"] = "DE%d" % rng.randint(10 ** 10, 10 ** 11)
    if rng.random() < 0.3:
        info["remittance_unstructured_info"] = "invoice %d" % rng.randint(1, 999)
    if rng.random() < 0.7:
        info["additional_transaction_info"] = rng.choice(TXINFOS)
    d["info"] = info
    return d


def _dec(f):
    s = 0
    while (f * 10 ** s).denominator != 1:
        s += 1
    m = int(f * 10 ** s)
    return D(m < 0, abs(m), s)


def next_date(rng, d):
    y, m, dd = d
    dd += rng.choice([0, 0, 1, 1, 2, 9])
    while dd > 28:
        dd -= 28
        m += 1
        if m > 12:
            m, y = 1, y + 1
    return (y, m, dd)


def make_statement(rng, ccy, opening_cents, nentries, start_date, with_opening=True, with_closing=True):
    st = {"ccy": ccy, "opening": opening_cents if with_opening else None, "entries": [],
          "extra_bals": [(rng.choice(["CLAV", "ITBD", "PRCD", "FWAV"]), rng.randint(-5000, 900000))
                         for _ in range(rng.choice([0, 0, 1, 2]))]}
    bal = opening_cents
    d = start_date
    for _ in range(nentries):
        d = next_date(rng, d)
        cd = rng.choice("CD")
        batch = rng.choice([0, 0, 1, 1, 1, 2, 3, 5])
        e = {"cd": cd, "booking": d, "value": None, "dt_kind": rng.choice(["Dt", "Dt", "DtTm"]),
             "domain": ("PMNT", rng.choice(FAMILIES), rng.choice(SUBFAMILIES)) if rng.random() < 0.8 else None,
             "charges": [], "details": [], "info": rng.choice(ENTRYINFOS)}
        vk = rng.choice(["same", "same", "absent", "earlier", "later"])
        if vk == "same":
            e["value"] = d
        elif vk == "earlier":
            e["value"] = (d[0], d[1], max(1, d[2] - rng.choice([1, 2])))
        elif vk == "later":
            e["value"] = (d[0], d[1], min(28, d[2] + rng.choice([1, 3])))
        if batch == 0:
            cents = rng.choice([rng.randint(2000, 500000), 0 if rng.random() < 0.1 else 5000])
            e["amount"] = D.cents(cents)
            # no details: no amount details either, so only a not-included charge keeps the transaction balanced
            e["charges"] = mk_charges(rng, rng.choice(["none", "none", "zero", "notincluded"] if cents else ["none", "zero"]), ccy)
        else:
            parts = [rng.randint(2000, 200000) for _ in range(batch)]
            # a batch may hold a detail of the opposite direction (a refund inside a debit batch): the signed details still
            # sum to the entry, and each detail is booked with its OWN direction
            opp = rng.randint(100, 1999) if batch >= 2 and rng.random() < 0.3 else 0
            cents = sum(parts) - opp
            e["amount"] = D.cents(cents)
            if batch == 1:
                e["charges"] = mk_charges(rng, rng.choice(["none", "none", "zero", "included", "notincluded"]), ccy)
            for p in parts:
                e["details"].append(make_detail(rng, ccy, cd, p, e["charges"], allow_charges=True))
            if opp:
                e["details"].insert(rng.randint(0, len(e["details"])),
                                    make_detail(rng, ccy, "D" if cd == "C" else "C", opp, e["charges"], allow_charges=False))
        bal += cents if cd == "C" else -cents
        st["entries"].append(e)
    st["closing"] = bal if with_closing else None
    st["closing_cents"] = bal
    return st


def render_date(rng, tag, d, kind):
    if kind == "Dt":
        return "<%s><Dt>%04d-%02d-%02d</Dt></%s>" % (tag, d[0], d[1], d[2], tag)
    return "<%s><DtTm>%04d-%02d-%02dT%02d:30:00+02:00</DtTm></%s>" % (tag, d[0], d[1], d[2], rng.randint(0, 23), tag)


def render_charges(rng, chs, ccy):
    if not chs and rng.random() < 0.8:
        return ""
    out = ["<Chrgs>"]
    if chs and rng.random() < 0.5:
        out.append('<TtlChrgsAndTaxAmt Ccy="%s">%s</TtlChrgsAndTaxAmt>' % (ccy, "1"))
    for ch in chs:
        out.append('<Rcrd><Amt Ccy="%s">%s</Amt><CdtDbtInd>%s</CdtDbtInd>' % (ccy, amt_text(rng, ch["amount"]), "CRDT" if ch["cd"] == "C" else "DBIT"))
        if ch["included"] is not None:
            out.append("<ChrgInclInd>%s</ChrgInclInd>" % ("true" if ch["included"] else "false"))
        out.append("<Tp><Prtry><Id>SHAR</Id></Prtry></Tp></Rcrd>")
    out.append("</Chrgs>")
    return "".join(out)


def render_party(tag, name, nested):
    inner = "<Nm>%s</Nm><PstlAdr><AdrLine>Street 1</AdrLine></PstlAdr>" % xml_escape(name)
    if nested:
        return "<%s><Pty>%s</Pty></%s>" % (tag, inner, tag)
    return "<%s>%s</%s>" % (tag, inner, tag)


def render_xml(rng, stmts):
    o = ['<?xml version="1.0" encoding="UTF-8"?>\n<Document xmlns="urn:iso:std:iso:20022:tech:xsd:camt.053.001.04">\n<BkToCstmrStmt>\n',
         "<GrpHdr><MsgId>1</MsgId><CreDtTm>2024-01-01T00:00:00</CreDtTm></GrpHdr>\n"]
    for st in stmts:
        ccy = st["ccy"]
        o.append("<Stmt><Id>S</Id><Acct><Id><IBAN>CH00</IBAN></Id><Ccy>%s</Ccy></Acct>\n" % ccy)
        bals = []
        if st["opening"] is not None:
            bals.append(("OPBD", st["opening"]))
        if st["closing"] is not None:
            bals.append(("CLBD", st["closing"]))
        if rng.random() < 0.2:
            bals.reverse()
        for xb in st["extra_bals"]:
            bals.insert(rng.randint(0, len(bals)), xb)
        for code, cents in bals:
            o.append('<Bal><Tp><CdOrPrtry><Cd>%s</Cd></CdOrPrtry></Tp><Amt Ccy="%s">%s</Amt><CdtDbtInd>%s</CdtDbtInd><Dt><Dt>2024-01-01</Dt></Dt></Bal>\n'
                     % (code, ccy, amt_text(rng, D.cents(abs(cents))), "CRDT" if cents >= 0 else "DBIT"))
        o.append("<TxsSummry><TtlNtries><NbOfNtries>%d</NbOfNtries></TtlNtries></TxsSummry>\n" % len(st["entries"]))
        for e in st["entries"]:
            o.append('<Ntry><Amt Ccy="%s">%s</Amt><CdtDbtInd>%s</CdtDbtInd><RvslInd>false</RvslInd><Sts>BOOK</Sts>' %
                     (ccy, amt_text(rng, e["amount"]), "CRDT" if e["cd"] == "C" else "DBIT"))
            o.append(render_date(rng, "BookgDt", e["booking"], e["dt_kind"]))
            if e["value"] is not None:
                o.append(render_date(rng, "ValDt", e["value"], e["dt_kind"]))
            if e["domain"]:
                o.append("<BkTxCd><Domn><Cd>%s</Cd><Fmly><Cd>%s</Cd><SubFmlyCd>%s</SubFmlyCd></Fmly></Domn></BkTxCd>" % e["domain"])
            else:
                o.append("<BkTxCd><Prtry><Cd>XYZ</Cd><Issr>Bank</Issr></Prtry></BkTxCd>")
            o.append(render_charges(rng, e["charges"], ccy))
            if e["details"] or rng.random() < 0.5:
                o.append("<NtryDtls>")
                if e["details"] or rng.random() < 0.5:
                    o.append('<Btch><NbOfTxs>%d</NbOfTxs><TtlAmt Ccy="%s">%s</TtlAmt><CdtDbtInd>%s</CdtDbtInd></Btch>' %
                             (max(1, len(e["details"])), ccy, e["amount"].text(), "CRDT" if e["cd"] == "C" else "DBIT"))
                for d in e["details"]:
                    o.append("<TxDtls><Refs>")
                    if d["ref"] is not None:
                        o.append("<AcctSvcrRef>%s</AcctSvcrRef>" % xml_escape(d["ref"]))
                    o.append("<EndToEndId>NOTPROVIDED</EndToEndId></Refs>")
                    o.append('<Amt Ccy="%s">%s</Amt><CdtDbtInd>%s</CdtDbtInd>' % (ccy, amt_text(rng, d["amount"]), "CRDT" if d["cd"] == "C" else "DBIT"))
                    if d["txamt"] is not None:
                        o.append('<AmtDtls><InstdAmt><Amt Ccy="%s">%s</Amt></InstdAmt><TxAmt><Amt Ccy="%s">%s</Amt></TxAmt></AmtDtls>' %
                                 (ccy, d["txamt"]["amount"].text(), ccy, d["txamt"]["amount"].text()))
                    o.append(render_charges(rng, d["charges"], ccy))
                    inf = d["info"]
                    rp = []
                    for key, tag in (("debtor_name", "Dbtr"), ("creditor_name", "Cdtr"), ("ultimate_debtor_name", "UltmtDbtr"),
                                     ("ultimate_creditor_name", "UltmtCdtr")):
                        if key in inf:
                            rp.append(render_party(tag, inf[key], rng.random() < 0.3))
                    if "debtor_account_id" in inf:
                        rp.append("<DbtrAcct><Id><IBAN>%s</IBAN></Id></DbtrAcct>" % inf["debtor_account_id"])
                    if "creditor_account_id" in inf:
                        if rng.random() < 0.5:
                            rp.append("<CdtrAcct><Id><IBAN>%s</IBAN></Id></CdtrAcct>" % inf["creditor_account_id"])
                        else:
                            rp.append("<CdtrAcct><Id><Othr><Id>%s</Id></Othr></Id></CdtrAcct>" % inf["creditor_account_id"])
                    if rp:
                        o.append("<RltdPties>%s</RltdPties>" % "".join(rp))
                    if "remittance_unstructured_info" in inf:
                        o.append("<RmtInf><Ustrd>%s</Ustrd></RmtInf>" % xml_escape(inf["remittance_unstructured_info"]))
                    if "additional_transaction_info" in inf:
                        o.append("<AddtlTxInf>%s</AddtlTxInf>" % xml_escape(inf["additional_transaction_info"]))
                    o.append("</TxDtls>")
                o.append("</NtryDtls>")
            o.append("<AddtlNtryInf>%s</AddtlNtryInf></Ntry>\n" % xml_escape(e["info"]))
        o.append("</Stmt>\n")
    o.append("</BkToCstmrStmt>\n</Document>\n")
    return "".join(o)


def amt_sx(d, ccy):
    return "(%s %s)" % (d.sx3(), enc(ccy))


def chgs_sx(chs, ccy):
    return "(chgs%s)" % "".join(" (%s %s %d)" % (amt_sx(ch["amount"], ccy), ch["cd"], 1 if ch["included"] else 0) for ch in chs)


def stmts_sx(stmts):
    out = []
    for st in stmts:
        ccy = st["ccy"]
        bals = []
        # order of the <Bal> elements does not matter to find_balance as long as each code occurs once
        if st["opening"] is not None:
            bals.append("(bal OPBD %s %s)" % (amt_sx(D.cents(abs(st["opening"])), ccy), "C" if st["opening"] >= 0 else "D"))
        if st["closing"] is not None:
            bals.append("(bal CLBD %s %s)" % (amt_sx(D.cents(abs(st["closing"])), ccy), "C" if st["closing"] >= 0 else "D"))
        for code, cents in st["extra_bals"]:
            bals.append("(bal %s %s %s)" % (code, amt_sx(D.cents(abs(cents)), ccy), "C" if cents >= 0 else "D"))
        ents = []
        for e in st["entries"]:
            dtls = []
            for d in e["details"]:
                ta = "()" if d["txamt"] is None else "((%s ()))" % amt_sx(d["txamt"]["amount"], ccy)
                info = "(info%s)" % "".join(" (%s %s)" % (k, enc(v)) for k, v in d["info"].items())
                dtls.append("(dtl %s %s %s %s %s %s)" % (sx(opt(d["ref"], enc)), amt_sx(d["amount"], ccy), d["cd"], ta,
                                                        chgs_sx(d["charges"], ccy), info))
            dom = "()" if e["domain"] is None else "((%s %s %s))" % e["domain"]
            ents.append("(ntry %s %s %s %s %s %s (dtls%s) %s)" % (
                amt_sx(e["amount"], ccy), e["cd"], date_sx(e["booking"]),
                "()" if e["value"] is None else "(" + date_sx(e["value"]) + ")", dom, chgs_sx(e["charges"], ccy),
                "".join(" " + x for x in dtls), enc(e["info"])))
        out.append("(stmt (bals%s) (entries%s))" % ("".join(" " + b for b in bals), "".join(" " + x for x in ents)))
    return "(" + " ".join(out) + ")"


def make_rules(rng):
    rules = []
    if rng.random() < 0.6:
        rules.append(Rule([[("additional_transaction_info", "Card purchase (?P<payee>.*) ref \\d+")]]))
    if rng.random() < 0.6:
        rules.append(Rule([[("creditor_name", "(?P<payee>.*)")]]))
    if rng.random() < 0.5:
        rules.append(Rule([[("domain_code", "PMNT"), ("domain_family", "RCDT"), ("domain_sub_family", "SALA")]],
                          account="Income:Salary", payee="Employer"))
    if rng.random() < 0.6:
        rules.append(Rule([[("payee", "grocer")], [("payee", "山田")]], is_or=True, account="Expenses:Grocery"))
    if rng.random() < 0.4:
        rules.append(Rule([[("additional_entry_info", "fee")]], account="Expenses:Fees", pending=True))
    if rng.random() < 0.3:
        rules.append(Rule([[("debtor_name", "ACME")]], account="Income:Salary", pending=rng.random() < 0.5))
    # one rule per party / reference field, each looking for a name: every matcher must read ITS field
    for f, acct in (("ultimate_creditor_name", "Expenses:UltCdtr"), ("ultimate_debtor_name", "Liabilities:UltDbtr"),
                    ("creditor_name", "Expenses:Cdtr"), ("debtor_name", "Income:Dbtr"), ("creditor_account_id", "Assets:ByCdtrAcct"),
                    ("debtor_account_id", "Assets:ByDbtrAcct")):
        if rng.random() < 0.25:
            pat = rng.choice(NAMES)[:4] if "account" not in f else rng.choice(["CH", "DE", "7"])
            rules.append(Rule([[(f, re.escape(pat))]], account=acct))
    return rules


TEXT_FIELDS = {"creditor_name", "creditor_account_id", "ultimate_creditor_name", "debtor_name", "debtor_account_id",
               "ultimate_debtor_name", "remittance_unstructured_info", "additional_entry_info", "additional_transaction_info", "payee"}


def expected_shapes(stmts, order):
    """[(kind, date, effective, signed amount Fraction, neg flag, balance or None, code)] for the whole document, in output order"""
    out = []
    for st in stmts:
        first_of_stmt = len(out)
        if st["opening"] is not None and st["entries"]:
            f = st["entries"][0]
            out.append({"kind": "opening", "date": f["value"] or f["booking"], "eff": None, "amount": Fraction(0), "neg": False,
                        "balance": Fraction(st["opening"], 100), "code": None})
        ents = st["entries"] if order == "o2n" else list(reversed(st["entries"]))
        for e in ents:
            date = e["value"] or e["booking"]
            eff = e["booking"] if e["booking"] != date else None
            units = e["details"] if e["details"] else [None]
            for d in units:
                src = d if d is not None else e
                v = src["amount"].frac()
                out.append({"kind": "detail" if d is not None else "entry", "date": date, "eff": eff,
                            "amount": v if src["cd"] == "C" else -v, "neg": src["cd"] == "D", "balance": None,
                            "code": d["ref"] if d is not None else None, "nch": len([c for c in e["charges"] + (d["charges"] if d else []) if c["amount"].mant != 0])})
        if st["closing"] is not None and out:
            out[-1]["balance"] = Fraction(st["closing"], 100)
        _ = first_of_stmt
    return out


def oracle(stmts, order, ist, txns, proc, closing_cents, ccy):
    if ist != "ok":
        return ["import of a consistent statement failed: %s %s" % (ist, txns)]
    exp = expected_shapes(stmts, order)
    if len(txns) != len(exp):
        return ["%d transactions, the statement has %d opening/entry/detail records" % (len(txns), len(exp))]
    msgs = []
    for i, (x, t) in enumerate(zip(exp, txns)):
        where = "transaction %d (%s)" % (i, x["kind"])
        if t["date"] != x["date"]:
            msgs.append("%s: dated %s, value date is %s" % (where, t["date"], x["date"]))
        if t["effective"] != x["eff"]:
            msgs.append("%s: effective date %s, booking date gives %s" % (where, t["effective"], x["eff"]))
        posts = t["posts"]
        src = posts[0] if not x["neg"] else posts[-1]
        if src["account"] != ACCOUNT:
            msgs.append("%s: account posting not %s" % (where, "first" if not x["neg"] else "last"))
            continue
        if src["amount"]["value"] != x["amount"] or src["amount"]["commodity"] != ccy:
            msgs.append("%s: account posting %s, statement says %s (credit +, debit -)" % (where, src["amount"]["value"], x["amount"]))
        want_bal = x["balance"]
        got_bal = None if src["balance"] is None else src["balance"]["value"]
        if got_bal != want_bal:
            msgs.append("%s: asserted balance %s, expected %s" % (where, got_bal, want_bal))
        if x["kind"] == "opening":
            if t["payee"] != "Initial Balance" or posts[-1]["account"] != "Equity:Adjustments":
                msgs.append("%s: not the opening-balance transaction" % where)
        else:
            if t["code"] != x["code"]:
                msgs.append("%s: code %s, reference is %s" % (where, t["code"], x["code"]))
            if len(posts) != 2 + x["nch"]:
                msgs.append("%s: %d postings for %d non-zero charges" % (where, len(posts), x["nch"]))
        # conservation inside the transaction
        if sum(p["amount"]["value"] for p in posts) != 0:
            msgs.append("%s: postings do not sum to zero" % where)
    if msgs:
        return msgs
    if proc[0] != "ok":
        msgs.append("consistent statement: the real book-keeping rejects the imported ledger: %s" % (proc,))
    else:
        got = proc[1].get(ACCOUNT, {}).get(ccy, Fraction(0))
        if got != Fraction(closing_cents, 100):
            msgs.append("account ends at %s, closing balance is %s" % (got, Fraction(closing_cents, 100)))
    return msgs


def run(chk):
    chk.rule = ("generated consistent single-currency Camt053 statements rendered as XML in the dialect of "
                "cli/tests/testdata/import/*.xml: entries without details, batches of 1-5 details, credit/debit, value date "
                "absent / equal / before / after the booking date, Dt and DtTm, charges (zero, included with amount details, "
                "not included, credit charges) on entries and details, balances of either sign, one or two statements per "
                "document, both row orders, rewrite rules over party names / info texts / domain codes; a case is "
                "non-trivial when it has at least one entry; distinct = distinct XML texts")
    chk.assumptions = [
        "XML decoding (quick-xml + serde, xmlnode.rs) is exercised on the real side only: the model starts from the statement "
        "structure that the generator rendered as XML; YAML decoding and the regex engine likewise (matches computed with Python re)",
        "single-currency statements: currency exchange details are modelled but not generated",
    ]
    if not standard_prologue(chk, THEOREMS):
        return
    rng = chk.rng
    # ---------------- corpus first: witnesses of fixed findings must pass
    import json as _json
    import os as _os
    cdir = _os.path.join(_os.path.dirname(_os.path.dirname(_os.path.abspath(__file__))), "corpus", "C18")
    ncorp = 0
    for fn in sorted(_os.listdir(cdir)) if _os.path.isdir(cdir) else []:
        for case in _json.load(open(_os.path.join(cdir, fn)))["cases"]:
            out = run_sharded(HX, ["c18"], ["corp cfg=%s src=%s fund=%s" % (enc(case["config_yaml"]), enc(case["xml"]), enc(case["fund"]))], 1)
            _, f = split_fields(out[0])
            ncorp += 1
            chk.case(("corpus", fn, case["name"]))
            try:
                ist, itx = parse_import(f.get("import", "(missing)"))
            except Exception as e:      # noqa
                ist, itx = "unparsed", str(e)
            p = parse_proc_impl(f.get("proc", "-"))
            ok = ist == "ok" and len(itx) == case["expect_txns"] and p[0] == "ok" and \
                p[1].get(ACCOUNT, {}).get("CHF", Fraction(0)) == Fraction(case["expect_final"])
            if not ok:
                chk.oracle_failures += 1
                chk.violation("corpus case %s/%s (witness of a fixed finding) fails again: import=%s proc=%s" %
                              (fn, case["name"], f.get("import", "")[:200], f.get("proc", "")[:200]),
                              {"config_yaml": case["config_yaml"], "xml": case["xml"], "fund": case["fund"],
                               "observed_import": f.get("import"), "observed_proc": f.get("proc")})
    chk.streams["corpus"] = ncorp
    n, maxe = (10000, 40) if chk.tier == "thorough" else (320, 10)
    hx_lines, drv_lines, meta = [], [], []
    for i in range(n):
        ccy = rng.choice(["CHF", "EUR", "USD"])
        order = rng.choice(["o2n", "n2o"])
        opening = rng.choice([0, 10000, 123456, -25000, 99])
        ne = rng.randint(1, maxe) if rng.random() < 0.9 else rng.randint(1, 3)
        if i % 50 == 0:
            ne = maxe
        if i % 40 == 7:
            ne = 0          # a period without movements
        stmts = [make_statement(rng, ccy, opening, ne, (2024, rng.randint(1, 12), rng.randint(1, 20)))]
        if rng.random() < 0.12 and stmts[0]["entries"]:
            st2 = make_statement(rng, ccy, stmts[0]["closing_cents"], rng.choice([0, 0, 1, 3]), stmts[0]["entries"][-1]["booking"])
            stmts.append(st2)
        closing = stmts[-1]["closing_cents"]
        if order == "n2o":
            for st in stmts:
                st["entries"].reverse()      # the file lists the newest entry first
        rules = make_rules(rng)
        operator = "Okane Bank (fee)"
        prec = rng.random() < 0.6
        yaml = ("path: statement\nencoding: UTF-8\naccount: %s\naccount_type: asset\noperator: %s\ncommodity: %s\n" %
                (yq(ACCOUNT), yq(operator), ccy))
        fmt = []
        if order == "n2o":
            fmt.append("  row_order: new_to_old\n")
        if prec:
            fmt.append("  commodity:\n    %s:\n      precision: 2\n" % ccy)
        if fmt:
            yaml += "format:\n" + "".join(fmt)
        yaml += rules_yaml(rules)
        xml = render_xml(rng, stmts)
        b0 = D.cents(opening)
        fund = fund_text(ACCOUNT, (2000, 1, 1), b0.text(), ccy)
        fund_sx = "(%s %s %s)" % (date_sx((2000, 1, 1)), b0.sx3(), enc(ccy))
        cid = "s%d" % i
        hx_lines.append("%s cfg=%s src=%s fund=%s" % (cid, enc(yaml), enc(xml), enc(fund)))
        hay = []
        for st in stmts:
            for e in st["entries"]:
                hay.append(e["info"])
                for d in e["details"]:
                    hay.extend(d["info"].values())
        caps = caps_table(rules, hay, TEXT_FIELDS)
        cfg_sx = "(cfg %s (%s) %s %s)" % (enc(ACCOUNT), enc(operator), order, rules_sx(rules))
        drv_lines.append("%s cfg=%s stmts=%s caps=%s fund=%s" % (cid, cfg_sx, stmts_sx(stmts), caps, fund_sx))
        meta.append((stmts, order, yaml, xml, fund, closing, ccy))
    impl = run_sharded(HX, ["c18"], hx_lines)
    model = run_sharded(DRV, ["c18"], drv_lines)
    chk.streams["camt-consistent"] = n
    for (stmts, order, yaml, xml, fund, closing, ccy), iline, mline, dline in zip(meta, impl, model, drv_lines):
        nent = sum(len(st["entries"]) for st in stmts)
        chk.case(xml, nontrivial=nent > 0)
        chk.traces += 1
        cid, f = split_fields(iline)
        _, mf = split_fields(mline)
        replay = {"config_yaml": yaml, "xml": xml, "fund": fund, "impl": f.get("import"), "impl_proc": f.get("proc"),
                  "model": mf.get("import", mline), "model_proc": mf.get("proc"),
                  "rerun": "hx c18 on `<id> cfg=<enc config_yaml> src=<enc xml> fund=<enc fund>` (see harness/src/c18.rs)"}
        try:
            ist, itx = parse_import(f.get("import", "(missing)"))
        except Exception as e:      # noqa
            ist, itx = "unparsed", str(e)
        iproc = parse_proc_impl(f.get("proc", "-"))
        chk.count("import:" + ist)
        chk.count("proc:" + iproc[0] + (":" + iproc[2] if iproc[0] == "err" else ""))
        chk.count("order=" + order)
        chk.count("statements=%d" % len(stmts))
        chk.count("entries<=%d" % (5 * ((nent + 4) // 5)))
        for st in stmts:
            for e in st["entries"]:
                chk.count("entry:details=%d" % len(e["details"]))
                chk.count("entry:value-date=" + ("absent" if e["value"] is None else "same" if e["value"] == e["booking"] else "differs"))
                for ch in e["charges"] + [c for d in e["details"] for c in d["charges"]]:
                    chk.count("charge:" + ("zero" if ch["amount"].mant == 0 else "included" if ch["included"] else "not-included"))
        msgs = oracle(stmts, order, ist, itx, iproc, closing, ccy)
        if msgs:
            chk.oracle_failures += 1
            chk.violation("Camt053 import breaks C18: " + msgs[0], dict(replay, oracle=msgs[:10]))
            continue
        try:
            mst, mtx = parse_import(mf.get("import", "(missing)"))
        except Exception as e:      # noqa
            mst, mtx = "unparsed", str(e)
        agree = mst == ist and ist == "ok" and [canon_txn(t) for t in itx] == [canon_txn(t) for t in mtx]
        mproc = parse_proc_model(mf.get("proc", "-"))
        if agree:
            agree = iproc[0] == mproc[0] == "ok" and bal_nonzero(iproc[1]) == bal_nonzero(mproc[1])
        if not agree:
            chk.disagreements += 1
            chk.violation("model and implementation of the Camt053 importer disagree (property oracle holds on this input)",
                          dict(replay, stream="c18 camt", drv_case=dline), no_failing_input=True, tag="corr")
    for i in (0, n // 2):
        stmts, order, yaml, xml, fund, closing, ccy = meta[i]
        _, f = split_fields(impl[i])
        chk.sample({"config_yaml": yaml, "xml": xml[:3000], "impl_import": f.get("import", "")[:800], "impl_proc": f.get("proc", "")[:300]})
