"""C17 — rewrite rules and layered configuration resolve as documented."""
import itertools
import json
import os
import re
import subprocess

from common import standard_prologue, run_hx, run_drv, enc, dec, OKANE, VERIF
from c15 import num_cell
from imp1517 import (sx_parse, sx_str, sx_find, opt, docs_yaml, doc_sx, rule_sx, entry_sx, conv_sx, BASE_DOC, ENCODINGS)

CLAIM = {
    "technique": "Lean 4 theorems about a model of ConfigSet::select / ConfigFragment::merge and of the Extractor rule fold "
                 "(regex engine = parameter) + differential correspondence against the real config loader, the real Extractor "
                 "and the `okane import` binary, with an independent Python evaluation of the property statement",
    "text": ("Proof: `select` is modelled as filter (path occurs in the file path) + stable sort by byte length + left fold of "
             "`merge`; theorems C17_select_order / C17_select_scalars / C17_select_rewrite / C17_select_none state, for every list "
             "of documents and every path, that the documents in force are exactly the matching ones, shortest path first with "
             "file order kept among equal lengths, that every scalar is the one of the last document setting it and that the "
             "rewrite rules are the concatenation in that order. The rule fold is modelled with the regex engine as a parameter; "
             "C17_fold / C17_account / C17_pending / C17_payee_code / C17_or_first / C17_and_all / C17_unknown_account / "
             "C17_pending_mark hold for every `captures` function, every rule list and every record: rule k is evaluated on "
             "the fragment left by rules < k, the account is the one of the last matching rule that has one, `cleared` holds "
             "iff some matching account-assigning rule is not flagged pending, the counter-posting of `to_double_entry` goes to "
             "Income:/Expenses:Unknown by sign when no rule assigned an account and carries `!` iff not cleared, an OR-list is "
             "decided by its first matching element and an element matches iff all its fields do. "
             "PARTIAL in one respect: independence of the hash-map order of the fields inside one element (C17_and_order) is "
             "false on the current tree (finding F14, negation proved from a witness, replayed on the real Viseca importer on every run); "
             "C17_and_order_partial proves it when at most one field of the element can capture or looks at the payee "
             "(always the case for CSV). The model is tied to cli/src/import/{config,extract,single_entry}.rs by three "
             "streams: YAML documents x path through the real load_from_yaml + select; rule lists x records through the real "
             "Extractor (the harness hands the model the regex verdicts; all field orders are enumerated on the model side and the "
             "real code is run on freshly built hash maps several times); CSV files through the real `okane import` binary. "
             "CSV IMPORTER WITH THE REAL CELL DECODER (last section of Props/C17.lean, lemmas in Lemmas/ImportCsvCellsUse.lean): "
             "C17_csv_row / C17_csv_import instantiate the account / pending / payee theorems for the CSV importer model run with the model "
             "of okane's own number-cell decoder (Cells.cellEnv): for every row the importer accepts, the record the rules look at is "
             "(payee, category, secondary commodity) as the field map extracts them, the transaction's counter-account is the account of the "
             "last matching rule that has one, it stays cleared iff some matching account-assigning rule is not pending, payee and code are "
             "the fold's, and in the tree the counter-posting (first for a negative amount — the sign of the number WRITTEN in the amount cell "
             "under the importer's sign rule — last otherwise) goes to that account or Income:/Expenses:Unknown and carries `!` unless "
             "cleared; csvRow_rules states the same for every decoder environment. The end-to-end stream now also runs that model "
             "(`drv c17 csv`: numbers and templates decoded by the model from the cell TEXT, e.g. `-$1,234.50`) on the cells of every "
             "statement and compares its trees with the real importer's and with what the `okane import` binary printed."),
    "note": ("regex matching, YAML decoding, `str::contains`, `PathBufExt::from_slash` (identity on Unix) and encoding label "
             "lookup are modelled / parameters, not verified; Camt053's own matcher is exercised by C18, here its shape "
             "(payee field without original payee, coded fields) is exercised through a harness matcher of the same shape."),
    "design_ref": "DESIGN.md section 6, C17; finding F14 in section 7",
}

THEOREMS = [
    "Okane.Import.C17_select_order", "Okane.Import.C17_select_scalars", "Okane.Import.C17_select_rewrite",
    "Okane.Import.C17_select_none", "Okane.Import.C17_select",
    "Okane.Import.C17_fold", "Okane.Import.C17_rule_step", "Okane.Import.C17_account", "Okane.Import.C17_pending",
    "Okane.Import.C17_payee_code", "Okane.Import.C17_or_first", "Okane.Import.C17_and_all", "Okane.Import.C17_and_captures",
    "Okane.Import.C17_unknown_account", "Okane.Import.C17_pending_mark",
    "Okane.Import.C17_and_order_false", "Okane.Import.C17_and_order_partial",
    # the CSV importer with okane's own cell decoder (Lemmas/ImportCsvCellsUse.lean, last section of Props/C17.lean)
    "Okane.Import.csvRow_rules", "Okane.Import.C17_csv_row", "Okane.Import.C17_csv_import",
]

# ------------------------------------------------------------------------------------------------
# select stream

FILE_PATHS = ["data/bank/okane/2024/stmt.csv", "data/銀行/okane/2024/stmt.csv", "imports/card/viseca/2023-10.txt",
              "/home/u/ledger/bank/camt/é/2024.xml", "a/b/a/b/ab.csv"]


def path_candidates(rng, fp):
    """substrings of the file path (nested / overlapping / equal length), plus non-matching ones"""
    out = [""]
    n = len(fp)
    for _ in range(10):
        i = rng.randrange(n)
        j = rng.randrange(i + 1, n + 1)
        out.append(fp[i:j])
    parts = fp.split("/")
    for p in parts:
        out.append(p)
        out.append(p + "/")
        out.append("/" + p)
    out += [fp, fp[-4:], fp.upper(), "other/", "nomatch", fp + "x", "bank", "銀", "é/"]
    return out


def gen_rule(rng, tag):
    return {"matcher": {"payee": "p%s" % tag}, "account": "Acct:%s" % tag}


def gen_format(rng, tag):
    f = {"date": rng.choice(["%Y-%m-%d", "%Y/%m/%d", "%d.%m.%Y"])}
    if rng.random() < 0.6:
        f["fields"] = dict(rng.sample([("date", 1), ("payee", "Payee %s" % tag), ("amount", 3), ("note", {"template": "{payee} %s" % tag}),
                                       ("category", 5), ("balance", "残高"), ("secondary_amount", 7)], rng.randint(1, 4)))
    if rng.random() < 0.5:
        f["commodity"] = {c: {"precision": rng.randint(0, 4)} for c in rng.sample(["USD", "EUR", "CHF", "円", "JPY"], rng.randint(1, 3))}
    if rng.random() < 0.3:
        f["delimiter"] = rng.choice(["\t", ";", "|"])
    if rng.random() < 0.3:
        f["skip"] = {"head": rng.randint(0, 3)}
    if rng.random() < 0.3:
        f["row_order"] = rng.choice(["new_to_old", "old_to_new"])
    return f


def gen_conv(rng):
    c = {}
    if rng.random() < 0.5:
        c["amount"] = rng.choice(["extract", "compute"])
    if rng.random() < 0.5:
        c["commodity"] = rng.choice(["EUR", "JPY"])
    if rng.random() < 0.5:
        c["rate"] = rng.choice(["price_of_secondary", "price_of_primary"])
    if rng.random() < 0.3:
        c["disabled"] = rng.random() < 0.5
    return c


def gen_select_case(rng, complete_bias):
    fp = rng.choice(FILE_PATHS)
    cands = path_candidates(rng, fp)
    ndocs = rng.randint(1, 7)
    docs = []
    for i in range(ndocs):
        d = {"path": rng.choice(cands)}
        p = complete_bias if i == 0 else 0.35
        if rng.random() < p:
            d["encoding"] = rng.choice(list(ENCODINGS))
        if rng.random() < p:
            d["account"] = "Assets:Doc%d" % i
        if rng.random() < p:
            d["account_type"] = rng.choice(["asset", "liability"])
        if rng.random() < 0.3:
            d["operator"] = "Operator %d" % i
        if rng.random() < p:
            d["commodity"] = rng.choice(["CHF", "JPY", {"primary": "USD"}, {"primary": "EUR", "conversion": gen_conv(rng)}])
        if rng.random() < 0.4:
            d["format"] = gen_format(rng, i)
        if rng.random() < 0.7:
            d["rewrite"] = [gen_rule(rng, "%d.%d" % (i, k)) for k in range(rng.randint(0, 3))]
            # a document may repeat, verbatim, a rule of an earlier document (or of itself): the merged list is the plain
            # concatenation, duplicates included, in that order
            earlier = [ru for dd in docs for ru in dd.get("rewrite", [])] + d["rewrite"]
            if earlier and rng.random() < 0.35:
                d["rewrite"].insert(rng.randint(0, len(d["rewrite"])), dict(rng.choice(earlier)))
        docs.append(d)
    if rng.random() < 0.5:
        # make the most general document complete so that the merge is usable
        docs[0]["path"] = rng.choice(["", fp.split("/")[0], fp[:3]])
    return fp, docs


def select_oracle(fp, docs):
    """The statement of C17's first sentence, computed directly: the documents whose path occurs in the file path,
    shortest (byte length) first, file order among equals; later overrides scalars; rules concatenated."""
    matched = [d for d in docs if d["path"] in fp]
    matched.sort(key=lambda d: len(d["path"].encode("utf-8")))   # list.sort is stable
    if not matched:
        return "(none)", matched
    merged = {}
    rewrite = []
    for d in matched:
        for k in ("encoding", "account", "account_type", "operator", "commodity", "format"):
            if d.get(k) is not None:
                merged[k] = d[k]
        rewrite += d.get("rewrite", [])
    for k, _ in (("encoding", 0), ("account", 0), ("account_type", 0), ("commodity", 0)):
        if k not in merged:
            return "(err select InvalidConfig)", matched
    return "(some %s)" % entry_sx(matched[-1]["path"], merged["encoding"], merged["account"], merged["account_type"],
                                  merged.get("operator"), merged["commodity"], merged.get("format"), rewrite), matched


def norm_err(s):
    """`(err stage Kind message)` -> `(err stage Kind)`"""
    if s.startswith("(err "):
        ws = s[1:-1].split(" ")
        return "(%s)" % " ".join(ws[:3])
    return s


def run_select(chk, n):
    cases = []
    for i in range(n):
        cases.append(gen_select_case(chk.rng, 0.9 if i % 3 else 0.4))
    hx_lines = ["%s %s" % (enc(fp), enc(docs_yaml(docs))) for fp, docs in cases]
    drv_lines = ["(case %s (%s))" % (enc(fp), " ".join(doc_sx(d) for d in docs)) for fp, docs in cases]
    impl = [norm_err(x) for x in run_hx(["c17", "select"], hx_lines)]
    model = run_drv(["c17", "select"], drv_lines)
    chk.streams["select"] = len(cases)
    for (fp, docs), hl, a, b in zip(cases, hx_lines, impl, model):
        want, matched = select_oracle(fp, docs)
        lens = [len(d["path"].encode()) for d in matched]
        chk.case(("select", fp, json.dumps(docs, sort_keys=True)), nontrivial=len(matched) >= 2)
        chk.traces += 1
        chk.count("select:matched=%d" % min(len(matched), 4))
        chk.count("select:result=" + a.split(" ")[0].strip("()") + ("" if not a.startswith("(err") else ":" + a.split(" ")[2].strip(")")))
        if len(set(lens)) < len(lens):
            chk.count("select:equal-length-paths")
        if any(len(d["path"]) != len(d["path"].encode()) for d in matched):
            chk.count("select:multibyte-path")
        if a != want:
            chk.oracle_failures += 1
            chk.violation("ConfigSet::select does not resolve the documents as documented (filter by path, shortest first, "
                          "later overrides, rules concatenated)",
                          {"stream": "c17 select", "file_path": fp, "documents": docs, "yaml": docs_yaml(docs), "expected": want,
                           "observed": a, "model": b, "rerun": "echo '%s' | /verif/work/target/debug/hx c17 select" % hl})
        elif a != b:
            chk.disagreements += 1
            chk.violation("model and implementation of ConfigSet::select disagree (property oracle holds on this input)",
                          {"stream": "c17 select", "file_path": fp, "documents": docs, "impl": a, "model": b},
                          no_failing_input=True, tag="corr")
    k = len(cases) // 2
    chk.sample({"stream": "select", "file_path": cases[k][0], "documents": cases[k][1], "impl": impl[k], "model": model[k]})


# ------------------------------------------------------------------------------------------------
# rules stream

PAYEES = ["Debit Card 1234 Migros Zurich", "MIGROS BASEL", "Coop-2041", "Wire Sent", "山田商店", "Visa 99 Hamachi Super",
          "cashback", "Debit Card 77 山田商店", "Salary ACME AG", "ATM 五反田", "", "migros", "Visa 5 Migros Zurich",
          # several numbers / references in one text: two rules can capture DIFFERENT codes from it (the later rule's wins)
          "Debit Card 1234 Migros REF:AB12CD", "Visa 99 Hamachi Super 2041", "Debit Card 7 Coop-2041 REF:ZZ9"]
CATEGORIES = ["Buy", "Reinvest Shares", "Groceries", "Service stations", "Telecommunication services", "", "食費",
              "Card 42 Kiosk", "Migros"]
TEXTS = ["Okanecard purchase 12.10 Migros Zurich", "Payment order 77", "Money Bank", "ACME AG", "Hamachi Super", "", "Coop-7",
         "Debit Card 9 Coop"]
PLAIN_PATTERNS = ["Migros", "migros", "coop", "Wire", "山田", "Super$", "^Debit", "^MIGROS", "Card [0-9]+", ".*", "^$",
                  "Hamachi", "Grocery", "^Migros", "Zurich$", "[A-Z]+ AG", "Service", "Buy", "食", "^Coop", "ACME", "o"]
CAPTURE_PATTERNS = [r"Debit Card (?P<code>\d+) (?P<payee>.*)", r"Visa (?P<code>[0-9]+) (?P<payee>.*)$",
                    r"(?P<payee>[A-Za-z]+)-(?P<code>[0-9]+)", r"^(?P<payee>[^ ]+) .*", r"(?P<payee>.*) Zurich",
                    r"(?P<payee>Migros)", r"ATM (?P<payee>.*)", r"(?P<code>[0-9]+)", r"(?P<payee>.*)", r"^(?P<payee>[A-Z]+) ",
                    r"Card (?P<code>[0-9]+) (?P<payee>[^ ]*)", r"(?P<payee>Hamachi) Super",
                    r"REF:(?P<code>[A-Z0-9]+)", r" (?P<code>[0-9]+)$", r"-(?P<code>[0-9]+)"]
EXPLICIT_PAYEES = ["Migros", "Grocery Shop", "Hamachi", "Taro and Jiro", "山田"]
ACCOUNTS = ["Expenses:Grocery", "Expenses:Car:Gas", "Income:Salary", "Assets:Wire", "Expenses:Cash", "Income:Misc"]
CODE_VALUES = ["PMNT", "ICDT", "RCDT", "AUTT", "OTHR"]

PROFILES = {
    # field -> how the importer's matcher reads it
    "csv": {"payee": "P1", "category": "T0", "secondary_commodity": "T0"},
    "viseca": {"payee": "P1", "category": "T1"},
    "camt": {"payee": "P0", "creditor_name": "T1", "debtor_name": "T1", "additional_entry_info": "T1",
             "additional_transaction_info": "T1", "remittance_unstructured_info": "T1", "domain_code": "C",
             "domain_family": "C", "domain_sub_family": "C"},
}


def gen_record(rng, profile):
    rec = {}
    for f, k in PROFILES[profile].items():
        if k == "P1":
            rec[f] = ("P", rng.choice(PAYEES))
        elif k == "P0":
            rec[f] = ("P", None)
        elif k in ("T0", "T1"):
            pool = CATEGORIES if f == "category" else (["EUR", "USD", ""] if f == "secondary_commodity" else TEXTS + PAYEES[:6])
            v = rng.choice(pool) if rng.random() < 0.85 else None
            rec[f] = ("T", k == "T1", v)
        else:
            rec[f] = ("C", rng.choice(CODE_VALUES) if rng.random() < 0.9 else None)
    return rec


def gen_fm(rng, profile, nfields, allow_interaction):
    """one field matcher; without `allow_interaction` at most one of its fields can capture or reads the payee"""
    kinds = PROFILES[profile]
    fields = rng.sample(sorted(kinds), min(nfields, len(kinds)))
    fm = {}
    active = 0
    for f in fields:
        k = kinds[f]
        if k == "C":
            fm[f] = rng.choice(CODE_VALUES)
            continue
        can_interact = k in ("P1", "P0", "T1")
        if can_interact and not allow_interaction and active >= 1:
            if k in ("P1", "P0"):
                continue            # a second interacting field is left out
            fm[f] = rng.choice(PLAIN_PATTERNS)   # T1 without groups is inert
            continue
        if can_interact and (k != "T1" or rng.random() < 0.5):
            active += 1
            fm[f] = rng.choice(CAPTURE_PATTERNS if rng.random() < 0.5 else PLAIN_PATTERNS)
        else:
            fm[f] = rng.choice(PLAIN_PATTERNS if k != "T1" or not allow_interaction else PLAIN_PATTERNS + CAPTURE_PATTERNS)
            if k == "T1" and "(?P<" in fm[f]:
                active += 1
    if not fm:
        f = rng.choice(sorted(kinds))
        fm[f] = rng.choice(CODE_VALUES if kinds[f] == "C" else PLAIN_PATTERNS)
    return fm


def gen_rules(rng, profile, allow_interaction):
    rules = []
    for _ in range(rng.randint(1, 7)):
        if rng.random() < 0.35:
            m = [gen_fm(rng, profile, rng.randint(1, 2), allow_interaction) for _ in range(rng.randint(1, 3))]
        else:
            m = gen_fm(rng, profile, rng.choice([1, 1, 2, 3]), allow_interaction)
        r = {"matcher": m}
        if rng.random() < 0.3:
            r["pending"] = rng.random() < 0.7
        if rng.random() < 0.25:
            r["payee"] = rng.choice(EXPLICIT_PAYEES)
        if rng.random() < 0.6:
            r["account"] = rng.choice(ACCOUNTS)
        if rng.random() < 0.15:
            r["conversion"] = gen_conv(rng)
        rules.append(r)
    return rules


_RE = {}


def py_captures(pat, hay):
    """regex verdict in the common subset: case-insensitive, unanchored, named groups payee / code"""
    r = _RE.get(pat)
    if r is None:
        r = _RE[pat] = re.compile(pat, re.IGNORECASE)
    m = r.search(hay)
    if not m:
        return None
    g = m.groupdict()
    return (g.get("payee"), g.get("code"))


def field_caps(rec, f, pat, payee_now, caps):
    kind = rec.get(f, ("T", True, None))
    if kind[0] == "P":
        target = payee_now if payee_now is not None else kind[1]
        return None if target is None else caps(pat, target)
    if kind[0] == "T":
        if kind[2] is None:
            return None
        c = caps(pat, kind[2])
        if c is None:
            return None
        return c if kind[1] else (None, None)
    return (None, None) if kind[1] is not None and kind[1] == pat else None


def and_eval(rec, fm, order, payee, code, caps):
    """an element matches only if all its fields do; fields are looked at in `order`, each seeing the payee captured so far"""
    for f in order:
        c = field_caps(rec, f, fm[f], payee, caps)
        if c is None:
            return None
        payee = c[0] if c[0] is not None else payee
        code = c[1] if c[1] is not None else code
    return (payee, code)


def elements(rule):
    m = rule["matcher"]
    return m if isinstance(m, list) else [m]


def statement_eval(rec, rules, caps=py_captures):
    """C17's statement evaluated over *all* iteration orders of the field maps: returns the set of possible outcomes
    (payee, account, code, cleared, conversion) and, for the order-independent cases, the indices of the matching rules."""
    states = {(None, None, None, False, None, ())}     # payee, code, account, cleared, conversion(json), matching
    for ri, rule in enumerate(rules):
        new = set()
        for (payee, code, account, cleared, conv, matching) in states:
            outcomes = set()
            may_fall_through = True
            for fm in elements(rule):
                res = {and_eval(rec, fm, order, payee, code, caps) for order in itertools.permutations(sorted(fm))}
                outcomes |= {r for r in res if r is not None}
                if None not in res:
                    may_fall_through = False
                    break
            if may_fall_through:
                new.add((payee, code, account, cleared, conv, matching))
            for (p2, c2) in outcomes:
                # a matching rule: explicit payee wins over a captured one; its account replaces the earlier one;
                # the record is cleared if the rule assigns an account and is not flagged pending
                np = rule["payee"] if rule.get("payee") is not None else p2
                na, ncl = account, cleared
                if rule.get("account") is not None:
                    na = rule["account"]
                    ncl = cleared or not rule.get("pending", False)
                ncv = json.dumps(rule["conversion"], sort_keys=True) if rule.get("conversion") is not None else conv
                new.add((np, c2, na, ncl, ncv, matching + (ri,)))
        states = new
    return states


def frag_sx(st):
    payee, code, account, cleared, conv, _ = st
    return "(frag %d %s %s %s %s)" % (1 if cleared else 0, opt(payee), opt(account), opt(code),
                                      opt(None if conv is None else json.loads(conv), conv_sx))


def rec_tokens(rec):
    out = []
    for f, k in sorted(rec.items()):
        if k[0] == "P":
            out.append("%s=%s" % (f, "P-" if k[1] is None else "P:" + enc(k[1])))
        elif k[0] == "T":
            out.append("%s=T%d%s" % (f, 1 if k[1] else 0, "-" if k[2] is None else ":" + enc(k[2])))
        else:
            out.append("%s=%s" % (f, "C-" if k[1] is None else "C:" + enc(k[1])))
    return out


def rec_sx(rec):
    out = []
    for f, k in sorted(rec.items()):
        if k[0] == "P":
            out.append("(%s P %s)" % (f, opt(k[1])))
        elif k[0] == "T":
            out.append("(%s T %d %s)" % (f, 1 if k[1] else 0, opt(k[2])))
        else:
            out.append("(%s C %s)" % (f, opt(k[1])))
    return "(" + " ".join(out) + ")"


def rules_yaml(rules):
    return docs_yaml([dict(BASE_DOC, rewrite=rules)])


def interacting(rec, fm):
    """number of fields of the element that read the payee or keep capture groups (the F14 class needs two)"""
    n = 0
    for f, pat in fm.items():
        k = rec.get(f, ("T", True, None))
        if k[0] == "P" or (k[0] == "T" and k[1] and "(?P<" in pat):
            n += 1
    return n


def run_rules(chk, n, repeats):
    cases = []
    for i in range(n):
        profile = ["csv", "viseca", "camt"][i % 3]
        hostile = (i % 5 == 4) and profile != "csv"         # side stream: field-order interaction allowed (F14 class)
        rec = gen_record(chk.rng, profile)
        rules = gen_rules(chk.rng, profile, hostile)
        cases.append((profile, hostile, rec, rules))
    hx_lines = ["%s %d %s" % (enc(rules_yaml(rules)), repeats, " ".join(rec_tokens(rec))) for _, _, rec, rules in cases]
    impl = run_hx(["c17", "rules"], hx_lines)
    drv_lines = []
    for (profile, hostile, rec, rules), a in zip(cases, impl):
        t = sx_parse(a)
        tab = sx_find(t, "table") if t and t[0] == "ok" else None
        drv_lines.append("(case (%s) %s (%s))" % (" ".join(rule_sx(r) for r in rules), rec_sx(rec),
                                                " ".join(sx_str(x) for x in (tab[1:] if tab else []))))
    model = run_drv(["c17", "rules"], drv_lines)
    chk.streams["rules"] = len(cases)
    sensitive_seen = 0
    for (profile, hostile, rec, rules), hl, a, b in zip(cases, hx_lines, impl, model):
        states = statement_eval(rec, rules)
        want = sorted({frag_sx(s) for s in states})
        ta = sx_parse(a)
        observed = [sx_str(x) for x in sx_find(ta, "frags")[1:]] if ta[0] == "ok" else None
        inter = max(interacting(rec, fm) for r in rules for fm in elements(r))
        nmatch = max(len(s[5]) for s in states)
        chk.case(("rules", json.dumps(rules, sort_keys=True), rec_sx(rec)), nontrivial=nmatch >= 1)
        chk.traces += 1
        chk.count("rules:profile=" + profile)
        chk.count("rules:matching-rules=%d" % min(nmatch, 4))
        chk.count("rules:outcomes=%s" % ("1" if len(want) == 1 else "order-dependent"))
        if any(isinstance(r["matcher"], list) for r in rules):
            chk.count("rules:with-or-list")
        if any(s[0] is not None and s[0] != (rec.get("payee", ("P", None))[1]) for s in states):
            chk.count("rules:payee-rewritten")
        replay = {"stream": "c17 rules", "profile": profile, "rules": rules, "record": rec_sx(rec), "yaml": rules_yaml(rules),
                  "expected_one_of": want, "observed": observed, "model": b,
                  "rerun": "echo '%s' | /verif/work/target/debug/hx c17 rules" % hl}
        if observed is None:
            chk.oracle_failures += 1
            chk.violation("the real Extractor failed on a valid rule list: %s" % a[:200], replay)
            continue
        if len(want) > 1:
            sensitive_seen += 1
            if inter < 2:
                # the statement itself says the outcome cannot depend on the order here
                chk.oracle_failures += 1
                chk.violation("outcome depends on the field order although at most one field of each element captures or reads the payee", replay)
                continue
        bad = [o for o in observed if o not in want]
        if bad or (len(want) == 1 and observed != want):
            chk.oracle_failures += 1
            chk.violation("rule fold does not resolve as documented (rules in order on the rewritten payee, last account wins, "
                          "first matching OR element, all fields of an element): %s" % bad[:1], replay)
            continue
        tb = sx_parse(b)
        if tb[0] != "ok":
            chk.disagreements += 1
            chk.violation("C17 model driver could not evaluate the case: %s" % b[:200], replay, no_failing_input=True, tag="corr")
            continue
        mfr = sorted(sx_str(x) for x in sx_find(tb, "frags")[1:])
        if mfr != want or any(o not in mfr for o in observed):
            chk.disagreements += 1
            chk.violation("model and implementation of the rule fold disagree (property oracle holds on this input)",
                          replay, no_failing_input=True, tag="corr")
    chk.count("rules:order-dependent-cases", sensitive_seen)
    k = len(cases) // 3
    chk.sample({"stream": "rules", "rules": cases[k][3], "record": rec_sx(cases[k][2]), "impl": impl[k][:300], "model": model[k][:300]})


def run_invalid(chk):
    """rule lists the Extractor must refuse"""
    bad = [([{"matcher": {"payee": "("}, "account": "A"}], "InvalidRegex"),
           ([{"matcher": {"payee": "a"}}, {"matcher": {"category": "[z-a]"}}], "InvalidRegex"),
           ([{"matcher": {}, "account": "A"}], "InvalidConfig"),
           ([{"matcher": [{"payee": "x"}, {}], "account": "A"}], "InvalidConfig")]
    lines = ["%s 1 payee=P:%s" % (enc(rules_yaml(r)), enc("x")) for r, _ in bad]
    out = run_hx(["c17", "rules"], lines)
    chk.streams["invalid-rules"] = len(bad)
    for (r, kind), line, a in zip(bad, lines, out):
        chk.case(("invalid", json.dumps(r)), nontrivial=True)
        chk.count("invalid-rules:" + kind)
        if not a.startswith("(err extractor %s" % kind):
            chk.oracle_failures += 1
            chk.violation("invalid rule list not refused with %s" % kind,
                          {"stream": "c17 invalid", "rules": r, "observed": a, "rerun": "echo '%s' | /verif/work/target/debug/hx c17 rules" % line})


# ------------------------------------------------------------------------------------------------
# end to end: the `okane import` binary on CSV files

SAFE_PAYEES = [p for p in PAYEES if p]
SAFE_CATS = [c for c in CATEGORIES if c]
HEADER_RE = re.compile(r"^(\d{4}/\d\d/\d\d) \* (?:\(([^)]*)\) )?(.*)$")


def csv_model_rows(chk, docs, src, text, replay):
    """`hx c15 csv` (real select + real importer + the cells) then `drv c17 csv` (importer model, number cells and templates decoded
    from their text): the trees must agree; returns per transaction (payee, code, counter account, pending mark) from the model."""
    line = "%s %s %s" % (enc(src), enc(docs_yaml(docs)), enc(text))
    a = run_hx(["c15", "csv"], [line])[0]
    if not a.startswith("(ok "):
        chk.count("e2e:model:config-refused")
        return None
    t = sx_parse(a)
    cells = sx_find(t, "cells")[1]
    if cells[0] != "ok":
        return None
    case = "(case %s %s %s %s %s)" % (sx_str(sx_find(t, "cfg")[1]), sx_str(sx_find(t, "pats")), sx_str(sx_find(t, "table")),
                                      sx_str(["cells"] + cells[1:]), sx_str(sx_find(t, "dates")))
    b = run_drv(["c17", "csv"], [case])[0]
    if b.startswith("(table-incomplete"):
        chk.count("e2e:model:regex-table-incomplete")
        return None
    I = sx_find(t, "import")[1]
    mi = sx_find(sx_parse(b), "import")[1] if b.startswith("(ok ") else None
    chk.count("e2e:model:" + ("agrees" if mi == I else "DISAGREES"))
    if mi != I:
        chk.disagreements += 1
        chk.violation("CSV importer model (cells decoded from their text) and the real CSV importer disagree",
                      dict(replay, impl_import=sx_str(I)[:3000], model_import=sx_str(mi)[:3000] if mi else b[:500],
                           rerun_model="echo '%s' | /verif/work/target/debug/hx c15 csv" % line), no_failing_input=True, tag="corr")
        return None
    if mi[0] != "ok":
        return None
    rows = []
    for tr in mi[1:]:
        posts = tr[6]
        src_first = dec(posts[0][1]) == "Assets:Bank"
        counter = posts[-1] if src_first else posts[0]
        rows.append((dec(tr[5]), dec(tr[4][0]) if tr[4] else None, dec(counter[1]), "! " if counter[2] == "p" else ""))
    return rows


def run_binary(chk, nfiles, rows):
    d = os.path.join(chk.dir, "e2e")
    os.makedirs(d, exist_ok=True)
    chk.streams["okane-import-binary"] = 0
    for fi in range(nfiles):
        rules = gen_rules(chk.rng, "csv", False)
        for r_ in rules:
            r_.pop("conversion", None)       # conversions need rate columns; they are C16's subject
        outer = {"path": "e2e/", "encoding": "UTF-8", "account_type": "asset", "commodity": "CHF",
                 "rewrite": rules[:len(rules) // 2]}
        inner = {"path": "e2e/stmt%d.csv" % fi, "account": "Assets:Bank",
                 "format": {"date": "%Y-%m-%d", "fields": {"date": 1, "payee": 2, "category": 3, "amount": 4}},
                 "rewrite": rules[len(rules) // 2:]}
        decoy = {"path": "e2e/other", "account": "Assets:Wrong", "rewrite": [{"matcher": {"payee": ".*"}, "account": "Wrong"}]}
        docs = [inner, decoy, outer] if fi % 2 else [outer, decoy, inner]
        recs = []
        csv_lines = ["date,payee,category,amount"]
        for ri in range(rows):
            payee = chk.rng.choice(SAFE_PAYEES)
            cat = chk.rng.choice(SAFE_CATS)
            # matchers are case-insensitive on every field (extract::regex_matcher): statements spell the same text in
            # another letter case now and then (ASCII only, where Python's and the regex crate's folding agree)
            if chk.rng.random() < 0.3 and payee.isascii():
                payee = chk.rng.choice([payee.upper(), payee.lower(), payee.swapcase()])
            if chk.rng.random() < 0.3 and cat.isascii():
                cat = chk.rng.choice([cat.upper(), cat.lower(), cat.swapcase()])
            # the amount cell as statements write it: currency sign / commodity code before or after the number, thousands separators,
            # blanks, up to two minus signs (`-$1,234.50`, `$-5.00`, `--100.00`); its value decides Income:/Expenses:Unknown
            units = chk.rng.randint(1, 99999999 if chk.rng.random() < 0.3 else 99999)
            cell, k, _ = num_cell(chk.rng, units, 2, chk.rng.random() < 0.6)
            amount = -units if k % 2 else units
            recs.append((payee, cat, amount))
            csv_lines.append("2024-01-%02d,%s,%s,%s" % (ri % 28 + 1, payee, cat, '"%s"' % cell if "," in cell else cell))
        cfg = os.path.join(d, "config%d.yml" % fi)
        src = os.path.join(d, "stmt%d.csv" % fi)
        open(cfg, "w").write(docs_yaml(docs))
        open(src, "w").write("\n".join(csv_lines) + "\n")
        p = subprocess.run([OKANE, "import", "--config", cfg, src], stdout=subprocess.PIPE, stderr=subprocess.PIPE, text=True, timeout=60)
        replay = {"stream": "c17 okane import", "config": docs_yaml(docs), "csv": "\n".join(csv_lines) + "\n",
                  "rerun": "%s import --config %s %s" % (OKANE, cfg, src)}
        if p.returncode != 0:
            chk.oracle_failures += 1
            chk.violation("`okane import` failed on a valid CSV + layered configuration: %s" % p.stderr[-300:], replay)
            continue
        blocks = [b for b in p.stdout.split("\n\n") if b.strip()]
        if len(blocks) != len(recs):
            chk.oracle_failures += 1
            chk.violation("`okane import` printed %d transactions for %d records" % (len(blocks), len(recs)), dict(replay, stdout=p.stdout))
            continue
        # the CSV importer MODEL on the cells of the statement (number cells decoded by the model from their text), against the real
        # importer's trees and against what the binary printed
        model_rows = csv_model_rows(chk, docs, src, "\n".join(csv_lines) + "\n", replay)
        for (payee, cat, amount), block in zip(recs, blocks):
            rec = {"payee": ("P", payee), "category": ("T", False, cat)}
            states = statement_eval(rec, rules)
            (st,) = states if len(states) == 1 else (None,)
            chk.case(("e2e", fi, payee, cat, amount), nontrivial=st is not None and len(st[5]) > 0)
            chk.traces += 1
            chk.streams["okane-import-binary"] += 1
            lines = block.split("\n")
            m = HEADER_RE.match(lines[0])
            posts = [l for l in lines[1:] if l.startswith("    ") and not l.strip().startswith(";")]
            counter = posts[-1] if amount > 0 else posts[0]
            want_payee = st[0] if st[0] is not None else payee
            want_acct = st[2] if st[2] is not None else ("Income:Unknown" if amount > 0 else "Expenses:Unknown")
            want_mark = "" if st[3] else "! "
            got_mark = "! " if counter.startswith("    ! ") else ""
            got_acct = counter[4 + len(got_mark):].split("  ")[0]
            ok = (m is not None and m.group(3) == want_payee and (m.group(2) or None) == st[1] and got_acct == want_acct
                  and got_mark == want_mark)
            chk.count("e2e:" + ("unknown-account" if st[2] is None else "pending" if not st[3] else "cleared"))
            if not ok:
                chk.oracle_failures += 1
                chk.violation("`okane import` output does not follow the rewrite rules in force (payee / code / counter account / pending mark)",
                              dict(replay, record=[payee, cat, amount], printed=block,
                                   expected={"payee": want_payee, "code": st[1], "counter_account": want_acct, "pending_mark": want_mark}))
                break
            if model_rows is not None:
                mrow = model_rows.pop(0) if model_rows else None
                got = (m.group(3), m.group(2) or None, got_acct, got_mark)
                if mrow != got:
                    chk.disagreements += 1
                    chk.violation("CSV importer model (cells decoded from their text) and the `okane import` binary disagree on payee / code / "
                                  "counter account / pending mark", dict(replay, record=[payee, cat, amount], printed=block, model=mrow),
                                  no_failing_input=True, tag="corr")
                    break


# ------------------------------------------------------------------------------------------------
# F14: the order of the fields inside one element

F14_CONFIG = {"path": "card.txt", "encoding": "UTF-8", "account": "Liabilities:Card", "account_type": "liability",
              "commodity": "CHF",
              "rewrite": [{"matcher": {"category": "(?P<payee>Service) stations", "payee": "^Service$"},
                           "account": "Expenses:Car:Gas"}]}
F14_STATEMENT = "10.08.20 11.08.20 Europe Gas AT 52.10\nService stations\n"


def replay_f14(chk, runs=48):
    """Runs the real Viseca importer `runs` times on the same statement and configuration (fresh hash maps each time)."""
    line = "txt %s %s %s" % (enc("card.txt"), enc(docs_yaml([F14_CONFIG])), enc(F14_STATEMENT))
    out = run_hx(["c15", "import"], [line] * runs)
    seen = {}
    for o in out:
        t = sx_parse(o)
        if t[0] != "ok":
            seen[o[:120]] = seen.get(o[:120], 0) + 1
            continue
        text = dec(sx_find(t, "text")[1])
        seen[text] = seen.get(text, 0) + 1
    return line, seen


# ------------------------------------------------------------------------------------------------
# the real Viseca and Camt-shaped matchers see the payee AS REWRITTEN by earlier rules (single-field elements: no hash order)

CHAIN_WORDS = ["Migros", "Coop", "Kiosk", "SBB", "Shop", "Bar"]


def run_viseca_chain(chk, n):
    """statements through the real Viseca importer under rule chains in which an earlier rule rewrites the payee (from the
    category line, or to a literal) and a later rule matches the REWRITTEN payee; an independent reading of C17's fold decides
    payee, counter-account and pending mark of every transaction"""
    rng = chk.rng
    lines, metas = [], []
    for i in range(n):
        recs = []
        for k in range(rng.randint(1, 4)):
            recs.append({"payee": rng.choice(CHAIN_WORDS), "category": rng.choice([None, "T" + rng.choice(CHAIN_WORDS), rng.choice(CHAIN_WORDS)]),
                         "cents": rng.randint(100, 99999), "day": 10 + k})
        rules = []
        for _ in range(rng.randint(1, 5)):
            kind = rng.choice(["cat-cap", "payee-acct", "payee-lit", "payee-acct", "cat-acct"])
            w = rng.choice(CHAIN_WORDS)
            if kind == "cat-cap":
                rules.append({"m": [("category", "^T(?P<payee>.*)$")]})
            elif kind == "payee-acct":
                rules.append({"m": [("payee", "^%s$" % w)], "account": "Expenses:" + w, "pending": rng.random() < 0.3})
            elif kind == "payee-lit":
                rules.append({"m": [("payee", "^%s$" % w)], "payee": w + " Inc"})
                if rng.random() < 0.6:
                    rules.append({"m": [("payee", "^%s Inc$" % w)], "account": "Expenses:Inc:" + w, "pending": rng.random() < 0.3})
            else:
                rules.append({"m": [("category", "^%s$" % w)], "account": "Expenses:Cat:" + w})
        y = ["path: card", "encoding: UTF-8", "account: Liabilities:Card", "account_type: liability", "commodity: CHF", "operator: Card fee", "rewrite:"]
        for ru in rules:
            y.append("  - matcher:")
            for f, pat in ru["m"]:
                y.append("      %s: \"%s\"" % (f, pat))
            if "account" in ru:
                y.append("    account: %s" % ru["account"])
            if ru.get("pending"):
                y.append("    pending: true")
            if "payee" in ru:
                y.append("    payee: %s" % ru["payee"])
        stmt = ""
        for r_ in recs:
            stmt += "%02d.08.20 %02d.08.20 %s %d.%02d\n" % (r_["day"], r_["day"] + 1, r_["payee"], r_["cents"] // 100, r_["cents"] % 100)
            if r_["category"] is not None:
                stmt += r_["category"] + "\n"
        cfg = "\n".join(y) + "\n"
        lines.append("%s %s %s" % (enc("card.txt"), enc(cfg), enc(stmt)))
        metas.append((recs, rules, cfg, stmt))
    impl = run_hx(["c15", "viseca"], lines)
    chk.streams["viseca-chain (real importer vs the fold as stated)"] = len(lines)
    for (recs, rules, cfg, stmt), line, a in zip(metas, lines, impl):
        chk.case(("viseca-chain", cfg, stmt), nontrivial=len(rules) >= 2)
        chk.traces += 1
        replay = {"stream": "c17 viseca-chain", "config": cfg, "statement": stmt, "observed": a[:3000],
                  "rerun": "echo '%s' | /verif/work/target/debug/hx c15 viseca" % line}
        if not a.startswith("(ok "):
            chk.violation("harness could not run the case: " + a[:200], replay, no_failing_input=True, tag="err")
            continue
        parsed = sx_parse(a)
        imp = sx_find(parsed, "import")
        cmdv = sx_find(parsed, "cmd")
        cmdv = cmdv[1] if cmdv and len(cmdv) > 1 else "-"
        chk.count("viseca-chain:command:" + str(cmdv).split(":")[0])
        if str(cmdv).startswith("diff"):
            # the COMMAND (`okane import` on files: statement reached through a symbolic link, configuration with one more document whose
            # `path` matches only the link's target) prints something else than the library path that selects by the path as typed
            chk.oracle_failures += 1
            chk.violation("C17: `okane import` applies a configuration document whose `path` does not occur in the path as typed "
                          "(or otherwise departs from ConfigSet::select on that path): its output differs from the selected configuration's",
                          dict(replay, command=str(cmdv)[5:2000]))
            continue
        if not imp or imp[1][0] != "ok":
            chk.oracle_failures += 1
            chk.violation("a well-formed Viseca statement with valid rules was not imported: %s" % sx_str(imp)[:200], replay)
            continue
        txns = [t for t in imp[1][1:] if t and t[0] == "txn"]
        if len(txns) != len(recs):
            chk.oracle_failures += 1
            chk.violation("%d transactions for %d records" % (len(txns), len(recs)), replay)
            continue
        for r_, t in zip(recs, txns):
            cur, account, cleared, rewritten = r_["payee"], None, False, False
            for ru in rules:
                ok, cap = True, None
                for f, pat in ru["m"]:
                    hay = cur if f == "payee" else r_["category"]
                    m = re.search(pat, hay) if hay is not None else None
                    if not m:
                        ok = False
                        break
                    if "payee" in m.groupdict():
                        cap = m.group("payee")
                if not ok:
                    continue
                if cap is not None:
                    cur, rewritten = cap, True
                if "payee" in ru:
                    cur, rewritten = ru["payee"], True
                if "account" in ru:
                    account = ru["account"]
                    if not ru.get("pending"):
                        cleared = True
            got_payee = dec(t[5]) if isinstance(t[5], str) else sx_str(t[5])
            post0 = t[6][0]
            got_acct, got_mark = dec(post0[1]), post0[2]
            want_acct = account or "Expenses:Unknown"
            want_mark = "u" if cleared else "p"
            chk.count("viseca-chain:" + ("rewritten-then-matched" if rewritten and account else "rewritten" if rewritten else "plain"))
            if (got_payee, got_acct, got_mark) != (cur, want_acct, want_mark):
                chk.oracle_failures += 1
                chk.violation("Viseca record `%s` / category %r: imported as payee %r -> %s (%s); rules applied in order, each seeing the payee as "
                              "rewritten by the earlier ones, give payee %r -> %s (%s)"
                              % (r_["payee"], r_["category"], got_payee, got_acct, got_mark, cur, want_acct, want_mark), replay)
                break


# the CSV statements restated from the FILE TEXT (csv reader model of C16, Lemmas/CsvTextFile.lean)
FILE_THEOREMS = ['Okane.Import.C17_csv_import_file']

def run(chk):
    chk.rule = ("select: random lists of 1-7 configuration documents whose `path` is a random substring of the file path "
                "(nested, overlapping, equal byte length, multi-byte, empty, non-matching), each setting a random subset of the scalars, "
                "formats and uniquely labelled rules; rules: random lists of 1-7 rules (single field matchers with 1-3 fields and "
                "OR-lists, capture groups, explicit payees, accounts, pending flags, conversions) over random records in the shape of the "
                "three importers' matchers (csv / viseca / camt), patterns from the subset shared by Rust regex and Python re; "
                "non-trivial = at least two documents in force / at least one matching rule; distinct = distinct (documents, path) "
                "or (rules, record)")
    chk.assumptions = ["regex matching is a parameter of the model (the harness hands the real regex crate's verdicts to the driver)",
                       "YAML decoding, str::contains, from_slash (identity on Unix) and encoding labels are modelled, not verified"]
    if not standard_prologue(chk, THEOREMS + FILE_THEOREMS, imports=["Okane.Lemmas.CsvTextFile"]):
        return
    quick = chk.tier == "quick"
    run_select(chk, 600 if quick else 12000)
    run_rules(chk, 700 if quick else 15000, 6 if quick else 12)
    run_invalid(chk)
    run_binary(chk, 12 if quick else 120, 10)
    run_viseca_chain(chk, 150 if quick else 4000)
    # known finding F14: replayed on the real Viseca importer
    line, seen = replay_f14(chk)
    texts = sorted(seen)
    chk.count("f14:distinct-outputs", len(texts))
    known = [f for f in chk.known if f["id"] == "F14"]
    if len(texts) > 1:
        what = ("the same Viseca statement + configuration imports in %d different ways (%s) depending on the hash order of the two "
                "fields of one matcher element" % (len(texts), " | ".join("%dx %s" % (seen[t], t.split("\n")[1].strip() if "\n" in t else t) for t in texts)))
        if known:
            chk.known_finding("F14", what)
        else:
            chk.oracle_failures += 1
            chk.violation("import result depends on the iteration order of a field matcher's hash map: " + what,
                          {"stream": "c17 f14", "config": docs_yaml([F14_CONFIG]), "statement": F14_STATEMENT, "outputs": seen,
                           "rerun": "for i in $(seq 20); do echo '%s' | /verif/work/target/debug/hx c15 import; done | sort | uniq -c" % line})
    chk.sample({"stream": "f14 replay", "outputs": {k: v for k, v in seen.items()}})
