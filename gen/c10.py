"""C10 — converted reports convert every amount or fail."""
import datetime
import os
import subprocess
from fractions import Fraction

from common import standard_prologue, run_sharded, enc, dec, HX, DRV, OKANE
from c09 import sx_parse, split_fields, sx_date, un_date, frac_of, amount_of, dec_str, dec_triple

CLAIM = {
    "technique": ("Lean 4 theorems about a model of Ledger::balance with conversion (on top of the C09 price model) + "
                  "differential correspondence against the real Ledger::balance and the real `okane balance -X` binary + an "
                  "independent per-account recomputation oracle built from Ledger::transactions and single Ledger::eval conversions"),
    "text": ("Proof: Ledger::balance (raw vs recompute path, Historical vs UpToDate, where rounding is applied), convert_amount and "
             "convert_single are modelled in Lean (Okane.Query, Okane.Price), with the heap order, hash iteration orders and sort "
             "orders as parameters. Proved for all ledgers, price repositories, targets, dates and ranges: an UpToDate report holds for "
             "each account exactly round_T(sum over its holdings of the holding times the as-of rate at `now`) and nothing in another "
             "commodity (C10_uptodate); a Historical report holds round_T(sum over the postings in range, converted at the "
             "transaction's date) (C10_historical); if any needed rate is missing the query is not answered (C10_fail, "
             "C10_fail_uptodate); amounts already in T pass unchanged (C10_untouched); conversion is linear (C10_linear, "
             "C10_amount_linear); rounding is applied only after conversion, i.e. only to T's precision (C10_round_only_T)."),
    "note": ("rust_decimal is modelled as exact rationals (generated rates are 2^a*5^b). Rates are 'whatever the C09 price table "
             "holds': which chain that is, is C09's business. The CLI stream always passes --now. The price-db TEXT is parsed and loaded by "
             "the model itself (Okane.PriceDbFile, see C09); the generator's structured records are only a cross-check."),
    "design_ref": "DESIGN.md section 6 C10 (F20 fixed in /repo by c960ee4; its witness is in the fixed cases)",
}

THEOREMS = [
    "Okane.Query.C10_untouched",
    "Okane.Query.C10_linear",
    "Okane.Query.C10_fail_value_independent",
    "Okane.Query.C10_amount_value",
    "Okane.Query.C10_amount_total",
    "Okane.Query.C10_fail_amount",
    "Okane.Query.C10_amount_linear",
    "Okane.Query.C10_no_conversion_unchanged",
    "Okane.Query.C10_uptodate",
    "Okane.Query.C10_uptodate_wf",
    "Okane.Query.C10_historical",
    "Okane.Query.C10_fail",
    "Okane.Query.C10_fail_uptodate",
    "Okane.Query.C10_round_only_T",
]

F = Fraction
BASE = datetime.date(2024, 1, 1)
COMMS = ["USD", "JPY", "EUR", "STK", "CHF"]
FORMATS = {0: "1,000", 2: "1.00", 3: "1.000"}
RATES = [F(2), F(4), F(5), F(8), F(10), F(1, 2), F(1, 4), F(1, 5), F(5, 4), F(5, 2), F(2, 5), F(4, 5), F(8, 5), F(20),
         F(125), F(250), F(160), F(1, 8), F(1, 125)]
ACCOUNTS = ["Assets:Bank", "Assets:Broker", "Expenses:Food", "Income:Job", "Liabilities:Card"]


def rnd_value(rng):
    m = rng.choice([1, 2, 3, 5, 7, 12, 15, 25, 50, 99, 120, 125, 1234, 1005, 995])
    s = rng.choice([0, 0, 1, 2, 3, 3])
    v = F(m, 10 ** s)
    return v if rng.random() < 0.7 else -v


def gen_case(rng, cid):
    ncomm = rng.choice([2, 3, 3, 4, 5])
    comms = COMMS[:ncomm]
    prec = {}
    decl = []
    for c in comms:
        if rng.random() < 0.6:
            prec[c] = rng.choice([0, 2, 2, 3])
            decl.append("commodity %s\n    format %s %s\n" % (c, FORMATS[prec[c]], c))
    ntx = rng.choice([1, 2, 3, 4, 5, 6])
    offs = sorted(rng.choice([0, 1, 3, 3, 5, 8, 8, 13, 21, 34]) for _ in range(ntx))
    txns = []
    for i, o in enumerate(offs):
        d = (BASE + datetime.timedelta(days=o)).strftime("%Y/%m/%d")
        kind = rng.choice(["deduce", "deduce", "deduce_multi", "cost", "total", "implied", "transfer", "zero_entry"])
        a1, a2 = rng.sample(ACCOUNTS, 2)
        c1 = rng.choice(comms)
        c2 = rng.choice([c for c in comms if c != c1])
        v = rnd_value(rng)
        if kind == "deduce":
            body = "    %s    %s %s\n    Equity\n" % (a1, dec_str(v), c1)
        elif kind == "deduce_multi":
            body = "    %s    %s %s\n    %s    %s %s\n    Equity\n" % (a1, dec_str(v), c1, a2, dec_str(rnd_value(rng)), c2)
        elif kind == "cost":
            r = rng.choice(RATES)
            body = "    %s    %s %s @ %s %s\n    %s    %s %s\n" % (a1, dec_str(v), c1, dec_str(r), c2, a2, dec_str(-v * r), c2)
        elif kind == "total":
            r = rng.choice(RATES)
            body = "    %s    %s %s @@ %s %s\n    %s    %s %s\n" % (a1, dec_str(v), c1, dec_str(abs(v) * r), c2, a2, dec_str(-v * r), c2)
        elif kind == "implied":
            r = rng.choice(RATES)
            # amounts within the declared precisions so that rounding in check_balance changes nothing
            q = F(rng.choice([1, 2, 5, 10, 20, 100]))
            if (q * r).denominator != 1:
                r = F(rng.choice([2, 4, 5, 8, 10, 20, 125]))
            body = "    %s    %s %s\n    %s    %s %s\n" % (a1, dec_str(q), c1, a2, dec_str(-q * r), c2)
        elif kind == "transfer":
            body = "    %s    %s %s\n    %s    %s %s\n" % (a1, dec_str(v), c1, a2, dec_str(-v), c1)
        else:  # zero_entry: an explicit zero amount in a commodity (must still be convertible with --historical)
            body = "    %s    0 %s\n    %s    %s %s\n    Equity\n" % (a1, c2, a2, dec_str(v), c1)
        if rng.random() < 0.25:
            # an effective date in the header: postings and the transaction's own rates stay dated by the transaction date
            d += "=" + (BASE + datetime.timedelta(days=o + rng.choice([-9, -2, 2, 9, 30]))).strftime("%Y/%m/%d")
        txns.append("%s txn %d\n%s" % (d, i, body))
    if rng.random() < 0.3:
        # a file that is not in date order (a late-entered bill): date ranges select by date, wherever the transaction stands
        rng.shuffle(txns)
    # price db: star around the first commodity plus random extra lines, dated around the transactions; sometimes sparse
    db, pdb = [], []
    density = rng.choice([0.0, 0.5, 1.0, 1.0, 1.5])
    nlines = int(density * ncomm) + (1 if density else 0)
    for _ in range(nlines):
        x, y = rng.sample(comms, 2)
        dd = BASE + datetime.timedelta(days=rng.choice([-5, 0, 2, 4, 8, 9, 20, 40]))
        r = rng.choice(RATES)
        db.append("P %s %s %s %s\n" % (dd.strftime("%Y/%m/%d"), x, dec_str(r), y))
        pdb.append("(P %s %s %s %s)" % (sx_date(dd), enc(x), dec_triple(r), enc(y)))
    ledger = "\n".join(decl + txns)
    # queries
    dates = [BASE + datetime.timedelta(days=o) for o in offs]
    nows = sorted({BASE - datetime.timedelta(days=10), dates[len(dates) // 2], dates[-1] + datetime.timedelta(days=1),
                   BASE + datetime.timedelta(days=60)})
    bounds = [None] + sorted({dates[0] - datetime.timedelta(days=1), dates[0], dates[len(dates) // 2],
                              dates[-1], dates[-1] + datetime.timedelta(days=1)})
    qs = []
    for T in comms:
        for now in nows:
            qs.append((T, "U", now, None, None))
        qs.append((T, "H", nows[-1], None, None))
        for _ in range(3):
            s, e = rng.choice(bounds), rng.choice(bounds)
            qs.append((T, rng.choice(["U", "H"]), rng.choice(nows), s, e))
    if rng.random() < 0.2:
        qs.append(("XXX", "U", nows[-1], None, None))
    return {"id": cid, "ledger": ledger, "db": "".join(db), "pdb": "(" + " ".join(pdb) + ")", "qs": qs, "prec": prec}


def fixed_cases():
    out = []
    # F20 witness (fixed by c960ee4): rounding to the source precision before converting
    led = ("commodity USD\n    format 1.00 USD\n\n2024/01/02 rate\n    Assets:X    1 USD @ 1000 JPY\n    Assets:Y    -1000 JPY\n\n"
           "2024/01/03 small\n    Assets:Bank    0.012 USD\n    Equity\n")
    d = datetime.date
    out.append({"id": "fix-F20", "ledger": led, "db": "", "pdb": "()", "prec": {"USD": 2},
                "qs": [("JPY", "U", d(2024, 2, 1), None, None), ("JPY", "U", d(2024, 2, 1), d(2024, 1, 1), None),
                       ("JPY", "H", d(2024, 2, 1), None, None), ("JPY", "H", d(2024, 2, 1), d(2024, 1, 3), None)]})
    # rates that differ between the transaction date and now; half-even rounding at T's precision
    led = ("commodity JPY\n    format 1,000 JPY\n\n2024/01/05 a\n    Assets:Bank    0.5 USD\n    Equity\n\n"
           "2024/01/15 b\n    Assets:Bank    1 USD\n    Assets:Bank    2.5 EUR\n    Equity\n")
    db = "P 2024/01/01 USD 5 JPY\nP 2024/01/10 USD 2.5 JPY\nP 2024/01/12 EUR 1 JPY\n"
    pdb = "((P (d 2024 1 1) USD 0 5 0 JPY) (P (d 2024 1 10) USD 0 25 1 JPY) (P (d 2024 1 12) EUR 0 1 0 JPY))"
    out.append({"id": "fix-dates", "ledger": led, "db": db, "pdb": pdb, "prec": {"JPY": 0},
                "qs": [("JPY", "U", d(2024, 1, 20), None, None), ("JPY", "H", d(2024, 1, 20), None, None),
                       ("JPY", "U", d(2024, 1, 7), None, None), ("JPY", "U", d(2024, 1, 7), None, d(2024, 1, 15)),
                       ("JPY", "H", d(2024, 1, 20), d(2024, 1, 5), d(2024, 1, 15)), ("USD", "U", d(2024, 1, 20), None, None),
                       ("EUR", "H", d(2024, 1, 20), None, None)]})
    # a holding that nets to zero needs no rate up to date, but every posting needs one historically
    led = ("2024/01/05 a\n    Assets:Bank    3 CHF\n    Equity\n\n2024/01/06 b\n    Assets:Bank    -3 CHF\n    Equity\n\n"
           "2024/01/07 c\n    Assets:Bank    1 USD\n    Equity\n")
    out.append({"id": "fix-netzero", "ledger": led, "db": "P 2024/01/01 USD 2 EUR\n", "pdb": "((P (d 2024 1 1) USD 0 2 0 EUR))", "prec": {},
                "qs": [("EUR", "U", d(2024, 2, 1), None, None), ("EUR", "H", d(2024, 2, 1), None, None),
                       ("EUR", "U", d(2024, 2, 1), d(2024, 1, 6), None), ("EUR", "H", d(2024, 2, 1), d(2024, 1, 7), None)]})
    return out


def case_line(c):
    qs = " ".join("(%s %s %s %s %s)" % (enc(T), m, sx_date(now), "(%s)" % (sx_date(s) if s else ""), "(%s)" % (sx_date(e) if e else ""))
                  for (T, m, now, s, e) in c["qs"])
    return "%s qs=(%s) pdb=%s db=%s ledger=%s" % (c["id"], qs, c["pdb"], enc(c["db"]), enc(c["ledger"]))


# ------------------------------------------------------------------------------------------------
# oracle


def round_half_even(x, dp):
    y = x * 10 ** dp
    f = y.numerator // y.denominator
    r = y - f
    if r > F(1, 2) or (r == F(1, 2) and f % 2 == 1):
        f += 1
    return F(f, 10 ** dp)


def opt_date(x):
    return un_date(x[0]) if x else None


def in_range(d, s, e):
    return (s is None or s <= d) and (e is None or d < e)


def expected_balance(txns, rates, prec, T, mode, now, s, e, whole_ledger_accounts):
    """returns ('err', why) or ('ok', {account: Fraction in T})"""
    def rate(c, D):
        if c == T:
            return F(1)
        r = rates.get((T, D, c))
        return r  # None when eval failed
    out = {}
    if mode == "H":
        for (D, posts) in txns:
            if not in_range(D, s, e):
                continue
            for (acct, amt) in posts:
                tot = out.get(acct, F(0))
                for c, v in amt.items():
                    r = rate(c, D)
                    if r is None:
                        return ("err", "posting of %s on %s holds %s %s: no rate into %s" % (acct, D, v, c, T))
                    tot += v * r
                out[acct] = tot
    else:
        hold = {}
        for (D, posts) in txns:
            if not in_range(D, s, e):
                continue
            for (acct, amt) in posts:
                h = hold.setdefault(acct, {})
                for c, v in amt.items():
                    h[c] = h.get(c, F(0)) + v
        for acct, h in hold.items():
            tot = F(0)
            for c, v in h.items():
                if v == 0:
                    continue
                r = rate(c, now)
                if r is None:
                    return ("err", "%s holds %s %s: no rate into %s at %s" % (acct, v, c, T, now))
                tot += v * r
            out[acct] = tot
    dp = prec.get(T)
    if dp is not None:
        out = {a: round_half_even(v, dp) for a, v in out.items()}
    return ("ok", out)


def decode_output(fs):
    res = sx_parse(fs["result"])
    txns = []
    for t in res[1][1:]:
        D = un_date(t[1])
        posts = [(dec(p[1]), amount_of(p[2])) for p in t[2:]]
        txns.append((D, posts))
    rates = {}
    for r in sx_parse(fs.get("rates", "()")):
        T, D, c, v = dec(r[0]), un_date(r[1]), dec(r[2]), r[3]
        if v[0] == "ok":
            a = amount_of(v[1])
            rates[(T, D, c)] = a.get(T) if set(a) <= {T} else None
        else:
            rates[(T, D, c)] = None
    return txns, rates


def check_query(txns, rates, prec, known, qrec):
    """the property's statement on one answer of Ledger::balance. returns message or None"""
    T, mode, now, s, e, res = dec(qrec[0]), qrec[1], un_date(qrec[2]), opt_date(qrec[3]), opt_date(qrec[4]), qrec[5]
    if T not in known:
        return None if res == ["err", "CommodityNotFound"] else "unknown target %s answered with %s" % (T, res)
    kind, exp = expected_balance(txns, rates, prec, T, mode, now, s, e, None)
    if kind == "err":
        if res[0] == "err" and res[1] == "CommodityConversionFailure":
            return None
        return "a needed rate is missing (%s) but the report was produced: %s" % (exp, res)
    if res[0] != "ok":
        return "every needed rate exists but the report failed: %s" % (res,)
    got = {dec(a[0]): amount_of(a[1]) for a in res[1]}
    for acct in set(got) | set(exp):
        g = got.get(acct, {})
        for c, v in g.items():
            if c != T and v != 0:
                return "account %s still holds %s %s after conversion into %s" % (acct, v, c, T)
        if g.get(T, F(0)) != exp.get(acct, F(0)):
            return "account %s: reported %s %s, expected %s (mode %s now %s range %s..%s)" % (acct, g.get(T, F(0)), T, exp.get(acct, F(0)), mode, now, s, e)
    return None


# ------------------------------------------------------------------------------------------------
# the real binary


def parse_cli_amount(s):
    s = s.strip()
    if s.startswith("(") and s.endswith(")"):
        s = s[1:-1]
    if s == "0":
        return {}
    out = {}
    for part in s.split(" + "):
        v, c = part.split(" ", 1)
        out[c] = F(v.replace(",", ""))
    return out


def run_cli(chk, c, q, wd):
    T, mode, now, s, e = q
    args = [OKANE, "balance", "-X", T, "--now", now.isoformat()]
    if mode == "H":
        args.append("--historical")
    if s:
        args += ["--start", s.isoformat()]
    if e:
        args += ["--end", e.isoformat()]
    if c["db"]:
        args += ["--price-db", os.path.join(wd, "prices.db")]
    args.append(os.path.join(wd, "main.ledger"))
    p = subprocess.run(args, stdout=subprocess.PIPE, stderr=subprocess.PIPE, text=True, timeout=30)
    if p.returncode != 0:
        kind = "CommodityConversionFailure" if "cannot convert amount" in p.stderr else \
               "CommodityNotFound" if "not found" in p.stderr else "other:" + p.stderr[:200]
        return ["err", kind], args
    bal = {}
    for line in p.stdout.splitlines():
        acct, amt = line.split(": ", 1)
        bal[acct] = parse_cli_amount(amt)
    return ["ok", bal], args


def same_answer(res, cli):
    if res[0] != cli[0]:
        return False
    if res[0] == "err":
        return res[1] == cli[1]
    got = {dec(a[0]): {c: v for c, v in amount_of(a[1]).items()} for a in res[1]}
    return got == cli[1]


def run(chk):
    chk.rule = ("random ledgers (1-6 transactions over 2-5 commodities, some with declared precisions 0/2/3, amounts finer than the "
                "precision, deduced postings, costs, totals, implied exchanges, explicit zero entries, multi-commodity accounts) with a "
                "price db of varying density, queried for EVERY commodity as target x {UpToDate at 4 report dates, Historical} x date "
                "ranges drawn from {none, transaction dates +-1}; each query answered by Ledger::balance (and a sample by the okane "
                "binary). Non-trivial = the report converts at least one amount or fails for a missing rate; distinct = distinct "
                "(case text, query).")
    chk.assumptions = [
        "rust_decimal arithmetic is modelled as exact rationals; generated rates are 2^a*5^b",
        "single conversions used by the oracle are the real Ledger::eval(\"1 C\", {date, exchange: T}) answers (their correctness is C09)",
        "price-db text -> records: the model receives the generator's structured records; the real code parses the text file",
    ]
    if not standard_prologue(chk, THEOREMS):
        return
    n = 600 if chk.tier == "quick" else 15000
    n_cli = 150 if chk.tier == "quick" else 2500
    cases = fixed_cases() + [gen_case(chk.rng, "r%d" % i) for i in range(n)]
    lines = [case_line(c) for c in cases]
    impl = run_sharded(HX, ["c10"], lines)
    model = run_sharded(DRV, ["c10"], impl)
    chk.streams["balance-library"] = 0
    chk.streams["balance-binary"] = 0
    cli_budget = n_cli
    for c, line, a, b in zip(cases, lines, impl, model):
        _, fs = split_fields(a)
        chk.traces += 1
        replay = {"case": c["id"], "ledger": c["ledger"], "price_db": c["db"], "line": line,
                  "rerun": "printf '%%s\\n' '<line>' | %s c10" % HX}
        if not fs.get("result", "").startswith("(ok"):
            chk.case(line, nontrivial=False)
            chk.oracle_failures += 1
            chk.violation("generated valid ledger/price-db not processed by the real code: %s" % fs.get("result", a[:200]),
                          dict(replay, observed=a[:2000]))
            continue
        txns, rates = decode_output(fs)
        known = set()
        for (_, posts) in txns:
            for (_, amt) in posts:
                known |= set(amt)
        for l in c["db"].splitlines():
            w = l.split()
            known |= {w[2], w[4]}
        for l in c["ledger"].splitlines():
            if l.startswith("commodity "):
                known.add(l.split()[1])
        qrecs = sx_parse(fs.get("qs", "()"))
        bad = None
        for q, qrec in zip(c["qs"], qrecs):
            chk.streams["balance-library"] += 1
            res = qrec[5]
            nontrivial = res[0] == "err" or any(len(x[1]) > 0 for x in res[1])
            chk.case((line, q), nontrivial=nontrivial)
            chk.count("mode=%s" % q[1])
            chk.count("range=%s%s" % ("s" if q[3] else "-", "e" if q[4] else "-"))
            chk.count("answer=%s" % (res[0] if res[0] == "ok" else res[1]))
            chk.count("target_has_precision=%s" % (q[0] in c["prec"]))
            msg = check_query(txns, rates, c["prec"], known, qrec)
            if msg and not bad:
                bad = (q, msg, res)
        if bad:
            q, msg, res = bad
            chk.oracle_failures += 1
            chk.violation("converted balance breaks C10: " + msg,
                          dict(replay, query={"target": q[0], "mode": q[1], "now": q[2], "start": q[3], "end": q[4]}, observed=res))
            continue
        if " agree " not in b + " ":
            chk.disagreements += 1
            chk.violation("query model and implementation disagree (the recomputation oracle holds on this input): " + b[:400],
                          dict(replay, stream="c10 balance", model=b), no_failing_input=True, tag="corr")
            continue
        kv = dict(x.split("=", 1) for x in b.split(" ") if "=" in x)
        if int(kv.get("ties", "0")):
            chk.count("cases_where_pop/neighbour_order_changes_an_amount")
        # the real binary on a sample of the queries: same answers as the library call (which the oracle has just checked)
        if cli_budget > 0:
            wd = os.path.join(chk.dir, "cli")
            os.makedirs(wd, exist_ok=True)
            open(os.path.join(wd, "main.ledger"), "w").write(c["ledger"])
            open(os.path.join(wd, "prices.db"), "w").write(c["db"])
            picks = [chk.rng.randrange(len(c["qs"])) for _ in range(3)]
            for k in picks:
                if cli_budget <= 0:
                    break
                cli_budget -= 1
                q, qrec = c["qs"][k], qrecs[k]
                cli, args = run_cli(chk, c, q, wd)
                chk.streams["balance-binary"] += 1
                chk.evaluations += 1
                chk.count("cli_answer=%s" % (cli[0] if cli[0] == "ok" else cli[1][:30]))
                if not same_answer(qrec[5], cli):
                    chk.oracle_failures += 1
                    chk.violation("`okane balance -X` answers differently from Ledger::balance for the same query (so it does not report the converted sums C10 demands)",
                                  dict(replay, command=" ".join(args), files="ledger -> main.ledger, price_db -> prices.db (as given in this file)",
                                       binary=str(cli)[:1500], library=str(qrec[5])[:1500]))
    for k in (0, 1, len(cases) // 2):
        if k < len(cases):
            chk.sample({"case": cases[k]["id"], "ledger": cases[k]["ledger"], "price_db": cases[k]["db"],
                        "first_answers": split_fields(impl[k])[1].get("qs", "")[:500], "model": model[k]})
