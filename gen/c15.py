"""C15 — import emits ledger text that reads back as intended."""
import csv
import io
import json
from fractions import Fraction

from common import standard_prologue, run_hx, run_drv, run_sharded, enc, dec, HX, DRV
from imp1517 import sx_parse, sx_str, sx_find, docs_yaml

CLAIM = {
    "technique": "Lean 4 theorems about a model of single_entry::Txn::to_double_entry (shape, signs, rates, assertion, number "
                 "representation) and a decidable CleanText class + differential correspondence against the real Txn builder / "
                 "to_double_entry, and a read-back oracle (real importers -> real printer -> real parser -> tree comparison) over "
                 "hostile statement text",
    "text": ("PARTIAL. Proved (for every record, every account, every precision table): C15_tree — the transaction built for a "
             "statement record has exactly the documented shape (date, effective date only when different, `*`, code, payee, "
             "comments in order, the imported account's posting first for a credit and last for a debit with the balance assertion "
             "on it, one Expenses:Commissions posting per charge with its `Payee:` tag, the counter-posting with the negated amount or "
             "the transferred amount with the opposite sign, `@ rate` on exactly the postings whose commodity has a known rate), "
             "C15_one_per_record / C15_never_err (exactly one transaction per record, to_double_entry cannot fail), C15_value — "
             "numbers are carried digit for digit (same sign flag, mantissa and scale as the statement's decimal) and the printer's "
             "rescale pads to max(scale, configured precision) without changing the value, C15_partial — for records inside the "
             "explicit decidable class CleanText every text field of the built tree lies in the class the ledger syntax can carry "
             "at that place (ReadableTree). The full statement C15_full (`whatever the statement file contains` reads back) is "
             "FALSE on the current tree: C15_full_false gives three witnesses (payee containing `;`, note with a line break, payee "
             "starting with `(`), known finding F15, replayed through the real CSV importer on every run. "
             "READ-BACK, now a theorem over the printer / parser models of C05 (Okane.Unparse with a precision table, Okane.Parse): "
             "C15_readback (= the full statement C15_readback_stmt) — for EVERY record inside CleanText, every imported account, "
             "every precision table with all precisions <= 28 and every display-width function: to_double_entry returns tr, the text "
             "the importer prints for it under the configured precisions (printTransactionP; printTransactionP_rescale: printing with "
             "precisions = printing the tree whose numbers are rescaled, for EVERY tree) starts an entry, and the entry parser consumes "
             "exactly that text, stops at the blank line, and returns readbackTxn prec tr — tr with every number padded exactly as "
             "display.rs::rescale pads it and as the literal scanner returns it; C15_readback_number / C15_readback_shape — readbackTxn "
             "changes nothing but the padding of numbers (same value, scale max(scale, precision) when the mantissa fits, same sign on "
             "non-zero numbers, format tag `plain` from four integer digits on, no sign on a zero; all text fields, states, accounts, "
             "tags untouched); C15_readback_ledger — one transaction per record and nothing else: for every list of CleanText records "
             "the ledger parser reads the whole output of ImportCmd::run (toDoubleEntries = ledgerOf, each transaction followed by an "
             "empty line) as exactly the list of those trees in order. The one extra condition is necessary: "
             "C15_readback_prec_needed (precision 29: the printed number has 29 decimals and the parser rejects the text). "
             "C15_readback_wf — when no number enters the tree as a signed zero (noSignedZero) the tree read back satisfies wfEntry / "
             "plainEntry of C05 and prints to exactly the text it was read from (C05_entry applies, the output is a fixed point of "
             "format); C15_signed_zero_not_fixed shows that condition is needed for this part (amount 0.00: counter-posting printed "
             "`-0.00`, read back as `0.00`); records with signed zeros are covered by a relational version of the C05 posting / "
             "transaction / ledger round trip (Lemmas/ImportReadbackZero.lean: exprRd_amt from C07_print_exact, posting_rd, "
             "transaction_rd, parseEntries_texts). The oracle on the real printer and parser still runs on every case. "
             "Streams: (1) random Txn builder sequences through the real "
             "single_entry::Txn and to_double_entry versus the model, printed with the real DisplayContext and re-read with the real "
             "parser, partitioned by the Lean CleanText predicate: inside the class any read-back difference is a violation, "
             "outside it differences are matched against the F15 class; (2) CSV / Viseca / Camt053 files with hostile text through the "
             "real importers, same oracle with ReadableTree evaluated on the tree the importer built; one transaction per record."),
    "note": ("the read-back theorems are about the Lean models of the printer and the parser (validated against the real code by the "
             "C05 / C07 / C19 correspondence checks), tied to the real importer output by this check's oracle; csv / quick-xml / regex / chrono decoding "
             "are outside the model (the model starts from the decoded record); rust_decimal arithmetic outside 96 bits / scale 28 is "
             "not modelled."),
    "design_ref": "DESIGN.md section 6, C15; finding F15 in section 7",
}

THEOREMS = [
    "Okane.Import.C15_tree", "Okane.Import.C15_one_per_record", "Okane.Import.C15_never_err", "Okane.Import.C15_counter_amount",
    "Okane.Import.C15_rate_placement", "Okane.Import.C15_value", "Okane.Import.C15_rescale_value", "Okane.Import.C15_partial",
    "Okane.Import.C15_full_false",
    "Okane.Import.C15_readback", "Okane.Import.C15_readback_wf", "Okane.Import.C15_readback_ledger",
    "Okane.Import.C15_readback_number", "Okane.Import.C15_readback_shape", "Okane.Import.C15_plainNums", "Okane.Import.C15_untagged",
    "Okane.Import.C15_readback_prec_needed", "Okane.Import.C15_signed_zero_not_fixed",
    "Okane.Import.printTransactionP_rescale", "Okane.Import.printTransactionP_noPrec", "Okane.Import.readback_tree",
    "Okane.Import.readback_ledger", "Okane.Import.readableTree_wf", "Okane.Import.ledgerOf_eq",
    "Okane.Import.exprRd_amt", "Okane.Import.posting_rd", "Okane.Import.transaction_rd", "Okane.Import.entryRd_txn",
    "Okane.Import.parseEntries_texts", "Okane.Import.readback_tree_all", "Okane.Import.readback_ledger_all",
]

# ------------------------------------------------------------------------------------------------
# text

HOSTILE = [";", "(", ")", "*", "!", "  ", "\t", "\r", "\n", "=", "@", " ", ":", "\"", ",", "é", "山田", "　", "-", "0", "~", "%", "#", "|"]
WORDS = ["Migros", "shop", "evil", "Coop", "abc", "def", "山田商店", "Café", "x", "AG", "No.5", "a/b", "Tag:", "k:v", "1,000", "(ref)", "*star", "=eq",
         "@at", "!bang", "ümlaut", "#4711", "#ref"]
ACCOUNT_WORDS = ["Expenses", "Food", "Assets", "Bank", "銀行", "Okane Card", "A&B", "Misc(1)", "x=y", "Q@R"]
COMMODITIES = ["CHF", "JPY", "USD", "EUR", "円", "€", "$", "Ab"]
HOSTILE_COMMODITIES = ["CH F", "A1", "", "U$D;", "C(H)", "E-R", "X\nY"]


def gen_text(rng, hostile_p):
    n = rng.randint(0, 4) if rng.random() < 0.9 else rng.randint(5, 9)
    parts = []
    for _ in range(n):
        if rng.random() < hostile_p:
            parts.append(rng.choice(HOSTILE))
        else:
            parts.append(rng.choice(WORDS))
        if rng.random() < 0.6:
            parts.append(" ")
    s = "".join(parts)
    if rng.random() < 0.7:
        s = s.strip(" ")
    return s


def gen_account(rng, hostile_p):
    n = rng.randint(1, 3)
    s = ":".join(rng.choice(ACCOUNT_WORDS) for _ in range(n))
    if rng.random() < hostile_p:
        i = rng.randint(0, len(s))
        s = s[:i] + rng.choice(HOSTILE) + s[i:]
    return s


def gen_commodity(rng, hostile_p):
    return rng.choice(HOSTILE_COMMODITIES) if rng.random() < hostile_p else rng.choice(COMMODITIES)


def gen_dec(rng, allow_neg=True, nonzero=False):
    scale = rng.choice([0, 0, 1, 2, 2, 2, 3, 6, 8])
    digits = rng.choice([1, 2, 3, 4, 5, 7, 10])
    mant = rng.randrange(10 ** digits)
    if rng.random() < 0.08 and not nonzero:
        mant = 0
    if nonzero and mant == 0:
        mant = 1
    neg = 1 if allow_neg and rng.random() < 0.5 else 0
    return (neg, mant, scale)


def amt_sx(d, c):
    return "(amt %d %d %d %s)" % (d[0], d[1], d[2], enc(c))


def date_sx(d):
    return "(d %d %d %d)" % d


def gen_date(rng):
    if rng.random() < 0.05:
        return rng.choice([(1, 1, 1), (9999, 12, 31), (2024, 2, 29), (999, 3, 4)])
    return (rng.randint(1990, 2035), rng.randint(1, 12), rng.randint(1, 28))


def gen_txn_case(rng, hostile_p):
    """-> (line, info) for `hx c15 txn` / `drv c15 txn`"""
    com = gen_commodity(rng, hostile_p / 3)
    amount = gen_dec(rng)
    date = gen_date(rng)
    payee = gen_text(rng, hostile_p)
    src = gen_account(rng, hostile_p / 3)
    prec = {}
    for c in rng.sample(COMMODITIES, rng.randint(0, 3)):
        prec[c] = rng.randint(0, 5)
    ops = []
    info = {"date": date, "payee": payee, "amount": amount, "commodity": com, "src": src, "prec": prec, "eff": None, "code": None,
            "comments": [], "dest": None, "clear": None, "transferred": None, "balance": None, "charges": [], "rates": {}}
    if rng.random() < 0.4:
        eff = date if rng.random() < 0.3 else gen_date(rng)
        ops.append("(eff %s)" % date_sx(eff))
        info["eff"] = eff if eff != date else None
    if rng.random() < 0.4:
        code = gen_text(rng, hostile_p)
        ops.append("(code %s)" % enc(code))
        info["code"] = code
    for _ in range(rng.choice([0, 0, 1, 1, 2])):
        c = gen_text(rng, hostile_p)
        ops.append("(comment %s)" % enc(c))
        info["comments"].append(c)
    if rng.random() < 0.6:
        dest = gen_account(rng, hostile_p / 3)
        ops.append("(dest %s)" % enc(dest))
        info["dest"] = dest
    if rng.random() < 0.3:
        cl = rng.choice("ucp")
        ops.append("(clear %s)" % cl)
        info["clear"] = cl
    com2 = None
    if rng.random() < 0.3:
        com2 = gen_commodity(rng, hostile_p / 3)
        tr = gen_dec(rng)
        ops.append("(transferred %s)" % amt_sx(tr, com2))
        info["transferred"] = (tr, com2)
    if rng.random() < 0.35:
        tgt = com2 if com2 is not None and rng.random() < 0.7 else rng.choice([com] + COMMODITIES[:3])
        srcc = rng.choice([c for c in COMMODITIES if c != tgt])
        rate = gen_dec(rng, allow_neg=False, nonzero=True)
        ops.append("(rate %s %s (dec %d %d %d))" % (enc(srcc), enc(tgt), rate[0], rate[1], rate[2]))
        info["rates"][tgt] = (rate, srcc)
    if rng.random() < 0.4:
        b = gen_dec(rng)
        ops.append("(balance %s)" % amt_sx(b, com))
        info["balance"] = (b, com)
    for _ in range(rng.choice([0, 0, 0, 1, 2])):
        cp = gen_text(rng, hostile_p)
        ca = gen_dec(rng)
        if info["transferred"] is None and rng.random() < 0.3:
            ops.append("(chargeni %s %s)" % (enc(cp), amt_sx(ca, com)))
            info["charges"].append((cp, ca, com))
            info["transferred"] = "computed"
        else:
            cc = com if rng.random() < 0.8 else rng.choice(COMMODITIES)
            ops.append("(charge %s %s)" % (enc(cp), amt_sx(ca, cc)))
            info["charges"].append((cp, ca, cc))
    if rng.random() < 0.2 and not any(o.startswith("(chargeni") for o in ops):
        # builder calls in another order; comments and charges keep the order of their calls
        rng.shuffle(ops)
        info["comments"] = [dec(o[len("(comment "):-1]) for o in ops if o.startswith("(comment ")]
        # (keyed by the whole op text: two charges may carry the same payee)
        by_op = {}
        for c in info["charges"]:
            by_op.setdefault("(charge %s %s)" % (enc(c[0]), amt_sx(c[1], c[2])), []).append(c)
        info["charges"] = [by_op[o].pop(0) for o in ops if o.startswith("(charge ")]
    line = "(txn %s %s %s %s (%s) %s)" % (date_sx(date), enc(payee), amt_sx(amount, com), enc(src),
                                         " ".join("(%s %d)" % (enc(c), p) for c, p in sorted(prec.items())), " ".join(ops))
    return line, info


# ------------------------------------------------------------------------------------------------
# tree comparison

def dec_of(node):
    """(dec NEG MANT SCALE fmt) -> (neg, mant, scale)"""
    return (int(node[1]), int(node[2]), int(node[3]))


def cmp_amt(built, reread, prec, where, out):
    """(amt (dec..) commodity): same commodity, same value, scale padded to the configured precision only"""
    if built[0] != "amt" or reread[0] != "amt":
        out.append("%s: not a plain amount" % where)
        return
    cb, cr = dec(built[2]), dec(reread[2])
    if cb != cr:
        out.append("%s: commodity %r read back as %r" % (where, cb, cr))
        return
    nb, mb, sb = dec_of(built[1])
    nr, mr, sr = dec_of(reread[1])
    want_scale = max(sb, prec.get(cb, 0))
    if sr != want_scale:
        out.append("%s: scale %d printed/read as %d (configured precision %s)" % (where, sb, sr, prec.get(cb)))
    vb = Fraction(-mb if nb else mb, 10 ** sb)
    vr = Fraction(-mr if nr else mr, 10 ** sr)
    if vb != vr:
        out.append("%s: value %s read back as %s" % (where, vb, vr))


def cmp_opt(b, r, f, where, out):
    if len(b) != len(r):
        out.append("%s: %s built, %s read back" % (where, "present" if b else "absent", "present" if r else "absent"))
    elif b:
        f(b[0], r[0], where, out)


def cmp_txn(built, reread, prec):
    """differences between the transaction the importer built and the one read back from its printed text"""
    out = []
    if reread[0] != "txn":
        return ["read back as a %s entry" % reread[0]]
    names = ["date", "effective date", "state", "code", "payee"]
    for i, n in enumerate(names, 1):
        if built[i] != reread[i]:
            out.append("%s: built %s, read back %s" % (n, show(built[i]), show(reread[i])))
    if built[7] != reread[7]:
        out.append("comments: built %s, read back %s" % (show(built[7]), show(reread[7])))
    pb, pr = built[6], reread[6]
    if len(pb) != len(pr):
        out.append("%d postings built, %d read back" % (len(pb), len(pr)))
        return out
    for i, (b, r) in enumerate(zip(pb, pr)):
        w = "posting %d" % i
        if b[1] != r[1]:
            out.append("%s: account %s read back as %s" % (w, show(b[1]), show(r[1])))
        if b[2] != r[2]:
            out.append("%s: state %s read back as %s" % (w, b[2], r[2]))

        def cmp_pa(x, y, where, o):
            cmp_amt(x[1], y[1], prec, where + " amount", o)
            cmp_opt(x[2], y[2], lambda p, q, ww, oo: (oo.append(ww + ": rate/total kind differs") if p[0] != q[0]
                                                       else cmp_amt(p[1], q[1], prec, ww, oo)), where + " cost", o)
            if x[3] != y[3]:
                o.append(where + ": lot differs")
        cmp_opt(b[3], r[3], cmp_pa, w, out)
        cmp_opt(b[4], r[4], lambda p, q, ww, oo: cmp_amt(p, q, prec, ww, oo), w + " balance", out)
        if b[5] != r[5]:
            out.append("%s: metadata %s read back as %s" % (w, show(b[5]), show(r[5])))
    return out


def show(x):
    s = sx_str(x)
    try:
        return dec(s) if "(" not in s else " ".join(dec(a) if not a.startswith("(") and a not in ")" else a for a in s.replace("(", " ( ").replace(")", " ) ").split())
    except Exception:
        return s


def readback(t, prec, expected_n):
    """t = parsed `(ok (txns ...) (text ..) (reparse ...))`; returns (list of differences, built trees)"""
    built = sx_find(t, "txns")[1:]
    rp = sx_find(t, "reparse")[1]
    diffs = []
    if expected_n is not None and len(built) != expected_n:
        diffs.append("%d transactions built for %d statement records" % (len(built), expected_n))
    if rp[0] == "err":
        return diffs + ["printed text does not parse: " + dec(rp[1])[:200]], built
    entries = rp[1:]
    if len(entries) != len(built):
        diffs.append("%d transactions printed, %d entries read back" % (len(built), len(entries)))
    for i, (b, r) in enumerate(zip(built, entries)):
        d = cmp_txn(b, r, prec)
        diffs += ["txn %d: %s" % (i, x) for x in d]
    return diffs, built


# ------------------------------------------------------------------------------------------------
# shape oracle (C15_tree evaluated on what the real to_double_entry returned)

def shape_oracle(info, tr):
    out = []
    neg = info["amount"][0] == 1
    if tr[1] != ["d", str(info["date"][0]), str(info["date"][1]), str(info["date"][2])]:
        out.append("date")
    want_eff = [] if info["eff"] is None else [["d"] + [str(x) for x in info["eff"]]]
    if tr[2] != want_eff:
        out.append("effective date (set only when it differs from the date)")
    if tr[3] != "c":
        out.append("transaction state is not `*`")
    if tr[4] != ([] if info["code"] is None else [enc(info["code"])]):
        out.append("code")
    if tr[5] != enc(info["payee"]):
        out.append("payee")
    if tr[7] != [["comment", enc(c)] for c in info["comments"]]:
        out.append("comments")
    posts = tr[6]
    if len(posts) != 2 + len(info["charges"]):
        return out + ["%d postings for %d charges" % (len(posts), len(info["charges"]))]
    src, dest = (posts[-1], posts[0]) if neg else (posts[0], posts[-1])
    if src[1] != enc(info["src"]):
        out.append("the imported account's posting is not %s" % ("last for a debit" if neg else "first for a credit"))
    fallback = "Expenses:Unknown" if neg else "Income:Unknown"
    if dest[1] != enc(info["dest"] if info["dest"] is not None else fallback):
        out.append("counter account")
    want_clear = info["clear"] or ("u" if info["dest"] is not None else "p")
    if dest[2] != want_clear or src[2] != "u":
        out.append("posting states")

    def amt_of(p):
        a = p[3][0][1]
        return dec_of(a[1]), dec(a[2])

    def rate_of(p):
        c = p[3][0][2]
        return None if not c else (c[0][0], dec_of(c[0][1][1]), dec(c[0][1][2]))
    a, c = amt_of(src)
    if (a, c) != (tuple(info["amount"]), info["commodity"]):
        out.append("amount on the imported account is not the statement's amount digit for digit")
    da, dc = amt_of(dest)
    if info["transferred"] is None:
        if (da, dc) != ((1 - info["amount"][0], info["amount"][1], info["amount"][2]), info["commodity"]):
            out.append("counter amount is not the negated amount")
    elif info["transferred"] != "computed":
        tr_d, tr_c = info["transferred"]
        if (da, dc) != ((1 - info["amount"][0], tr_d[1], tr_d[2]), tr_c):
            out.append("counter amount is not the transferred amount with the sign opposite to the amount")
    for p in posts:
        _, pc = amt_of(p)
        r = rate_of(p)
        want = info["rates"].get(pc)
        if (r is None) != (want is None) or (r is not None and (r[0] != "rate" or (r[1], r[2]) != (tuple(want[0]), want[1]))):
            out.append("`@ rate` is not on exactly the postings whose commodity has a known rate")
            break
    wb = [] if info["balance"] is None else [["amt", ["dec"] + [str(x) for x in info["balance"][0]] + ["n"], enc(info["balance"][1])]]
    if src[4] != wb or dest[4] != []:
        out.append("balance assertion is not on the imported account's posting")
    for p, (cp, ca, cc) in zip(posts[1:-1], info["charges"]):
        if p[1] != "Expenses:Commissions" or p[5] != [["kv", "Payee", ["text", enc(cp)]]] or amt_of(p) != (tuple(ca), cc) or p[2] != "u":
            out.append("charge posting")
            break
    return out


# ------------------------------------------------------------------------------------------------
# streams

def classify(chk, stream, fingerprint, diffs, clean, replay, f15):
    """read-back verdict for one case; `clean` = the Lean class predicate says the case is inside the proved class"""
    if not diffs:
        chk.count("%s:%s:reads-back" % (stream, "clean" if clean else "outside-CleanText"))
        return
    if clean:
        chk.oracle_failures += 1
        chk.violation("import output does not read back as the transaction built, although every text field is inside CleanText: %s" % diffs[0],
                      dict(replay, differences=diffs))
    else:
        chk.count("%s:outside-CleanText:does-not-read-back" % stream)
        f15.append((fingerprint, diffs[0]))


def run_txn_stream(chk, n, f15):
    cases = []
    for i in range(n):
        cases.append(gen_txn_case(chk.rng, [0.0, 0.03, 0.25, 0.5][i % 4]))
    lines = [c[0] for c in cases]
    impl = run_sharded(HX, ["c15", "txn"], lines)
    model = run_sharded(DRV, ["c15", "txn"], lines)
    chk.streams["txn-builder"] = len(lines)
    for (line, info), a, b in zip(cases, impl, model):
        ta = sx_parse(a)
        replay = {"stream": "c15 txn", "case": line, "record": {k: v for k, v in info.items()},
                  "rerun": "echo '%s' | /verif/work/target/debug/hx c15 txn" % line}
        if ta[0] == "err":
            # builder errors (add_rate conflicts, charge restrictions) must agree with the model; they are not transactions
            chk.case(line, nontrivial=False)
            chk.count("txn:builder-error:" + ta[2])
            if b != "(err %s %s)" % (ta[1], ta[2]):
                chk.disagreements += 1
                chk.violation("model and implementation of the Txn builder disagree on an error", dict(replay, impl=a[:300], model=b[:300]),
                              no_failing_input=True, tag="corr")
            continue
        if ta[0] != "ok":
            chk.oracle_failures += 1
            chk.violation("to_double_entry / printing crashed: %s" % a[:200], replay)
            continue
        chk.traces += 1
        tb = sx_parse("(" + b[1:-1] + ")") if b.startswith("(ok ") else None
        clean = tb is not None and "clean=1" in tb
        diffs, built = readback(ta, info["prec"], 1)
        chk.case(line, nontrivial=bool(info["charges"] or info["transferred"] or info["rates"] or info["comments"] or info["code"]))
        chk.count("txn:" + ("debit" if info["amount"][0] else "credit") + (":zero" if info["amount"][1] == 0 else ""))
        if info["charges"]:
            chk.count("txn:with-charges")
        if info["rates"]:
            chk.count("txn:with-rate")
        if info["transferred"]:
            chk.count("txn:with-transferred-amount")
        # 1. shape of the tree (C15_tree on the implementation)
        sh = shape_oracle(info, built[0]) if built else ["no transaction built"]
        if sh:
            chk.oracle_failures += 1
            chk.violation("to_double_entry built a transaction of the wrong shape: %s" % sh[0], dict(replay, shape_errors=sh, built=sx_str(built[0]) if built else None))
            continue
        # 2. model vs implementation
        if tb is None or tb[1] != built[0]:
            chk.disagreements += 1
            chk.violation("model and implementation of to_double_entry disagree (shape oracle holds on this input)",
                          dict(replay, impl=sx_str(built[0]), model=b[:2000]), no_failing_input=True, tag="corr")
            continue
        if ("clean=1" in tb) and ("readable=0" in tb):
            chk.disagreements += 1
            chk.violation("theorem C15_partial contradicted by the driver: CleanText record with an unreadable tree", replay,
                          no_failing_input=True, tag="corr")
        # 3. read-back
        classify(chk, "txn", line, diffs, clean, dict(replay, printed=dec(sx_find(ta, "text")[1])), f15)
    k = 5
    chk.sample({"stream": "txn", "case": lines[k], "impl": impl[k][:600], "model": model[k][:400]})


AMOUNT_STYLES = ["plain", "comma", "plain", "plain"]


def fmt_amount(rng, cents, scale=2, style="plain"):
    neg = cents < 0
    cents = abs(cents)
    ip, fp = divmod(cents, 10 ** scale) if scale else (cents, 0)
    s = "{:,}".format(ip) if style == "comma" else str(ip)
    if scale:
        s += "." + str(fp).rjust(scale, "0")
    return ("-" if neg else "") + s


def gen_csv_case(rng, hostile_p):
    """a CSV statement + configuration; returns (fmt, path, yaml, content bytes, number of records, precision map)"""
    cols = ["date", "payee"]
    fields = {"date": 1, "payee": 2}
    use_cd = rng.random() < 0.35
    if use_cd:
        cols += ["credit", "debit"]
    else:
        cols += ["amount"]
    opt_cols = [c for c in ["note", "category", "balance", "commodity", "charge"] if rng.random() < 0.45]
    conv = rng.random() < 0.25
    if conv:
        opt_cols += ["rate", "secondary_amount", "secondary_commodity"]
    cols += opt_cols
    rng.shuffle(cols)
    for i, c in enumerate(cols, 1):
        fields[c] = i
    scale = rng.choice([0, 2, 2, 3])
    prec = {c: rng.randint(0, 4) for c in rng.sample(COMMODITIES, rng.randint(0, 3))}
    doc = {"path": "stmt", "encoding": "UTF-8", "account": gen_account(rng, 0), "account_type": rng.choice(["asset", "liability"]),
           "commodity": rng.choice(COMMODITIES[:4]), "operator": gen_text(rng, hostile_p / 2) or "Bank",
           "format": {"date": "%Y-%m-%d", "fields": fields, "commodity": {c: {"precision": p} for c, p in prec.items()},
                      "row_order": rng.choice(["old_to_new", "new_to_old"])},
           "rewrite": [{"matcher": {"payee": "(?s)^K(?P<code>[^K]*)K(?P<payee>.*)$"}},
                       {"matcher": {"payee": "(?s)^P(?P<payee>.*)$"}},
                       {"matcher": {"payee": "Migros"}, "account": "Expenses:Grocery"},
                       {"matcher": {"payee": "shop"}, "account": "Expenses:Shop", "pending": True},
                       {"matcher": {"payee": "Coop"}, "payee": gen_text(rng, hostile_p / 2), "account": "Expenses:Coop"}]}
    # counter-accounts whose width plus the width of the printed number lands on and around the alignment column (48):
    # the layout must keep two blanks between account and amount there too, or the line reads back as one long account
    wide = rng.random() < 0.4
    if wide:
        for k in range(28, 50):
            doc["rewrite"].append({"matcher": {"payee": "^W%02dW" % k}, "account": "Expenses:" + "W" * (k - 9)})
    rows = []
    n = rng.randint(1, 6)
    style = rng.choice(AMOUNT_STYLES)
    for r in range(n):
        payee = gen_text(rng, hostile_p)
        if rng.random() < 0.15:
            payee = "K" + gen_text(rng, hostile_p).replace("K", "") + "K" + payee
        elif rng.random() < 0.1:
            payee = "P" + payee
        cents = rng.choice([1, -1]) * rng.randint(1, 10 ** rng.choice([2, 4, 6, 8]))
        if wide and rng.random() < 0.7:
            # width of the counter-posting's number (sign flipped, before any precision padding)
            numw = len(fmt_amount(rng, abs(cents), scale, "plain")) + (1 if cents > 0 else 0)
            k = min(49, max(28, 47 - numw + rng.choice([-2, -1, 0, 0, 0, 1, 2])))
            payee = "W%02dW shop" % k
        row = {"date": "%04d-%02d-%02d" % gen_date(rng), "payee": payee}
        if use_cd:
            row["credit"] = fmt_amount(rng, cents, scale, style) if cents > 0 else ""
            row["debit"] = fmt_amount(rng, -cents, scale, style) if cents < 0 else ""
        else:
            row["amount"] = fmt_amount(rng, cents, scale, style)
        row["note"] = gen_text(rng, hostile_p)
        row["category"] = gen_text(rng, hostile_p / 2)
        row["balance"] = fmt_amount(rng, rng.randint(-10 ** 7, 10 ** 7), scale, style) if rng.random() < 0.8 else ""
        row["commodity"] = gen_commodity(rng, hostile_p / 4)
        row["charge"] = fmt_amount(rng, rng.randint(0, 500), scale, "plain") if rng.random() < 0.5 else ""
        row["rate"] = rng.choice(["1.5", "110.25", "0.0091", "2"])
        row["secondary_amount"] = fmt_amount(rng, rng.randint(1, 10 ** 6), 2, style)
        row["secondary_commodity"] = rng.choice(["EUR", "USD", "JPY", "XAU"])
        rows.append(row)
    buf = io.StringIO()
    w = csv.writer(buf, lineterminator="\n")
    w.writerow(cols)
    for row in rows:
        w.writerow([row[c] for c in cols])
    return "csv", "stmt.csv", docs_yaml([doc]), buf.getvalue().encode("utf-8"), n, prec


def gen_viseca_case(rng, hostile_p):
    doc = {"path": "card", "encoding": "UTF-8", "account": "Liabilities:Card", "account_type": "liability", "commodity": "CHF",
           "operator": gen_text(rng, hostile_p / 2) or "Card fee",
           "format": {"commodity": {"CHF": {"precision": 2}}},
           "rewrite": [{"matcher": {"category": "^T(?P<payee>.*)$"}},
                       {"matcher": {"payee": "Migros"}, "account": "Expenses:Grocery"},
                       {"matcher": {"category": "stations"}, "account": "Expenses:Car", "pending": True}]}
    lines = []
    n = rng.randint(1, 5)
    for _ in range(n):
        payee = gen_text(rng, hostile_p).replace("\n", " ").replace("\r", " ") or "x"
        amt = "%d.%02d" % (rng.randint(0, 999), rng.randint(0, 99))
        d = "%02d.%02d.%02d" % (rng.randint(1, 28), rng.randint(1, 12), rng.randint(10, 30))
        e = "%02d.%02d.%02d" % (rng.randint(1, 28), rng.randint(1, 12), rng.randint(10, 30))
        kind = rng.random()
        cat = (("T" if rng.random() < 0.3 else "") + gen_text(rng, hostile_p).replace("\n", " ").replace("\r", " ")) or "Shops"
        if cat[0].isdigit():
            cat = "c" + cat
        if kind < 0.6:
            lines += ["%s %s %s %s%s" % (d, e, payee, amt, " -" if rng.random() < 0.2 else ""), cat]
        elif kind < 0.8:
            lines += ["%s %s %s EUR 46.88 52.10" % (d, e, payee), cat, "Exchange rate 1.092432 of 11.08.20 CHF 51.20",
                      "Processing fee 1.75% CHF 0.90"]
        else:
            lines += ["%s %s %s CHF 19.00 19.35" % (d, e, payee), cat, "Processing fee 1.75% CHF 0.35"]
    return "txt", "card.txt", docs_yaml([doc]), ("\n".join(lines) + "\n").encode("utf-8"), n, {"CHF": 2}


def xml_esc(s):
    return s.replace("&", "&amp;").replace("<", "&lt;").replace(">", "&gt;")


def gen_camt_case(rng, hostile_p):
    doc = {"path": "camt", "encoding": "UTF-8", "account": "Assets:Bank", "account_type": "asset", "commodity": "CHF",
           "operator": gen_text(rng, hostile_p / 2) or "Bank fee",
           "format": {"commodity": {"CHF": {"precision": 2}, "EUR": {"precision": 2}}},
           "rewrite": [{"matcher": {"creditor_name": "(?s)^(?P<payee>.*)$"}},
                       {"matcher": {"additional_entry_info": "(?s)^I(?P<payee>.*)$"}},
                       {"matcher": {"payee": "Migros"}, "account": "Expenses:Grocery"},
                       {"matcher": {"payee": "shop"}, "account": "Expenses:Shop", "pending": True}]}
    n = rng.randint(1, 4)
    entries = []
    count = 0
    for i in range(n):
        amt = "%d.%02d" % (rng.randint(1, 9999), rng.randint(0, 99))
        ind = rng.choice(["CRDT", "DBIT"])
        bd = "2021-10-%02d" % rng.randint(1, 28)
        vd = bd if rng.random() < 0.5 else "2021-10-%02d" % rng.randint(1, 28)
        info = ("I" if rng.random() < 0.4 else "") + gen_text(rng, hostile_p)
        details = ""
        if rng.random() < 0.7:
            ref = gen_text(rng, hostile_p)
            name = gen_text(rng, hostile_p)
            details = ("<NtryDtls><Btch><NbOfTxs>1</NbOfTxs></Btch><TxDtls><Refs><AcctSvcrRef>%s</AcctSvcrRef></Refs>"
                       "<Amt Ccy=\"CHF\">%s</Amt><CdtDbtInd>%s</CdtDbtInd><RltdPties><Cdtr><Nm>%s</Nm></Cdtr></RltdPties>"
                       "<AddtlTxInf>%s</AddtlTxInf></TxDtls></NtryDtls>") % (xml_esc(ref), amt, ind, xml_esc(name), xml_esc(gen_text(rng, hostile_p)))
        count += 1
        entries.append("<Ntry><Amt Ccy=\"CHF\">%s</Amt><CdtDbtInd>%s</CdtDbtInd><BookgDt><Dt>%s</Dt></BookgDt><ValDt><Dt>%s</Dt></ValDt>"
                       "<BkTxCd><Domn><Cd>PMNT</Cd><Fmly><Cd>RCDT</Cd><SubFmlyCd>OTHR</SubFmlyCd></Fmly></Domn></BkTxCd>%s"
                       "<AddtlNtryInf>%s</AddtlNtryInf></Ntry>" % (amt, ind, bd, vd, details, xml_esc(info)))
    bal = ("<Bal><Tp><CdOrPrtry><Cd>%s</Cd></CdOrPrtry></Tp><Amt Ccy=\"CHF\">%s</Amt><CdtDbtInd>CRDT</CdtDbtInd></Bal>")
    opening = rng.random() < 0.7
    xml = ("<?xml version=\"1.0\" encoding=\"UTF-8\"?><Document><BkToCstmrStmt><Stmt>%s%s%s</Stmt></BkToCstmrStmt></Document>"
           % (bal % ("OPBD", "100.5") if opening else "", bal % ("CLBD", "4561.9"), "".join(entries)))
    return "xml", "camt.xml", docs_yaml([doc]), xml.encode("utf-8"), count + (1 if opening else 0), {"CHF": 2, "EUR": 2}


def run_import_stream(chk, n, f15):
    cases = []
    for i in range(n):
        hp = [0.0, 0.05, 0.3, 0.5][i % 4]
        g = [gen_csv_case, gen_csv_case, gen_csv_case, gen_viseca_case, gen_camt_case][i % 5]
        cases.append(g(chk.rng, hp))
    lines = ["%s %s %s %s" % (f, enc(p), enc(y), enc(c)) for f, p, y, c, _, _ in cases]
    impl = run_sharded(HX, ["c15", "import"], lines)
    chk.streams["importers"] = len(lines)
    # ReadableTree (the Lean class predicate) on every tree the real importers built
    parsed = [sx_parse(a) for a in impl]
    tree_lines = []
    for t in parsed:
        if t[0] == "ok":
            tree_lines += [sx_str(x) for x in sx_find(t, "txns")[1:]]
    flags = run_sharded(DRV, ["c15", "readable"], tree_lines) if tree_lines else []
    fi = 0
    for (f, p, y, c, nrec, prec), line, a, t in zip(cases, lines, impl, parsed):
        replay = {"stream": "c15 import", "format": f, "config": y, "statement": c.decode("utf-8"),
                  "rerun": "echo '%s' | /verif/work/target/debug/hx c15 import" % line}
        if t[0] == "err":
            chk.case(line, nontrivial=False)
            chk.count("import:%s:refused:%s" % (f, t[2]))
            continue
        if t[0] != "ok":
            chk.oracle_failures += 1
            chk.violation("importer crashed on a statement file: %s" % a[:200], replay)
            continue
        built = sx_find(t, "txns")[1:]
        my = flags[fi:fi + len(built)]
        fi += len(built)
        clean = all(x == "readable=1" for x in my)
        diffs, _ = readback(t, prec, nrec)
        chk.case(line, nontrivial=len(built) > 0)
        chk.traces += 1
        chk.count("import:%s:transactions" % f, len(built))
        classify(chk, "import:" + f, line, diffs, clean, dict(replay, printed=dec(sx_find(t, "text")[1])), f15)
    k = 2
    chk.sample({"stream": "import", "statement": cases[k][3].decode("utf-8"), "config": cases[k][2], "impl": impl[k][:600]})


# ------------------------------------------------------------------------------------------------
# F15 witnesses through the real CSV importer

F15_CONFIG = {"path": "stmt", "encoding": "UTF-8", "account": "Assets:Bank", "account_type": "asset", "commodity": "CHF",
              "format": {"date": "%Y-%m-%d", "fields": {"date": 1, "payee": 2, "amount": 3, "note": 4}}}
F15_WITNESSES = [
    ("payee containing `;`", "date,payee,amount,note\n2024-01-05,shop ; evil,-12.50,\n"),
    ("note with a line break", "date,payee,amount,note\n2024-01-05,shop,-12.50,\"first line\n    Assets:Hidden  1000000 CHF\"\n"),
    ("payee starting with `(`", "date,payee,amount,note\n2024-01-05,(abc) def,-12.50,\n"),
]


def replay_f15(chk):
    lines = ["csv %s %s %s" % (enc("stmt.csv"), enc(docs_yaml([F15_CONFIG])), enc(c)) for _, c in F15_WITNESSES]
    out = run_hx(["c15", "import"], lines)
    res = []
    for (name, c), a in zip(F15_WITNESSES, out):
        t = sx_parse(a)
        if t[0] != "ok":
            res.append((name, None, a[:200]))
            continue
        diffs, _ = readback(t, {}, 1)
        res.append((name, diffs, dec(sx_find(t, "text")[1])))
    return res


def run(chk):
    chk.rule = ("txn stream: random builder-call sequences for single_entry::Txn (dates incl. year 1 / 9999 / leap day, amounts of both sign "
                "flags incl. zero and scales 0-8, transferred amounts, rates, balances, 0-2 charges incl. not-included ones, explicit "
                "states, 0-2 comments, codes) with every text field drawn from a mix of words and a hostile alphabet "
                "(; ( ) * ! two blanks tab CR LF = @ : \" , U+3000 accents CJK) at hostile rates 0 / 3 / 25 / 50 %, and commodities incl. "
                "invalid ones; importer stream: CSV (index columns in random order, amount or credit/debit, optional note / category / "
                "balance / commodity / charge / rate+secondary columns, grouping commas, both account types and row orders, precision "
                "tables, capture rules routing hostile text into payee and code), Viseca and Camt053 files with the same text; cases are "
                "partitioned by the Lean predicates CleanText / ReadableTree; non-trivial = carries charges, rates, transferred amount, "
                "comments or code / builds at least one transaction")
    chk.assumptions = ["the read-back (print then parse) is checked by the oracle on the real printer and parser, not proved",
                       "csv / quick-xml / regex / chrono decoding happen before the model (decoded record = model input)",
                       "rust_decimal addition outside 96 bits / scale 28 is not modelled"]
    if not standard_prologue(chk, THEOREMS):
        return
    quick = chk.tier == "quick"
    f15 = []
    run_txn_stream(chk, 1600 if quick else 40000, f15)
    run_import_stream(chk, 500 if quick else 8000, f15)
    # F15: the recorded witnesses on the real CSV importer
    res = replay_f15(chk)
    known = [f for f in chk.known if f["id"] == "F15"]
    still = [(n, d) for n, d, _ in res if d]
    chk.count("f15:witnesses-still-failing", len(still))
    chk.count("f15:class-hits-in-hostile-streams", len(f15))
    chk.sample({"stream": "f15 witnesses", "results": [{"witness": n, "differences": d, "printed": p} for n, d, p in res]})
    if still or f15:
        what = ("statement text outside CleanText is printed verbatim and does not read back: %s; %d further cases of the same class in the "
                "hostile streams (e.g. %s)" % ("; ".join("%s -> %s" % (n, d[0]) for n, d in still), len(f15), f15[0][1] if f15 else "-"))
        what = what.replace("\r", "\\r").replace("\n", "\\n")
        if known:
            chk.known_finding("F15", what)
        else:
            chk.oracle_failures += 1
            chk.violation("import prints statement text verbatim; the output does not read back as the transaction built: " + what,
                          {"stream": "c15 f15", "config": docs_yaml([F15_CONFIG]), "witnesses": [{"name": n, "csv": c} for n, c in F15_WITNESSES],
                           "results": [{"witness": n, "differences": d, "printed": p} for n, d, p in res]})
