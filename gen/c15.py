"""C15 — import emits ledger text that reads back as intended."""
import csv
import io
import json
from fractions import Fraction

from common import standard_prologue, run_hx, run_drv, run_sharded, enc, dec, dec_bytes, HX, DRV
from imp1517 import sx_parse, sx_str, sx_find, docs_yaml

CLAIM = {
    "technique": "Lean 4 theorems about a model of single_entry::Txn::to_double_entry (shape, signs, rates, assertion, number "
                 "representation) and a decidable CleanText class + differential correspondence against the real Txn builder / "
                 "to_double_entry, and a read-back oracle (real importers -> real printer -> real parser -> tree comparison) over "
                 "hostile statement text; for the CSV importer the chain is closed from the TEXT of the number cells (model of "
                 "str_to_comma_decimal plugged into the importer model) with its own correspondence stream and a written-number oracle",
    "text": ("PARTIAL. Proved (for every record, every account, every precision table): C15_tree — the transaction built for a "
             "statement record has exactly the documented shape (date, effective date only when different, `*`, code, payee, "
             "comments in order, the imported account's posting first for a credit and last for a debit with the balance assertion "
             "on it, one Expenses:Commissions posting per charge with its `Payee:` tag, the counter-posting with the negated amount or "
             "the transferred amount with the opposite sign, `@ rate` on exactly the postings whose commodity has a known rate), "
             "C15_one_per_record / C15_never_err (exactly one transaction per record, to_double_entry cannot fail), C15_value — "
             "numbers are carried digit for digit (same sign flag, mantissa and scale as the statement's decimal) and the printer's "
             "rescale pads to max(scale, configured precision) without changing the value, C15_partial — for records inside the "
             "explicit decidable class CleanText every text field of the built tree lies in the class the ledger syntax can carry "
             "at that place (ReadableTree). The full statement C15_full (`whatever the statement file contains` reads back) is "
             "FALSE on the current tree: C15_full_false gives three witnesses (payee containing `;`, note with a line break, payee "
             "starting with `(`), known finding F15, replayed through the real CSV importer on every run. "
             "READ-BACK, now a theorem over the printer / parser models of C05 (Okane.Unparse with a precision table, Okane.Parse): "
             "C15_readback (= the full statement C15_readback_stmt) — for EVERY record inside CleanText, every imported account, "
             "every precision table with all precisions <= 28 and every display-width function: to_double_entry returns tr, the text "
             "the importer prints for it under the configured precisions (printTransactionP; printTransactionP_rescale: printing with "
             "precisions = printing the tree whose numbers are rescaled, for EVERY tree) starts an entry, and the entry parser consumes "
             "exactly that text, stops at the blank line, and returns readbackTxn prec tr — tr with every number padded exactly as "
             "display.rs::rescale pads it and as the literal scanner returns it; C15_readback_number / C15_readback_shape — readbackTxn "
             "changes nothing but the padding of numbers (same value, scale max(scale, precision) when the mantissa fits, same sign on "
             "non-zero numbers, format tag `plain` from four integer digits on, no sign on a zero; all text fields, states, accounts, "
             "tags untouched); C15_readback_ledger — one transaction per record and nothing else: for every list of CleanText records "
             "the ledger parser reads the whole output of ImportCmd::run (toDoubleEntries = ledgerOf, each transaction followed by an "
             "empty line) as exactly the list of those trees in order. The one extra condition is necessary: "
             "C15_readback_prec_needed (precision 29: the printed number has 29 decimals and the parser rejects the text). "
             "C15_readback_wf — when no number enters the tree as a signed zero (noSignedZero) the tree read back satisfies wfEntry / "
             "plainEntry of C05 and prints to exactly the text it was read from (C05_entry applies, the output is a fixed point of "
             "format); C15_signed_zero_not_fixed shows that condition is needed for this part (amount 0.00: counter-posting printed "
             "`-0.00`, read back as `0.00`); records with signed zeros are covered by a relational version of the C05 posting / "
             "transaction / ledger round trip (Lemmas/ImportReadbackZero.lean: exprRd_amt from C07_print_exact, posting_rd, "
             "transaction_rd, parseEntries_texts). The oracle on the real printer and parser still runs on every case. "
             "Streams: (1) random Txn builder sequences through the real "
             "single_entry::Txn and to_double_entry versus the model, printed with the real DisplayContext and re-read with the real "
             "parser, partitioned by the Lean CleanText predicate: inside the class any read-back difference is a violation, "
             "outside it differences are matched against the F15 class; (2) CSV / Viseca / Camt053 files with hostile text through the "
             "real importers, same oracle with ReadableTree evaluated on the tree the importer built; one transaction per record. "
             "VISECA STATEMENT PARSER (okane's own hand-written decoder, now inside the model: Model/ImportViseca.lean starts at the LINES of "
             "the file — LineReader peek/read_line/line_count, the four regexes as explicit recognisers with Unicode \\d, parse_euro_date, "
             "parse_decimal = rust_decimal from_str with its 64/96-bit phases, overflow error and round-half-up cut at 28 places that "
             "ignores the rest of the text, Parser::parse_entry, viseca.rs::import with the rewrite-rule extractor): proved for EVERY list "
             "of lines (also non-UTF-8 ones), every configuration, every regex engine — C15_viseca_total (no panic site, the loops' fuel is "
             "never exhausted), C15_viseca_one_per_record (a successful import = the parser reads the whole statement, transactions are the "
             "conversions of its records one each in order, every record starts at its own head line matching FIRST_LINE, line numbers "
             "strictly increasing, every record well formed so import's `internal error` branch is dead), C15_viseca_roundtrip (for every "
             "list of entries inside the decidable class canonStatement the text printStatement writes — Swiss `'` grouping, ` -` marker, "
             "`Credit of processing fee` — is read back as exactly those entries numbered by their head lines; one record followed by "
             "anything starting like a head line is read as that record consuming exactly its lines), C15_viseca_amounts / "
             "C15_viseca_card_posting (the card posting is -amount in the card's commodity, last for a spending / first for a credit, "
             "without rate; a fee line is exactly one charge to the operator; the exchange rate is keyed by the spent commodity and priced "
             "in the equivalent's; transferred = -spent), entryToTxn_err (the only two ways a record's conversion fails). Side conditions "
             "of the round trip are each shown necessary (roundtrip_needs_*: payee ending like a currency group — the format is "
             "ambiguous there —, two-digit-year window, one sign per head line, category starting with a digit); F38_regression: the "
             "statement that lost a record before fix 5a6d633 (unanchored Air- tag pattern) is read completely. Stream viseca-text: "
             "hand-written corner statements (every bad number / bad date at every place, line-structure corners, F38 witness) + generated "
             "well-formed statements (oracle on the real parser: read as written, independent of the model) + damaged ones (truncation, "
             "dropped / duplicated / swapped / stray lines, CRLF, non-UTF-8, bad dates incl. non-ASCII digits, bad numbers incl. 96-bit "
             "overflow and 28-place rounding, blanks, case, trailing white space): real viseca::parser::Parser and real import::import vs "
             "the model (entries with line numbers, error kind + message head + line number, transaction trees), sign facts checked on the "
             "real trees, and the model's canonical text of every canonical entry list fed back to the REAL parser (round-trip theorem on "
             "the real code). "
             "CSV NUMBER CELLS (Lemmas/ImportCsvCellsUse.lean, last sections of Props/C15.lean): the importer model's decoder parameter is "
             "instantiated with the model of okane's own str_to_comma_decimal (Cells.cellEnv; C16_cell_exact / C16_cell_value characterise it "
             "exactly) and the numbers are carried from the TEXT of the cells to the text read back, for every date decoder, regex engine, "
             "configuration, field map, record and precision table <= 28: cellDecimal_written / cellDecimal_accepts_iff (the decoder accepts "
             "exactly the cells that write a number = optional minus, well-formed literal in range and commodity text in either order; it returns "
             "that number digit for digit: unsigned literal times (-1)^(minus signs written), the decimal places written, always below 2^96 / "
             "scale <= 28); readRow_cells / amount_written / AmountWritten.value / csvRow_numbers (every number csv::import puts into the Txn — "
             "amount under the credit/debit and asset/liability sign rule, balance, the one non-zero charge, the rate, the extracted secondary "
             "amount — is the number written in the cell the field map points to, columns and rendered templates alike); csvRow_inRange / "
             "csvRow_cleanText (CleanText of a CSV row is a condition on its TEXT only: CleanText = CleanWords; the number conjuncts hold for every "
             "decoded cell; only a COMPUTED secondary amount keeps a range hypothesis, shown necessary in the model by "
             "C15_csv_computed_range_needed); C15_csv_row_postings (the transaction of the row is read back with: on the imported account — first "
             "posting for a non-negative amount, last otherwise — the number written in the amount cell under the sign rule, PADDED: same value, "
             "exactly max(places written, configured precision) places whenever the padded mantissa fits 96 bits, sign kept; its balance "
             "assertion = the balance cell's number padded; the charge posting = the charge cell's number padded with the operator's Payee tag; the "
             "counter-posting = the negated amount, or with a conversion the secondary-amount cell's magnitude under the opposite sign in the "
             "secondary commodity; `@ rate` = the rate cell's number padded, on the posting whose commodity it prices); C15_csv_row_readback / "
             "C15_csv_amount_readback (headline: the printed posting on the imported account reads back — parser model — as the number WRITTEN in "
             "the amount cell) / C15_csv_readback_ledger (whole statement: one transaction per dated record, each the transaction of one record). "
             "Stream csv-cells: statements whose number cells carry currency signs, commodity codes before / after the number, thousands "
             "separators, blanks and tabs, up to three minus signs, negating and composing templates, labels / indices, delimiters, skipped head "
             "lines, both account types and value layouts, conversions; the importer MODEL run on the cells the csv crate yields — numbers and "
             "templates decoded by the model from their TEXT, no decoded number leaves the harness — must build the same trees as the real "
             "importer; and, independent of the model, the written-number oracle on the real importer + printer + parser: the posting amounts "
             "read back equal the numbers written in the cells (sign rules, padding to the precision), and a cell that writes no number makes the "
             "import fail."),
    "note": ("the read-back theorems are about the Lean models of the printer and the parser (validated against the real code by the "
             "C05 / C07 / C19 correspondence checks), tied to the real importer output by this check's oracle; csv / quick-xml / regex / chrono decoding "
             "are outside the model (the model starts from the decoded record; for CSV from the cells the csv crate yields: number cells and "
             "templates are decoded by the model); rust_decimal arithmetic outside 96 bits / scale 28 is not modelled."),
    "design_ref": "DESIGN.md section 6, C15; finding F15 in section 7",
}

THEOREMS = [
    "Okane.Import.C15_tree", "Okane.Import.C15_one_per_record", "Okane.Import.C15_never_err", "Okane.Import.C15_counter_amount",
    "Okane.Import.C15_rate_placement", "Okane.Import.C15_value", "Okane.Import.C15_rescale_value", "Okane.Import.C15_partial",
    "Okane.Import.C15_full_false",
    "Okane.Import.C15_readback", "Okane.Import.C15_readback_wf", "Okane.Import.C15_readback_ledger",
    "Okane.Import.C15_readback_number", "Okane.Import.C15_readback_shape", "Okane.Import.C15_plainNums", "Okane.Import.C15_untagged",
    "Okane.Import.C15_readback_prec_needed", "Okane.Import.C15_signed_zero_not_fixed",
    "Okane.Import.printTransactionP_rescale", "Okane.Import.printTransactionP_noPrec", "Okane.Import.readback_tree",
    "Okane.Import.readback_ledger", "Okane.Import.readableTree_wf", "Okane.Import.ledgerOf_eq",
    "Okane.Import.exprRd_amt", "Okane.Import.posting_rd", "Okane.Import.transaction_rd", "Okane.Import.entryRd_txn",
    "Okane.Import.parseEntries_texts", "Okane.Import.readback_tree_all", "Okane.Import.readback_ledger_all",
    # the Viseca statement parser (Model/ImportViseca.lean, Lemmas/ImportViseca*.lean)
    "Okane.Import.C15_viseca_total", "Okane.Import.C15_viseca_one_per_record", "Okane.Import.C15_viseca_roundtrip",
    "Okane.Import.C15_viseca_amounts", "Okane.Import.C15_viseca_card_posting",
    "Okane.Import.Viseca.parseEntry_spec", "Okane.Import.Viseca.parseEntries_total", "Okane.Import.Viseca.visecaImport_total",
    "Okane.Import.Viseca.visecaImport_one_per_record", "Okane.Import.Viseca.parseEntries_heads", "Okane.Import.Viseca.visecaImport_of_parse",
    "Okane.Import.Viseca.parseEntries_wf", "Okane.Import.Viseca.entryToTxn_err",
    "Okane.Import.Viseca.parseEntry_printEntry", "Okane.Import.Viseca.parseEntries_printStatement",
    "Okane.Import.Viseca.printStatement_linesOf", "Okane.Import.Viseca.parseEntries_statementText",
    "Okane.Import.Viseca.decFromStr_digits", "Okane.Import.Viseca.parseDecimal_printGrouped", "Okane.Import.Viseca.parseEuroDate_printEuroDate",
    "Okane.Import.Viseca.payeeScan_spent", "Okane.Import.Viseca.payeeScan_plain", "Okane.Import.Viseca.firstLine_printHead",
    "Okane.Import.Viseca.exchangeLine_printExchange", "Okane.Import.Viseca.feeLine_printFee", "Okane.Import.Viseca.parseDecimal_alphabet",
    "Okane.Import.Viseca.entryToTxn_amount", "Okane.Import.Viseca.entryToTxn_charges", "Okane.Import.Viseca.entryToTxn_rate",
    "Okane.Import.Viseca.roundtrip_needs_payee_condition", "Okane.Import.Viseca.roundtrip_needs_year_window",
    "Okane.Import.Viseca.roundtrip_needs_sign_condition", "Okane.Import.Viseca.roundtrip_needs_category_condition",
    "Okane.Import.Viseca.F38_regression",
    # the CSV importer from the text of its number cells (Lemmas/ImportCsvCellsUse.lean, last sections of Props/C15.lean)
    "Okane.Import.cellDecimal_written", "Okane.Import.cellDecimal_accepts_iff", "Okane.Import.readRow_cells", "Okane.Import.amount_written",
    "Okane.Import.AmountWritten.value", "Okane.Import.baseTxn_full", "Okane.Import.buildTxn_spec", "Okane.Import.csvRow_numbers",
    "Okane.Import.cleanText_iff", "Okane.Import.csvRow_inRange", "Okane.Import.csvRow_cleanText", "Okane.Import.csvImport_mem",
    "Okane.Import.C15_padded", "Okane.Import.C15_readback_posts", "Okane.Import.C15_csv_row_postings", "Okane.Import.C15_csv_row_readback",
    "Okane.Import.C15_csv_amount_readback", "Okane.Import.C15_csv_readback_ledger", "Okane.Import.C15_csv_computed_range_needed",
]

# ------------------------------------------------------------------------------------------------
# text

HOSTILE = [";", "(", ")", "*", "!", "  ", "\t", "\r", "\n", "=", "@", " ", ":", "\"", ",", "é", "山田", "　", "-", "0", "~", "%", "#", "|"]
WORDS = ["Migros", "shop", "evil", "Coop", "abc", "def", "山田商店", "Café", "x", "AG", "No.5", "a/b", "Tag:", "k:v", "1,000", "(ref)", "*star", "=eq",
         "@at", "!bang", "ümlaut", "#4711", "#ref"]
ACCOUNT_WORDS = ["Expenses", "Food", "Assets", "Bank", "銀行", "Okane Card", "A&B", "Misc(1)", "x=y", "Q@R"]
COMMODITIES = ["CHF", "JPY", "USD", "EUR", "円", "€", "$", "Ab"]
HOSTILE_COMMODITIES = ["CH F", "A1", "", "U$D;", "C(H)", "E-R", "X\nY"]


def gen_text(rng, hostile_p):
    n = rng.randint(0, 4) if rng.random() < 0.9 else rng.randint(5, 9)
    parts = []
    for _ in range(n):
        if rng.random() < hostile_p:
            parts.append(rng.choice(HOSTILE))
        else:
            parts.append(rng.choice(WORDS))
        if rng.random() < 0.6:
            parts.append(" ")
    s = "".join(parts)
    if rng.random() < 0.7:
        s = s.strip(" ")
    if s and hostile_p > 0 and rng.random() < 0.06:
        # statement texts that separate their parts with an ideographic / no-break space: a text BEGINNING with one
        s = rng.choice(["\u3000", "\u00a0"]) + s.lstrip(" ")
    return s


def gen_account(rng, hostile_p):
    n = rng.randint(1, 3)
    s = ":".join(rng.choice(ACCOUNT_WORDS) for _ in range(n))
    if rng.random() < hostile_p:
        i = rng.randint(0, len(s))
        s = s[:i] + rng.choice(HOSTILE) + s[i:]
    return s


def gen_commodity(rng, hostile_p):
    return rng.choice(HOSTILE_COMMODITIES) if rng.random() < hostile_p else rng.choice(COMMODITIES)


def gen_dec(rng, allow_neg=True, nonzero=False):
    scale = rng.choice([0, 0, 1, 2, 2, 2, 3, 6, 8])
    digits = rng.choice([1, 2, 3, 4, 5, 7, 10])
    mant = rng.randrange(10 ** digits)
    if rng.random() < 0.08 and not nonzero:
        mant = 0
    if nonzero and mant == 0:
        mant = 1
    neg = 1 if allow_neg and rng.random() < 0.5 else 0
    return (neg, mant, scale)


def amt_sx(d, c):
    return "(amt %d %d %d %s)" % (d[0], d[1], d[2], enc(c))


def date_sx(d):
    return "(d %d %d %d)" % d


def gen_date(rng):
    if rng.random() < 0.05:
        return rng.choice([(1, 1, 1), (9999, 12, 31), (2024, 2, 29), (999, 3, 4)])
    if rng.random() < 0.12:
        # around the turn of the year: the ISO week-year (chrono %G) differs from the calendar year (%Y) on some of these days
        y = rng.choice([2018, 2019, 2020, 2021, 2024, 2025, 2026, 2027])
        return rng.choice([(y, 12, 29), (y, 12, 30), (y, 12, 31), (y, 1, 1), (y, 1, 2), (y, 1, 3)])
    return (rng.randint(1990, 2035), rng.randint(1, 12), rng.randint(1, 28))


def gen_txn_case(rng, hostile_p):
    """-> (line, info) for `hx c15 txn` / `drv c15 txn`"""
    com = gen_commodity(rng, hostile_p / 3)
    amount = gen_dec(rng)
    date = gen_date(rng)
    payee = gen_text(rng, hostile_p)
    src = gen_account(rng, hostile_p / 3)
    prec = {}
    for c in rng.sample(COMMODITIES, rng.randint(0, 3)):
        prec[c] = rng.randint(0, 5)
    ops = []
    info = {"date": date, "payee": payee, "amount": amount, "commodity": com, "src": src, "prec": prec, "eff": None, "code": None,
            "comments": [], "dest": None, "clear": None, "transferred": None, "balance": None, "charges": [], "rates": {}}
    if rng.random() < 0.4:
        eff = date if rng.random() < 0.3 else gen_date(rng)
        ops.append("(eff %s)" % date_sx(eff))
        info["eff"] = eff if eff != date else None
    if rng.random() < 0.4:
        code = gen_text(rng, hostile_p)
        ops.append("(code %s)" % enc(code))
        info["code"] = code
    for _ in range(rng.choice([0, 0, 1, 1, 2])):
        c = gen_text(rng, hostile_p)
        ops.append("(comment %s)" % enc(c))
        info["comments"].append(c)
    if rng.random() < 0.6:
        dest = gen_account(rng, hostile_p / 3)
        ops.append("(dest %s)" % enc(dest))
        info["dest"] = dest
    if rng.random() < 0.3:
        cl = rng.choice("ucp")
        ops.append("(clear %s)" % cl)
        info["clear"] = cl
    com2 = None
    if rng.random() < 0.3:
        com2 = gen_commodity(rng, hostile_p / 3)
        tr = gen_dec(rng)
        ops.append("(transferred %s)" % amt_sx(tr, com2))
        info["transferred"] = (tr, com2)
    if rng.random() < 0.35:
        tgt = com2 if com2 is not None and rng.random() < 0.7 else rng.choice([com] + COMMODITIES[:3])
        srcc = rng.choice([c for c in COMMODITIES if c != tgt])
        rate = gen_dec(rng, allow_neg=False, nonzero=True)
        ops.append("(rate %s %s (dec %d %d %d))" % (enc(srcc), enc(tgt), rate[0], rate[1], rate[2]))
        info["rates"][tgt] = (rate, srcc)
    if rng.random() < 0.4:
        b = gen_dec(rng)
        ops.append("(balance %s)" % amt_sx(b, com))
        info["balance"] = (b, com)
    for _ in range(rng.choice([0, 0, 0, 1, 2])):
        cp = gen_text(rng, hostile_p)
        ca = gen_dec(rng)
        if info["transferred"] is None and rng.random() < 0.3:
            ops.append("(chargeni %s %s)" % (enc(cp), amt_sx(ca, com)))
            info["charges"].append((cp, ca, com))
            info["transferred"] = "computed"
        else:
            cc = com if rng.random() < 0.8 else rng.choice(COMMODITIES)
            ops.append("(charge %s %s)" % (enc(cp), amt_sx(ca, cc)))
            info["charges"].append((cp, ca, cc))
    if rng.random() < 0.2 and not any(o.startswith("(chargeni") for o in ops):
        # builder calls in another order; comments and charges keep the order of their calls
        rng.shuffle(ops)
        info["comments"] = [dec(o[len("(comment "):-1]) for o in ops if o.startswith("(comment ")]
        # (keyed by the whole op text: two charges may carry the same payee)
        by_op = {}
        for c in info["charges"]:
            by_op.setdefault("(charge %s %s)" % (enc(c[0]), amt_sx(c[1], c[2])), []).append(c)
        info["charges"] = [by_op[o].pop(0) for o in ops if o.startswith("(charge ")]
    line = "(txn %s %s %s %s (%s) %s)" % (date_sx(date), enc(payee), amt_sx(amount, com), enc(src),
                                         " ".join("(%s %d)" % (enc(c), p) for c, p in sorted(prec.items())), " ".join(ops))
    return line, info


# ------------------------------------------------------------------------------------------------
# tree comparison

def dec_of(node):
    """(dec NEG MANT SCALE fmt) -> (neg, mant, scale)"""
    return (int(node[1]), int(node[2]), int(node[3]))


def cmp_amt(built, reread, prec, where, out):
    """(amt (dec..) commodity): same commodity, same value, scale padded to the configured precision only"""
    if built[0] != "amt" or reread[0] != "amt":
        out.append("%s: not a plain amount" % where)
        return
    cb, cr = dec(built[2]), dec(reread[2])
    if cb != cr:
        out.append("%s: commodity %r read back as %r" % (where, cb, cr))
        return
    nb, mb, sb = dec_of(built[1])
    nr, mr, sr = dec_of(reread[1])
    want_scale = max(sb, prec.get(cb, 0))
    if sr != want_scale:
        out.append("%s: scale %d printed/read as %d (configured precision %s)" % (where, sb, sr, prec.get(cb)))
    vb = Fraction(-mb if nb else mb, 10 ** sb)
    vr = Fraction(-mr if nr else mr, 10 ** sr)
    if vb != vr:
        out.append("%s: value %s read back as %s" % (where, vb, vr))


def cmp_opt(b, r, f, where, out):
    if len(b) != len(r):
        out.append("%s: %s built, %s read back" % (where, "present" if b else "absent", "present" if r else "absent"))
    elif b:
        f(b[0], r[0], where, out)


READABLE_PAYEE = "[payee the header parser reads back] "


def payee_readable(tok, has_code):
    """a payee the transaction header provably carries although it is outside CleanText: no `;`, no line break, no white space
    at the end, and in front neither an ASCII blank/tab nor any ASCII punctuation (clear marks, `(`, `=`): a letter, a digit or a
    non-ASCII character — Unicode white space such as U+3000 included"""
    x = dec(tok) if isinstance(tok, str) else None
    if not x or any(c in x for c in ";\r\n"):
        return False
    if x[-1].isspace() or ord(x[-1]) in (0x85, 0xa0, 0x1680, 0x2028, 0x2029, 0x202f, 0x205f, 0x3000) or 0x2000 <= ord(x[-1]) <= 0x200a:
        return False
    c0 = x[0]
    # only the case the Lean class leaves out although the parser handles it: non-ASCII white space in front
    return ord(c0) in (0xa0, 0x1680, 0x2028, 0x2029, 0x202f, 0x205f, 0x3000) or 0x2000 <= ord(c0) <= 0x200a


def cmp_txn(built, reread, prec):
    """differences between the transaction the importer built and the one read back from its printed text"""
    out = []
    if reread[0] != "txn":
        return ["read back as a %s entry" % reread[0]]
    names = ["date", "effective date", "state", "code", "payee"]
    for i, n in enumerate(names, 1):
        if built[i] != reread[i]:
            tag = ""
            if n == "payee" and payee_readable(built[5], bool(built[4])):
                # outside the Lean class CleanText (which asks for no Unicode white space at either end) but inside what the
                # header parser demonstrably reads back: `space0` only eats blanks and tabs in front of the payee
                tag = READABLE_PAYEE
            out.append("%s%s: built %s, read back %s" % (tag, n, show(built[i]), show(reread[i])))
    if built[7] != reread[7]:
        out.append("comments: built %s, read back %s" % (show(built[7]), show(reread[7])))
    pb, pr = built[6], reread[6]
    if len(pb) != len(pr):
        out.append("%d postings built, %d read back" % (len(pb), len(pr)))
        return out
    for i, (b, r) in enumerate(zip(pb, pr)):
        w = "posting %d" % i
        if b[1] != r[1]:
            out.append("%s: account %s read back as %s" % (w, show(b[1]), show(r[1])))
        if b[2] != r[2]:
            out.append("%s: state %s read back as %s" % (w, b[2], r[2]))

        def cmp_pa(x, y, where, o):
            cmp_amt(x[1], y[1], prec, where + " amount", o)
            cmp_opt(x[2], y[2], lambda p, q, ww, oo: (oo.append(ww + ": rate/total kind differs") if p[0] != q[0]
                                                       else cmp_amt(p[1], q[1], prec, ww, oo)), where + " cost", o)
            if x[3] != y[3]:
                o.append(where + ": lot differs")
        cmp_opt(b[3], r[3], cmp_pa, w, out)
        cmp_opt(b[4], r[4], lambda p, q, ww, oo: cmp_amt(p, q, prec, ww, oo), w + " balance", out)
        if b[5] != r[5]:
            out.append("%s: metadata %s read back as %s" % (w, show(b[5]), show(r[5])))
    return out


def show(x):
    s = sx_str(x)
    try:
        return dec(s) if "(" not in s else " ".join(dec(a) if not a.startswith("(") and a not in ")" else a for a in s.replace("(", " ( ").replace(")", " ) ").split())
    except Exception:
        return s


def readback(t, prec, expected_n):
    """t = parsed `(ok (txns ...) (text ..) (reparse ...))`; returns (list of differences, built trees)"""
    built = sx_find(t, "txns")[1:]
    rp = sx_find(t, "reparse")[1]
    diffs = []
    if expected_n is not None and len(built) != expected_n:
        diffs.append("%d transactions built for %d statement records" % (len(built), expected_n))
    if rp[0] == "err":
        return diffs + ["printed text does not parse: " + dec(rp[1])[:200]], built
    entries = rp[1:]
    if len(entries) != len(built):
        diffs.append("%d transactions printed, %d entries read back" % (len(built), len(entries)))
    for i, (b, r) in enumerate(zip(built, entries)):
        d = cmp_txn(b, r, prec)
        diffs += ["txn %d: %s" % (i, x) for x in d]
    return diffs, built


# ------------------------------------------------------------------------------------------------
# shape oracle (C15_tree evaluated on what the real to_double_entry returned)

def shape_oracle(info, tr):
    out = []
    neg = info["amount"][0] == 1
    if tr[1] != ["d", str(info["date"][0]), str(info["date"][1]), str(info["date"][2])]:
        out.append("date")
    want_eff = [] if info["eff"] is None else [["d"] + [str(x) for x in info["eff"]]]
    if tr[2] != want_eff:
        out.append("effective date (set only when it differs from the date)")
    if tr[3] != "c":
        out.append("transaction state is not `*`")
    if tr[4] != ([] if info["code"] is None else [enc(info["code"])]):
        out.append("code")
    if tr[5] != enc(info["payee"]):
        out.append("payee")
    if tr[7] != [["comment", enc(c)] for c in info["comments"]]:
        out.append("comments")
    posts = tr[6]
    if len(posts) != 2 + len(info["charges"]):
        return out + ["%d postings for %d charges" % (len(posts), len(info["charges"]))]
    src, dest = (posts[-1], posts[0]) if neg else (posts[0], posts[-1])
    if src[1] != enc(info["src"]):
        out.append("the imported account's posting is not %s" % ("last for a debit" if neg else "first for a credit"))
    fallback = "Expenses:Unknown" if neg else "Income:Unknown"
    if dest[1] != enc(info["dest"] if info["dest"] is not None else fallback):
        out.append("counter account")
    want_clear = info["clear"] or ("u" if info["dest"] is not None else "p")
    if dest[2] != want_clear or src[2] != "u":
        out.append("posting states")

    def amt_of(p):
        a = p[3][0][1]
        return dec_of(a[1]), dec(a[2])

    def rate_of(p):
        c = p[3][0][2]
        return None if not c else (c[0][0], dec_of(c[0][1][1]), dec(c[0][1][2]))
    a, c = amt_of(src)
    if (a, c) != (tuple(info["amount"]), info["commodity"]):
        out.append("amount on the imported account is not the statement's amount digit for digit")
    da, dc = amt_of(dest)
    if info["transferred"] is None:
        if (da, dc) != ((1 - info["amount"][0], info["amount"][1], info["amount"][2]), info["commodity"]):
            out.append("counter amount is not the negated amount")
    elif info["transferred"] != "computed":
        tr_d, tr_c = info["transferred"]
        if (da, dc) != ((1 - info["amount"][0], tr_d[1], tr_d[2]), tr_c):
            out.append("counter amount is not the transferred amount with the sign opposite to the amount")
    for p in posts:
        _, pc = amt_of(p)
        r = rate_of(p)
        want = info["rates"].get(pc)
        if (r is None) != (want is None) or (r is not None and (r[0] != "rate" or (r[1], r[2]) != (tuple(want[0]), want[1]))):
            out.append("`@ rate` is not on exactly the postings whose commodity has a known rate")
            break
    wb = [] if info["balance"] is None else [["amt", ["dec"] + [str(x) for x in info["balance"][0]] + ["n"], enc(info["balance"][1])]]
    if src[4] != wb or dest[4] != []:
        out.append("balance assertion is not on the imported account's posting")
    for p, (cp, ca, cc) in zip(posts[1:-1], info["charges"]):
        if p[1] != "Expenses:Commissions" or p[5] != [["kv", "Payee", ["text", enc(cp)]]] or amt_of(p) != (tuple(ca), cc) or p[2] != "u":
            out.append("charge posting")
            break
    return out


# ------------------------------------------------------------------------------------------------
# streams

def classify(chk, stream, fingerprint, diffs, clean, replay, f15):
    """read-back verdict for one case; `clean` = the Lean class predicate says the case is inside the proved class"""
    if not diffs:
        chk.count("%s:%s:reads-back" % (stream, "clean" if clean else "outside-CleanText"))
        return
    if not clean and len(diffs) == 1 and READABLE_PAYEE in diffs[0]:
        # the payee is the ONLY thing that differs (a non-clean code or comment spills into the payee: those stay with F15)
        chk.oracle_failures += 1
        chk.violation("import output does not read back as the transaction built: %s" % [d for d in diffs if READABLE_PAYEE in d][0],
                      dict(replay, differences=diffs, note="the payee is outside the Lean class CleanText (Unicode white space in front), "
                                                           "so no theorem speaks about it; the header parser reads such a payee back as written"))
        return
    if clean:
        chk.oracle_failures += 1
        chk.violation("import output does not read back as the transaction built, although every text field is inside CleanText: %s" % diffs[0],
                      dict(replay, differences=diffs))
    else:
        chk.count("%s:outside-CleanText:does-not-read-back" % stream)
        f15.append((fingerprint, diffs[0]))


def run_txn_stream(chk, n, f15):
    cases = []
    for i in range(n):
        cases.append(gen_txn_case(chk.rng, [0.0, 0.03, 0.25, 0.5][i % 4]))
    lines = [c[0] for c in cases]
    impl = run_sharded(HX, ["c15", "txn"], lines)
    model = run_sharded(DRV, ["c15", "txn"], lines)
    chk.streams["txn-builder"] = len(lines)
    for (line, info), a, b in zip(cases, impl, model):
        ta = sx_parse(a)
        replay = {"stream": "c15 txn", "case": line, "record": {k: v for k, v in info.items()},
                  "rerun": "echo '%s' | /verif/work/target/debug/hx c15 txn" % line}
        if ta[0] == "err":
            # builder errors (add_rate conflicts, charge restrictions) must agree with the model; they are not transactions
            chk.case(line, nontrivial=False)
            chk.count("txn:builder-error:" + ta[2])
            if b != "(err %s %s)" % (ta[1], ta[2]):
                chk.disagreements += 1
                chk.violation("model and implementation of the Txn builder disagree on an error", dict(replay, impl=a[:300], model=b[:300]),
                              no_failing_input=True, tag="corr")
            continue
        if ta[0] != "ok":
            chk.oracle_failures += 1
            chk.violation("to_double_entry / printing crashed: %s" % a[:200], replay)
            continue
        chk.traces += 1
        tb = sx_parse("(" + b[1:-1] + ")") if b.startswith("(ok ") else None
        clean = tb is not None and "clean=1" in tb
        diffs, built = readback(ta, info["prec"], 1)
        chk.case(line, nontrivial=bool(info["charges"] or info["transferred"] or info["rates"] or info["comments"] or info["code"]))
        chk.count("txn:" + ("debit" if info["amount"][0] else "credit") + (":zero" if info["amount"][1] == 0 else ""))
        if info["charges"]:
            chk.count("txn:with-charges")
        if info["rates"]:
            chk.count("txn:with-rate")
        if info["transferred"]:
            chk.count("txn:with-transferred-amount")
        # 1. shape of the tree (C15_tree on the implementation)
        sh = shape_oracle(info, built[0]) if built else ["no transaction built"]
        if sh:
            chk.oracle_failures += 1
            chk.violation("to_double_entry built a transaction of the wrong shape: %s" % sh[0], dict(replay, shape_errors=sh, built=sx_str(built[0]) if built else None))
            continue
        # 2. model vs implementation
        if tb is None or tb[1] != built[0]:
            chk.disagreements += 1
            chk.violation("model and implementation of to_double_entry disagree (shape oracle holds on this input)",
                          dict(replay, impl=sx_str(built[0]), model=b[:2000]), no_failing_input=True, tag="corr")
            continue
        if ("clean=1" in tb) and ("readable=0" in tb):
            chk.disagreements += 1
            chk.violation("theorem C15_partial contradicted by the driver: CleanText record with an unreadable tree", replay,
                          no_failing_input=True, tag="corr")
        # 3. read-back
        classify(chk, "txn", line, diffs, clean, dict(replay, printed=dec(sx_find(ta, "text")[1])), f15)
    k = 5
    chk.sample({"stream": "txn", "case": lines[k], "impl": impl[k][:600], "model": model[k][:400]})


AMOUNT_STYLES = ["plain", "comma", "plain", "plain"]


def fmt_amount(rng, cents, scale=2, style="plain"):
    neg = cents < 0
    cents = abs(cents)
    ip, fp = divmod(cents, 10 ** scale) if scale else (cents, 0)
    s = "{:,}".format(ip) if style == "comma" else str(ip)
    if scale:
        s += "." + str(fp).rjust(scale, "0")
    return ("-" if neg else "") + s


def gen_csv_case(rng, hostile_p):
    """a CSV statement + configuration; returns (fmt, path, yaml, content bytes, number of records, precision map)"""
    cols = ["date", "payee"]
    fields = {"date": 1, "payee": 2}
    use_cd = rng.random() < 0.35
    if use_cd:
        cols += ["credit", "debit"]
    else:
        cols += ["amount"]
    opt_cols = [c for c in ["note", "category", "balance", "commodity", "charge"] if rng.random() < 0.45]
    conv = rng.random() < 0.25
    if conv:
        opt_cols += ["rate", "secondary_amount", "secondary_commodity"]
    cols += opt_cols
    rng.shuffle(cols)
    for i, c in enumerate(cols, 1):
        fields[c] = i
    scale = rng.choice([0, 2, 2, 3])
    prec = {c: rng.randint(0, 4) for c in rng.sample(COMMODITIES, rng.randint(0, 3))}
    doc = {"path": "stmt", "encoding": "UTF-8", "account": gen_account(rng, 0), "account_type": rng.choice(["asset", "liability"]),
           "commodity": rng.choice(COMMODITIES[:4]), "operator": gen_text(rng, hostile_p / 2) or "Bank",
           "format": {"date": "%Y-%m-%d", "fields": fields, "commodity": {c: {"precision": p} for c, p in prec.items()},
                      "row_order": rng.choice(["old_to_new", "new_to_old"])},
           "rewrite": [{"matcher": {"payee": "(?s)^K(?P<code>[^K]*)K(?P<payee>.*)$"}},
                       {"matcher": {"payee": "(?s)^P(?P<payee>.*)$"}},
                       {"matcher": {"payee": "Migros"}, "account": "Expenses:Grocery"},
                       {"matcher": {"payee": "shop"}, "account": "Expenses:Shop", "pending": True},
                       {"matcher": {"payee": "Coop"}, "payee": gen_text(rng, hostile_p / 2), "account": "Expenses:Coop"}]}
    # counter-accounts whose width plus the width of the printed number lands on and around the alignment column (48):
    # the layout must keep two blanks between account and amount there too, or the line reads back as one long account
    wide = rng.random() < 0.4
    if wide:
        for k in range(28, 50):
            doc["rewrite"].append({"matcher": {"payee": "^W%02dW" % k}, "account": "Expenses:" + "W" * (k - 9)})
    if conv and rng.random() < 0.5:
        # the secondary amount is COMPUTED from the rate (28-digit quotients such as 1041.6666666666666666666666667 are
        # printed in full): whatever the importer prints must be read back by okane's own parser
        doc["rewrite"].append({"matcher": {"payee": "(?s).*"},
                               "conversion": {"amount": "compute", "rate": rng.choice(["price_of_secondary", "price_of_primary"])}})
    rows = []
    n = rng.randint(1, 6)
    style = rng.choice(AMOUNT_STYLES)
    for r in range(n):
        payee = gen_text(rng, hostile_p)
        if rng.random() < 0.15:
            payee = "K" + gen_text(rng, hostile_p).replace("K", "") + "K" + payee
        elif rng.random() < 0.1:
            payee = "P" + payee
        cents = rng.choice([1, -1]) * rng.randint(1, 10 ** rng.choice([2, 4, 6, 8]))
        if wide and rng.random() < 0.7:
            # width of the counter-posting's number (sign flipped, before any precision padding)
            numw = len(fmt_amount(rng, abs(cents), scale, "plain")) + (1 if cents > 0 else 0)
            k = min(49, max(28, 47 - numw + rng.choice([-2, -1, 0, 0, 0, 1, 2])))
            payee = "W%02dW shop" % k
        row = {"date": "%04d-%02d-%02d" % gen_date(rng), "payee": payee}
        if use_cd:
            row["credit"] = fmt_amount(rng, cents, scale, style) if cents > 0 else ""
            row["debit"] = fmt_amount(rng, -cents, scale, style) if cents < 0 else ""
        else:
            row["amount"] = fmt_amount(rng, cents, scale, style)
        row["note"] = gen_text(rng, hostile_p)
        row["category"] = gen_text(rng, hostile_p / 2)
        row["balance"] = fmt_amount(rng, rng.randint(-10 ** 7, 10 ** 7), scale, style) if rng.random() < 0.8 else ""
        row["commodity"] = gen_commodity(rng, hostile_p / 4)
        row["charge"] = fmt_amount(rng, rng.randint(0, 500), scale, "plain") if rng.random() < 0.5 else ""
        row["rate"] = rng.choice(["1.5", "110.25", "0.0091", "2", "0.96", "3", "7", "1.1767"])
        row["secondary_amount"] = fmt_amount(rng, rng.randint(1, 10 ** 6), 2, style)
        row["secondary_commodity"] = rng.choice(["EUR", "USD", "JPY", "XAU"])
        rows.append(row)
    buf = io.StringIO()
    w = csv.writer(buf, lineterminator="\n")
    w.writerow(cols)
    for row in rows:
        w.writerow([row[c] for c in cols])
    return "csv", "stmt.csv", docs_yaml([doc]), buf.getvalue().encode("utf-8"), n, prec


def gen_viseca_case(rng, hostile_p):
    doc = {"path": "card", "encoding": "UTF-8", "account": "Liabilities:Card", "account_type": "liability", "commodity": "CHF",
           "operator": gen_text(rng, hostile_p / 2) or "Card fee",
           "format": {"commodity": {"CHF": {"precision": 2}}},
           "rewrite": [{"matcher": {"category": "^T(?P<payee>.*)$"}},
                       {"matcher": {"payee": "Migros"}, "account": "Expenses:Grocery"},
                       {"matcher": {"category": "stations"}, "account": "Expenses:Car", "pending": True}]}
    lines = []
    n = rng.randint(1, 5)
    for _ in range(n):
        payee = gen_text(rng, hostile_p).replace("\n", " ").replace("\r", " ") or "x"
        amt = "%d.%02d" % (rng.randint(0, 999), rng.randint(0, 99))
        d = "%02d.%02d.%02d" % (rng.randint(1, 28), rng.randint(1, 12), rng.randint(10, 30))
        e = "%02d.%02d.%02d" % (rng.randint(1, 28), rng.randint(1, 12), rng.randint(10, 30))
        kind = rng.random()
        cat = (("T" if rng.random() < 0.3 else "") + gen_text(rng, hostile_p).replace("\n", " ").replace("\r", " ")) or "Shops"
        if cat[0].isdigit():
            cat = "c" + cat
        if kind < 0.6:
            lines += ["%s %s %s %s%s" % (d, e, payee, amt, " -" if rng.random() < 0.2 else ""), cat]
        elif kind < 0.8:
            lines += ["%s %s %s EUR 46.88 52.10" % (d, e, payee), cat, "Exchange rate 1.092432 of 11.08.20 CHF 51.20",
                      "Processing fee 1.75% CHF 0.90"]
        else:
            lines += ["%s %s %s CHF 19.00 19.35" % (d, e, payee), cat, "Processing fee 1.75% CHF 0.35"]
    return "txt", "card.txt", docs_yaml([doc]), ("\n".join(lines) + "\n").encode("utf-8"), n, {"CHF": 2}


def xml_esc(s):
    return s.replace("&", "&amp;").replace("<", "&lt;").replace(">", "&gt;")


def gen_camt_case(rng, hostile_p):
    doc = {"path": "camt", "encoding": "UTF-8", "account": "Assets:Bank", "account_type": "asset", "commodity": "CHF",
           "operator": gen_text(rng, hostile_p / 2) or "Bank fee",
           "format": {"commodity": {"CHF": {"precision": 2}, "EUR": {"precision": 2}}},
           "rewrite": [{"matcher": {"creditor_name": "(?s)^(?P<payee>.*)$"}},
                       {"matcher": {"additional_entry_info": "(?s)^I(?P<payee>.*)$"}},
                       {"matcher": {"payee": "Migros"}, "account": "Expenses:Grocery"},
                       {"matcher": {"payee": "shop"}, "account": "Expenses:Shop", "pending": True}]}
    n = rng.randint(1, 4)
    entries = []
    count = 0
    for i in range(n):
        amt = "%d.%02d" % (rng.randint(1, 9999), rng.randint(0, 99))
        ind = rng.choice(["CRDT", "DBIT"])
        bd = "2021-10-%02d" % rng.randint(1, 28)
        vd = bd if rng.random() < 0.5 else "2021-10-%02d" % rng.randint(1, 28)
        info = ("I" if rng.random() < 0.4 else "") + gen_text(rng, hostile_p)
        details = ""
        if rng.random() < 0.7:
            ref = gen_text(rng, hostile_p)
            name = gen_text(rng, hostile_p)
            details = ("<NtryDtls><Btch><NbOfTxs>1</NbOfTxs></Btch><TxDtls><Refs><AcctSvcrRef>%s</AcctSvcrRef></Refs>"
                       "<Amt Ccy=\"CHF\">%s</Amt><CdtDbtInd>%s</CdtDbtInd><RltdPties><Cdtr><Nm>%s</Nm></Cdtr></RltdPties>"
                       "<AddtlTxInf>%s</AddtlTxInf></TxDtls></NtryDtls>") % (xml_esc(ref), amt, ind, xml_esc(name), xml_esc(gen_text(rng, hostile_p)))
        count += 1
        entries.append("<Ntry><Amt Ccy=\"CHF\">%s</Amt><CdtDbtInd>%s</CdtDbtInd><BookgDt><Dt>%s</Dt></BookgDt><ValDt><Dt>%s</Dt></ValDt>"
                       "<BkTxCd><Domn><Cd>PMNT</Cd><Fmly><Cd>RCDT</Cd><SubFmlyCd>OTHR</SubFmlyCd></Fmly></Domn></BkTxCd>%s"
                       "<AddtlNtryInf>%s</AddtlNtryInf></Ntry>" % (amt, ind, bd, vd, details, xml_esc(info)))
    bal = ("<Bal><Tp><CdOrPrtry><Cd>%s</Cd></CdOrPrtry></Tp><Amt Ccy=\"CHF\">%s</Amt><CdtDbtInd>CRDT</CdtDbtInd></Bal>")
    opening = rng.random() < 0.7
    xml = ("<?xml version=\"1.0\" encoding=\"UTF-8\"?><Document><BkToCstmrStmt><Stmt>%s%s%s</Stmt></BkToCstmrStmt></Document>"
           % (bal % ("OPBD", "100.5") if opening else "", bal % ("CLBD", "4561.9"), "".join(entries)))
    return "xml", "camt.xml", docs_yaml([doc]), xml.encode("utf-8"), count + (1 if opening else 0), {"CHF": 2, "EUR": 2}


def run_import_stream(chk, n, f15):
    cases = []
    for i in range(n):
        hp = [0.0, 0.05, 0.3, 0.5][i % 4]
        g = [gen_csv_case, gen_csv_case, gen_csv_case, gen_viseca_case, gen_camt_case][i % 5]
        cases.append(g(chk.rng, hp))
    lines = ["%s %s %s %s" % (f, enc(p), enc(y), enc(c)) for f, p, y, c, _, _ in cases]
    impl = run_sharded(HX, ["c15", "import"], lines)
    chk.streams["importers"] = len(lines)
    # ReadableTree (the Lean class predicate) on every tree the real importers built
    parsed = [sx_parse(a) for a in impl]
    tree_lines = []
    for t in parsed:
        if t[0] == "ok":
            tree_lines += [sx_str(x) for x in sx_find(t, "txns")[1:]]
    flags = run_sharded(DRV, ["c15", "readable"], tree_lines) if tree_lines else []
    fi = 0
    for (f, p, y, c, nrec, prec), line, a, t in zip(cases, lines, impl, parsed):
        replay = {"stream": "c15 import", "format": f, "config": y, "statement": c.decode("utf-8"),
                  "rerun": "echo '%s' | /verif/work/target/debug/hx c15 import" % line}
        if t[0] == "err":
            chk.case(line, nontrivial=False)
            chk.count("import:%s:refused:%s" % (f, t[2]))
            continue
        if t[0] != "ok":
            chk.oracle_failures += 1
            chk.violation("importer crashed on a statement file: %s" % a[:200], replay)
            continue
        built = sx_find(t, "txns")[1:]
        my = flags[fi:fi + len(built)]
        fi += len(built)
        clean = all(x == "readable=1" for x in my)
        diffs, _ = readback(t, prec, nrec)
        chk.case(line, nontrivial=len(built) > 0)
        chk.traces += 1
        chk.count("import:%s:transactions" % f, len(built))
        classify(chk, "import:" + f, line, diffs, clean, dict(replay, printed=dec(sx_find(t, "text")[1])), f15)
    k = 2
    chk.sample({"stream": "import", "statement": cases[k][3].decode("utf-8"), "config": cases[k][2], "impl": impl[k][:600]})


# ------------------------------------------------------------------------------------------------
# viseca-text: the Viseca statement PARSER (viseca/parser.rs) and viseca.rs::import against Model/ImportViseca.lean

VIS_WORDS = ["Migros", "Coop", "PAYPAL *STEAM GAMES,", "35314369001", "GB", "CH", "certain, phone company", "AMZN.DE/I,", "Luxembourg LU",
             "g.co/helppay#", "Your payment - Thank you", "foo shop 100", "Café", "山田", "12.50", "X-Y", "-", "Tstation", "T", "GOOGLE *YouTubePremium,",
             "HM.COM,", "NEUENDORF", "Air", "Air-", "1'000", "a:b", "Europe Gas AT", "MY TAXI, Amsterdam NL", "  ", "\t", "é", "%", "(x)"]
VIS_AMBIGUOUS = ["XYZ ABC 100", "shop EUR 12.50", "a CHF 1'000", "USD 5"]
VIS_AIRTAG = ["Air-France: ticket", "MY Air-Pass-Name: x", "see Air-1:"]
VIS_CATS = ["Telecommunication services", "Service stations", "Digital goods, movies, music", "Game, toy, and hobby shops", "Clothing stores",
            "Subscription merchants", "Tstations", "Air carriers, airlines", "Catering Service", "x", "Café 山田", "Processing fee", "a 1", "stations  EUR"]
VIS_CCY = ["EUR", "USD", "JPY", "CHF", "GBP"]
VIS_AIRLINES = ["Air-Pass-Name: kikeg MR", "Air-Ticket-Nbr: 0123456789", "Air-Trav-Agt-Name: KIKEG AIR", "Air-Departure-Date: 230816",
                "Air-Origin-City: HND", "Air-Des-City: ZRH", "Air-X-1: y"]


def vis_date(rng):
    yy = rng.choice([20, 20, 21, 22, 23, 0, 69, 70, 99, rng.randint(0, 99)])
    mm, dd = rng.randint(1, 12), rng.randint(1, 28)
    if rng.random() < 0.05:
        mm, dd = rng.choice([(12, 31), (1, 1), (2, 28), (2, 29)])
        if (mm, dd) == (2, 29):
            yy = rng.choice([20, 24, 96, 0])
    return "%02d.%02d.%02d" % (dd, mm, yy), ((2000 if yy < 70 else 1900) + yy, mm, dd)


def vis_number(rng, quotes=True, wide=False):
    """-> (text, mant, scale): a number that fits a Decimal exactly"""
    scale = rng.choice([2, 2, 2, 2, 2, 0, 1, 3, 4, 6]) if not wide else rng.choice([0, 2, 10, 20, 27, 28])
    nd = rng.choice([1, 2, 3, 3, 4, 5, 7, 9]) if not wide else rng.choice([17, 18, 19, 20, 24, 28])
    mant = rng.randrange(10 ** nd)
    if rng.random() < 0.04:
        mant = 0
    if wide and rng.random() < 0.3:
        mant = rng.choice([2 ** 96 - 1, 2 ** 64 - 1, 2 ** 64, 1844674407370954906, 1844674407370954905, 10 ** 28 - 1])
    digs = str(mant).rjust(scale + 1, "0")
    ip, fp = (digs[:-scale], digs[-scale:]) if scale else (digs, "")
    style = rng.random()
    if quotes and style < 0.55:
        g = ""
        for i, ch in enumerate(ip):
            if i and (len(ip) - i) % 3 == 0:
                g += "'"
            g += ch
        ip = g
    elif quotes and style < 0.65:
        k = rng.randint(0, len(ip))
        ip = ip[:k] + "'" + ip[k:]
    return ip + ("." + fp if scale else ""), mant, scale


def vis_dec_sx(neg, mant, scale):
    """what `value * ±1` leaves: Decimal::ZERO for a zero"""
    if mant == 0:
        return "(dec 0 0 0)", "0 0 0"
    return "(dec %d %d %d)" % (neg, mant, scale), "%d %d %d" % (neg, mant, scale)


def vis_payee(rng, hostile):
    n = rng.choice([1, 1, 2, 2, 3, 4])
    ws = [rng.choice(VIS_WORDS if rng.random() < hostile + 0.5 else VIS_WORDS[:12]) for _ in range(n)]
    return " ".join(ws)


def gen_viseca_record(rng, primary, hostile, line_no):
    """one well-formed record -> (lines, expected `(e ..)` text, flags, number of lines)"""
    flags = set()
    dtxt, d = vis_date(rng)
    etxt, e = (dtxt, d) if rng.random() < 0.2 else vis_date(rng)
    payee = vis_payee(rng, hostile)
    r = rng.random()
    if r < 0.04:
        payee = rng.choice(VIS_AIRTAG)
        flags.add("airtag")
    elif r < 0.08:
        payee = rng.choice(VIS_AMBIGUOUS)
        flags.add("ambiguous")
    elif r < 0.10:
        payee = ""
    neg = 1 if rng.random() < 0.25 else 0
    atxt, am, asc = vis_number(rng)
    kind = rng.random()
    spent = None
    lines = []
    if kind < 0.5:
        head = "%s %s %s %s%s" % (dtxt, etxt, payee, atxt, " -" if neg else "")
    else:
        ccy = primary if kind > 0.85 else rng.choice([c for c in VIS_CCY if c != primary])
        stxt, sm, ssc = vis_number(rng)
        spent = (ccy, sm, ssc)
        head = "%s %s %s %s %s %s%s" % (dtxt, etxt, payee, ccy, stxt, atxt, " -" if neg else "")
        flags.discard("ambiguous")
    if "ambiguous" in flags and spent is None:
        pass
    lines.append(head)
    cat = ""
    exch = None
    fee = None
    detail = spent is not None or rng.random() < 0.8
    if spent is not None and rng.random() < 0.1:
        detail = False   # a foreign-currency record without any detail line is accepted as it stands
    if detail:
        cat = rng.choice(VIS_CATS) if rng.random() < 0.95 else ""
        lines.append(cat)
        if spent is not None and spent[0] != primary:
            rtxt, rm, rsc = vis_number(rng, quotes=False)
            xd, xdd = vis_date(rng)
            xc = primary if rng.random() < 0.9 else rng.choice(VIS_CCY)
            qtxt, qm, qsc = vis_number(rng)
            lines.append("Exchange rate %s of %s %s %s" % (rtxt, xd, xc, qtxt))
            exch = (rm, rsc, xdd, xc, qm, qsc)
        if spent is not None and rng.random() < 0.7:
            ptxt, pm, psc = vis_number(rng, quotes=False)
            ftxt, fm, fsc = vis_number(rng)
            credit = rng.random() < 0.3
            fc = primary if rng.random() < 0.9 else rng.choice(VIS_CCY)
            lines.append("%s %s%% %s %s" % ("Credit of processing fee" if credit else "Processing fee", ptxt, fc, ftxt))
            fee = (pm, psc, 1 if credit else 0, fm, fsc, fc)
        if rng.random() < 0.15:
            for _ in range(rng.randint(1, 4)):
                lines.append(rng.choice(VIS_AIRLINES))
            flags.add("airlines")
    amt_sx, amt_tr = vis_dec_sx(neg, am, asc)
    exp = "(e %d (d %d %d %d) (d %d %d %d) %s %s %s %s %s %s)" % (
        line_no, d[0], d[1], d[2], e[0], e[1], e[2], enc(payee), amt_sx, enc(cat.strip()),
        "()" if spent is None else "((amt %s %s))" % (vis_dec_sx(neg, spent[1], spent[2])[1], spent[0]),
        "()" if exch is None else "((x (dec 0 %d %d) (d %d %d %d) (amt 0 %d %d %s)))" % (exch[0], exch[1], exch[2][0], exch[2][1], exch[2][2], exch[4], exch[5], exch[3]),
        "()" if fee is None else "((f (dec 0 %d %d) (amt %s %s)))" % (fee[0], fee[1], vis_dec_sx(fee[2], fee[3], fee[4])[1], fee[5]))
    if detail:
        flags.add("detail")
    return lines, exp, flags


def vis_config(rng, hostile):
    primary = "CHF" if rng.random() < 0.85 else "EUR"
    doc = {"path": "card", "encoding": "UTF-8", "account": "Liabilities:Card", "account_type": "liability", "commodity": primary,
           "format": {"commodity": {primary: {"precision": 2}}},
           "rewrite": [{"matcher": {"category": "^T(?P<payee>.*)$"}},
                       {"matcher": {"payee": "Migros"}, "account": "Expenses:Grocery"},
                       {"matcher": [{"category": "stations"}, {"payee": "gas"}], "account": "Expenses:Car", "pending": True},
                       {"matcher": {"payee": "^(?P<payee>PAYPAL) \\*(?P<code>\\w+)"}, "account": "Expenses:Paypal"},
                       {"matcher": {"payee": "Coop"}, "payee": "Coop Genossenschaft"}]}
    if rng.random() < 0.85:
        doc["operator"] = rng.choice(["Card fee", "Okane Card (fee)", "Visa"])
    r = rng.random()
    if r < 0.03:
        doc["rewrite"].append({"matcher": {"payee": "("}})                      # InvalidRegex before anything is read
    elif r < 0.06:
        doc["rewrite"].append({"matcher": {"creditor_name": "x"}})              # unsupported field for this importer
    elif r < 0.10:
        doc["rewrite"] = []
    return primary, doc


VIS_BAD_NUMBERS = ["1.2.3", "'", ".", "1..2", "''", "5.", ".5", "1'2'3.4'5", "9" * 29, "9" * 30, "79228162514264337593543950335", "79228162514264337593543950336",
                   "0." + "0" * 27 + "15", "0." + "0" * 28 + "5", "1." + "0" * 27 + "05.6.7", "7922816251426433759354395033.56", "1844674407370954906.5",
                   "18446744073709551616", "0.0000000000000000000000000000", "12345678901234567.8", "123456789012345678", "00000000000000000000000000000000001.50"]
VIS_BAD_DATES = ["35.06.20", "31.02.21", "00.01.20", "01.13.20", "1a.02.20", "٣٠.٠٦.٢٠", "30-06-20", "30x06y20", "3٠.06.20", "29.02.21", "29.02.20", "30.06.2", " 1.06.20",
                 "０１.06.20", "30.06.２0"]


def mutate_viseca(rng, text):
    """text (bytes) of a well-formed statement -> a damaged one (bytes), name of the damage"""
    lines = text.split(b"\n")
    if lines and lines[-1] == b"":
        lines.pop()
    kind = rng.choice(["truncate", "drop-line", "dup-line", "swap", "stray", "stray", "crlf", "non-utf8", "bad-date", "bad-date", "bad-number", "bad-number", "bad-number",
                       "space", "space", "case", "blank", "no-final-newline", "trailing-ws", "head-garbage"])
    if not lines:
        return text, "empty"
    i = rng.randrange(len(lines))
    if kind == "truncate":
        k = rng.randrange(len(text) + 1)
        return text[:k], kind
    if kind == "drop-line":
        del lines[i]
    elif kind == "dup-line":
        lines.insert(i, lines[i])
    elif kind == "swap" and len(lines) > 1:
        j = rng.randrange(len(lines))
        lines[i], lines[j] = lines[j], lines[i]
    elif kind == "stray":
        lines.insert(i, rng.choice([b"Total 12.00", b"", b"   ", b"Page 1 of 2", b"Processing fee", b"Credit of Processing fee 1.75% CHF 0.15", b"processing fee 1.75% CHF 0.15",
                                    b"Exchange rate 1.0 of 01.01.20 CHF 1.00", b"Air-X: 1", b"9", b"\xc2\xa0", b"\xe2\x80\xa8"]))
    elif kind == "crlf":
        lines = [l + b"\r" for l in lines]
    elif kind == "non-utf8":
        k = rng.randrange(len(lines[i]) + 1)
        lines[i] = lines[i][:k] + rng.choice([b"\xff", b"\xc3", b"\xe2\x82", b"\x80"]) + lines[i][k:]
    elif kind == "bad-date":
        l = lines[i].decode("utf-8", "replace")
        import re as _re
        m = list(_re.finditer(r"\d\d\.\d\d\.\d\d", l))
        if m:
            mm = rng.choice(m)
            l = l[:mm.start()] + rng.choice(VIS_BAD_DATES) + l[mm.end():]
        lines[i] = l.encode("utf-8")
    elif kind == "bad-number":
        l = lines[i].decode("utf-8", "replace")
        import re as _re
        m = list(_re.finditer(r"(?<= )[0-9.']+(?=$| -$|%| of )", l))
        if m:
            mm = rng.choice(m)
            l = l[:mm.start()] + rng.choice(VIS_BAD_NUMBERS) + l[mm.end():]
        lines[i] = l.encode("utf-8")
    elif kind == "space":
        l = lines[i]
        sp = [k for k in range(len(l)) if l[k:k + 1] == b" "]
        if sp:
            k = rng.choice(sp)
            l = l[:k] + rng.choice([b"  ", b"", b"\t", b"\xc2\xa0"]) + l[k + 1:]
        lines[i] = l
    elif kind == "case":
        lines[i] = rng.choice([lines[i].lower(), lines[i].upper(), lines[i].swapcase()])
    elif kind == "blank":
        lines.insert(i, b"")
    elif kind == "no-final-newline":
        return b"\n".join(lines), kind
    elif kind == "trailing-ws":
        lines[i] = lines[i] + rng.choice([b" ", b"\t", b"\xc2\xa0", b"\xe3\x80\x80", b" \r", b"\x0c"])
    elif kind == "head-garbage":
        lines[i] = rng.choice([b"x", b" ", b"\xef\xbb\xbf"]) + lines[i]
    return b"\n".join(lines) + b"\n", kind


def vis_fixed_cases():
    """hand-written statements that run on every check: every bad number and bad date at every place a number / date can stand,
    and the line-structure corners of parse_entry"""
    doc = {"path": "card", "encoding": "UTF-8", "account": "Liabilities:Card", "account_type": "liability", "commodity": "CHF", "operator": "Card fee",
           "rewrite": [{"matcher": {"category": "^T(?P<payee>.*)$"}}, {"matcher": {"payee": "Migros"}, "account": "Expenses:Grocery"}]}
    texts = []
    for n in VIS_BAD_NUMBERS + ["1'803.05", "0", "0.00", "1'234'567.891"]:
        texts.append("10.08.20 11.08.20 Shop %s\nCat\n" % n)
        texts.append("10.08.20 11.08.20 Shop %s -\n" % n)
        texts.append("10.08.20 11.08.20 Shop EUR %s 52.10\nCat\nExchange rate 1.092432 of 11.08.20 CHF 51.20\nProcessing fee 1.75%% CHF 0.90\n" % n)
        texts.append("10.08.20 11.08.20 Shop EUR 46.88 52.10\nCat\nExchange rate %s of 11.08.20 CHF 51.20\n" % n)
        texts.append("10.08.20 11.08.20 Shop EUR 46.88 52.10 -\nCat\nExchange rate 1.092432 of 11.08.20 CHF %s\nCredit of processing fee 1.75%% CHF %s\n" % (n, n))
        texts.append("10.08.20 11.08.20 Shop CHF 19.00 19.35\nCat\nProcessing fee %s%% CHF 0.35\n" % n)
    for d in VIS_BAD_DATES:
        texts.append("%s 11.08.20 Shop 5.00\nCat\n" % d)
        texts.append("10.08.20 %s Shop 5.00\nCat\n" % d)
        texts.append("10.08.20 11.08.20 Shop EUR 46.88 52.10\nCat\nExchange rate 1.092432 of %s CHF 51.20\n" % d)
    texts += [
        "", "\n", "10.08.20 11.08.20 Shop 5.00", "10.08.20 11.08.20 Shop 5.00\n\n", "10.08.20 11.08.20 Shop 5.00\n \n",
        "10.08.20 11.08.20 Shop 5.00\n10.08.20 11.08.20 Shop2 6.00\nCat\n", "10.08.20 11.08.20 Shop 5.00\n9 lives\n",
        "10.08.20 11.08.20 Shop EUR 46.88 52.10\n", "10.08.20 11.08.20 Shop EUR 46.88 52.10\nCat\n", "10.08.20 11.08.20 Shop EUR 46.88 52.10\nCat\nProcessing fee 1.75% CHF 0.90\n",
        "10.08.20 11.08.20 Shop EUR 46.88 52.10\nCat\nExchange rate 1.09 of 11.08.20 EUR 51.20\n", "10.08.20 11.08.20 Shop CHF 46.88 52.10\nCat\nExchange rate 1.09 of 11.08.20 CHF 51.20\n",
        "10.08.20 11.08.20 Shop 5.00\nCat\nProcessing fee 1.75% CHF 0.90\n", "10.08.20 11.08.20 Shop CHF 1.00 5.00\nCat\nprocessing fee 1.75% CHF 0.90\n",
        "10.08.20 11.08.20 Shop CHF 1.00 5.00\nCat\nCredit of Processing fee 1.75% CHF 0.90\n", "10.08.20 11.08.20 Shop CHF 1.00 5.00\nCat\nProcessing fee\n",
        "10.08.20 11.08.20 Shop CHF 1.00 5.00\nCat\nProcessing fees 1.75% CHF 0.90\n", "10.08.20 11.08.20 Shop CHF 1.00 5.00\nCat\nProcessing fee 1.75% CHF 0.90 \nAir-X: 1\n  Air-Y-: 2\nAir-: 3\n",
        "10.08.20 11.08.20 Shop 5.00\nCat\nAir-X: 1\nAir-: 3\n", "10.08.20 11.08.20 Shop 5.00\nAir-X: 1\n", "10.08.20 11.08.20 Shop 5.00\nCat\nAir-é: 1\n", "10.08.20 11.08.20 Shop 5.00\nCat\nAir--:\nAir-a-1:\nair-a:\n",
        "10.08.20 11.08.20 XYZ ABC 100 12.00\n", "10.08.20 11.08.20 XYZ ABC 100 CHF 1 12.00\n", "10.08.20 11.08.20  5.00\n", "10.08.20 11.08.20 5.00\n", "10.08.20 11.08.20 Shop 5.00-\n", "10.08.20 11.08.20 Shop 5.00 - \n",
        "10.08.20 11.08.20 Shop 5.00 -\r\nCat\r\n", "10.08.20 11.08.20 Shop  EUR 1.00 5.00\n", "10.08.20 11.08.20 Shop EUR  1.00 5.00\n", "10.08.20 11.08.20 Shop eur 1.00 5.00\n", "10.08.20 11.08.20 Shop EURO 1.00 5.00\n",
        "10.08.20 11.08.20 Shop ÄBC 1.00 5.00\n", "10.08.20 11.08.20 Shop EUR 1.00 5.00 - -\n", "10.08.20  11.08.20 Shop 5.00\n", "10.08.2011.08.20 Shop 5.00\n", "10.08.20\t11.08.20 Shop 5.00\n",
        "10.08.20 11.08.20 Shop 5.00\u00a0\n\u00a0Cat\u3000\n", "10.08.20 11.08.20 Shop 5.00\n\u2028\n", "10.08.20 11.08.20 Sh\u2028op 5.00\nCat\n", "\ufeff10.08.20 11.08.20 Shop 5.00\n",
        "10.08.20 11.08.20 Shop 5.00\n٣ cat\n", "10.08.20 11.08.20 Shop 0.00 -\nCat\n", "10.08.20 11.08.20 Shop EUR 0.00 0 -\nCat\nExchange rate 0 of 11.08.20 CHF 0\nCredit of processing fee 0% CHF 0.000\n",
        "10.08.20 10.08.20 Shop 5.00\nTMigros\n", "01.01.70 31.12.69 Shop 5.00\n", "Total 5.00\n", "10.08.20 11.08.20 Shop 5.00\nCat\nTotal 5.00\n",
        # a line that starts with a digit but is no well-formed record, after a record WITHOUT category line and before a
        # well-formed record: it is neither a category nor a record (the import must fail; it may not be swallowed)
        "10.08.20 11.08.20 Shop 5.00\n11.08.20 12.08.20 Refund 34.50-\n12.08.20 13.08.20 Bar 7.00\nCat\n",
        "10.08.20 11.08.20 Shop 5.00\n11.08.20 12.08.20 Big 1,250.00\n12.08.20 13.08.20 Bar 7.00\n",
        "10.08.20 11.08.20 Shop 5.00\n9 lives\n12.08.20 13.08.20 Bar 7.00\nCat\n",
        "10.08.20 11.08.20 Shop 5.00\n11.08.2012.08.20 Glued 3.00\n12.08.20 13.08.20 Bar 7.00\nCat\n",
        # dates around the turn of the year (ISO week-year differs from the calendar year there)
        "30.12.24 31.12.24 Shop 5.00\nCat\n01.01.21 02.01.21 Shop 6.00\nCat\n29.12.25 03.01.27 Shop 7.00\nCat\n",
    ]
    cases = [{"primary": "CHF", "doc": doc, "text": t.encode("utf-8"), "expected": [], "flags": [], "damage": "fixed"} for t in texts]
    no_op = dict(doc)
    del no_op["operator"]
    cases.append({"primary": "CHF", "doc": no_op, "expected": [], "flags": [], "damage": "fixed",
                  "text": b"10.08.20 11.08.20 Shop 5.00\nCat\n13.12.20 15.12.20 PAYPAL CHF 19.00 19.35\nGames\nProcessing fee 1.75% CHF 0.35\n"})
    cases.append({"primary": "CHF", "doc": doc, "expected": [], "flags": [], "damage": "fixed", "text": b"10.08.20 11.08.20 Shop 5.00\n\xff\n"})
    cases.append({"primary": "CHF", "doc": doc, "expected": [], "flags": [], "damage": "fixed", "text": b"10.08.20 11.08.20 Shop CHF 1.00 5.00\nCat\n\xff\n"})
    cases.append({"primary": "CHF", "doc": doc, "expected": [], "flags": [], "damage": "fixed", "text": b"10.08.20 11.08.20 Shop 5.00\nCat\nAir-X: 1\n\xc3\n"})
    return cases


def gen_viseca_text_case(rng, idx):
    hostile = [0.0, 0.1, 0.4][idx % 3]
    primary, doc = vis_config(rng, hostile)
    n = rng.choice([1, 1, 2, 3, 4, 6]) if rng.random() < 0.97 else 0
    lines, exps, flags = [], [], []
    for _ in range(n):
        ls, exp, fl = gen_viseca_record(rng, primary, hostile, len(lines) + 1)
        lines += ls
        exps.append(exp)
        flags.append(fl)
    text = ("".join(l + "\n" for l in lines)).encode("utf-8")
    damage = None
    if idx % 5 >= 3:
        text, damage = mutate_viseca(rng, text)
        if rng.random() < 0.3:
            text, d2 = mutate_viseca(rng, text)
            damage += "+" + d2
    return {"primary": primary, "doc": doc, "text": text, "expected": exps, "flags": flags, "damage": damage}


def vis_raw_lines(text):
    """the lines `BufRead::read_line` hands out: cut after every LF; a line that is not UTF-8 is an io error"""
    out = []
    for l in text.split(b"\n"):
        out.append(l + b"\n")
    if out:
        out[-1] = out[-1][:-1]
        if out[-1] == b"":
            out.pop()
    res = []
    for l in out:
        try:
            l.decode("utf-8")
            res.append("(t %s)" % enc(l))
        except UnicodeDecodeError:
            res.append("(bad)")
    return res


def vis_sign_facts(e, tr, cfg_account, operator, primary):
    """C15/C16-style facts of viseca.rs::import on the REAL output: `e` a parsed `(e ..)` node, `tr` the `(txn ..)` node built for it"""
    out = []
    neg = int(e[5][1])
    amt = (e[5][2], e[5][3])
    spent = e[7][0] if e[7] else None
    exch = e[8][0] if e[8] else None
    fee = e[9][0] if e[9] else None
    posts = tr[6]
    if len(posts) != 2 + (1 if fee else 0):
        return ["%d postings for an entry %s fee" % (len(posts), "with" if fee else "without")]
    src, dest = (posts[-1], posts[0]) if not neg else (posts[0], posts[-1])   # statement amount positive = spending = the account is debited last

    def pa(p):
        a = p[3][0]
        return (a[1][1][1], a[1][1][2], a[1][1][3], a[1][2]), a[2]
    (sn, sm, ss, sc), scost = pa(src)
    if src[1] != enc(cfg_account) or (sn, sm, ss, sc) != (str(1 - neg), amt[0], amt[1], primary):
        out.append("the posting on the card account is not -amount in the primary commodity")
    (dn, dm, ds, dc), dcost = pa(dest)
    if spent is not None:
        if (dn, dm, ds, dc) != (str(neg), spent[2], spent[3], spent[4]):
            out.append("the counter-posting is not the spent amount with the statement's sign")
    elif (dn, dm, ds, dc) != (str(neg), amt[0], amt[1], primary):
        out.append("the counter-posting is not the statement amount")
    if exch is not None:
        want = [["rate", ["amt", ["dec", exch[1][1], exch[1][2], exch[1][3], "n"], exch[3][4]]]]
        if dcost != want:
            out.append("the exchange rate is not `@ rate <equivalent commodity>` on the posting in the spent commodity")
        if spent is not None and spent[4] != sc and scost != []:
            out.append("a rate on the card account's posting")
    elif dcost != [] or scost != []:
        out.append("a rate without an exchange line")
    if fee is not None:
        ch = posts[1]
        (cn, cm, cs, cc), _ = pa(ch)
        if ch[1] != "Expenses:Commissions" or (cn, cm, cs, cc) != (fee[2][1], fee[2][2], fee[2][3], fee[2][4]) or ch[5] != [["kv", "Payee", ["text", enc(operator or "")]]]:
            out.append("the fee is not one Expenses:Commissions posting of the fee amount tagged with the operator")
    return out


def run_viseca_text_stream(chk, n):
    cases = vis_fixed_cases() + [gen_viseca_text_case(chk.rng, i) for i in range(n)]
    # the witness of finding F38 (fixed in 5a6d633: skip_air_tags skipped every line *containing* `Air-xxx:`, also the head line of the
    # next record), always first: as a well-formed statement it must be read as written, all three records
    wit_doc = {"path": "card", "encoding": "UTF-8", "account": "Liabilities:Card", "account_type": "liability", "commodity": "CHF", "operator": "Card fee", "rewrite": []}
    witness = {"primary": "CHF", "doc": wit_doc, "damage": None, "flags": [set(), {"airtag"}, set()],
               "expected": ["(e 1 (d 2020 8 10) (d 2020 8 11) Foo (dec 0 500 2) Category () () ())",
                            "(e 3 (d 2020 8 11) (d 2020 8 12) Air-France:%20ticket (dec 0 10000 2) ~ () () ())",
                            "(e 4 (d 2020 8 12) (d 2020 8 13) Bar (dec 0 700 2) ~ () () ())"],
               "text": b"10.08.20 11.08.20 Foo 5.00\nCategory\n11.08.20 12.08.20 Air-France: ticket 100.00\n12.08.20 13.08.20 Bar 7.00\n"}
    witness2 = dict(witness, expected=["(e 1 (d 2020 8 10) (d 2020 8 11) Foo (dec 0 500 2) Category () () ())",
                                       "(e 3 (d 2020 8 11) (d 2020 8 12) Air-France:%20ticket (dec 0 10000 2) Airlines () () ())"],
                    flags=[set(), {"airtag"}], text=b"10.08.20 11.08.20 Foo 5.00\nCategory\n11.08.20 12.08.20 Air-France: ticket 100.00\nAirlines\n")
    cases.insert(0, witness2)
    cases.insert(0, witness)
    hx_lines = ["%s %s %s" % (enc("card.txt"), enc(docs_yaml([c["doc"]])), enc(c["text"])) for c in cases]
    impl = run_sharded(HX, ["c15", "viseca"], hx_lines)
    chk.streams["viseca-text"] = len(cases)
    drv_lines, idx = [], []
    parsed = []
    for c, a in zip(cases, impl):
        t = sx_parse(a) if a.startswith("(ok ") else None
        parsed.append(t)
        if t is None:
            continue
        drv_lines.append("(case %s %s %s (lines %s))" % (sx_str(sx_find(t, "cfg")[1]), sx_str(sx_find(t, "pats")), sx_str(sx_find(t, "table")), " ".join(vis_raw_lines(c["text"]))))
        idx.append(len(parsed) - 1)
    model = dict(zip(idx, run_sharded(DRV, ["c15", "viseca"], drv_lines)))
    reprint = []
    for k, (c, line, a, t) in enumerate(zip(cases, hx_lines, impl, parsed)):
        stmt = c["text"].decode("utf-8", "replace")
        replay = {"stream": "c15 viseca", "config": docs_yaml([c["doc"]]), "statement": stmt, "damage": c["damage"],
                  "rerun": "echo '%s' | /verif/work/target/debug/hx c15 viseca" % line}
        if a.startswith("(panic"):
            chk.case(line)
            chk.oracle_failures += 1
            chk.violation("the Viseca importer panicked on a statement: %s" % dec(a[7:-1])[:200], replay)
            continue
        if t is None:
            chk.case(line, nontrivial=False)
            chk.count("viseca-text:config-refused")
            continue
        chk.case(line, nontrivial=bool(c["expected"]) or c["damage"] is not None)
        chk.traces += 1
        P, I = sx_find(t, "parse")[1], sx_find(t, "import")[1]
        operator = c["doc"].get("operator")
        chk.count("viseca-text:%s:parse-%s" % ("damaged" if c["damage"] else "well-formed", P[0] if P[0] == "ok" else "err:" + P[1]))
        if c["damage"]:
            chk.count("viseca-text:damage:" + c["damage"].split("+")[0])
        if I[0] == "err":
            chk.count("viseca-text:import-err:" + I[2])
        # ---- oracles on the real code, independent of the model
        bad = None
        entries = P[1:] if P[0] == "ok" else []
        special = any("ambiguous" in f for f in c["flags"])
        if c["damage"] is None:
            if P[0] != "ok":
                if not special:
                    bad = "a well-formed statement was refused by the parser: %s %s" % (P[1], dec(P[2]))
            else:
                got = [sx_str(e) for e in entries]
                if got != c["expected"] and not special:
                    j = next((j for j in range(min(len(got), len(c["expected"]))) if got[j] != c["expected"][j]), min(len(got), len(c["expected"])))
                    bad = ("record %d of a well-formed statement was not read as written: %d records read for %d written; read %s, written %s"
                           % (j, len(got), len(c["expected"]), got[j] if j < len(got) else "-", c["expected"][j] if j < len(c["expected"]) else "-"))
            if special and (P[0] != "ok" or [sx_str(e) for e in entries] != c["expected"]):
                chk.count("viseca-text:well-formed:ambiguous-payee:read-differently")
            if any("airtag" in f for f in c["flags"]):
                chk.count("viseca-text:well-formed:air-tag-text-in-a-payee")
        if bad is None and P[0] == "ok" and I[0] == "ok":
            trs = I[1:]
            if len(trs) != len(entries):
                bad = "%d transactions for %d statement records read by the parser" % (len(trs), len(entries))
            else:
                for e, tr in zip(entries, trs):
                    if tr[1] != e[2] or tr[2] != ([] if e[3] == e[2] else [e[3]]):
                        bad = "transaction dates are not the record's (effective date only when different)"
                        break
                    facts = vis_sign_facts(e, tr, c["doc"]["account"], operator, c["primary"])
                    if facts:
                        bad = facts[0]
                        break
        if bad is None and P[0] == "ok" and I[0] == "err" and I[2] in ("Viseca", "IO", "InvalidDatetime", "InvalidDecimal"):
            bad = "the parser alone reads the statement, the importer fails in the parser (%s)" % I[2]
        if bad is not None:
            chk.oracle_failures += 1
            chk.violation("Viseca import: " + bad, dict(replay, impl=a[:3000]))
            continue
        # ---- model vs implementation
        b = model.get(k, "")
        if b.startswith("(table-incomplete"):
            chk.count("viseca-text:regex-table-incomplete")
            continue
        tb = sx_parse(b) if b.startswith("(ok ") else None
        mp = sx_find(tb, "parse")[1] if tb else None
        mi = sx_find(tb, "import")[1] if tb else None
        if tb is None or mp != P or mi != I:
            what = "parser" if (tb is None or mp != P) else "importer"
            chk.disagreements += 1
            chk.violation("model and implementation of the Viseca %s disagree" % what,
                          dict(replay, impl_parse=sx_str(P)[:3000], model_parse=sx_str(mp)[:3000] if mp else b[:500],
                               impl_import=sx_str(I)[:3000], model_import=sx_str(mi)[:3000] if mi else None), no_failing_input=True, tag="corr")
            continue
        cn = sx_find(tb, "canon")
        if cn[1] == "1" and entries:
            reprint.append((c, entries, dec_bytes(cn[2])))
            chk.count("viseca-text:canonical-statements")
    # ---- the model's canonical text of the entries read, through the REAL parser: the round-trip theorem's instance on the real code
    if reprint:
        rl = ["%s %s %s" % (enc("card.txt"), enc(docs_yaml([c["doc"]])), enc(txt)) for c, _, txt in reprint]
        back = run_sharded(HX, ["c15", "viseca"], rl)
        for (c, entries, txt), line, a in zip(reprint, rl, back):
            t = sx_parse(a) if a.startswith("(ok ") else None
            P = sx_find(t, "parse")[1] if t else None
            strip = lambda es: [sx_str(e[:1] + e[2:]) for e in es]
            chk.count("viseca-text:round-trip-on-real-parser")
            if P is None or P[0] != "ok" or strip(P[1:]) != strip(entries):
                chk.oracle_failures += 1
                chk.violation("the canonical text of a canonical entry list is not read back by the real Viseca parser as those entries (round-trip theorem contradicted on the real code)",
                              {"stream": "c15 viseca reprint", "printed": txt.decode("utf-8", "replace"), "entries": [sx_str(e) for e in entries], "read_back": a[:3000],
                               "rerun": "echo '%s' | /verif/work/target/debug/hx c15 viseca" % line})
    wi = sx_find(parsed[0], "import")[1] if parsed[0] else None
    chk.count("viseca-text:f38-witness:transactions", len(wi) - 1 if wi and wi[0] == "ok" else 0)
    chk.sample({"stream": "viseca-text F38 witness (fixed: must read all three records)", "statement": witness["text"].decode(), "impl": impl[0][:1500]})
    k = min(3, len(cases) - 1)
    chk.sample({"stream": "viseca-text", "statement": cases[k]["text"].decode("utf-8", "replace"), "impl": impl[k][:1200], "model": model.get(k, "")[:800]})


# ------------------------------------------------------------------------------------------------
# csv-cells: the CSV importer from the TEXT of its cells.  (1) the importer MODEL run by `drv c15 csv` on the cells the `csv` crate
# yields — number cells decoded by the model of `str_to_comma_decimal`, templates parsed by the model of `Template::from_str`; no
# decoded number leaves the harness — against the real importer (trees); (2) the statement of C15_csv_row_postings /
# C15_csv_amount_readback as an oracle on the REAL code, independent of the model: what the real parser reads back from the text the
# real importer printed carries, on the imported account, the number WRITTEN in the amount cell (literal value, one sign flip per
# minus sign written, account-type / credit-debit sign rule), padded to max(places written, configured precision); same for the
# balance, charge, rate and (extracted) secondary-amount cells.

CELL_COMMODITY_TEXTS = ["$", "€", "USD", "CHF", "JPY", "円", "Ab", "£"]
BAD_NUMBER_CELLS = ["1,23.4", "abc", "5.00.1", "12 34", "1e5", "$", "1,,000", ",100", "100,", ".", "-", "--",
                    "79228162514264337593543950336", "0.00000000000000000000000000001", "5.00 US D", "1.000,50"]


def num_cell(rng, units, scale, fancy, allow_lead=True):
    """a number cell writing units/10^scale with `k` minus signs: (text, k, places).  Layouts of `unary_amount` (`CellForm` in the Lean
    model): an optional leading minus, then the number token (its own optional minus directly in front of the digits) and a commodity
    text in either order, optional blanks after each.  Every such text is a number cell, and so is `-` in front of one that has no
    leading minus of its own (`allow_lead=False`: what a negating template `-{n}` needs)."""
    ip, fp = divmod(units, 10 ** scale) if scale else (units, 0)
    tok = "{:,}".format(ip) if fancy and rng.random() < 0.5 else str(ip)
    if scale:
        tok += "." + str(fp).rjust(scale, "0")
    if not fancy:
        return tok, 0, scale
    k = 0
    if rng.random() < 0.2:
        tok = "-" + tok
        k += 1
    com = rng.choice(CELL_COMMODITY_TEXTS) if rng.random() < 0.55 else ""
    sp = lambda: rng.choice(["", "", " ", "  ", "\t"])
    if rng.random() < 0.5:
        body = tok + sp() + com + sp()
    else:
        body = com + sp() + tok + sp()
    if allow_lead and rng.random() < 0.2:
        body = "-" + body
        k += 1
    return body, k, scale


def signed(units, scale, k):
    return Fraction(-units if k % 2 else units, 10 ** scale)


def gen_csvcells_case(rng, idx):
    cols = ["date", "payee"]
    use_cd = rng.random() < 0.3
    cols += ["credit", "debit"] if use_cd else ["amount"]
    opt_cols = [c for c in ["note", "category", "balance", "commodity", "charge"] if rng.random() < 0.5]
    conv = rng.random() < 0.35
    if conv:
        opt_cols += ["rate", "secondary_amount", "secondary_commodity"]
    cols += opt_cols
    rng.shuffle(cols)
    index = {c: i for i, c in enumerate(cols, 1)}
    header = {c: rng.choice([c, c.upper(), "col%d" % index[c]]) for c in cols}
    fields = {}
    for c in cols:
        fields[c] = index[c] if rng.random() < 0.7 else header[c]
    # templates (parsed by the model from their text): a negating amount, a composed payee
    amount_tpl = (not use_cd) and rng.random() < 0.15
    if amount_tpl:
        fields["amount"] = {"template": rng.choice(["-{%d}", "-{%d} ", "{%d}"]) % index["amount"]}
    payee_tpl = None
    if rng.random() < 0.2:
        payee_tpl = rng.choice(["{%(p)d} [{%(d)d}]", "{%(p)d}", "x {%(p)d} y", "{%(d)d}/{%(p)d}", "{0%(p)d}"]) % {"p": index["payee"], "d": index["date"]}
        if "category" in index and isinstance(fields["category"], int) and rng.random() < 0.5:
            payee_tpl = "{category}: {%d}" % index["payee"]
        fields["payee"] = {"template": payee_tpl}
    primary = rng.choice(["USD", "CHF", "EUR", "JPY"])
    others = [c for c in ["USD", "CHF", "EUR", "JPY", "XAU", "GBP"] if c != primary]
    prec = {c: rng.randint(0, 4) for c in rng.sample(["USD", "CHF", "EUR", "JPY", "XAU", "GBP"], rng.randint(0, 4))}
    account_type = rng.choice(["asset", "liability"])
    conv_spec = None
    if conv:
        conv_spec = {"amount": rng.choice(["extract", "extract", "compute"]), "rate": rng.choice(["price_of_secondary", "price_of_primary"])}
        if conv_spec["amount"] == "compute":
            conv_spec["rate"] = "price_of_primary"        # products are exact; quotients are C16's subject
        if rng.random() < 0.3:
            conv_spec["commodity"] = rng.choice(others)
    delimiter = rng.choice([",", ",", ";", "\t", "|"])
    skip = rng.choice([0, 0, 0, 1, 2])
    fmt = {"date": "%Y-%m-%d", "fields": fields, "commodity": {c: {"precision": p} for c, p in prec.items()},
           "row_order": rng.choice(["old_to_new", "new_to_old"])}
    if delimiter != "," or rng.random() < 0.2:
        fmt["delimiter"] = delimiter
    if skip:
        fmt["skip"] = {"head": skip}
    doc = {"path": "stmt", "encoding": "UTF-8", "account": rng.choice(["Assets:Bank", "Liabilities:Card", "Assets:銀行:Main"]),
           "account_type": account_type,
           "commodity": primary if conv_spec is None else {"primary": primary, "conversion": conv_spec},
           "operator": "The Bank", "format": fmt,
           "rewrite": [{"matcher": {"payee": "^K(?P<code>[0-9]+) (?P<payee>.*)$"}},
                       {"matcher": {"payee": "migros"}, "account": "Expenses:Grocery"},
                       {"matcher": {"payee": "shop"}, "account": "Expenses:Shop", "pending": True},
                       {"matcher": [{"category": "^fee"}, {"payee": "bank"}], "account": "Expenses:Fees"}]}
    fancy = rng.random() < 0.75
    bad_at = (rng.randrange(1, 7), rng.choice(["amount", "balance", "charge", "rate", "secondary_amount"])) if rng.random() < 0.08 else None
    rows, expect, hays = [], [], []
    refused = False
    n = rng.randint(1, 6)
    scale = rng.choice([0, 2, 2, 3, 4])
    for r in range(1, n + 1):
        date = "%04d-%02d-%02d" % (rng.randint(1990, 2035), rng.randint(1, 12), rng.randint(1, 28))
        if rng.random() < 0.06:
            date = ""                                     # a row without date is skipped
        payee = rng.choice(["Migros", "shop", "Coop", "K4711 Migros AG", "the bank", "Café 山田", "x", "SHOP 24", "K12 shop"])
        row = {"date": date, "payee": payee, "note": rng.choice(["", "ref 42", "thanks", "  ", "No.5"]),
               "category": rng.choice(["", "fee", "Fees and charges", "food", "FEE 1"])}
        exp = {"dated": date != ""}
        units = rng.randint(0, 10 ** rng.choice([2, 4, 6, 9])) if rng.random() < 0.95 else 0
        cell, k, places = num_cell(rng, units, scale, fancy)
        if use_cd:
            if rng.random() < 0.5:
                du = rng.randint(1, 999)
                dcell, dk, dplaces = num_cell(rng, du, scale, False) if rng.random() < 0.15 else ("", 0, 0)
                row["credit"], row["debit"] = cell, dcell
                exp["amount"] = (signed(units, scale, k), places)
                if units == 0 and dcell != "":
                    # both cells filled and the credit cell holds a zero: the row is a debit (fix 096780e, finding F41)
                    exp["amount"] = (-signed(du, scale, dk), dplaces)
            else:
                row["credit"], row["debit"] = "", cell
                exp["amount"] = (-signed(units, scale, k), places)
        else:
            kk = k
            if amount_tpl and fields["amount"]["template"].startswith("-"):
                # `-` in front of the cell: one more minus sign; the cell itself then must not start with a leading minus of its own
                # followed by a commodity text (`--$1` is no number), so it is generated without one
                cell, kk, places = num_cell(rng, units, scale, fancy, allow_lead=False)
                kk += 1
            row["amount"] = cell
            v = signed(units, scale, kk)
            exp["amount"] = (v if account_type == "asset" else -v, places)
        u = rng.randint(0, 10 ** 8)
        c, k, pl = num_cell(rng, u, scale, fancy)
        row["balance"] = c if rng.random() < 0.75 else ""
        exp["balance"] = (signed(u, scale, k), pl) if row["balance"] and "balance" in index else None
        u = rng.randint(0, 500) if rng.random() < 0.8 else 0
        c, k, pl = num_cell(rng, u, scale, fancy)
        row["charge"] = c if rng.random() < 0.6 else ""
        exp["charge"] = (signed(u, scale, k), pl) if row["charge"] and u != 0 and "charge" in index else None
        row["commodity"] = rng.choice([primary] + others[:2])
        exp["commodity"] = row["commodity"] if "commodity" in index else primary
        rate_u, rate_s = rng.choice([(15, 1), (11025, 2), (91, 4), (2, 0), (96, 2), (11767, 4), (8, 1)])
        c, k, pl = num_cell(rng, rate_u, rate_s, False)
        row["rate"] = c if rng.random() < 0.8 else ""
        u = rng.randint(1, 10 ** 6)
        sc_cell, sk, spl = num_cell(rng, u, 2, fancy)
        row["secondary_amount"] = sc_cell if rng.random() < 0.9 else ""
        sc = rng.choice([x for x in others if x != exp["commodity"]])
        row["secondary_commodity"] = sc
        exp["conv"] = None
        if conv and row["rate"] and row["secondary_amount"]:
            exp["conv"] = {"mode": conv_spec["amount"], "rate_mode": conv_spec["rate"], "rate": (Fraction(rate_u, 10 ** rate_s), rate_s),
                           "sec": (Fraction(u, 100), spl), "sc": conv_spec.get("commodity", sc)}
            if exp["conv"]["sc"] == exp["commodity"]:
                exp["same_commodity"] = True
        if bad_at is not None and bad_at[0] == r and (bad_at[1] in index or (bad_at[1] == "amount" and use_cd)):
            key = bad_at[1] if bad_at[1] in row else "credit"
            row[key] = rng.choice(BAD_NUMBER_CELLS)
            if key == "credit":
                pass
            if date != "":
                refused = True
        rows.append(row)
        expect.append(exp)
        if payee_tpl is not None:
            rendered = payee_tpl
            for name, col in (("{category}", "category"),):
                rendered = rendered.replace(name, row.get(col, ""))
            for c2 in cols:
                rendered = rendered.replace("{%d}" % index[c2], row[c2]).replace("{0%d}" % index[c2], row[c2])
            hays.append(rendered)
    buf = io.StringIO()
    for i in range(skip):
        buf.write(rng.choice(["exported by the bank", "", "a;b,c", "# 2024"]) + "\n")
    w = csv.writer(buf, lineterminator="\n", delimiter=delimiter)
    w.writerow([header[c] for c in cols])
    for row in rows:
        w.writerow([row[c] for c in cols])
    return {"doc": doc, "text": buf.getvalue().encode("utf-8"), "expect": expect, "refused": refused, "prec": prec, "hays": hays,
            "account": doc["account"], "n2o": fmt["row_order"] == "new_to_old", "fancy": fancy, "templates": amount_tpl or payee_tpl is not None,
            "operator": "The Bank"}


def written_oracle(c, reread):
    """C15_csv_row_postings on the real code: `reread` = the transactions the real parser read back from the real importer's output"""
    exps = [e for e in c["expect"] if e["dated"]]
    if c["n2o"]:
        exps = exps[::-1]
    if len(reread) != len(exps):
        return "%d transactions read back for %d dated records" % (len(reread), len(exps))
    prec = c["prec"]

    def num(a):
        n, m, sc = dec_of(a[1])
        return Fraction(-m if n else m, 10 ** sc), sc, dec(a[2])

    def want(where, a, value, places, commodity):
        v, sc, com = num(a)
        if com != commodity:
            return "%s: commodity %r, the row's is %r" % (where, com, commodity)
        if v != value:
            return "%s: reads back as %s, the cell writes %s" % (where, v, value)
        if sc != max(places, prec.get(commodity, 0)):
            return "%s: %d decimal places read back, %d written, precision %s" % (where, sc, places, prec.get(commodity))
        return None
    for i, (e, tr) in enumerate(zip(exps, reread)):
        if tr[0] != "txn":
            return "entry %d read back is not a transaction" % i
        posts = tr[6]
        mine = [p for p in posts if dec(p[1]) == c["account"]]
        if len(mine) != 1:
            return "txn %d: %d postings on the imported account" % (i, len(mine))
        p = mine[0]
        value, places = e["amount"]
        if value != 0 and (posts[-1] if value < 0 else posts[0]) is not p:
            return "txn %d: the imported account's posting is not %s" % (i, "last for a debit" if value < 0 else "first for a credit")
        bad = want("txn %d amount" % i, p[3][0][1], value, places, e["commodity"])
        if bad:
            return bad
        if (e["balance"] is None) != (p[4] == []):
            return "txn %d: balance assertion %s, balance cell %s" % (i, "present" if p[4] else "absent", "empty / no column" if e["balance"] is None else "written")
        if e["balance"] is not None:
            bad = want("txn %d balance" % i, p[4][0], e["balance"][0], e["balance"][1], e["commodity"])
            if bad:
                return bad
        charges = [q for q in posts if dec(q[1]) == "Expenses:Commissions"]
        if (e["charge"] is None) != (charges == []):
            return "txn %d: %d charge postings, charge cell %s" % (i, len(charges), "empty / zero / no column" if e["charge"] is None else "written")
        if e["charge"] is not None:
            q = charges[0]
            bad = want("txn %d charge" % i, q[3][0][1], e["charge"][0], e["charge"][1], e["commodity"])
            if bad:
                return bad
            if q[5] != [["kv", "Payee", ["text", enc(c["operator"])]]]:
                return "txn %d: charge posting without the operator's Payee tag" % i
        counter = posts[0] if p is posts[-1] else posts[-1]
        cv = e["conv"]
        if cv is None:
            bad = want("txn %d counter amount" % i, counter[3][0][1], -value, places, e["commodity"])
            if bad:
                return bad
            if counter[3][0][2] or p[3][0][2]:
                return "txn %d: `@ rate` on a row without conversion" % i
        else:
            sv, sc_, scom = num(counter[3][0][1])
            if scom != cv["sc"]:
                return "txn %d: counter commodity %r, secondary commodity %r" % (i, scom, cv["sc"])
            if cv["mode"] == "extract":
                mag, spl = cv["sec"]
                wantv = -abs(mag) if value > 0 or (value == 0 and p is posts[0]) else abs(mag)
                if abs(sv) != abs(mag) or (sv != 0 and value != 0 and (sv > 0) == (value > 0)):
                    return "txn %d: counter amount %s, the secondary-amount cell writes %s (sign opposite to the amount %s)" % (i, sv, mag, value)
                if sc_ != max(spl, prec.get(scom, 0)):
                    return "txn %d: counter amount with %d places, %d written, precision %s" % (i, sc_, spl, prec.get(scom))
            rated, other, rcom = (p, counter, cv["sc"]) if cv["rate_mode"] == "price_of_primary" else (counter, p, e["commodity"])
            if other[3][0][2]:
                return "txn %d: `@ rate` on the posting whose commodity it does not price" % i
            if not rated[3][0][2] or rated[3][0][2][0][0] != "rate":
                return "txn %d: no `@ rate` on the posting whose commodity the rate prices" % i
            bad = want("txn %d rate" % i, rated[3][0][2][0][1], cv["rate"][0], cv["rate"][1], rcom)
            if bad:
                return bad
    return None


def run_csv_cells_stream(chk, n):
    cases = [gen_csvcells_case(chk.rng, i) for i in range(n)]
    hx_lines = [" ".join([enc("stmt.csv"), enc(docs_yaml([c["doc"]])), enc(c["text"])] + [enc(h) for h in c["hays"]]) for c in cases]
    impl = run_sharded(HX, ["c15", "csv"], hx_lines)
    chk.streams["csv-cells"] = len(cases)
    parsed, drv_lines, idx = [], [], []
    for a in impl:
        t = sx_parse(a) if a.startswith("(ok ") else None
        parsed.append(t)
        if t is None:
            continue
        cells = sx_find(t, "cells")[1]
        if cells[0] != "ok":
            continue
        drv_lines.append("(case %s %s %s %s %s)" % (sx_str(sx_find(t, "cfg")[1]), sx_str(sx_find(t, "pats")), sx_str(sx_find(t, "table")),
                                                    sx_str(["cells"] + cells[1:]), sx_str(sx_find(t, "dates"))))
        idx.append(len(parsed) - 1)
    model = dict(zip(idx, run_sharded(DRV, ["c15", "csv"], drv_lines)))
    for k, (c, line, a, t) in enumerate(zip(cases, hx_lines, impl, parsed)):
        replay = {"stream": "c15 csv-cells", "config": docs_yaml([c["doc"]]), "statement": c["text"].decode("utf-8"),
                  "rerun": "echo '%s' | /verif/work/target/debug/hx c15 csv" % line}
        if a.startswith("(panic"):
            chk.case(line)
            chk.oracle_failures += 1
            chk.violation("the CSV importer panicked on a statement: %s" % dec(a[7:-1])[:200], replay)
            continue
        if t is None:
            chk.case(line, nontrivial=False)
            chk.count("csv-cells:config-refused")
            continue
        I = sx_find(t, "import")[1]
        D = sx_find(t, "dump")[1]
        chk.case(line, nontrivial=I[0] == "ok" and len(I) > 1)
        chk.traces += 1
        chk.count("csv-cells:%s" % ("imported" if I[0] == "ok" else "refused:" + I[2]))
        if c["fancy"]:
            chk.count("csv-cells:cells-with-commodity-text-or-minus-signs")
        if c["templates"]:
            chk.count("csv-cells:with-templates")
        # ---- oracles on the real code, independent of the model
        bad = None
        same = any(e.get("same_commodity") and e["dated"] for e in c["expect"])
        if c["refused"]:
            if I[0] == "ok":
                bad = "a number cell that writes no number was accepted"
        elif I[0] != "ok":
            if not same:
                bad = "a statement whose number cells all write numbers was refused: %s" % I[2]
        else:
            diffs, _ = readback(D, c["prec"], None)
            if diffs:
                bad = "the printed text does not read back as the transactions built (clean text): %s" % diffs[0]
            else:
                bad = written_oracle(c, sx_find(D, "reparse")[1][1:])
        if bad is not None:
            chk.oracle_failures += 1
            chk.violation("CSV import, number cells: " + bad, dict(replay, impl=a[:3000]))
            continue
        # ---- the model (numbers and templates decoded from their text) vs the implementation
        b = model.get(k)
        if b is None:
            chk.count("csv-cells:cells-not-decodable-by-the-csv-crate")
            continue
        if b.startswith("(table-incomplete"):
            chk.count("csv-cells:regex-table-incomplete")
            continue
        tb = sx_parse(b) if b.startswith("(ok ") else None
        mi = sx_find(tb, "import")[1] if tb else None
        if mi != I:
            chk.disagreements += 1
            chk.violation("model (cells decoded from their text) and implementation of the CSV importer disagree",
                          dict(replay, impl_import=sx_str(I)[:3000], model_import=sx_str(mi)[:3000] if mi else b[:500]), no_failing_input=True, tag="corr")
    k = min(4, len(cases) - 1)
    chk.sample({"stream": "csv-cells", "statement": cases[k]["text"].decode("utf-8"), "config": docs_yaml([cases[k]["doc"]]), "impl": impl[k][:1200],
                "model": model.get(k, "")[:600]})


# ------------------------------------------------------------------------------------------------
# F15 witnesses through the real CSV importer

F15_CONFIG = {"path": "stmt", "encoding": "UTF-8", "account": "Assets:Bank", "account_type": "asset", "commodity": "CHF",
              "format": {"date": "%Y-%m-%d", "fields": {"date": 1, "payee": 2, "amount": 3, "note": 4}}}
F15_WITNESSES = [
    ("payee containing `;`", "date,payee,amount,note\n2024-01-05,shop ; evil,-12.50,\n"),
    ("note with a line break", "date,payee,amount,note\n2024-01-05,shop,-12.50,\"first line\n    Assets:Hidden  1000000 CHF\"\n"),
    ("payee starting with `(`", "date,payee,amount,note\n2024-01-05,(abc) def,-12.50,\n"),
]


def replay_f15(chk):
    lines = ["csv %s %s %s" % (enc("stmt.csv"), enc(docs_yaml([F15_CONFIG])), enc(c)) for _, c in F15_WITNESSES]
    out = run_hx(["c15", "import"], lines)
    res = []
    for (name, c), a in zip(F15_WITNESSES, out):
        t = sx_parse(a)
        if t[0] != "ok":
            res.append((name, None, a[:200]))
            continue
        diffs, _ = readback(t, {}, 1)
        res.append((name, diffs, dec(sx_find(t, "text")[1])))
    return res


# the CSV statements restated from the FILE TEXT (csv reader model of C16, Lemmas/CsvTextFile.lean)
FILE_THEOREMS = ['Okane.Import.C15_csv_readback_ledger_file', 'Okane.Import.C15_csv_amount_readback_file']

def run(chk):
    chk.rule = ("txn stream: random builder-call sequences for single_entry::Txn (dates incl. year 1 / 9999 / leap day, amounts of both sign "
                "flags incl. zero and scales 0-8, transferred amounts, rates, balances, 0-2 charges incl. not-included ones, explicit "
                "states, 0-2 comments, codes) with every text field drawn from a mix of words and a hostile alphabet "
                "(; ( ) * ! two blanks tab CR LF = @ : \" , U+3000 accents CJK) at hostile rates 0 / 3 / 25 / 50 %, and commodities incl. "
                "invalid ones; importer stream: CSV (index columns in random order, amount or credit/debit, optional note / category / "
                "balance / commodity / charge / rate+secondary columns, grouping commas, both account types and row orders, precision "
                "tables, capture rules routing hostile text into payee and code), Viseca and Camt053 files with the same text; cases are "
                "partitioned by the Lean predicates CleanText / ReadableTree; non-trivial = carries charges, rates, transferred amount, "
                "comments or code / builds at least one transaction; viseca-text stream: hand-written corner statements (every bad number / "
                "bad date at every place a number / date can stand, line-structure corners of parse_entry, the F38 witness) + generated "
                "statements of 1-6 records (payees with digits / commas / country codes / `'` / Air- text / currency-like endings, `'` grouping "
                "in three styles, ` -` credits, foreign currency with exchange line and fee / credit of fee, same-currency fee, air-tag "
                "lines, dates across years and the 69/70 window, three configurations of rewrite rules incl. invalid ones, with / without "
                "operator), 40 % of them damaged by one or two of 15 mutations; csv-cells stream: CSV statements of 1-6 records whose number cells "
                "(amount or credit/debit, balance, charge, rate, secondary amount) are written with currency signs / commodity codes before or after "
                "the number, thousands separators, blanks and tabs, 0-3 minus signs (leading, on the number, by a negating template), 8 % with one "
                "cell that writes no number (16 shapes incl. 97-bit and 29-place numbers); index / label / template positions, 5 delimiters, "
                "0-2 skipped head lines, both account types, row orders and value layouts, precision tables, conversions in three modes")
    chk.assumptions = ["the read-back (print then parse) is proved over the printer / parser models of C05 and checked by the oracle on the real printer and parser",
                       "CSV: the csv crate (cells), chrono (dates) and the regex engine are outside the model; number cells and templates are decoded by the model from their text",
                       "csv / quick-xml / regex / chrono decoding happen before the model (decoded record = model input); for Viseca the model "
                       "starts at the lines of the file: BufRead::read_line (cut after LF, per-line UTF-8 check), the regex crate's leftmost-first "
                       "semantics on the four fixed patterns, chrono's %d.%m.%y and rust_decimal's from_str are transliterated by hand and "
                       "validated by the viseca-text stream; the regex engine for the CONFIGURED rewrite patterns stays a parameter",
                       "rust_decimal addition outside 96 bits / scale 28 is not modelled"]
    if not standard_prologue(chk, THEOREMS + FILE_THEOREMS, imports=["Okane.Lemmas.CsvTextFile"]):
        return
    quick = chk.tier == "quick"
    f15 = []
    run_txn_stream(chk, 1600 if quick else 40000, f15)
    run_import_stream(chk, 500 if quick else 8000, f15)
    run_viseca_text_stream(chk, 600 if quick else 12000)
    run_csv_cells_stream(chk, 400 if quick else 10000)
    # F15: the recorded witnesses on the real CSV importer
    res = replay_f15(chk)
    known = [f for f in chk.known if f["id"] == "F15"]
    still = [(n, d) for n, d, _ in res if d]
    chk.count("f15:witnesses-still-failing", len(still))
    chk.count("f15:class-hits-in-hostile-streams", len(f15))
    chk.sample({"stream": "f15 witnesses", "results": [{"witness": n, "differences": d, "printed": p} for n, d, p in res]})
    if still or f15:
        what = ("statement text outside CleanText is printed verbatim and does not read back: %s; %d further cases of the same class in the "
                "hostile streams (e.g. %s)" % ("; ".join("%s -> %s" % (n, d[0]) for n, d in still), len(f15), f15[0][1] if f15 else "-"))
        what = what.replace("\r", "\\r").replace("\n", "\\n")
        if known:
            chk.known_finding("F15", what)
        else:
            chk.oracle_failures += 1
            chk.violation("import prints statement text verbatim; the output does not read back as the transaction built: " + what,
                          {"stream": "c15 f15", "config": docs_yaml([F15_CONFIG]), "witnesses": [{"name": n, "csv": c} for n, c in F15_WITNESSES],
                           "results": [{"witness": n, "differences": d, "printed": p} for n, d, p in res]})
