"""Small generator of *accepted* ledgers with account/commodity declarations, aliases, costs, lot prices and balance
assertions (used by the C11 and C12 checks).  Standard library only; all randomness from the `rng` passed in.

A ledger is a list of entries; every account / commodity *occurrence* in a transaction is a `Name` that knows its
canonical spelling and the spelling to print, so that C12 can substitute aliases occurrence by occurrence.
Amounts are small decimals with at most two places, so rust_decimal is exact and no rounding is involved
(declared formats have two places).  Balance assertions carry the exact running balance, which makes the ledger
order dependent: moving a transaction across another one that touches the same account breaks an assertion, and
using an alias before its declaration turns it into a canonical name that the declaration then rejects.
"""
from decimal import Decimal

ACCOUNTS = ["Assets:Bank", "Assets:Cash", "Expenses:Food", "Expenses:Eating Out", "Income:Salary", "Equity:Opening",
            "Liabilities:Card", "資産:現金"]
ACCOUNT_ALIASES = {
    "Assets:Bank": ["bank", "B:1", "Assets:ZKB"], "Assets:Cash": ["cash", "Wallet", "Cash, petty"], "Expenses:Food": ["food", "Expenses:Grocery"],
    "Expenses:Eating Out": ["eo", "Expenses:Restaurant Bills"], "Income:Salary": ["salary", "Income:Job"],
    "Equity:Opening": ["opening"], "Liabilities:Card": ["card", "Visa Card", "Card, Visa"], "資産:現金": ["げんきん", "genkin"],
}
COMMODITIES = ["USD", "EUR", "AAA", "JPY"]
# (quotes are characters of a commodity name like any other)
COMMODITY_ALIASES = {"USD": ["US$", "Dollar", "\"US\""], "EUR": ["€", "Euro"], "AAA": ["Triple", "AAA_"], "JPY": ["円", "Yen"]}


def fmt_dec(d):
    s = format(d, "f")
    return s


class Name:
    __slots__ = ("canonical", "written", "kind", "options")

    def __init__(self, canonical, kind, written=None, options=()):
        self.canonical = canonical
        self.kind = kind            # "a" account, "c" commodity
        self.written = written if written is not None else canonical
        self.options = list(options)    # aliases of `canonical` declared before this occurrence


class Amount:
    def __init__(self, value, comm):
        self.value = value          # Decimal
        self.comm = comm            # Name

    def text(self):
        return "%s %s" % (fmt_dec(self.value), self.comm.written)


class Posting:
    def __init__(self, account, amount=None, cost=None, lot=None, assertion=None):
        self.account = account      # Name
        self.amount = amount        # Amount | None
        self.cost = cost            # ("@"|"@@", Amount) | None
        self.lot = lot              # ("{"|"{{", Amount) | None
        self.assertion = assertion  # Amount | "0" | None

    def names(self):
        out = [self.account]
        if self.amount:
            out.append(self.amount.comm)
        if self.lot:
            out.append(self.lot[1].comm)
        if self.cost:
            out.append(self.cost[1].comm)
        if isinstance(self.assertion, Amount):
            out.append(self.assertion.comm)
        return out

    def text(self):
        s = "    " + self.account.written
        if self.amount is not None or self.assertion is not None:
            s += "    "
        if self.amount is not None:
            s += self.amount.text()
            if self.lot:
                s += " %s%s%s" % (self.lot[0], self.lot[1].text(), "}" * len(self.lot[0]))
            if self.cost:
                s += " %s %s" % (self.cost[0], self.cost[1].text())
        if self.assertion is not None:
            s += (" " if self.amount is not None else "") + "= " + ("0" if self.assertion == "0" else self.assertion.text())
        return s


_TRAIL = ["", "", "", " ", "\t", "\u3000", "\u00a0 ", "  \t"]


def trail(v):
    """trailing white space after a declared name or alias (blank, tab, ideographic space, no-break space): it is not
    part of the name — a posting written without it must reach the same account (deterministic in the text)"""
    return _TRAIL[sum(map(ord, v)) % len(_TRAIL)]


def lead(k, v):
    """the blank run between a sub-directive keyword and its value (hand-aligned declaration blocks): one or more blanks or
    tabs, none of them part of the value (deterministic in the text)"""
    if k == ";":
        return " "
    return [" ", " ", "  ", "   ", "\t", " \t "][(sum(map(ord, v)) + len(k)) % 6]


def indent(k, v, prev):
    """the indentation of a sub-directive line: any run of blanks / tabs; a line under a `note` line is often indented DEEPER than
    the note (it still is a sub-directive of its own, never a continuation of the note) (deterministic in the text)"""
    base = ["    ", "  ", "    ", "\t", "      "][(sum(map(ord, v)) + 3 * len(k)) % 5]
    if prev == "note" and (sum(map(ord, v)) % 3) != 0:
        return "        "
    return base


class Entry:
    """kind: 'txn' | 'account' | 'commodity' | 'comment' """

    def __init__(self, kind, **kw):
        self.kind = kind
        self.__dict__.update(kw)

    def names(self):
        if self.kind != "txn":
            return []
        out = []
        for p in self.postings:
            out.extend(p.names())
        return out

    def text(self):
        if self.kind == "comment":
            return "; " + self.body + "\n"
        if self.kind == "account":
            s = "account %s%s\n" % (self.name, trail(self.name))
            prev = None
            for k, v in self.details:
                s += "%s%s%s%s%s\n" % (indent(k, v, prev), k, lead(k, v), v, trail(v) if k == "alias" else "")
                prev = k
            return s
        if self.kind == "commodity":
            s = "commodity %s%s\n" % (self.name, trail(self.name))
            prev = None
            for k, v in self.details:
                s += "%s%s%s%s%s\n" % (indent(k, v, prev), k, lead(k, v), v, trail(v) if k == "alias" else "")
                prev = k
            return s
        s = "%s %s\n" % (self.date, self.payee)
        for p in self.postings:
            s += p.text() + "\n"
        return s


def render(entries):
    return "\n".join(e.text() for e in entries)


class Gen:
    """generates one accepted ledger; `self.decl[kind][alias] = (canonical, entry index of the declaration)`."""

    def __init__(self, rng, n_entries=None, use_aliases=True, p_decl=0.3):
        self.rng = rng
        self.n = n_entries if n_entries is not None else rng.randint(4, 11)
        self.use_aliases = use_aliases
        self.p_decl = p_decl
        self.bal = {}                                   # (account, commodity) -> Decimal
        self.decl = {"a": {}, "c": {}}                  # alias -> (canonical, index)
        self.aliases_of = {"a": {}, "c": {}}            # canonical -> [alias...]
        self.formatted = set()
        self.day = 0
        self.entries = []

    # ---- names
    def name(self, canonical, kind):
        """an occurrence of `canonical`, possibly written through an already declared alias."""
        al = self.aliases_of[kind].get(canonical, [])
        if self.use_aliases and al and self.rng.random() < 0.5:
            return Name(canonical, kind, self.rng.choice(al), al)
        return Name(canonical, kind, None, al)

    def value(self, places_ok=True):
        r = self.rng
        if places_ok and r.random() < 0.3:
            return Decimal(r.randint(1, 9999)) / Decimal(100)
        return Decimal(r.randint(1, 500))

    def add(self, account, comm, v):
        k = (account, comm)
        self.bal[k] = self.bal.get(k, Decimal(0)) + v
        return self.bal[k]

    # ---- entries
    def gen_decl(self, idx):
        r = self.rng
        kind = "a" if r.random() < 0.6 else "c"
        pool = ACCOUNTS if kind == "a" else COMMODITIES
        table = ACCOUNT_ALIASES if kind == "a" else COMMODITY_ALIASES
        canonical = r.choice(pool)
        details = []
        fresh = [a for a in table[canonical] if a not in self.decl[kind]]
        again = [a for a in table[canonical] if a in self.decl[kind]]
        for a in fresh:
            if r.random() < 0.6:
                details.append(("alias", a))
        if again and r.random() < 0.3:
            details.append(("alias", r.choice(again)))      # same alias, same canonical: accepted
        if r.random() < 0.3:
            details.insert(r.randint(0, len(details)), ("note", "n %d" % idx))
        if r.random() < 0.2:
            details.insert(r.randint(0, len(details)), (";", "c %d" % idx))
        if kind == "c" and canonical != "JPY" and r.random() < 0.4:
            # a commodity declared again may give another number of places (amounts here have at most two, so nothing
            # changes for the books); sub-directives that follow the format line count as before
            places = 2 if canonical not in self.formatted else r.choice([2, 3, 4])
            self.formatted.add(canonical)
            details.insert(r.randint(0, len(details)), ("format", "1,000.%s %s" % ("0" * places, canonical)))
        r.shuffle(details) if r.random() < 0.3 else None
        e = Entry("account" if kind == "a" else "commodity", name=canonical, details=details)
        for k, v in details:
            if k == "alias" and v not in self.decl[kind]:
                self.decl[kind][v] = (canonical, idx)
                self.aliases_of[kind].setdefault(canonical, []).append(v)
        return e

    def gen_txn(self, idx):
        r = self.rng
        self.day += r.randint(0, 3)
        date = "2024/%02d/%02d" % (1 + (self.day // 28) % 12, 1 + self.day % 28)
        a1, a2 = r.sample(ACCOUNTS, 2)
        shape = r.choice(["plain", "plain", "omit", "cost", "total", "lot", "lotcost", "assign", "three"])
        posts = []

        def maybe_assert(acct, comm):
            if r.random() < 0.55:
                return Amount(self.bal.get((acct, comm), Decimal(0)), self.name(comm, "c"))
            return None

        if shape in ("plain", "omit", "three", "assign"):
            c = r.choice(["USD", "EUR", "JPY"])
            v = self.value(c != "JPY")
            if r.random() < 0.3:
                v = -v
            if shape == "plain":
                self.add(a1, c, v)
                p1 = Posting(self.name(a1, "a"), Amount(v, self.name(c, "c")), assertion=maybe_assert(a1, c))
                self.add(a2, c, -v)
                p2 = Posting(self.name(a2, "a"), Amount(-v, self.name(c, "c")), assertion=maybe_assert(a2, c))
                posts = [p1, p2]
            elif shape == "omit":
                self.add(a1, c, v)
                p1 = Posting(self.name(a1, "a"), Amount(v, self.name(c, "c")), assertion=maybe_assert(a1, c))
                self.add(a2, c, -v)
                posts = [p1, Posting(self.name(a2, "a"))]
                if r.random() < 0.4:
                    posts.reverse()
            elif shape == "three":
                a3 = r.choice([a for a in ACCOUNTS if a not in (a1, a2)])
                w = self.value(c != "JPY")
                self.add(a1, c, v)
                p1 = Posting(self.name(a1, "a"), Amount(v, self.name(c, "c")), assertion=maybe_assert(a1, c))
                self.add(a2, c, w)
                p2 = Posting(self.name(a2, "a"), Amount(w, self.name(c, "c")), assertion=maybe_assert(a2, c))
                self.add(a3, c, -v - w)
                p3 = Posting(self.name(a3, "a"), Amount(-v - w, self.name(c, "c")), assertion=maybe_assert(a3, c))
                posts = [p1, p2, p3]
            else:  # assign: balance-only posting sets the balance; the other posting is omitted
                target = self.bal.get((a1, c), Decimal(0)) + v
                self.bal[(a1, c)] = target
                self.add(a2, c, -v)
                posts = [Posting(self.name(a1, "a"), assertion=Amount(target, self.name(c, "c"))), Posting(self.name(a2, "a"))]
        else:
            qty = Decimal(r.randint(1, 20))
            if r.random() < 0.25:
                qty = -qty
            rate = Decimal(r.randint(1, 40)) / Decimal(r.choice([1, 2, 4]))
            c = r.choice(["USD", "EUR"])
            total = abs(qty) * rate
            signed = total if qty > 0 else -total
            cost = lot = None
            if shape == "cost":
                cost = ("@", Amount(rate, self.name(c, "c")))
            elif shape == "total":
                cost = ("@@", Amount(total, self.name(c, "c")))
            elif shape == "lot":
                lot = ("{", Amount(rate, self.name(c, "c"))) if r.random() < 0.6 else ("{{", Amount(total, self.name(c, "c")))
            else:
                lot = ("{", Amount(rate, self.name(c, "c")))
                cost = ("@", Amount(rate + 1, self.name(c, "c")))     # balance uses the lot price
            self.add(a1, "AAA", qty)
            p1 = Posting(self.name(a1, "a"), Amount(qty, self.name("AAA", "c")), cost=cost, lot=lot,
                         assertion=maybe_assert(a1, "AAA"))
            self.add(a2, c, -signed)
            if r.random() < 0.5:
                p2 = Posting(self.name(a2, "a"))
            else:
                p2 = Posting(self.name(a2, "a"), Amount(-signed, self.name(c, "c")), assertion=maybe_assert(a2, c))
            posts = [p1, p2]
        return Entry("txn", date=date, payee=r.choice(["shop", "salary", "rent 2", "café", "振込"]), postings=posts)

    def generate(self):
        r = self.rng
        for i in range(self.n):
            x = r.random()
            if x < self.p_decl:
                e = self.gen_decl(i)
            elif x < self.p_decl + 0.08:
                e = Entry("comment", body="note %d" % i)
            else:
                e = self.gen_txn(i)
            self.entries.append(e)
        if not any(e.kind == "txn" for e in self.entries):
            self.entries.append(self.gen_txn(self.n))
        return self.entries
