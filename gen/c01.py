"""C01 — accepted transactions balance; unbalanced ones are rejected, not crashed on."""
from bookstream import run_stream, judge
from common import standard_prologue

CLAIM = {
    "technique": "Lean 4 theorems about a model of add_transaction/check_balance (all posting lists, histories, map orders) + differential correspondence on generated ledgers + independent reference-semantics oracle",
    "text": ("Proof: `Okane.addTransaction` (Lean model of add_transaction, process_posting and check_balance after name "
             "resolution, exact rational arithmetic) is proved for every prior balance, every posting list and every order of the "
             "residual map: C01_sound (accepted => rounded totals all zero, or exactly one omitted amount, or exactly two non-zero "
             "totals of opposite sign), C01_no_crash (never panics / loops), C01_reject (not balanced => an error, never accepted), "
             "C01_complete (assertions permitting, all-zero totals or one omitted amount => accepted); lifted to whole ledgers by "
             "C01_history (every transaction of an accepted ledger, after any history, is balanced) and C01_named (a failing run "
             "reports the index of the offending entry, all earlier entries having been processed). Text level "
             "(Lemmas/BookText.lean, the parser model composed with process; okaneAccepts t := t parses and process accepts the "
             "entries): C01_text / C01_text_accepts (every transaction of an accepted TEXT is Balanced, exactly as C01_history), "
             "process_err_at / process_err_iff (converse of C01_named: entries before k processed and step k failing with e <=> "
             "process returns exactly (k, e)), stepEntry_txn_reject (C01_reject through the syntax layer: no balanced resolution "
             "=> the step is an error value, not accepted, no crash), C01_text_reject (a text whose k-th parsed entry is such a "
             "transaction, the earlier ones being fine, is rejected with error index k and is not accepted), C01_text_named, "
             "C01_text_no_crash. These compose the PARSER MODEL (validated against parse_ledger by C05/C06/C14, not proved equal "
             "to it) with process. The model is tied to /repo on "
             "every run by running the real report::process and the model on the implementation's own parsed tree for generated "
             "ledgers covering the boundary classes (zero-valued residual entries, same-sign pairs, half-unit rounding, zero-quantity "
             "@@, zero / same-commodity rates, lot+cost, 1..6 postings, after histories) and diffing transactions, balances and "
             "error kind/index; a reference semantics written from the property text (python, exact fractions) independently judges "
             "the implementation's verdict, so a model-vs-code disagreement is turned into a concrete failing ledger."),
    "note": ("modelled, not verified: rust_decimal arithmetic (exact rationals in the model; generators stay in the exact range), "
             "the parser (the model consumes the implementation's parsed tree), rendering of the diagnostic (C14). The error naming "
             "the transaction is checked through the entry index recovered from the rendered location."),
    "design_ref": "DESIGN.md section 6, C01",
}

THEOREMS = ["Okane.C01_sound", "Okane.C01_no_crash", "Okane.C01_reject", "Okane.C01_complete",
            "Okane.C01_history", "Okane.C01_named", "Okane.addTransactionSyntax_core",
            "Okane.balanceAmount_eq_spec", "Okane.BalOK_loop", "Okane.loop_aligned", "Okane.aligned_total", "Okane.loop_omitted",
            # text level (Lemmas/BookText.lean; cannot live in Props/C01.lean: C01_history is in Props/Book.lean, which imports Props/C01)
            "Okane.BookText.C01_text", "Okane.BookText.C01_text_accepts", "Okane.BookText.process_err_at",
            "Okane.BookText.process_err_iff", "Okane.BookText.stepEntry_txn_reject", "Okane.BookText.C01_text_reject",
            "Okane.BookText.C01_text_named", "Okane.BookText.C01_text_no_crash", "Okane.BookText.C04_text_raw",
            "Okane.BookText.okaneAccepts_of_check"]

FLAVORS = ["pair", "same-sign", "zero-entry", "three-commodity", "half-unit", "unbalanced", "zero-rate",
           "same-commodity-rate", "total-cost", "neg-total", "lot-and-cost", "omitted", "multi-omitted", "bare-number"]


def run(chk):
    chk.rule = ("random structured ledgers (1-6 transactions, 1-6 postings; explicit/omitted/assigned amounts, costs @/@@, lot prices, "
                "parenthesised expressions, declared precisions 0-3) with 60% of the cases forced into C01's boundary flavors; plus "
                "EXHAUSTIVELY every 2-posting transaction over 3 commodities x values {-1,0,1} x {plain,@,@@,{}} (thorough: values "
                "{-2..2}, precisions {none,0}, and every 3-posting transaction over {-1,0.5,1}); "
                "non-trivial = the implementation accepted or rejected it by a book-keeping rule; distinct = distinct ledger texts")
    chk.assumptions = ["rust_decimal is exact on the generated values (small decimals, rates 2^a*5^b)",
                       "the parser is outside this check: the model and the oracle consume the implementation's parsed tree"]
    if not standard_prologue(chk, THEOREMS, imports=["Okane.Props.Book", "Okane.Lemmas.BookText"]):
        return
    n = 2500 if chk.tier == "quick" else 60000
    from bookstream import exhaustive_txns
    if chk.tier == "quick":
        ex = exhaustive_txns(["-1", "0", "1"], 2, [None])                      # (3*3*4)^2 + 36 = 1332 transactions
    else:
        ex = exhaustive_txns(["-2", "-1", "0", "1", "2"], 2, [None, 0]) + exhaustive_txns(["-1", "0.5", "1"], 3, [None])
    chk.streams["exhaustive 2-/3-posting transactions"] = len(ex)
    recs = run_stream(chk, n, FLAVORS, exhaustive=ex)
    chk.streams["process"] = len(recs)
    judge(chk, recs, "C01")
