"""Shared correspondence/oracle stream of the book-keeping properties (C01-C04).

generated ledger text -> real `report::process` (hx process) -> Lean model on the implementation's parsed tree
(drv process) -> diff;  and, independent of the model, the reference semantics (refbook.py, written from the
property statements) is compared with the implementation's verdict and every mismatch is attributed to the
property whose statement it contradicts.
"""
import os

import refbook
import sexp
from common import HX, DRV, enc, dec, run_sharded, VERIF
from ledgergen import Gen

BAL_KINDS = ("UnbalancedPostings",)


def parse_impl(res):
    x = sexp.parse(res)
    if x[0] == "ok":
        txns = []
        for t in x[1][1:]:
            posts = [(dec(p[1]), sexp.amount(p[2]), sexp.opt(p[3])) for p in t[2:]]
            txns.append({"date": sexp.date(t[1]), "postings": posts})
        bal = {dec(e[0]): sexp.amount(e[1]) for e in x[2][1]}
        return {"kind": "ok", "txns": txns, "bal": bal}
    if x[0] == "err":
        d = {"kind": "err", "idx": int(x[1]) if x[1].isdigit() else None, "err": x[2], "rest": x[3:]}
        return d
    if x[0] == "panic":
        return {"kind": "panic", "msg": dec(x[1])}
    return {"kind": x[0], "raw": x}


def nz(d):
    return {c: v for c, v in d.items() if v != 0}


def compare(tree, impl):
    """-> (list of (property, message), info dict).  Attribution follows the property statements."""
    out = []
    info = {}
    ref = refbook.run(tree)
    info["ref"] = ref[0] if ref[0] == "ok" else "err:" + ref[2].kind
    if impl["kind"] == "panic":
        out.append(("C01", "book-keeping crashed (panic: %s)" % impl["msg"][:120]))
        out.append(("C06", "panic in report::process: %s" % impl["msg"][:120]))
        return out, info
    if impl["kind"] not in ("ok", "err"):
        return out, info
    r = ref[-1]
    f12 = any(t["f12"] for t in r.txns)
    info["f12"] = f12
    info["classes"] = [t["cls"] for t in r.txns]
    if ref[0] == "ok" and impl["kind"] == "ok":
        if len(r.txns) != len(impl["txns"]):
            out.append(("C01", "number of accepted transactions differs"))
            return out, info
        for i, (rt, it) in enumerate(zip(r.txns, impl["txns"])):
            if len(rt["postings"]) != len(it["postings"]):
                out.append(("C03", "txn %d: number of postings differs" % i))
                continue
            tt = [e for e in tree if e[0] == "txn"][i]
            for j, ((ra, rx), (ia, ix, _conv)) in enumerate(zip(rt["postings"], it["postings"])):
                p = tt[6][j]
                inferred = not p[3]
                if ra != ia:
                    out.append(("C12", "txn %d posting %d: account %r, expected canonical %r" % (i, j, ia, ra)))
                if nz(rx) != nz(ix) or (not inferred and set(rx) != set(ix)):
                    if inferred and rt["f12"]:
                        continue
                    prop = "C03" if inferred else "C08"
                    out.append((prop, "txn %d posting %d (%s): amount %s, the property gives %s"
                                % (i, j, "inferred" if inferred else "written", fmt_amt(ix), fmt_amt(rx))))
            if rt["cls"] not in ("zero", "omitted", "pair"):
                out.append(("C01", "txn %d accepted although its rounded totals are %s" % (i, fmt_amt(rt["residual"]))))
        # C04 (whole history): reported balance == sum of the register == reference
        sums = {}
        for it in impl["txns"]:
            for (a, x, _c) in it["postings"]:
                d = sums.setdefault(a, {})
                for c, v in x.items():
                    d[c] = d.get(c, 0) + v
        for a in set(sums) | set(impl["bal"]):
            if nz(sums.get(a, {})) != impl["bal"].get(a, {}):
                out.append(("C04", "account %s: balance %s but its postings sum to %s"
                            % (a, fmt_amt(impl["bal"].get(a, {})), fmt_amt(nz(sums.get(a, {}))))))
        if not f12:
            for a in set(r.bal) | set(impl["bal"]):
                if nz(r.bal.get(a, {})) != impl["bal"].get(a, {}):
                    out.append(("C04", "account %s: balance %s, expected %s" % (a, fmt_amt(impl["bal"].get(a, {})), fmt_amt(nz(r.bal.get(a, {}))))))
        return out, info
    if ref[0] == "ok" and impl["kind"] == "err":
        k = impl["err"]
        idx = impl["idx"]
        # which transaction is it?
        tidx = None
        if idx is not None and idx < len(tree) and tree[idx][0] == "txn":
            tidx = sum(1 for e in tree[:idx] if e[0] == "txn")
        cls = r.txns[tidx]["cls"] if tidx is not None and tidx < len(r.txns) else None
        tf12 = r.txns[tidx]["f12"] if tidx is not None and tidx < len(r.txns) else False
        if k in BAL_KINDS:
            if cls in ("zero", "omitted"):
                out.append(("C01", "entry %s rejected as unbalanced although %s" % (idx, "its rounded totals are all zero" if cls == "zero" else "it has exactly one omitted amount")))
            # cls == pair: the statement allows acceptance, does not demand it
        elif k == "UndeduciblePostingAmount":
            out.append(("C03", "entry %s rejected as undeducible although it has at most one unconstrained posting" % idx))
        elif k == "BalanceAssertionFailure":
            if not tf12:
                out.append(("C02", "entry %s: assertion reported false but it is true at its position" % idx))
        elif k == "BalanceFailure":
            if not tf12:
                out.append(("C03", "entry %s: `= 0` rejected although the account holds at most one commodity" % idx))
        elif k == "EvalFailure":
            out.append(("C08", "entry %s: evaluation failed (%s) on a well-typed expression" % (idx, impl["rest"])))
        elif k in ("InvalidAccount", "InvalidCommodity"):
            out.append(("C12", "entry %s: declaration rejected without a conflict" % idx))
        else:
            out.append(("C01", "entry %s rejected (%s) although the transaction is acceptable" % (idx, k)))
        return out, info
    # reference rejects
    _, ridx, be, _r = ref
    lat = be.detail.get("latitude", False)
    if impl["kind"] == "ok":
        if lat:
            return out, info
        prop = {"UnbalancedPostings": "C01", "UndeduciblePostingAmount": "C03", "BalanceAssertionFailure": "C02",
                "BalanceFailure": "C03", "EvalFailure": "C08", "InvalidAccount": "C12", "InvalidCommodity": "C12"}.get(be.kind, "C01")
        if be.kind in ("BalanceAssertionFailure", "BalanceFailure") and f12:
            return out, info
        out.append((prop, "ledger accepted although entry %d must be rejected (%s %s)" % (ridx, be.kind, fmt_detail(be.detail))))
        return out, info
    # both reject
    if impl["idx"] != ridx:
        if not (f12 and impl["idx"] is not None and impl["idx"] < ridx and impl["err"] in ("BalanceAssertionFailure", "BalanceFailure")):
            prop = {"BalanceAssertionFailure": "C02"}.get(be.kind, "C01")
            out.append((prop, "error names entry %s but the first offending entry is %d (%s)" % (impl["idx"], ridx, be.kind)))
        return out, info
    if impl["err"] != be.kind:
        if not lat and not f12:
            out.append(("C01", "entry %d rejected as %s, expected %s" % (ridx, impl["err"], be.kind)))
        return out, info
    if be.kind == "BalanceAssertionFailure" and not f12:
        rest = impl["rest"]
        pj = rest[0] if rest else "?"
        comp = sexp.amount(rest[1]) if len(rest) > 1 and isinstance(rest[1], list) else None
        if str(be.detail["posting"]) != pj:
            out.append(("C02", "assertion failure points at posting %s, expected posting %d" % (pj, be.detail["posting"])))
        if comp is not None and comp != be.detail["computed"]:
            out.append(("C02", "reported computed balance %s, actual %s" % (fmt_amt(comp), fmt_amt(be.detail["computed"]))))
    if be.kind == "UndeduciblePostingAmount":
        rest = impl["rest"]
        if [str(be.detail["first"]), str(be.detail["second"])] != rest[:2]:
            out.append(("C03", "undeducible postings reported as %s, expected %s/%s" % (rest[:2], be.detail["first"], be.detail["second"])))
    return out, info


def fmt_amt(d):
    if d is None:
        return "?"
    return "{" + ", ".join("%s %s" % (v, c) for c, v in sorted(d.items())) + "}"


def fmt_detail(d):
    return ", ".join("%s=%s" % (k, fmt_amt(v) if isinstance(v, dict) else v) for k, v in d.items())


def corpus_cases(pids):
    out = []
    for pid in pids:
        d = os.path.join(VERIF, "corpus", pid)
        if os.path.isdir(d):
            for fn in sorted(os.listdir(d)):
                if fn.endswith(".ledger"):
                    out.append(("corpus/%s/%s" % (pid, fn), open(os.path.join(d, fn)).read(), {"flavors": ["corpus"]}))
    return out


def exhaustive_txns(values, nposts, precs):
    """every transaction of `nposts` postings over 3 commodities x `values` x {plain, @ rate, @@ total, {lot}}
    (+ one variant with an omitted last posting), for each precision setting"""
    import itertools
    coms = ["AAA", "BBB", "CCC"]
    kinds = ["", "@", "@@", "{}"]
    single = []
    for c in coms:
        other = coms[(coms.index(c) + 1) % 3]
        for v in values:
            for k in kinds:
                amt = "%s %s" % (v, c)
                if k == "@":
                    amt += " @ 2 %s" % other
                elif k == "@@":
                    amt += " @@ 2 %s" % other
                elif k == "{}":
                    amt += " {2 %s}" % other
                single.append(amt)
    out = []
    for prec in precs:
        head = "".join("commodity %s\n    format %s %s\n\n" % (c, "1" if prec == 0 else "1." + "0" * prec, c) for c in coms) if prec is not None else ""
        for combo in itertools.product(single, repeat=nposts):
            body = "".join("    Acct%d  %s\n" % (i, a) for i, a in enumerate(combo))
            out.append(head + "2024/01/01 x\n" + body)
        for combo in itertools.product(single, repeat=nposts - 1):
            body = "".join("    Acct%d  %s\n" % (i, a) for i, a in enumerate(combo))
            out.append(head + "2024/01/01 x\n" + body + "    Rest\n")
    return out


def run_stream(chk, n, flavors=None, corpus=("C01", "C02", "C03", "C04"), exhaustive=None):
    """runs the stream; returns records: dict(id, text, meta, impl, agree, model, mismatches, info)"""
    g = Gen(chk.rng)
    cases = corpus_cases(corpus)
    if exhaustive:
        for k, text in enumerate(exhaustive):
            cases.append(("x%d" % k, text, {"flavors": ["exhaustive"]}))
    for i in range(n):
        fl = None
        if flavors and chk.rng.random() < 0.6:
            fl = chk.rng.choice(flavors)
        text, meta = g.ledger(flavor=fl) if fl and chk.rng.random() < 0.5 else g.ledger()
        cases.append(("g%d" % i, text, meta))
    lines = ["%s %s" % (cid.replace(" ", "_"), enc(text)) for cid, text, _ in cases]
    impl_lines = run_sharded(HX, ["process"], lines, shards=12)
    model_lines = run_sharded(DRV, ["process"], impl_lines, shards=12)
    recs = []
    for (cid, text, meta), il, ml in zip(cases, impl_lines, model_lines):
        _id, f = sexp.fields(il)
        rec = {"id": cid, "text": text, "meta": meta, "impl_line": il, "model_line": ml}
        try:
            tree = sexp.parse(f["tree"])
            impl = parse_impl(f["result"])
        except Exception as e:  # noqa
            rec.update(agree=None, mismatches=[], info={"undecodable": str(e)}, impl={"kind": "undecodable"})
            recs.append(rec)
            continue
        rec["impl"] = impl
        words = ml.split(" ", 2)
        rec["agree"] = True if len(words) > 1 and words[1] == "agree" else (None if len(words) > 1 and words[1] == "skip" else False)
        rec["model"] = words[2] if len(words) > 2 else ""
        try:
            rec["mismatches"], rec["info"] = compare(tree, impl)
        except Exception as e:  # noqa  (oracle bug: report loudly, never silently)
            rec["mismatches"], rec["info"] = [("ORACLE", "reference semantics crashed: %r" % e)], {}
        recs.append(rec)
    return recs


def judge(chk, recs, pid, also=()):
    """Standard verdicts for property `pid` from the shared stream's records."""
    props = (pid,) + tuple(also)
    for rec in recs:
        impl = rec["impl"]
        kind = impl.get("kind")
        fl = ",".join(sorted(set(rec["meta"]["flavors"])))
        chk.case(rec["text"], nontrivial=kind in ("ok", "err") and len(rec["meta"]["flavors"]) > 0)
        chk.traces += 1
        chk.count("impl:" + (kind if kind != "err" else "err:" + impl["err"]))
        for f in set(rec["meta"]["flavors"]):
            chk.count("flavor:" + f)
        if rec["info"].get("f12"):
            chk.count("class:F12 (omitted posting's account re-asserted later in the same txn)")
        mine = [m for m in rec["mismatches"] if m[0] in props or m[0] == "ORACLE"]
        if mine:
            chk.oracle_failures += 1
            chk.violation("%s: %s" % (pid, "; ".join(m[1] for m in mine)[:400]),
                          {"ledger": rec["text"], "observed": rec["impl_line"].split(" result=")[-1], "model": rec["model_line"],
                           "failed_clauses": mine,
                           "rerun": "printf '%%s' \"$LEDGER\" > /tmp/x.ledger && /verif/work/target/debug/okane balance /tmp/x.ledger"})
        elif rec["agree"] is False and rec["mismatches"]:
            # the model/implementation disagreement on this input is a concrete violation of ANOTHER property
            # (reported, with this input as replay, by that property's own check)
            chk.count("disagreement explained by a violation of " + ",".join(sorted({m[0] for m in rec["mismatches"]})))
        elif rec["agree"] is False:
            chk.disagreements += 1
            chk.violation("model and implementation of report::process disagree; no clause of %s fails on this input" % pid,
                          {"stream": "process", "ledger": rec["text"], "impl": rec["impl_line"].split(" result=")[-1],
                           "model": rec["model_line"], "other_property_mismatches": rec["mismatches"]},
                          no_failing_input=True, tag="corr")
    for rec in recs[:3] + recs[-2:]:
        chk.sample({"ledger": rec["text"], "impl": rec["impl_line"].split(" result=")[-1][:300], "model": rec["model_line"][:120]})
